import Physt.Theorems.C18
/-!
# Well-formedness over arbitrary histories of a 1-D histogram (C18)

`Physt/Theorems/C18.lean` has one lemma per operation.  The property quantifies over *every*
sequence of public operations, so here is the operation language (`Op1`), the one-step function
(`step`), what the caller is left with when a call is refused (`kept`, mirroring
`Physt/Driver.lean`), the fold over a history (`run`), and the invariant proved by induction over
the history (`wf_history`).

All binning kinds are covered: `.static` bins (no hypothesis on the bins at all — not even that they
rise) and `.fixed` grids, adaptive or not, including growth of the grid in `fill`, `fill_n` and
`+=` / `-=` (for *every* `FloatOps`, no monotonicity hypothesis, any fuel).
-/
namespace Physt
open H1

/-! ## The operation language -/

/-- the public mutating / deriving operations of `Histogram1D` (free arithmetics off) -/
inductive Op1
  | fill (v : Option Rat) (w : Rat) (wk : H1.NumKind)
  | fillN (vs : List (Option Rat)) (ws : Option (List Rat)) (wk : DType)
  | iadd (o : H1)
  | isub (o : H1)
  | imul (c : Rat) (k : H1.NumKind)
  | idiv (c : Rat)
  | normalize (inplace percent : Bool)
  | mergeAmount (n : Nat)
  | mergeMinFreq (thr : Rat)
  | slice (start stop : Option Int)
  | indices (idx : List Int)
  | mask (m : List Bool)
  | setDType (d : DType)
  | copy (withFreq : Bool)

/-- `h[mask]` for a boolean mask (the driver's `"mask"` op) -/
def maskIdx (m : List Bool) : List Nat := (List.range m.length).filter fun i => m[i]?.getD false

/-- one public call: the new state, or the refusal -/
def step (fo : FloatOps) (fuel : Nat) (h : H1) : Op1 → Except String H1
  | .fill v w wk => .ok (h.fill fo fuel v w wk).1
  | .fillN vs ws wk => h.fillN fo fuel vs ws wk
  | .iadd o => h.iadd fo o
  | .isub o => h.isub fo o
  | .imul c k => h.imul c k
  | .idiv c => h.idiv c
  | .normalize i p => h.normalize i p
  | .mergeAmount n => h.mergeAmount fo n
  | .mergeMinFreq t => h.mergeMinFreq fo t
  | .slice a b => .ok (h.getSlice fo a b)
  | .indices idx =>
    match normIndexArray h.freq.length idx with
    | .ok l => .ok (h.getIndices fo l)
    | .error e => .error e
  | .mask m => if m.length != h.freq.length then .error "mask shape" else .ok (h.getIndices fo (maskIdx m))
  | .setDType d => h.setDType d
  | .copy w => .ok (h.copy w)

/-- What the caller holds after the call was refused with message `e` — exactly what
    `Physt/Driver.lean` (`step1`) keeps in the register: the state as it was, except for the
    dtype promotion the implementation performs before it validates (`*=`, `/=`, in-place
    `normalize`, `-=`, adaptive `+=`), and except for `fill_n`, which adapts the bins before it
    looks at the weights. -/
def kept (fo : FloatOps) (fuel : Nat) (h : H1) (op : Op1) (e : String) : H1 :=
  match op with
  | .fillN vs _ _ => h.adapt fo fuel (vs.filterMap id) false
  | .iadd o => if e == "different widths" || e == "different shifts" then h.coerce o.dtype else h
  | .isub o => if e == "negative frequencies" || e == "shape changed" then h.coerce o.dtype else h
  | .imul _ k => h.coerce k.dtype
  | .idiv c => if c != 0 then h.coerce .f64 else h
  | .normalize inplace _ => if inplace && h.total != 0 then h.coerce .f64 else h
  | _ => h

/-- the state after one call, accepted or refused -/
def next (fo : FloatOps) (fuel : Nat) (h : H1) (op : Op1) : H1 :=
  match step fo fuel h op with
  | .ok h' => h'
  | .error e => kept fo fuel h op e

/-- a history: a refused call is caught by the caller and the object is used further -/
def run (fo : FloatOps) (fuel : Nat) (h : H1) : List Op1 → H1
  | [] => h
  | op :: ops => run fo fuel (next fo fuel h op) ops

/-- The premises of the property, per operation: weights are non-negative, the other operand of
    `+=` / `-=` is itself a well-formed histogram.  (Free arithmetics off: `isub`/`imul` are the
    guarded versions.)  Nothing is asked of the bins and nothing depends on the current state. -/
def OpOK (fo : FloatOps) : Op1 → Prop
  | .fill _ w _ => 0 ≤ w
  | .fillN _ ws _ => ∀ l, ws = some l → ∀ x ∈ l, 0 ≤ x
  | .iadd o => WF fo o
  | .isub o => WF fo o
  | _ => True

/-- every call of the history satisfies the premises (at the state it is applied to — the premises
    happen not to depend on that state, so this is plain `∀ op ∈ ops`; see `allOK_iff`) -/
def AllOK (fo : FloatOps) (fuel : Nat) : H1 → List Op1 → Prop
  | _, [] => True
  | h, op :: ops => OpOK fo op ∧ AllOK fo fuel (next fo fuel h op) ops

theorem allOK_iff (fo : FloatOps) (fuel : Nat) (h : H1) (ops : List Op1) :
    AllOK fo fuel h ops ↔ ∀ op ∈ ops, OpOK fo op := by
  induction ops generalizing h with
  | nil => simp [AllOK]
  | cons op ops ih => simp [AllOK, ih]

/-! ## List helpers -/

theorem wf_of_eq (fo : FloatOps) {h h' : H1} (hb : h'.binning = h.binning) (hf : h'.freq = h.freq)
    (he : h'.err2 = h.err2) (w : WF fo h) : WF fo h' := by
  refine ⟨?_, ?_, ?_, ?_⟩
  · simp only [H1.bins, hb, hf]; exact w.flen
  · simp only [H1.bins, hb, he]; exact w.elen
  · rw [he]; exact w.epos
  · rw [hf]; exact w.fpos

theorem wf_coerce (fo : FloatOps) (h : H1) (d : DType) (w : WF fo h) : WF fo (h.coerce d) :=
  wf_of_eq fo (h := h) (h' := h.coerce d) rfl rfl rfl w

theorem reshape1_nonneg (old : List Rat) (n : Nat) (r : Grid.Reshape) (hold : ∀ x ∈ old, 0 ≤ x) :
    ∀ x ∈ reshape1 old n r, 0 ≤ x := by
  intro x hx
  cases r with
  | noChange => exact hold x hx
  | fresh =>
    simp only [reshape1, List.mem_replicate] at hx
    rw [hx.2]
  | shift k =>
    simp only [reshape1] at hx
    have := List.mem_of_mem_take hx
    simp only [List.mem_append, List.mem_replicate] at this
    rcases this with (⟨_, rfl⟩ | h) | ⟨_, rfl⟩
    · exact le_refl _
    · exact hold x h
    · exact le_refl _

theorem reshape1_length (old : List Rat) (n : Nat) (r : Grid.Reshape) (h : r = .noChange → old.length = n) :
    (reshape1 old n r).length = n := by
  cases r with
  | noChange => exact h rfl
  | fresh => simp [reshape1]
  | shift k => simp [reshape1]; omega

theorem addAt_length (l : List Rat) (i : Nat) (x : Rat) : (addAt l i x).length = l.length := by
  simp [addAt]

theorem addAt_nonneg (l : List Rat) (i : Nat) (x : Rat) (hx : 0 ≤ x) (hl : ∀ y ∈ l, 0 ≤ y) :
    ∀ y ∈ addAt l i x, 0 ≤ y := by
  intro y hy
  obtain ⟨j, hj, rfl⟩ := List.getElem_of_mem hy
  have hj' : j < l.length := by rw [addAt_length] at hj; exact hj
  have h0 := hl _ (List.getElem_mem hj')
  simp only [addAt, List.getElem_modify]
  split
  · linarith
  · exact h0

/-! ## Growing an adaptive grid -/

theorem forceSingle_cases (fo : FloatOps) (fuel : Nat) (g : Grid) (v : Rat) (ire : Bool) :
    g.forceSingle fo fuel v ire = (g, .noChange) ∨ (g.forceSingle fo fuel v ire).2 ≠ .noChange := by
  unfold Grid.forceSingle
  simp only []
  split_ifs <;> simp

theorem forceSingle_noChange (fo : FloatOps) (fuel : Nat) (g : Grid) (v : Rat) (ire : Bool)
    (h : (g.forceSingle fo fuel v ire).2 = .noChange) : (g.forceSingle fo fuel v ire).1 = g := by
  rcases forceSingle_cases fo fuel g v ire with h1 | h1
  · rw [h1]
  · exact absurd h h1

theorem forceMany_noChange (fo : FloatOps) (fuel : Nat) (g : Grid) (vs : List Rat) (ire : Bool)
    (h : (g.forceMany fo fuel vs ire).2 = .noChange) : (g.forceMany fo fuel vs ire).1 = g := by
  unfold Grid.forceMany at h ⊢
  split at h
  · rename_i lo hi _ _
    by_cases h1 : (g.forceSingle fo fuel lo g.ire).2 = .noChange
    · simp only [h1, if_true] at h
      show ((g.forceSingle fo fuel lo g.ire).1.forceSingle fo fuel hi ire).1 = g
      rw [forceSingle_noChange _ _ _ _ _ h, forceSingle_noChange _ _ _ _ _ h1]
    · simp only [h1, if_false] at h
  · rfl

/-- the grid part of `H1.adapt` -/
def adaptGrid (fo : FloatOps) (fuel : Nat) (g : Grid) (vs : List Rat) (single : Bool) : Grid × Grid.Reshape :=
  if single then
    match vs with
    | [v] => g.forceSingle fo fuel v g.ire
    | _ => (g, .noChange)
  else g.forceMany fo fuel vs g.ire

theorem adaptGrid_noChange (fo : FloatOps) (fuel : Nat) (g : Grid) (vs : List Rat) (single : Bool)
    (h : (adaptGrid fo fuel g vs single).2 = .noChange) : (adaptGrid fo fuel g vs single).1 = g := by
  unfold adaptGrid at h ⊢
  by_cases hs : single = true
  · simp only [hs, if_true] at h ⊢
    split
    · rename_i v
      exact forceSingle_noChange _ _ _ _ _ h
    · rfl
  · simp only [hs] at h ⊢
    exact forceMany_noChange _ _ _ _ _ h

theorem adapt_fixed (fo : FloatOps) (fuel : Nat) (h : H1) (g : Grid) (hb : h.binning = .fixed g)
    (ha : g.adaptive = true) (vs : List Rat) (single : Bool) :
    h.adapt fo fuel vs single =
      { h with binning := .fixed (adaptGrid fo fuel g vs single).1,
               freq := reshape1 h.freq (adaptGrid fo fuel g vs single).1.count (adaptGrid fo fuel g vs single).2,
               err2 := reshape1 h.err2 (adaptGrid fo fuel g vs single).1.count (adaptGrid fo fuel g vs single).2 } := by
  unfold H1.adapt adaptGrid
  simp only [hb, ha, if_true]
  rfl

theorem adapt_other (fo : FloatOps) (fuel : Nat) (h : H1) (vs : List Rat) (single : Bool)
    (ha : h.binning.isAdaptive = false) : h.adapt fo fuel vs single = h := by
  unfold H1.adapt
  cases hb : h.binning with
  | static b i => rfl
  | fixed g =>
    have : g.adaptive = false := by simpa [Binning.isAdaptive, hb] using ha
    simp [this]

theorem grid_bins_length (fo : FloatOps) (g : Grid) : (g.bins fo).length = g.count := by
  simp [Grid.bins]

/-- growing the bins keeps the histogram well-formed (any `FloatOps`, any fuel) -/
theorem wf_adapt (fo : FloatOps) (fuel : Nat) (h : H1) (vs : List Rat) (single : Bool) (w : WF fo h) :
    WF fo (h.adapt fo fuel vs single) := by
  by_cases ha : h.binning.isAdaptive = false
  · rw [adapt_other _ _ _ _ _ ha]; exact w
  · cases hb : h.binning with
    | static b i => simp [hb, Binning.isAdaptive] at ha
    | fixed g =>
      have hg : g.adaptive = true := by simpa [Binning.isAdaptive, hb] using ha
      rw [adapt_fixed fo fuel h g hb hg]
      have hcount : (h.bins fo).length = g.count := by
        simp only [H1.bins, hb, Binning.bins]; exact grid_bins_length fo g
      have hn : (adaptGrid fo fuel g vs single).2 = .noChange → g.count = (adaptGrid fo fuel g vs single).1.count := by
        intro hh; rw [adaptGrid_noChange _ _ _ _ _ hh]
      refine ⟨?_, ?_, ?_, ?_⟩
      · simp only [H1.bins, Binning.bins, grid_bins_length]
        exact reshape1_length _ _ _ fun hh => by rw [w.flen, hcount]; exact hn hh
      · simp only [H1.bins, Binning.bins, grid_bins_length]
        exact reshape1_length _ _ _ fun hh => by rw [w.elen, hcount]; exact hn hh
      · exact reshape1_nonneg _ _ _ w.epos
      · exact reshape1_nonneg _ _ _ w.fpos

/-! ## `fill` and `fill_n` -/

/-- a single `fill` with a non-negative weight, on any binning (adaptive growth included) -/
theorem wf_fill (fo : FloatOps) (fuel : Nat) (h : H1) (v : Option Rat) (x : Rat) (wk : NumKind) (hx : 0 ≤ x)
    (w : WF fo h) : WF fo (h.fill fo fuel v x wk).1 := by
  cases v with
  | none => exact w
  | some v =>
    have w2 : WF fo ((h.coerce wk.dtype).adapt fo fuel [v] true) := wf_adapt _ _ _ _ _ (wf_coerce fo h _ w)
    simp only [H1.fill]
    generalize (h.coerce wk.dtype).adapt fo fuel [v] true = h2 at w2
    split
    · split
      · exact wf_of_eq fo (h := h2) rfl rfl rfl w2
      · exact w2
    · split
      · exact wf_of_eq fo (h := h2) rfl rfl rfl w2
      · exact w2
    · split
      · exact wf_of_eq fo (h := h2) rfl rfl rfl w2
      · exact w2
    · rename_i i _
      refine ⟨?_, ?_, ?_, ?_⟩
      · show (addAt h2.freq i x).length = _
        rw [addAt_length]; exact w2.flen
      · show (addAt h2.err2 i (x * x)).length = _
        rw [addAt_length]; exact w2.elen
      · exact addAt_nonneg _ _ _ (mul_self_nonneg x) w2.epos
      · exact addAt_nonneg _ _ _ hx w2.fpos

theorem sweepAux_mem (s : List Pt) (n : Nat) (bs : Bins) (k : Nat) :
    ∀ c ∈ sweepAux s n k bs, ∀ p ∈ c, p ∈ s := by
  induction bs generalizing k with
  | nil => intro c hc; simp [sweepAux] at hc
  | cons b bs ih =>
    intro c hc p hp
    simp only [sweepAux, List.mem_cons] at hc
    rcases hc with rfl | hc
    · simp only [binSlice, pySlice] at hp
      exact List.mem_of_mem_drop (List.mem_of_mem_take hp)
    · exact ih _ c hc p hp

/-- the batch histogram of non-negative weights is non-negative — whatever the bins are -/
theorem calc1d_freq_nonneg (bins : Bins) (d : List Pt) (hw : ∀ p ∈ d, 0 ≤ p.2) :
    ∀ x ∈ (calc1d bins d).freq, 0 ≤ x := by
  intro x hx
  simp only [calc1d, List.mem_map] at hx
  obtain ⟨c, hc, rfl⟩ := hx
  unfold wsum
  apply List.sum_nonneg
  intro y hy
  obtain ⟨p, hp, rfl⟩ := List.mem_map.mp hy
  exact hw p ((sortPts_perm d).mem_iff.mp (sweepAux_mem _ _ _ _ c hc p hp))

theorem calc1d_err2_nonneg (bins : Bins) (d : List Pt) : ∀ x ∈ (calc1d bins d).err2, 0 ≤ x := by
  intro x hx
  simp only [calc1d, List.mem_map] at hx
  obtain ⟨c, _, rfl⟩ := hx
  unfold w2sum
  apply List.sum_nonneg
  intro y hy
  obtain ⟨p, _, rfl⟩ := List.mem_map.mp hy
  exact mul_self_nonneg _

/-- `fillData` with non-negative weights over **any** bins (`C18_wf_fill_n` without its hypotheses) -/
theorem wf_fillData (fo : FloatOps) (h : H1) (w : WF fo h) (d : List Pt) (hw : ∀ p ∈ d, 0 ≤ p.2) :
    WF fo (h.fillData fo d) := by
  refine ⟨?_, ?_, ?_, ?_⟩
  · show (zipAdd h.freq (calc1d (h.bins fo) d).freq).length = (h.bins fo).length
    rw [zipAdd_length, calc1d_freq_length, w.flen]; simp
  · show (zipAdd h.err2 (calc1d (h.bins fo) d).err2).length = (h.bins fo).length
    rw [zipAdd_length, calc1d_err2_length, w.elen]; simp
  · exact zipAdd_nonneg _ _ w.epos (calc1d_err2_nonneg _ _)
  · exact zipAdd_nonneg _ _ w.fpos (calc1d_freq_nonneg _ _ hw)

theorem maskPts_nonneg (vs : List (Option Rat)) (ws : Option (List Rat))
    (hw : ∀ l, ws = some l → ∀ x ∈ l, 0 ≤ x) : ∀ p ∈ maskPts vs ws, 0 ≤ p.2 := by
  induction vs generalizing ws with
  | nil => intro p hp; simp [maskPts] at hp
  | cons v vs ih =>
    cases ws with
    | none =>
      cases v with
      | none => simp only [maskPts]; exact ih none (by simp)
      | some v =>
        simp only [maskPts, List.mem_cons]
        rintro p (rfl | hp)
        · norm_num
        · exact ih none (by simp) p hp
    | some l =>
      cases l with
      | nil => intro p hp; cases v <;> simp [maskPts] at hp
      | cons a l =>
        have hl : ∀ l', some l = some l' → ∀ x ∈ l', 0 ≤ x := by
          intro l' h' x hx
          cases h'
          exact hw (a :: l) rfl x (List.mem_cons_of_mem _ hx)
        cases v with
        | none => simp only [maskPts]; exact ih (some l) hl
        | some v =>
          simp only [maskPts, List.mem_cons]
          rintro p (rfl | hp)
          · exact hw (a :: l) rfl a (List.mem_cons_self ..)
          · exact ih (some l) hl p hp

/-- `fill_n` with non-negative weights, on any binning (adaptive growth included) -/
theorem wf_fillN (fo : FloatOps) (fuel : Nat) (h r : H1) (vs : List (Option Rat)) (ws : Option (List Rat))
    (wk : DType) (hw : ∀ l, ws = some l → ∀ x ∈ l, 0 ≤ x) (w : WF fo h)
    (hr : h.fillN fo fuel vs ws wk = .ok r) : WF fo r := by
  unfold H1.fillN at hr
  simp only [bind, Except.bind, pure, Except.pure, throw, throwThe, MonadExceptOf.throw] at hr
  have w2 : WF fo (h.adapt fo fuel (vs.filterMap id) false) := wf_adapt _ _ _ _ _ w
  by_cases hs : (!weightsShapeOk vs ws) = true
  · simp [hs] at hr
  · simp only [hs] at hr
    cases hr
    apply wf_fillData _ _ _ _ (maskPts_nonneg vs ws hw)
    split
    · exact wf_coerce fo _ _ w2
    · exact w2

/-! ## `+=` and `-=` with another histogram, adaptive growth included -/

theorem adaptGrids_counts (g og g' : Grid) (r1 r2 : Grid.Reshape) (h : adaptGrids g og = .ok (g', r1, r2)) :
    (r1 = .noChange → g.count = g'.count) ∧ (r2 = .noChange → og.count = g'.count) := by
  unfold adaptGrids at h
  simp only [bind, Except.bind, pure, Except.pure, throw, throwThe, MonadExceptOf.throw] at h
  by_cases hw : (g.w != og.w) = true
  · simp [hw] at h
  by_cases hsft : (g.shift != og.shift) = true
  · simp [hw, hsft] at h
  simp only [hw, hsft] at h
  by_cases ho : og.count = 0
  · simp only [ho, if_true] at h
    cases h
    exact ⟨fun _ => rfl, fun h => nomatch h⟩
  by_cases hg : g.count = 0
  · simp only [ho, hg, if_true, if_false] at h
    cases h
    exact ⟨fun h => (nomatch h), fun _ => rfl⟩
  simp only [ho, hg, if_false] at h
  cases h
  constructor
  · intro h
    split at h
    · cases h
    · rename_i hn
      show g.count = (max (g.tmin + ↑g.count) (og.tmin + ↑og.count) - min g.tmin og.tmin).toNat
      omega
  · intro h
    split at h
    · cases h
    · rename_i hn
      show og.count = (max (g.tmin + ↑g.count) (og.tmin + ↑og.count) - min g.tmin og.tmin).toNat
      omega

/-- what an accepted `+=` over *different* bins returns -/
theorem iadd_adaptive_ok (fo : FloatOps) (h o r : H1) (hs : h.sameBins fo o = false) (hr : h.iadd fo o = .ok r) :
    ∃ g og g' r1 r2, h.binning = .fixed g ∧ o.binning = .fixed og ∧ adaptGrids g og = .ok (g', r1, r2) ∧
      r.binning = .fixed g' ∧
      r.freq = zipAdd (reshape1 h.freq g'.count r1) (reshape1 o.freq g'.count r2) ∧
      r.err2 = zipAdd (reshape1 h.err2 g'.count r1) (reshape1 o.err2 g'.count r2) := by
  unfold H1.iadd at hr
  simp only [hs, Bool.false_eq_true, if_false, bind, Except.bind, pure, Except.pure, throw, throwThe,
    MonadExceptOf.throw, H1.coerce] at hr
  by_cases ha : h.binning.isAdaptive = true
  · simp only [ha, if_true] at hr
    cases hob : o.binning with
    | static b i =>
      exfalso
      simp only [hob, asFixedWidth, throw, throwThe, MonadExceptOf.throw] at hr
      cases hm : o.missed with
      | none => simp [hm] at hr
      | some m => by_cases hm0 : 0 < m <;> simp [hm, hm0] at hr
    | fixed og =>
      cases hhb : h.binning with
      | static b i => simp [hhb, Binning.isAdaptive] at ha
      | fixed g =>
        simp only [hob, hhb, asFixedWidth, pure, Except.pure] at hr
        cases hag : adaptGrids g og with
        | error e =>
          exfalso
          simp only [hag] at hr
          cases hm : o.missed with
          | none => simp [hm] at hr
          | some m => by_cases hm0 : 0 < m <;> simp [hm, hm0] at hr
        | ok t =>
          obtain ⟨g', r1, r2⟩ := t
          simp only [hag] at hr
          have hr' : r =
              { h with dtype := h.dtype.promote o.dtype, binning := .fixed g',
                       freq := zipAdd (reshape1 h.freq g'.count r1) (reshape1 o.freq g'.count r2),
                       err2 := zipAdd (reshape1 h.err2 g'.count r1) (reshape1 o.err2 g'.count r2),
                       stats := h.stats.add o.stats } := by
            cases hm : o.missed with
            | none => simp only [hm] at hr; cases hr; rfl
            | some m =>
              by_cases hm0 : 0 < m
              · simp [hm, hm0] at hr
              · simp only [hm, hm0, if_false] at hr; cases hr; rfl
          subst hr'
          exact ⟨g, og, g', r1, r2, rfl, rfl, hag, rfl, rfl, rfl⟩
  · simp [ha] at hr

/-- `+=` with a well-formed histogram: same bins, or an adaptive grid that grows -/
theorem wf_iadd (fo : FloatOps) (h o r : H1) (wh : WF fo h) (wo : WF fo o) (hr : h.iadd fo o = .ok r) : WF fo r := by
  by_cases hs : h.sameBins fo o = true
  · exact C18_wf_iadd fo h o r wh wo hs hr
  · have hs' : h.sameBins fo o = false := by simpa using hs
    obtain ⟨g, og, g', r1, r2, hb, hob, hag, rb, rf, re⟩ := iadd_adaptive_ok fo h o r hs' hr
    obtain ⟨c1, c2⟩ := adaptGrids_counts g og g' r1 r2 hag
    have hc : (h.bins fo).length = g.count := by simp only [H1.bins, hb, Binning.bins]; exact grid_bins_length fo g
    have oc : (o.bins fo).length = og.count := by simp only [H1.bins, hob, Binning.bins]; exact grid_bins_length fo og
    have l1 := reshape1_length h.freq g'.count r1 fun hh => by rw [wh.flen, hc]; exact c1 hh
    have l2 := reshape1_length o.freq g'.count r2 fun hh => by rw [wo.flen, oc]; exact c2 hh
    have l3 := reshape1_length h.err2 g'.count r1 fun hh => by rw [wh.elen, hc]; exact c1 hh
    have l4 := reshape1_length o.err2 g'.count r2 fun hh => by rw [wo.elen, oc]; exact c2 hh
    refine ⟨?_, ?_, ?_, ?_⟩
    · simp only [H1.bins, rb, Binning.bins, grid_bins_length]; rw [rf, zipAdd_length, l1, l2]; simp
    · simp only [H1.bins, rb, Binning.bins, grid_bins_length]; rw [re, zipAdd_length, l3, l4]; simp
    · rw [re]; exact zipAdd_nonneg _ _ (reshape1_nonneg _ _ _ wh.epos) (reshape1_nonneg _ _ _ wo.epos)
    · rw [rf]; exact zipAdd_nonneg _ _ (reshape1_nonneg _ _ _ wh.fpos) (reshape1_nonneg _ _ _ wo.fpos)

/-- the bins of an accepted `+=` depend on the two binnings only -/
theorem iadd_binning_congr (fo : FloatOps) (h o r h' o' r' : H1) (hb : h'.binning = h.binning)
    (ob : o'.binning = o.binning) (hr : h.iadd fo o = .ok r) (hr' : h'.iadd fo o' = .ok r') :
    r'.binning = r.binning := by
  have hsame : h'.sameBins fo o' = h.sameBins fo o := by simp [sameBins, H1.bins, hb, ob]
  by_cases hs : h.sameBins fo o = true
  · rw [(iadd_same_ok fo h o r hs hr).2.2.2.2.2.2.2.1,
      (iadd_same_ok fo h' o' r' (hsame.trans hs) hr').2.2.2.2.2.2.2.1, hb]
  · have hs1 : h.sameBins fo o = false := by simpa using hs
    obtain ⟨g, og, g', r1, r2, b1, b2, hag, rb, _, _⟩ := iadd_adaptive_ok fo h o r hs1 hr
    obtain ⟨k, ok', k', s1, s2, d1, d2, hag', rb', _, _⟩ := iadd_adaptive_ok fo h' o' r' (hsame.trans hs1) hr'
    rw [hb, b1] at d1
    rw [ob, b2] at d2
    cases d1; cases d2
    rw [hag] at hag'
    cases hag'
    rw [rb, rb']

/-- the parts of an accepted `-=` -/
theorem isub_parts (fo : FloatOps) (h o r : H1) (hr : h.isub fo o = .ok r) :
    ∃ o0 h0 aS aO, o.imul 0 .pyInt = .ok o0 ∧ h.imul 0 .pyInt = .ok h0 ∧ h.iadd fo o0 = .ok aS ∧
      h0.iadd fo o = .ok aO ∧ aS.freq.length = h.freq.length ∧ r.binning = h.binning ∧
      r.freq = List.zipWith (· - ·) aS.freq aO.freq ∧ r.err2 = zipAdd aS.err2 aO.err2 ∧
      (r.freq.any (· < 0)) = false := by
  unfold H1.isub at hr
  simp only [bind, Except.bind, pure, Except.pure, throw, throwThe, MonadExceptOf.throw, H1.coerce] at hr
  cases h1 : o.imul 0 .pyInt with
  | error e => simp [h1] at hr
  | ok o0 =>
    cases h2 : h.imul 0 .pyInt with
    | error e => simp [h1, h2] at hr
    | ok h0 =>
      cases h3 : h.iadd fo o0 with
      | error e => simp [h1, h2, h3] at hr
      | ok aS =>
        cases h4 : h0.iadd fo o with
        | error e => simp [h1, h2, h3, h4] at hr
        | ok aO =>
          simp only [h1, h2, h3, h4] at hr
          by_cases hlen : (aS.freq.length != h.freq.length) = true
          · simp [hlen] at hr
          · by_cases hneg : ((List.zipWith (· - ·) aS.freq aO.freq).any (· < 0)) = true
            · simp [hlen, hneg] at hr
            · simp only [hlen, hneg] at hr
              cases hr
              exact ⟨o0, h0, aS, aO, rfl, rfl, h3, h4, by simpa using hlen, rfl, rfl, rfl, by simpa using hneg⟩

/-- `-=` with a well-formed histogram (free arithmetics off) -/
theorem wf_isub (fo : FloatOps) (h o r : H1) (wh : WF fo h) (wo : WF fo o) (hr : h.isub fo o = .ok r) : WF fo r := by
  obtain ⟨o0, h0, aS, aO, e1, e2, e3, e4, hlen, rb, rf, re, hn⟩ := isub_parts fo h o r hr
  have wo0 : WF fo o0 := C18_wf_imul fo o o0 0 .pyInt wo e1
  have wh0 : WF fo h0 := C18_wf_imul fo h h0 0 .pyInt wh e2
  have wS : WF fo aS := wf_iadd fo h o0 aS wh wo0 e3
  have wO : WF fo aO := wf_iadd fo h0 o aO wh0 wo e4
  have hbb : aO.binning = aS.binning :=
    iadd_binning_congr fo h o0 aS h0 o aO (imul_ok h h0 0 .pyInt e2).2.2.2.2.2.2.2.1
      (imul_ok o o0 0 .pyInt e1).2.2.2.2.2.2.2.1.symm e3 e4
  have hOS : (aO.bins fo).length = (aS.bins fo).length := by simp only [H1.bins, hbb]
  have hSf : aS.freq.length = (h.bins fo).length := by rw [hlen, wh.flen]
  have hSb : (aS.bins fo).length = (h.bins fo).length := by rw [← wS.flen, hSf]
  refine ⟨?_, ?_, ?_, ?_⟩
  · simp only [H1.bins, rb]; rw [rf, List.length_zipWith, hSf, wO.flen, hOS, hSb]; simp [H1.bins]
  · simp only [H1.bins, rb]; rw [re, zipAdd_length, wS.elen, wO.elen, hOS, hSb]; simp [H1.bins]
  · rw [re]; exact zipAdd_nonneg _ _ wS.epos wO.epos
  · exact any_lt_false hn

/-! ## `normalize`, `merge_bins`, indexing, `set_dtype`, `copy` -/

theorem wf_normalize (fo : FloatOps) (h r : H1) (inplace percent : Bool) (w : WF fo h)
    (hr : h.normalize inplace percent = .ok r) : WF fo r := by
  unfold H1.normalize at hr
  cases inplace with
  | true => exact C18_wf_idiv fo h r _ w hr
  | false =>
    simp only [Bool.false_eq_true, if_false, bind, Except.bind] at hr
    cases hd : h.idiv h.total with
    | error e => simp [hd] at hr
    | ok d =>
      simp only [hd] at hr
      exact C18_wf_imul fo d r _ _ (C18_wf_idiv fo h d _ w hd) hr

theorem mergeVals_length (vals : List Rat) (map : List Nat) (n : Nat) : (mergeVals vals map n).length = n := by
  simp [mergeVals]

theorem mergeVals_nonneg (vals : List Rat) (map : List Nat) (n : Nat) (hv : ∀ x ∈ vals, 0 ≤ x) :
    ∀ x ∈ mergeVals vals map n, 0 ≤ x := by
  intro x hx
  simp only [mergeVals, List.mem_map] at hx
  obtain ⟨j, _, rfl⟩ := hx
  apply List.sum_nonneg
  intro y hy
  obtain ⟨p, hp, rfl⟩ := List.mem_map.mp hy
  exact hv _ (List.of_mem_zip (List.mem_filter.mp hp).1).1

theorem wf_mergeWithMap (fo : FloatOps) (h r : H1) (map : List Nat) (w : WF fo h)
    (hr : h.mergeWithMap fo map = .ok r) : WF fo r := by
  unfold H1.mergeWithMap at hr
  by_cases hem : map.isEmpty = true
  · simp [hem, bind, Except.bind, throw, throwThe, MonadExceptOf.throw] at hr
  simp only [hem, Bool.false_eq_true, if_false, bind, Except.bind, pure, Except.pure] at hr
  cases hm : mergeBinsAux ((h.bins fo).zip map) none with
  | error e => simp [hm] at hr
  | ok nb =>
    simp only [hm] at hr
    cases hr
    refine ⟨?_, ?_, ?_, ?_⟩
    · exact mergeVals_length _ _ _
    · exact mergeVals_length _ _ _
    · exact mergeVals_nonneg _ _ _ w.epos
    · exact mergeVals_nonneg _ _ _ w.fpos

theorem wf_mergeAmount (fo : FloatOps) (h r : H1) (n : Nat) (w : WF fo h) (hr : h.mergeAmount fo n = .ok r) :
    WF fo r := by
  unfold H1.mergeAmount at hr
  simp only [bind, Except.bind, throw, throwThe, MonadExceptOf.throw] at hr
  by_cases hn : n = 0
  · simp [hn] at hr
  · simp only [hn, if_false] at hr
    exact wf_mergeWithMap fo h r _ w hr

theorem pick_length {α β} (a : List α) (b : List β) (hl : a.length = b.length) (idx : List Nat) :
    (idx.filterMap (a[·]?)).length = (idx.filterMap (b[·]?)).length := by
  induction idx with
  | nil => rfl
  | cons i idx ih =>
    by_cases hi : i < a.length
    · have hi' : i < b.length := hl ▸ hi
      simp only [List.filterMap_cons, List.getElem?_eq_getElem hi, List.getElem?_eq_getElem hi', List.length_cons, ih]
    · have hi' : ¬ i < b.length := hl ▸ hi
      simp only [List.filterMap_cons, List.getElem?_eq_none (Nat.le_of_not_lt hi),
        List.getElem?_eq_none (Nat.le_of_not_lt hi'), ih]

theorem pick_mem {α} (a : List α) (idx : List Nat) : ∀ x ∈ idx.filterMap (a[·]?), x ∈ a := by
  intro x hx
  obtain ⟨i, _, hi⟩ := List.mem_filterMap.mp hx
  exact List.mem_of_getElem? hi

/-- `h[mask]` / `h[index_array]` for any index list -/
theorem wf_getIndices (fo : FloatOps) (h : H1) (idx : List Nat) (w : WF fo h) : WF fo (h.getIndices fo idx) := by
  refine ⟨?_, ?_, ?_, ?_⟩
  · exact pick_length h.freq (h.bins fo) w.flen idx
  · exact pick_length h.err2 (h.bins fo) w.elen idx
  · intro x hx; exact w.epos x (pick_mem h.err2 idx x hx)
  · intro x hx; exact w.fpos x (pick_mem h.freq idx x hx)

theorem wf_setDType (fo : FloatOps) (h r : H1) (d : DType) (w : WF fo h) (hr : h.setDType d = .ok r) : WF fo r := by
  unfold H1.setDType at hr
  by_cases hok : setDTypeOk h d = true
  · simp only [hok, if_true, pure, Except.pure] at hr
    cases hr
    exact wf_of_eq fo (h := h) rfl rfl rfl w
  · simp [hok, throw, throwThe, MonadExceptOf.throw] at hr

theorem wf_copy (fo : FloatOps) (h : H1) (b : Bool) (w : WF fo h) : WF fo (h.copy b) := by
  cases b with
  | true => exact w
  | false =>
    refine ⟨?_, ?_, ?_, ?_⟩
    · show (zeros h.freq.length).length = _
      simp only [zeros, List.length_replicate]; exact w.flen
    · show (zeros h.err2.length).length = _
      simp only [zeros, List.length_replicate]; exact w.elen
    · intro x hx
      have : x ∈ zeros h.err2.length := hx
      simp only [zeros, List.mem_replicate] at this
      rw [this.2]
    · intro x hx
      have : x ∈ zeros h.freq.length := hx
      simp only [zeros, List.mem_replicate] at this
      rw [this.2]

/-! ## One step, then every history -/

/-- **One public call keeps a well-formed histogram well-formed**, for every operation of `Op1`,
    every binning kind (static bins of any shape; fixed-width grids, adaptive or not, growth
    included), every `FloatOps` and every fuel. -/
theorem wf_step (fo : FloatOps) (fuel : Nat) (h h' : H1) (op : Op1) (w : WF fo h) (ok : OpOK fo op)
    (hs : step fo fuel h op = .ok h') : WF fo h' := by
  cases op with
  | fill v x wk => simp only [step, Except.ok.injEq] at hs; subst hs; exact wf_fill fo fuel h v x wk ok w
  | fillN vs ws wk => exact wf_fillN fo fuel h h' vs ws wk ok w hs
  | iadd o => exact wf_iadd fo h o h' w ok hs
  | isub o => exact wf_isub fo h o h' w ok hs
  | imul c k => exact C18_wf_imul fo h h' c k w hs
  | idiv c => exact C18_wf_idiv fo h h' c w hs
  | normalize i p => exact wf_normalize fo h h' i p w hs
  | mergeAmount n => exact wf_mergeAmount fo h h' n w hs
  | mergeMinFreq t => exact wf_mergeWithMap fo h h' _ w hs
  | slice a b => simp only [step, Except.ok.injEq] at hs; subst hs; exact C18_wf_slice fo h w a b
  | indices idx =>
    simp only [step] at hs
    cases hn : normIndexArray h.freq.length idx with
    | error e => simp [hn] at hs
    | ok l => simp only [hn, Except.ok.injEq] at hs; subst hs; exact wf_getIndices fo h l w
  | mask m =>
    simp only [step] at hs
    split at hs
    · cases hs
    · simp only [Except.ok.injEq] at hs; subst hs; exact wf_getIndices fo h _ w
  | setDType d => exact wf_setDType fo h h' d w hs
  | copy b => simp only [step, Except.ok.injEq] at hs; subst hs; exact wf_copy fo h b w

/-- what the caller keeps after a refused call is well-formed, too -/
theorem wf_kept (fo : FloatOps) (fuel : Nat) (h : H1) (op : Op1) (e : String) (w : WF fo h) :
    WF fo (kept fo fuel h op e) := by
  cases op <;> simp only [kept] <;> first
    | exact w
    | exact wf_adapt _ _ _ _ _ w
    | exact wf_coerce fo _ _ w
    | (split <;> first | exact w | exact wf_coerce fo _ _ w)

theorem wf_next (fo : FloatOps) (fuel : Nat) (h : H1) (op : Op1) (w : WF fo h) (ok : OpOK fo op) :
    WF fo (next fo fuel h op) := by
  unfold next
  cases hs : step fo fuel h op with
  | ok h' => exact wf_step fo fuel h h' op w ok hs
  | error e => exact wf_kept fo fuel h op e w

/-- **C18, the invariant over arbitrary histories.**  Start from a well-formed histogram and apply
    any sequence of public operations whose premises hold (non-negative weights, well-formed
    operands); calls that are refused are caught and the object is used further.  The result is
    well-formed. -/
theorem wf_history (fo : FloatOps) (fuel : Nat) (h : H1) (ops : List Op1) (w : WF fo h)
    (ok : AllOK fo fuel h ops) : WF fo (run fo fuel h ops) := by
  induction ops generalizing h with
  | nil => exact w
  | cons op ops ih => exact ih _ (wf_next fo fuel h op w ok.1) ok.2

/-- the same with the premises as a plain `∀ op ∈ ops` -/
theorem wf_history' (fo : FloatOps) (fuel : Nat) (h : H1) (ops : List Op1) (w : WF fo h)
    (ok : ∀ op ∈ ops, OpOK fo op) : WF fo (run fo fuel h ops) :=
  wf_history fo fuel h ops w ((allOK_iff fo fuel h ops).mpr ok)

/-- **No content is ever negative**: after any history (non-negative weights, free arithmetics
    off, well-formed operands) every bin content and every squared error is `≥ 0`, and the three
    arrays have the same length. -/
theorem no_negative_content (fo : FloatOps) (fuel : Nat) (h : H1) (ops : List Op1) (w : WF fo h)
    (ok : AllOK fo fuel h ops) :
    (∀ x ∈ (run fo fuel h ops).freq, 0 ≤ x) ∧ (∀ x ∈ (run fo fuel h ops).err2, 0 ≤ x) ∧
    (run fo fuel h ops).freq.length = ((run fo fuel h ops).bins fo).length ∧
    (run fo fuel h ops).err2.length = ((run fo fuel h ops).bins fo).length :=
  let r := wf_history fo fuel h ops w ok
  ⟨r.fpos, r.epos, r.flen, r.elen⟩

/-! ## A refused call changes nothing -/

/-- everything a histogram records, the dtype aside -/
def SameRecord (k h : H1) : Prop :=
  k.freq = h.freq ∧ k.err2 = h.err2 ∧ k.under = h.under ∧ k.over = h.over ∧ k.inner = h.inner ∧
  k.binning = h.binning ∧ k.keep = h.keep ∧ k.stats = h.stats

/-- the dtype is what it was or a lossless promotion of it -/
def DTypeKept (k h : H1) : Prop :=
  (k.dtype = h.dtype ∨ ∃ d, k.dtype = h.dtype.promote d) ∧ DType.canCast h.dtype k.dtype = true

theorem canCast_self (a : DType) : DType.canCast a a = true := by cases a <;> rfl

theorem same_self (h : H1) : SameRecord h h ∧ DTypeKept h h :=
  ⟨⟨rfl, rfl, rfl, rfl, rfl, rfl, rfl, rfl⟩, Or.inl rfl, canCast_self _⟩

theorem same_coerce (h : H1) (d : DType) : SameRecord (h.coerce d) h ∧ DTypeKept (h.coerce d) h :=
  ⟨⟨rfl, rfl, rfl, rfl, rfl, rfl, rfl, rfl⟩, Or.inr ⟨d, rfl⟩, (C13_lossless h.dtype d).1⟩

theorem next_of_error (fo : FloatOps) (fuel : Nat) (h : H1) (op : Op1) (e : String)
    (hs : step fo fuel h op = .error e) : next fo fuel h op = kept fo fuel h op e := by
  simp only [next, hs]

/-- **An operation that raises leaves every recorded content, squared error and missed count at
    exactly the value it had** — also the bins, the `keep_missed` flag and the statistics; at most
    the dtype has been promoted, losslessly.  For every operation of `Op1`; for `fill_n` on a
    histogram whose binning is not adaptive (for the adaptive case see
    `refused_fillN_adaptive_partial`). -/
theorem refused_changes_nothing (fo : FloatOps) (fuel : Nat) (h : H1) (op : Op1) (e : String)
    (hs : step fo fuel h op = .error e)
    (hna : ∀ vs ws wk, op = .fillN vs ws wk → h.binning.isAdaptive = false) :
    SameRecord (next fo fuel h op) h ∧ DTypeKept (next fo fuel h op) h := by
  rw [next_of_error fo fuel h op e hs]
  cases op with
  | fillN vs ws wk =>
    simp only [kept]
    rw [adapt_other _ _ _ _ _ (hna vs ws wk rfl)]
    exact same_self h
  | fill _ _ _ => exact same_self h
  | iadd o => simp only [kept]; split <;> first | exact same_self h | exact same_coerce h _
  | isub o => simp only [kept]; split <;> first | exact same_self h | exact same_coerce h _
  | imul c k => exact same_coerce h _
  | idiv c => simp only [kept]; split <;> first | exact same_self h | exact same_coerce h _
  | normalize i p => simp only [kept]; split <;> first | exact same_self h | exact same_coerce h _
  | mergeAmount _ => exact same_self h
  | mergeMinFreq _ => exact same_self h
  | slice _ _ => exact same_self h
  | indices _ => exact same_self h
  | mask _ => exact same_self h
  | setDType _ => exact same_self h
  | copy _ => exact same_self h

theorem adapt_fields (fo : FloatOps) (fuel : Nat) (h : H1) (vs : List Rat) (single : Bool) :
    (h.adapt fo fuel vs single).under = h.under ∧ (h.adapt fo fuel vs single).over = h.over ∧
    (h.adapt fo fuel vs single).inner = h.inner ∧ (h.adapt fo fuel vs single).keep = h.keep ∧
    (h.adapt fo fuel vs single).stats = h.stats ∧ (h.adapt fo fuel vs single).dtype = h.dtype ∧
    ∃ n r, (h.adapt fo fuel vs single).freq = reshape1 h.freq n r ∧
           (h.adapt fo fuel vs single).err2 = reshape1 h.err2 n r := by
  by_cases ha : h.binning.isAdaptive = false
  · rw [adapt_other _ _ _ _ _ ha]
    exact ⟨rfl, rfl, rfl, rfl, rfl, rfl, 0, .noChange, rfl, rfl⟩
  · cases hb : h.binning with
    | static b i => simp [hb, Binning.isAdaptive] at ha
    | fixed g =>
      have hg : g.adaptive = true := by simpa [Binning.isAdaptive, hb] using ha
      rw [adapt_fixed fo fuel h g hb hg]
      exact ⟨rfl, rfl, rfl, rfl, rfl, rfl, _, _, rfl, rfl⟩

/-- **Weaker form for a refused `fill_n` on an *adaptive* histogram.**  The implementation (and the
    model, and the driver) grow the bins *before* the weights are validated, so what the caller
    keeps is `h.adapt …`: missed counts, `keep`, statistics and dtype are exactly what they were;
    contents and squared errors are the old arrays *repositioned* by `_reshape_data`
    (`reshape1`: zero cells added around them), not literally the old arrays.
    Missing for the full statement: `freq = h.freq` is false here (see the example below), and that
    no old cell is cut off needs the grid hypotheses of C04 (`EdgeMono`, enough fuel), which this
    file does not assume. -/
theorem refused_fillN_adaptive_partial (fo : FloatOps) (fuel : Nat) (h : H1) (vs : List (Option Rat))
    (ws : Option (List Rat)) (wk : DType) (e : String) (hs : step fo fuel h (.fillN vs ws wk) = .error e) :
    next fo fuel h (.fillN vs ws wk) = h.adapt fo fuel (vs.filterMap id) false ∧
    (next fo fuel h (.fillN vs ws wk)).under = h.under ∧ (next fo fuel h (.fillN vs ws wk)).over = h.over ∧
    (next fo fuel h (.fillN vs ws wk)).inner = h.inner ∧ (next fo fuel h (.fillN vs ws wk)).keep = h.keep ∧
    (next fo fuel h (.fillN vs ws wk)).stats = h.stats ∧ (next fo fuel h (.fillN vs ws wk)).dtype = h.dtype ∧
    ∃ n r, (next fo fuel h (.fillN vs ws wk)).freq = reshape1 h.freq n r ∧
           (next fo fuel h (.fillN vs ws wk)).err2 = reshape1 h.err2 n r := by
  rw [next_of_error fo fuel h _ e hs]
  exact ⟨rfl, adapt_fields fo fuel h _ false⟩

/-- **Subtracting more than is there is refused** (same bins, free arithmetics off): if some bin of
    `o` holds more than the same bin of `h`, `h -= o` raises. -/
theorem isub_refused_of_larger (fo : FloatOps) (h o : H1) (hs : h.sameBins fo o = true) (i : Nat)
    (hi : i < h.freq.length) (hi' : i < o.freq.length) (hlt : h.freq[i] < o.freq[i]) :
    ∃ e, h.isub fo o = .error e := by
  cases hr : h.isub fo o with
  | error e => exact ⟨e, rfl⟩
  | ok r =>
    exfalso
    obtain ⟨o0, h0, aS, aO, e1, e2, e3, e4, _, _, rf, _, hn⟩ := isub_parts fo h o r hr
    have po := imul_ok o o0 0 .pyInt e1
    have ph := imul_ok h h0 0 .pyInt e2
    have hb : h.bins fo = o.bins fo := by simpa [sameBins] using hs
    have s1 : h.sameBins fo o0 = true := by
      simp only [sameBins, H1.bins, po.2.2.2.2.2.2.2.1, beq_iff_eq]; exact hb
    have s2 : h0.sameBins fo o = true := by
      simp only [sameBins, H1.bins, ph.2.2.2.2.2.2.2.1, beq_iff_eq]; exact hb
    have fS : aS.freq = zipAdd h.freq (o.freq.map (· * 0)) := by
      rw [(iadd_same_ok fo h o0 aS s1 e3).2.1, po.2.1]
    have fO : aO.freq = zipAdd (h.freq.map (· * 0)) o.freq := by
      rw [(iadd_same_ok fo h0 o aO s2 e4).2.1, ph.2.1]
    have hir : i < r.freq.length := by
      rw [rf, List.length_zipWith, fS, fO, zipAdd_length, zipAdd_length, List.length_map, List.length_map]
      omega
    have hval : r.freq[i] = h.freq[i] - o.freq[i] := by
      simp only [rf, fS, fO, zipAdd, List.getElem_zipWith, List.getElem_map]
      ring
    have := any_lt_false hn _ (List.getElem_mem hir)
    rw [hval] at this
    linarith

theorem run_cons (fo : FloatOps) (fuel : Nat) (h : H1) (op : Op1) (ops : List Op1) :
    run fo fuel h (op :: ops) = run fo fuel (next fo fuel h op) ops := rfl

/-- in a history, a refused call is skipped: the history goes on from what the caller kept -/
theorem run_refused (fo : FloatOps) (fuel : Nat) (h : H1) (op : Op1) (ops : List Op1) (e : String)
    (hs : step fo fuel h op = .error e) :
    run fo fuel h (op :: ops) = run fo fuel (kept fo fuel h op e) ops := by
  rw [run_cons, next_of_error fo fuel h op e hs]

/-! ## Checking the premises by evaluation -/

def wfB (fo : FloatOps) (h : H1) : Bool :=
  decide (h.freq.length = (h.bins fo).length) && decide (h.err2.length = (h.bins fo).length) &&
  h.err2.all (fun x => decide (0 ≤ x)) && h.freq.all (fun x => decide (0 ≤ x))

theorem wf_of_wfB (fo : FloatOps) (h : H1) (c : wfB fo h = true) : WF fo h := by
  simp only [wfB, Bool.and_eq_true, decide_eq_true_eq, List.all_eq_true] at c
  exact ⟨c.1.1.1, c.1.1.2, c.1.2, c.2⟩

def opOKB (fo : FloatOps) : Op1 → Bool
  | .fill _ w _ => decide (0 ≤ w)
  | .fillN _ ws _ => match ws with
    | none => true
    | some l => l.all fun x => decide (0 ≤ x)
  | .iadd o => wfB fo o
  | .isub o => wfB fo o
  | _ => true

theorem opOK_of_opOKB (fo : FloatOps) (op : Op1) (c : opOKB fo op = true) : OpOK fo op := by
  cases op with
  | fill v w k => simpa [opOKB, OpOK] using c
  | fillN vs ws k =>
    cases ws with
    | none => intro l hl; cases hl
    | some l0 =>
      intro l hl x hx
      cases hl
      simp only [opOKB, List.all_eq_true, decide_eq_true_eq] at c
      exact c x hx
  | iadd o => exact wf_of_wfB fo o c
  | isub o => exact wf_of_wfB fo o c
  | _ => trivial

theorem allOK_of_check (fo : FloatOps) (fuel : Nat) (h : H1) (ops : List Op1)
    (c : ops.all (opOKB fo) = true) : AllOK fo fuel h ops :=
  (allOK_iff fo fuel h ops).mpr fun op hop => opOK_of_opOKB fo op (List.all_eq_true.mp c op hop)

/-! ## Non-vacuity: concrete histories, evaluated by the kernel -/

namespace Demo

/-- the message of a refusal -/
def refusal (r : Except String H1) : Option String :=
  match r with
  | .ok _ => none
  | .error e => some e

def b4 : Binning := .static [(0, 1), (1, 2), (2, 3), (3, 4)] true
def start : H1 := H1.empty FloatOps.exact b4 true none
def big : H1 := { binning := b4, freq := [5, 5, 5, 5], err2 := [5, 5, 5, 5] }

/-- fills, a refused `*= -1`, a refused `-=` of a larger histogram, a slice, a merge, a refused
    `/= 0`, an in-place `normalize` -/
def ops : List Op1 :=
  [ .fill (some (1/2)) 2 .pyInt,
    .fillN [some (3/2), none, some (7/2), some 5, some (5/2)] (some [1, 9, 3, 1, 0]) .f64,
    .imul (-1) .pyInt,
    .isub big,
    .slice (some 1) none,
    .mergeAmount 2,
    .fill (some 3) (1/2) .pyFloat,
    .idiv 0,
    .normalize true false ]

/-- the premises of `wf_history` hold for this history … -/
theorem ops_ok : AllOK FloatOps.exact 8 start ops :=
  allOK_of_check _ _ _ _ (by decide +kernel)

/-- … so the result is well-formed … -/
theorem result_wf : WF FloatOps.exact (run FloatOps.exact 8 start ops) :=
  wf_history _ _ _ _ (wf_empty _ _ _ _) ops_ok

/-- … and this is what it is -/
example : (run FloatOps.exact 8 start ops).freq = [2/9, 7/9] ∧
    (run FloatOps.exact 8 start ops).err2 = [4/81, 37/81] ∧
    (run FloatOps.exact 8 start ops).bins FloatOps.exact = [(1, 3), (3, 4)] ∧
    (run FloatOps.exact 8 start ops).under = some (4/9) ∧
    (run FloatOps.exact 8 start ops).over = some (2/9) := by decide +kernel

/-- the state after the two fills -/
example : (run FloatOps.exact 8 start (ops.take 2)).freq = [2, 1, 0, 3] ∧
    (run FloatOps.exact 8 start (ops.take 2)).over = some 1 := by decide +kernel

/-- `*= -1` really is refused there … -/
example : refusal (step FloatOps.exact 8 (run FloatOps.exact 8 start (ops.take 2)) (.imul (-1) .pyInt))
    = some "negative frequencies" := by decide +kernel

/-- … and so is `-=` of the larger histogram … -/
example : refusal (step FloatOps.exact 8 (run FloatOps.exact 8 start (ops.take 3)) (.isub big))
    = some "negative frequencies" := by decide +kernel

/-- … and `/= 0` -/
example : refusal (step FloatOps.exact 8 (run FloatOps.exact 8 start (ops.take 7)) (.idiv 0))
    = some "division by zero" := by decide +kernel

/-- the two refused calls left the contents where they were -/
example : (run FloatOps.exact 8 start (ops.take 4)).freq = (run FloatOps.exact 8 start (ops.take 2)).freq ∧
    (run FloatOps.exact 8 start (ops.take 4)).err2 = (run FloatOps.exact 8 start (ops.take 2)).err2 ∧
    (run FloatOps.exact 8 start (ops.take 4)).over = (run FloatOps.exact 8 start (ops.take 2)).over := by
  decide +kernel

/-! An adaptive fixed-width histogram: growth by `fill`, by `+=` of a histogram on another part of
    the grid, and by a *refused* `fill_n`. -/

def aStart : H1 := H1.empty FloatOps.exact (.fixed { w := 1, adaptive := true }) true none
def aOther : H1 :=
  { binning := .fixed { w := 1, tmin := -2, count := 2, adaptive := true }, freq := [1, 2], err2 := [1, 2] }

def aOps : List Op1 :=
  [ .fill (some (5/2)) 1 .pyInt,
    .fill (some (9/2)) 2 .pyInt,
    .iadd aOther,
    .fillN [some 7, some (-4)] (some [1]) .i64,   -- weights of the wrong shape: refused
    .imul (-2) .pyInt,                            -- refused
    .isub aOther,                                 -- accepted
    .isub aOther ]                                -- refused: nothing left to subtract

theorem aOps_ok : AllOK FloatOps.exact 8 aStart aOps :=
  allOK_of_check _ _ _ _ (by decide +kernel)

theorem aResult_wf : WF FloatOps.exact (run FloatOps.exact 8 aStart aOps) :=
  wf_history _ _ _ _ (wf_empty _ _ _ _) aOps_ok

example : (run FloatOps.exact 8 aStart (aOps.take 3)).freq = [1, 2, 0, 0, 1, 0, 2] ∧
    (run FloatOps.exact 8 aStart (aOps.take 3)).binning
      = .fixed { w := 1, tmin := -2, count := 7, adaptive := true } := by decide +kernel

example : refusal (step FloatOps.exact 8 (run FloatOps.exact 8 aStart (aOps.take 3))
    (.fillN [some 7, some (-4)] (some [1]) .i64)) = some "weights shape" := by decide +kernel

/-- **Finding (recorded by the model, mirrored by the driver).**  A refused `fill_n` on an adaptive
    histogram has already grown the bins: the arrays the caller holds are *not* the arrays it had
    (zero cells were added on both sides), although every content still sits on its interval.
    This is why `refused_changes_nothing` excludes that one case. -/
example : (run FloatOps.exact 8 aStart (aOps.take 4)).freq = [0, 0, 1, 2, 0, 0, 1, 0, 2, 0, 0, 0] ∧
    (run FloatOps.exact 8 aStart (aOps.take 3)).freq = [1, 2, 0, 0, 1, 0, 2] ∧
    (run FloatOps.exact 8 aStart (aOps.take 4)).binning
      = .fixed { w := 1, tmin := -4, count := 12, adaptive := true } := by decide +kernel

example : refusal (step FloatOps.exact 8 (run FloatOps.exact 8 aStart (aOps.take 4)) (.imul (-2) .pyInt))
    = some "negative frequencies" := by decide +kernel

example : refusal (step FloatOps.exact 8 (run FloatOps.exact 8 aStart (aOps.take 5)) (.isub aOther)) = none ∧
    refusal (step FloatOps.exact 8 (run FloatOps.exact 8 aStart (aOps.take 6)) (.isub aOther))
      = some "negative frequencies" := by decide +kernel

example : (run FloatOps.exact 8 aStart aOps).freq = [0, 0, 0, 0, 0, 0, 1, 0, 2, 0, 0, 0] ∧
    (run FloatOps.exact 8 aStart aOps).err2 = [0, 0, 2, 4, 0, 0, 1, 0, 4, 0, 0, 0] := by decide +kernel

/-! ### What is *not* an invariant: the missed counters

`WF` speaks about bin contents and squared errors.  The guards of `-=`, `*=` and `/=` look at the
bin contents only, so the underflow and overflow counters can be driven below zero by *accepted* calls
with well-formed operands and free arithmetics off. -/

def mH : H1 := { binning := b4, freq := [1, 1, 1, 1], err2 := [1, 1, 1, 1] }
def mO : H1 := { binning := b4, freq := [0, 0, 0, 0], err2 := [0, 0, 0, 0], under := some 5 }

/-- `h -= o` is accepted when `o` has more underflow than `h`: the underflow becomes `-5` -/
example : ((step FloatOps.exact 8 mH (.isub mO)).toOption.map (·.under)) = some (some (-5)) ∧
    wfB FloatOps.exact mH = true ∧ wfB FloatOps.exact mO = true := by decide +kernel

/-- `h *= -1` and `h /= -1` are accepted when every bin is empty: the underflow becomes `-5` -/
example : ((step FloatOps.exact 8 mO (.imul (-1) .pyInt)).toOption.map (·.under)) = some (some (-5)) ∧
    ((step FloatOps.exact 8 mO (.idiv (-1))).toOption.map (·.under)) = some (some (-5)) := by decide +kernel

/-- `set_dtype(int)` validates contents and squared errors only; an accepted call truncates a
    fractional missed counter (`1/2 ↦ 0`).  (An accepted call, so no violation of C18.) -/
example : ((step FloatOps.exact 8 { mH with under := some (1/2), dtype := .f64 } (.setDType .i64)).toOption.map
    (·.under)) = some (some 0) := by decide +kernel

end Demo

end Physt

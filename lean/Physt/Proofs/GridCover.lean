import Physt.Proofs.Locate
import Physt.Proofs.Lists
/-! Growth of a fixed-width grid: the cell of the value is covered, old cells keep their index. -/
namespace Physt
namespace Grid

/-- the edge function of a grid is strictly increasing -/
def EdgeMono (fo : FloatOps) (w s : Rat) : Prop := ∀ a b : Int, a < b → fo.edge w s a < fo.edge w s b

/-- `k` is the cell of `v` -/
def CellOf (edge : Int → Rat) (v : Rat) (k : Int) : Prop := edge k ≤ v ∧ v < edge (k + 1)

theorem cell_lt_of_lt {edge : Int → Rat} (hm : ∀ a b : Int, a < b → edge a < edge b) {v : Rat} {k t : Int}
    (hk : CellOf edge v k) (hv : v < edge t) : k < t := by
  by_contra h
  have : t ≤ k := by omega
  rcases lt_or_eq_of_le this with h1 | h1
  · have := hm t k h1; linarith [hk.1]
  · subst h1; linarith [hk.1]

theorem cell_ge_of_le {edge : Int → Rat} (hm : ∀ a b : Int, a < b → edge a < edge b) {v : Rat} {k t : Int}
    (hk : CellOf edge v k) (hv : edge t ≤ v) : t ≤ k := by
  by_contra h
  have : k + 1 ≤ t := by omega
  rcases lt_or_eq_of_le this with h1 | h1
  · have := hm (k + 1) t h1; linarith [hk.2]
  · subst h1; linarith [hk.2]

/-- **Growth covers the value and keeps the old range** (aligned grid, right-open). -/
theorem forceSingle_covers (fo : FloatOps) (fuel : Nat) (g : Grid) (v : Rat) (k : Int)
    (halign : g.align = true) (hm : EdgeMono fo g.w g.shift) (hk : CellOf (g.edgeAt fo) v k)
    (hf : (fo.est g.w g.shift v - k).natAbs ≤ fuel) :
    let g' := (g.forceSingle fo fuel v false).1
    g'.w = g.w ∧ g'.shift = g.shift ∧ g'.align = g.align ∧ g'.adaptive = g.adaptive ∧ g'.ire = g.ire ∧
    g'.tmin ≤ k ∧ k < g'.tmin + g'.count ∧
    (g.count = 0 → g'.tmin = k ∧ g'.count = 1) ∧
    (0 < g.count → g'.tmin = min g.tmin k ∧ g'.tmin + g'.count = max (g.tmin + g.count) (k + 1)) := by
  have hloc : g.findIndex fo fuel v = k := locate_spec (g.edgeAt fo) v hm k _ fuel hk hf
  unfold forceSingle
  by_cases h0 : g.count = 0
  · simp only [h0, if_true, halign, hloc]
    refine ⟨by trivial, by trivial, by trivial, by trivial, by trivial, ?_, ?_, ?_, ?_⟩ <;> simp
  · simp only [h0, if_false]
    have hpos : 0 < g.count := Nat.pos_of_ne_zero h0
    by_cases h1 : v < g.firstEdge fo
    · simp only [h1, if_true, hloc]
      have hkt : k < g.tmin := cell_lt_of_lt hm hk h1
      have hal : (g.tmin - k).toNat ≠ 0 := by omega
      simp only [hal, if_false]
      refine ⟨by trivial, by trivial, by trivial, by trivial, by trivial, ?_, ?_, fun h => False.elim h, fun _ => ⟨?_, ?_⟩⟩ <;> (try simp) <;> omega
    · simp only [h1, if_false]
      by_cases h2 : g.lastEdge fo ≤ v
      · simp only [h2, if_true, hloc]
        have hkt : g.tmin + g.count ≤ k := cell_ge_of_le hm hk h2
        have hne : ¬ (k - g.tmin + 1 - (if g.edgeAt fo k = v ∧ false = true then 1 else 0) - (g.count : Int) = 0) := by
          simp; omega
        simp only [hne, if_false]
        refine ⟨by trivial, by trivial, by trivial, by trivial, by trivial, ?_, ?_, fun h => False.elim h, fun _ => ⟨?_, ?_⟩⟩ <;> (try simp) <;> omega
      · simp only [h2, if_false]
        have ha : g.tmin ≤ k := cell_ge_of_le hm hk (not_lt.mp h1)
        have hb : k < g.tmin + g.count := cell_lt_of_lt hm hk (not_le.mp h2)
        refine ⟨by trivial, by trivial, by trivial, by trivial, by trivial, ha, hb, fun h => False.elim h, fun _ => ⟨?_, ?_⟩⟩ <;> omega

/-- bins of a grid, from cell `t`, `n` of them -/
def binsFrom (edge : Int → Rat) (t : Int) (n : Nat) : Bins :=
  (List.range n).map fun (i : Nat) => (edge (t + (i : Int)), edge (t + (i : Int) + 1))

theorem bins_eq_binsFrom (fo : FloatOps) (g : Grid) : g.bins fo = binsFrom (g.edgeAt fo) g.tmin g.count := rfl

theorem binsFrom_succ (edge : Int → Rat) (t : Int) (n : Nat) :
    binsFrom edge t (n + 1) = (edge t, edge (t + 1)) :: binsFrom edge (t + 1) n := by
  unfold binsFrom
  rw [List.range_succ_eq_map, List.map_cons, List.map_map]
  congr 1
  · simp
  · apply List.map_congr_left
    intro i _
    simp only [Function.comp, Nat.cast_succ]
    congr 2 <;> ring

theorem binsFrom_getElem? (edge : Int → Rat) (t : Int) (n i : Nat) (hi : i < n) :
    (binsFrom edge t n)[i]? = some (edge (t + (i : Int)), edge (t + (i : Int) + 1)) := by
  unfold binsFrom
  simp [List.getElem?_map, List.getElem?_range hi]

theorem binsFrom_length (edge : Int → Rat) (t : Int) (n : Nat) : (binsFrom edge t n).length = n := by
  simp [binsFrom]

theorem binsFrom_rising (edge : Int → Rat) (hm : ∀ a b : Int, a < b → edge a < edge b) (t : Int) (n : Nat) :
    Rising (binsFrom edge t n) := by
  induction n generalizing t with
  | zero => simp [binsFrom, Rising]
  | succ n ih =>
    rw [binsFrom_succ]
    cases n with
    | zero => simp only [binsFrom, List.range_zero, List.map_nil, Rising]; exact hm _ _ (by omega)
    | succ m =>
      have := ih (t + 1)
      rw [binsFrom_succ] at this ⊢
      exact ⟨hm _ _ (by omega), le_refl _, this⟩

theorem binsFrom_consecutive (edge : Int → Rat) (t : Int) (n : Nat) : consecutiveB (binsFrom edge t n) = true := by
  induction n generalizing t with
  | zero => simp [binsFrom, consecutiveB]
  | succ n ih =>
    rw [binsFrom_succ]
    cases n with
    | zero => simp [binsFrom, consecutiveB]
    | succ m =>
      have := ih (t + 1)
      rw [binsFrom_succ] at this ⊢
      simp only [consecutiveB, decide_true, Bool.true_and]
      exact this

/-- in a grid whose range contains the cell of `v`, `find_bin` returns that cell's bin -/
theorem findBinIn_grid (edge : Int → Rat) (hm : ∀ a b : Int, a < b → edge a < edge b) (t : Int) (n : Nat)
    (v : Rat) (k : Int) (hk : CellOf edge v k) (h1 : t ≤ k) (h2 : k < t + n) :
    H1.findBinIn (binsFrom edge t n) v = .bin (k - t).toNat := by
  rw [findBinIn_bin_iff _ (binsFrom_rising edge hm t n)]
  unfold inBin
  have hi : (k - t).toNat < n := by omega
  rw [binsFrom_getElem? edge t n _ hi]
  have : t + ((k - t).toNat : Int) = k := by omega
  simp only [this]
  simp [hk.1, hk.2]

end Grid
end Physt

import Physt.Proofs.AdaptiveND
import Physt.Proofs.AdaptiveAdd
/-!
# Adding N-dimensional histograms with adaptive fixed-width axes (C05, adaptive clause, N-d)

The N-d counterpart of `Proofs/AdaptiveAdd.lean` (1-D, `GridTracks`), on top of the invariant
`TracksA fo h grids rows` of `Proofs/AdaptiveND.lean` (all axes adaptive, aligned, right-open grids; contents
and squared errors are the batch histogram of `rows` over the current bins; nothing missed; every row inside
every axis).  The object of study is the adapting branch of `HN.iadd`: per axis a plan (`planOf`:
`FixedWidthBinning.adapt` / `_adapt`, i.e. "equal bins: nothing to do", otherwise `H1.adaptGrids`), then both
operands' arrays are carried to the common grids axis by axis (`planStep`, `HN.reshapeAxis`), then added.

* `iaddN_same_eq`, `iaddN_adapt_bind`, `iaddN_dim_refused`, `iaddN_missed_refused`,
  `iaddN_nonadaptive_refused` — what `HN.iadd` returns, branch by branch;
* `planOf_spec`, `plans_spec` — for operands on the same lattice (`lattice`: width and origin of every axis)
  no axis is refused, the common grid of every axis is the union of both ranges (`UnionN`, per axis the
  `SpanUnion` of the 1-D theory) and both reshape instructions are right (`PlanOK`);
* `planFold_calcND` — the reshaping loop turns the batch histogram of an operand's rows over its own bins into
  the batch histogram of the same rows over the common bins (by `calcND_regrid`, one axis at a time);
* `tracksA_iadd_full` — **1.** `a += b` is accepted and the result tracks `A ++ B` on the union grids;
* `tracksA_iadd_comm`, `tracksA_iadd_assoc` — **2.** commutative and associative (bins, contents, errors,
  missed, total, dtype); `tracksA_sum` (left fold over a list of chunks), `SumTree`, `sumTree_spec`,
  `sumTree_agree` — any bracketing and any order of the same chunks give the same histogram, on the hull
  (`HullAll`, per axis `SpanList`) of all the chunk ranges;
* `tracksA_iadd_eq_fill` — `a + b` is what filling the rows of `b` into `a` gives (when `b` was filled from
  empty grids), via `SpanUnion.toHull` / `UnionN.toHullN` and the uniqueness of hulls;
* `iaddN_lattice_refused_msg`, `iaddN_lattice_refused` — **3.** a width or origin mismatch on some axis whose
  bins differ refuses the whole call.
-/
namespace Physt
open Grid H1

/-! ## What `HN.iadd` returns, branch by branch -/

/-- `__iadd__` written with `planOf` / `planStep` -/
def iaddPlans (fo : FloatOps) (h o : HN) : R HN := do
  if h.axes.length != o.axes.length then throw "different dimensions"
  if h.sameBins fo o then
    let h := h.coerce o.dtype
    pure { h with freq := Arr.zipWith (· + ·) h.freq o.freq, err2 := Arr.zipWith (· + ·) h.err2 o.err2,
                  missed := nadd h.missed o.missed }
  else if h.axes.all Binning.isAdaptive then
    match o.missed with
    | some m => if 0 < m then throw "other has missed values"
    | none => pure ()
    if !(o.axes.all Binning.adaptiveAllowed) then throw "other cannot be made adaptive"
    let h := h.coerce o.dtype
    let plans ← (h.axes.zip o.axes).mapM (planOf fo)
    pure { h with axes := plans.map fun p => .fixed p.1,
                  freq := Arr.zipWith (· + ·) (plans.foldl (planStep true) (h.freq, h.err2, 0)).1
                            (plans.foldl (planStep false) (o.freq, o.err2, 0)).1,
                  err2 := Arr.zipWith (· + ·) (plans.foldl (planStep true) (h.freq, h.err2, 0)).2.1
                            (plans.foldl (planStep false) (o.freq, o.err2, 0)).2.1 }
  else throw "incompatible binning"

theorem iadd_eq_iaddPlans (fo : FloatOps) (h o : HN) : h.iadd fo o = iaddPlans fo h o := rfl

theorem iaddN_dim_refused (fo : FloatOps) (h o : HN) (hl : h.axes.length ≠ o.axes.length) :
    h.iadd fo o = .error "different dimensions" := by
  rw [iadd_eq_iaddPlans]
  unfold iaddPlans
  simp [hl, bind, Except.bind, throw, throwThe, MonadExceptOf.throw]

theorem iaddN_same_eq (fo : FloatOps) (h o : HN) (hl : h.axes.length = o.axes.length)
    (hs : h.sameBins fo o = true) :
    h.iadd fo o = .ok { h with dtype := h.dtype.promote o.dtype, freq := Arr.zipWith (· + ·) h.freq o.freq,
                               err2 := Arr.zipWith (· + ·) h.err2 o.err2, missed := nadd h.missed o.missed } := by
  rw [iadd_eq_iaddPlans]
  unfold iaddPlans
  simp [hl, hs, pure, Except.pure, HN.coerce]

/-- the adapting branch, up to the plans -/
theorem iaddN_adapt_bind (fo : FloatOps) (h o : HN) (hl : h.axes.length = o.axes.length)
    (hs : h.sameBins fo o = false) (ha : h.axes.all Binning.isAdaptive = true)
    (hmiss : ∀ m, o.missed = some m → ¬ 0 < m) (hoa : o.axes.all Binning.adaptiveAllowed = true) :
    h.iadd fo o = ((h.axes.zip o.axes).mapM (planOf fo)).bind fun plans =>
      .ok { h with dtype := h.dtype.promote o.dtype, axes := plans.map fun p => .fixed p.1,
                   freq := Arr.zipWith (· + ·) (plans.foldl (planStep true) (h.freq, h.err2, 0)).1
                            (plans.foldl (planStep false) (o.freq, o.err2, 0)).1,
                   err2 := Arr.zipWith (· + ·) (plans.foldl (planStep true) (h.freq, h.err2, 0)).2.1
                            (plans.foldl (planStep false) (o.freq, o.err2, 0)).2.1 } := by
  rw [iadd_eq_iaddPlans]
  unfold iaddPlans
  cases hm : o.missed with
  | none =>
    simp [hl, hs, ha, hoa, bind, Except.bind, pure, Except.pure, HN.coerce]
  | some m =>
    have := hmiss m hm
    simp [hl, hs, ha, hoa, this, bind, Except.bind, pure, Except.pure, HN.coerce]

/-- a right operand with positive missed is refused as soon as the bins differ -/
theorem iaddN_missed_refused (fo : FloatOps) (h o : HN) (hl : h.axes.length = o.axes.length)
    (hs : h.sameBins fo o = false) (ha : h.axes.all Binning.isAdaptive = true) (m : Rat)
    (hm : o.missed = some m) (hpos : 0 < m) : h.iadd fo o = .error "other has missed values" := by
  rw [iadd_eq_iaddPlans]
  unfold iaddPlans
  simp [hl, hs, ha, hm, hpos, bind, Except.bind, throw, throwThe, MonadExceptOf.throw]

/-- different bins and a left operand with a non-adaptive axis: refused -/
theorem iaddN_nonadaptive_refused (fo : FloatOps) (h o : HN) (hl : h.axes.length = o.axes.length)
    (hs : h.sameBins fo o = false) (ha : h.axes.all Binning.isAdaptive = false) :
    h.iadd fo o = .error "incompatible binning" := by
  rw [iadd_eq_iaddPlans]
  unfold iaddPlans
  simp [hl, hs, ha, throw, throwThe, MonadExceptOf.throw]

/-! ## One axis: the plan `FixedWidthBinning._adapt` makes for a pair of grids -/

/-- the instruction `r` is the right one for carrying contents from the grid `g` to the grid `g'`: as in one
    dimension (`ReshapeOK`), or there is nothing to do because the bins are the same -/
def PlanOK (fo : FloatOps) (g g' : Grid) (r : Reshape) : Prop :=
  ReshapeOK g g' r ∨ (r = .noChange ∧ g'.bins fo = g.bins fo)

/-- the plan of one axis: accepted for two grids of the same width and origin; the common grid keeps the
    left operand's flags, its range is the union of both ranges, both instructions are right -/
theorem planOf_spec (fo : FloatOps) (g1 g2 : Grid) (hw : g1.w = g2.w) (hs : g1.shift = g2.shift)
    (hm : EdgeMono fo g1.w g1.shift) :
    ∃ p : Plan, planOf fo (.fixed g1, .fixed g2) = .ok p ∧ p.1.w = g1.w ∧ p.1.shift = g1.shift ∧
      p.1.align = g1.align ∧ p.1.adaptive = g1.adaptive ∧ p.1.ire = g1.ire ∧
      PlanOK fo g1 p.1 p.2.1 ∧ PlanOK fo g2 p.1 p.2.2 ∧ SpanUnion g1 g2 p.1 := by
  by_cases hb : g1.bins fo = g2.bins fo
  · obtain ⟨hc, ht⟩ := grids_of_same_bins hm hw hs hb
    refine ⟨(g1, .noChange, .noChange), by simp [planOf, hb, pure, Except.pure], rfl, rfl, rfl, rfl, rfl,
      Or.inl (Or.inr (Or.inl ⟨rfl, rfl, rfl⟩)), Or.inr ⟨rfl, hb⟩, ?_⟩
    refine ⟨fun hp _ => ?_, fun _ => ⟨rfl, rfl⟩, fun h0 hp => by omega⟩
    have := ht hp
    show g1.tmin = min g1.tmin g2.tmin ∧ g1.tmin + g1.count = max (g1.tmin + g1.count) (g2.tmin + g2.count)
    omega
  · obtain ⟨g', r1, r2, hag, hw', hs', hal, had, hire, ok1, ok2, sp⟩ := adaptGrids_spec g1 g2 hw hs
    refine ⟨(g', r1, r2), ?_, hw', hs', hal, had, hire, Or.inl ok1, Or.inl ok2, sp⟩
    simp [planOf, hb, hag]

/-- width and origin of every axis -/
def lattice (gs : List Grid) : List (Rat × Rat) := gs.map fun g => (g.w, g.shift)

theorem lattice_length (gs : List Grid) : (lattice gs).length = gs.length := by simp [lattice]

theorem lattice_getElem? {ga gb : List Grid} (h : lattice ga = lattice gb) (i : Nat) (g1 g2 : Grid)
    (h1 : ga[i]? = some g1) (h2 : gb[i]? = some g2) : g1.w = g2.w ∧ g1.shift = g2.shift := by
  have := congrArg (·[i]?) h
  simp only [lattice, List.getElem?_map, h1, h2, Option.map_some, Option.some.injEq, Prod.mk.injEq] at this
  exact this

theorem lattice_len_eq {ga gb : List Grid} (h : lattice ga = lattice gb) : ga.length = gb.length := by
  rw [← lattice_length ga, ← lattice_length gb, h]

/-- **Per axis the grid of the sum is the union of both operands' ranges on the common grid**: same width,
    origin and flags as the left operand's axis; `SpanUnion` (both non-empty: from the lower first cell to the
    higher last cell; one of them empty: the other one's range). -/
structure UnionN (ga gb gr : List Grid) : Prop where
  len : gr.length = ga.length
  lenb : gb.length = ga.length
  each : ∀ (i : Nat) (g1 g2 g' : Grid), ga[i]? = some g1 → gb[i]? = some g2 → gr[i]? = some g' →
    g'.w = g1.w ∧ g'.shift = g1.shift ∧ g'.align = g1.align ∧ g'.adaptive = g1.adaptive ∧ g'.ire = g1.ire ∧
    SpanUnion g1 g2 g'

/-- what one side of the plans promises: the common grid is on the lattice of this operand's grid and the
    instruction for this operand is right -/
def SideOK (fo : FloatOps) (g g' : Grid) (r : Reshape) : Prop :=
  g'.w = g.w ∧ g'.shift = g.shift ∧ PlanOK fo g g' r

/-- all axes: the plans exist (nothing is refused), and they are right for both operands -/
theorem plans_spec (fo : FloatOps) (ga gb : List Grid) (hlat : lattice ga = lattice gb) (hm : MonoGrids fo ga) :
    ∃ plans : List Plan, ((ga.map Binning.fixed).zip (gb.map Binning.fixed)).mapM (planOf fo) = .ok plans ∧
      List.Forall₂ (fun g (p : Plan) => SideOK fo g p.1 p.2.1) ga plans ∧
      List.Forall₂ (fun g (p : Plan) => SideOK fo g p.1 p.2.2) gb plans ∧
      UnionN ga gb (plans.map (·.1)) := by
  induction ga generalizing gb with
  | nil =>
    cases gb with
    | nil => exact ⟨[], rfl, .nil, .nil, ⟨rfl, rfl, fun i g1 _ _ h => by simp at h⟩⟩
    | cons _ _ => simp [lattice] at hlat
  | cons g1 ga ih =>
    cases gb with
    | nil => simp [lattice] at hlat
    | cons g2 gb =>
      have hl : (g1.w, g1.shift) = (g2.w, g2.shift) ∧ lattice ga = lattice gb := by
        simpa [lattice] using hlat
      obtain ⟨hw, hs⟩ : g1.w = g2.w ∧ g1.shift = g2.shift := by simpa using hl.1
      obtain ⟨p, hp, pw, ps, pal, pad, pire, ok1, ok2, sp⟩ :=
        planOf_spec fo g1 g2 hw hs (hm g1 (List.mem_cons_self ..))
      obtain ⟨plans, hpl, f1, f2, un⟩ := ih gb hl.2 (fun g hg => hm g (List.mem_cons_of_mem _ hg))
      refine ⟨p :: plans, ?_, .cons ⟨pw, ps, ok1⟩ f1, .cons ⟨pw.trans hw, ps.trans hs, ok2⟩ f2, ?_⟩
      · simp only [List.map_cons, List.zip_cons_cons, List.mapM_cons, hp, hpl, bind, Except.bind, pure, Except.pure]
      · refine ⟨by simp [un.len], by simp [un.lenb], ?_⟩
        intro i x1 x2 x' h1 h2 h'
        cases i with
        | zero =>
          simp only [List.getElem?_cons_zero, List.map_cons, Option.some.injEq] at h1 h2 h'
          subst h1 h2 h'
          exact ⟨pw, ps, pal, pad, pire, sp⟩
        | succ i =>
          simp only [List.getElem?_cons_succ, List.map_cons] at h1 h2 h'
          exact un.each i x1 x2 x' h1 h2 h'

/-! ## The reshaping loop of `__iadd__` carries a batch histogram to the common grids -/

/-- `calcND_regrid` for the instructions of a plan (also: "no change" because the bins are equal) -/
theorem calcND_replan (fo : FloatOps) (axes : List Binning) (i : Nat) (g g' : Grid) (r : Reshape)
    (hi : axes[i]? = some (.fixed g)) (hm : EdgeMono fo g.w g.shift) (hw : g'.w = g.w) (hs : g'.shift = g.shift)
    (hire : g.ire = false) (hire' : g'.ire = false) (ok : PlanOK fo g g' r) (rows : List Row)
    (hrows : ∀ r ∈ rows, r.1.length = axes.length ∧ ∃ x, r.1[i]? = some x ∧ InGrid fo g x) :
    (calcND (axesOf fo (axes.set i (.fixed g'))) rows).freq
      = HN.reshapeAxis (calcND (axesOf fo axes) rows).freq i g'.count r ∧
    (calcND (axesOf fo (axes.set i (.fixed g'))) rows).err2
      = HN.reshapeAxis (calcND (axesOf fo axes) rows).err2 i g'.count r := by
  rcases ok with ok | ⟨rfl, hb⟩
  · obtain ⟨h1, h2, _⟩ := calcND_regrid fo axes i g g' r hi hm hw hs hire hire' ok rows hrows
    exact ⟨h1, h2⟩
  · have : axesOf fo (axes.set i (.fixed g')) = axesOf fo axes := by
      rw [axesOf_set]
      simp only [Binning.bins, Binning.ire, hb, hire']
      rw [← hire]
      exact setAt_of_getElem? _ _ _ (axesOf_getElem? fo axes i _ hi)
    rw [this]
    exact ⟨rfl, rfl⟩

/-- the instruction of a plan for the left (`true`) or the right (`false`) operand -/
def Plan.side (which : Bool) (p : Plan) : Reshape := if which then p.2.1 else p.2.2

/-- **The reshaping loop.**  The arrays hold the batch histogram of `rows` over the axes `pre ++ gs`; the
    loop walks over the grids `gs` with plans that are right for them (`SideOK`); every row lies inside
    every grid of `gs`.  Afterwards the arrays hold the batch histogram of the same rows over
    `pre ++` the common grids. -/
theorem planFold_calcND (fo : FloatOps) (which : Bool) (rows : List Row) (gs : List Grid) (ps : List Plan)
    (hf2 : List.Forall₂ (fun g (p : Plan) => SideOK fo g p.1 (p.side which)) gs ps)
    (hg : ∀ g ∈ gs, g.ire = false ∧ EdgeMono fo g.w g.shift) (hp : ∀ p ∈ ps, p.1.ire = false) :
    ∀ (pre : List Binning) (f e : Arr),
      f = (calcND (axesOf fo (pre ++ gs.map Binning.fixed)) rows).freq →
      e = (calcND (axesOf fo (pre ++ gs.map Binning.fixed)) rows).err2 →
      (∀ r ∈ rows, r.1.length = pre.length + gs.length ∧
        ∀ (j : Nat) (g : Grid) (x : Rat), gs[j]? = some g → r.1[pre.length + j]? = some x → InGrid fo g x) →
      (ps.foldl (planStep which) (f, e, pre.length)).1
        = (calcND (axesOf fo (pre ++ ps.map fun p => Binning.fixed p.1)) rows).freq ∧
      (ps.foldl (planStep which) (f, e, pre.length)).2.1
        = (calcND (axesOf fo (pre ++ ps.map fun p => Binning.fixed p.1)) rows).err2 := by
  induction hf2 with
  | nil =>
    intro pre f e hf he _
    exact ⟨hf, he⟩
  | @cons g p gs ps hgp _ ih =>
    intro pre f e hf he hrows
    obtain ⟨pw, psft, ok⟩ := hgp
    obtain ⟨gire, gm⟩ := hg g (List.mem_cons_self ..)
    have hi : (pre ++ (g :: gs).map Binning.fixed)[pre.length]? = some (Binning.fixed g) := by simp
    have rg := calcND_replan fo (pre ++ (g :: gs).map Binning.fixed) pre.length g p.1 (p.side which) hi gm pw psft gire
      (hp p (List.mem_cons_self ..)) ok rows (by
        intro r hr
        obtain ⟨hl, hin⟩ := hrows r hr
        have hlt : pre.length < r.1.length := by rw [hl]; simp
        refine ⟨by rw [hl]; simp, r.1[pre.length], List.getElem?_eq_getElem hlt, ?_⟩
        exact hin 0 g _ rfl (by simp))
    have hset : (pre ++ (g :: gs).map Binning.fixed).set pre.length (Binning.fixed p.1)
        = (pre ++ [Binning.fixed p.1]) ++ gs.map Binning.fixed := by
      simp
    rw [hset] at rg
    have := ih (fun x hx => hg x (List.mem_cons_of_mem _ hx)) (fun x hx => hp x (List.mem_cons_of_mem _ hx))
      (pre ++ [Binning.fixed p.1]) (HN.reshapeAxis f pre.length p.1.count (p.side which))
      (HN.reshapeAxis e pre.length p.1.count (p.side which)) (by rw [hf]; exact rg.1.symm) (by rw [he]; exact rg.2.symm) (by
        intro r hr
        obtain ⟨hl, hin⟩ := hrows r hr
        refine ⟨by rw [hl]; simp; omega, ?_⟩
        intro j x y hx hy
        refine hin (j + 1) x y (by simpa using hx) ?_
        rw [← hy]
        congr 1
        simp; omega)
    simp only [List.length_append, List.length_cons, List.length_nil, Nat.zero_add] at this
    simpa [List.foldl_cons, planStep, Plan.side, List.append_assoc] using this

/-! ## Helper facts on lists of grids -/

theorem all_isAdaptive_map_fixed (gs : List Grid) (h : ∀ g ∈ gs, g.adaptive = true) :
    (gs.map Binning.fixed).all Binning.isAdaptive = true := by
  simp only [List.all_map, List.all_eq_true, Function.comp]
  exact h

theorem all_adaptiveAllowed_map_fixed (gs : List Grid) :
    (gs.map Binning.fixed).all Binning.adaptiveAllowed = true := by
  simp [List.all_map, Binning.adaptiveAllowed]

/-- axes with the same bins and the same right-edge rule, position by position, are the same axes for
    `calculate_nd_frequencies` -/
theorem axesOf_eq_of_bins (fo : FloatOps) (ga gb : List Grid) (hl : ga.length = gb.length)
    (h : ∀ (i : Nat) (g1 g2 : Grid), ga[i]? = some g1 → gb[i]? = some g2 → g1.bins fo = g2.bins fo ∧ g1.ire = g2.ire) :
    axesOf fo (ga.map Binning.fixed) = axesOf fo (gb.map Binning.fixed) := by
  apply List.ext_getElem?
  intro i
  simp only [axesOf, List.getElem?_map]
  by_cases hi : i < ga.length
  · have hi' : i < gb.length := by omega
    obtain ⟨e1, e2⟩ := h i _ _ (List.getElem?_eq_getElem hi) (List.getElem?_eq_getElem hi')
    rw [List.getElem?_eq_getElem hi, List.getElem?_eq_getElem hi']
    simp [Binning.bins, Binning.ire, e1, e2]
  · rw [List.getElem?_eq_none (by omega), List.getElem?_eq_none (by omega)]

theorem HN.axesBins_eq_axesOf (fo : FloatOps) (h : HN) : h.axesBins fo = axesOf fo h.axes := rfl

/-- a row inside grids `gs` lies inside grids `gr` that contain them axis by axis -/
theorem InsideGrids.mono {fo : FloatOps} {gs gr : List Grid} {row : List Rat} (h : InsideGrids fo gs row)
    (hl : gr.length = gs.length)
    (hc : ∀ (i : Nat) (g g' : Grid), gs[i]? = some g → gr[i]? = some g' → 0 < g.count →
      g'.w = g.w ∧ g'.shift = g.shift ∧ g'.tmin ≤ g.tmin ∧ g.tmin + g.count ≤ g'.tmin + g'.count) :
    InsideGrids fo gr row := by
  refine ⟨h.1.trans hl.symm, ?_⟩
  intro i g' x hg' hx
  have hi : i < gs.length := by rw [← hl]; exact (List.getElem?_eq_some_iff.mp hg').1
  obtain ⟨k, hk, h1, h2⟩ := h.2 i _ x (List.getElem?_eq_getElem hi) hx
  obtain ⟨hw, hs, c1, c2⟩ := hc i _ g' (List.getElem?_eq_getElem hi) hg' (by omega)
  exact ⟨k, by rw [hw, hs]; exact hk, by omega, by omega⟩

theorem UnionN.inside_left {fo : FloatOps} {ga gb gr : List Grid} {row : List Rat} (u : UnionN ga gb gr)
    (h : InsideGrids fo ga row) : InsideGrids fo gr row := by
  apply h.mono u.len
  intro i g g' hg hg' hp
  have hi : i < gb.length := by rw [u.lenb]; exact (List.getElem?_eq_some_iff.mp hg).1
  obtain ⟨hw, hs, _, _, _, sp⟩ := u.each i g _ g' hg (List.getElem?_eq_getElem hi) hg'
  refine ⟨hw, hs, ?_⟩
  by_cases hb : gb[i].count = 0
  · have := sp.rightEmpty hb; omega
  · have := sp.both hp (Nat.pos_of_ne_zero hb); omega

theorem UnionN.inside_right {fo : FloatOps} {ga gb gr : List Grid} {row : List Rat} (u : UnionN ga gb gr)
    (hlat : lattice ga = lattice gb) (h : InsideGrids fo gb row) : InsideGrids fo gr row := by
  apply h.mono (u.len.trans u.lenb.symm)
  intro i g g' hg hg' hp
  have hi : i < ga.length := by rw [← u.lenb]; exact (List.getElem?_eq_some_iff.mp hg).1
  obtain ⟨hw, hs, _, _, _, sp⟩ := u.each i _ g g' (List.getElem?_eq_getElem hi) hg hg'
  obtain ⟨lw, ls⟩ := lattice_getElem? hlat i _ g (List.getElem?_eq_getElem hi) hg
  refine ⟨hw.trans lw, hs.trans ls, ?_⟩
  by_cases ha : ga[i].count = 0
  · have := sp.leftEmpty ha hp; omega
  · have := sp.both (Nat.pos_of_ne_zero ha) hp; omega

theorem UnionN.lattice {ga gb gr : List Grid} (u : UnionN ga gb gr) : lattice gr = lattice ga := by
  apply List.ext_getElem?
  intro i
  simp only [Physt.lattice, List.getElem?_map]
  by_cases hi : i < ga.length
  · have hi' : i < gr.length := by rw [u.len]; exact hi
    have hib : i < gb.length := by rw [u.lenb]; exact hi
    obtain ⟨hw, hs, _⟩ := u.each i _ _ _ (List.getElem?_eq_getElem hi) (List.getElem?_eq_getElem hib)
      (List.getElem?_eq_getElem hi')
    rw [List.getElem?_eq_getElem hi, List.getElem?_eq_getElem hi']
    simp [hw, hs]
  · rw [List.getElem?_eq_none (by rw [u.len]; omega), List.getElem?_eq_none (by omega)]

theorem UnionN.flags {ga gb gr : List Grid} (u : UnionN ga gb gr)
    (fl : ∀ g ∈ ga, g.adaptive = true ∧ g.align = true ∧ g.ire = false) :
    ∀ g ∈ gr, g.adaptive = true ∧ g.align = true ∧ g.ire = false := by
  intro g' hg'
  obtain ⟨i, hi, rfl⟩ := List.getElem_of_mem hg'
  have hia : i < ga.length := by rw [← u.len]; exact hi
  have hib : i < gb.length := by rw [u.lenb]; exact hia
  obtain ⟨_, _, al, ad, ir, _⟩ := u.each i _ _ _ (List.getElem?_eq_getElem hia) (List.getElem?_eq_getElem hib)
    (List.getElem?_eq_getElem hi)
  obtain ⟨f1, f2, f3⟩ := fl _ (List.getElem_mem hia)
  exact ⟨ad.trans f1, al.trans f2, ir.trans f3⟩

theorem MonoGrids.of_lattice {fo : FloatOps} {ga gb : List Grid} (hm : MonoGrids fo ga) (h : lattice gb = lattice ga) :
    MonoGrids fo gb := by
  intro g hg
  obtain ⟨i, hi, rfl⟩ := List.getElem_of_mem hg
  have hia : i < ga.length := by rw [← lattice_len_eq h]; exact hi
  obtain ⟨hw, hs⟩ := lattice_getElem? h i _ _ (List.getElem?_eq_getElem hi) (List.getElem?_eq_getElem hia)
  rw [hw, hs]
  exact hm _ (List.getElem_mem hia)

/-! ## 1. `a + b` for all-adaptive N-d operands -/

/-- equal bins on every axis, read off `has_same_bins` -/
theorem sameBins_getElem {fo : FloatOps} {a b : HN} {ga gb : List Grid} (ha : a.axes = ga.map Binning.fixed)
    (hb : b.axes = gb.map Binning.fixed) (hs : a.sameBins fo b = true) (i : Nat) (g1 g2 : Grid)
    (h1 : ga[i]? = some g1) (h2 : gb[i]? = some g2) : g1.bins fo = g2.bins fo := by
  have e : a.axes.map (·.bins fo) = b.axes.map (·.bins fo) := by simpa [HN.sameBins] using hs
  have := congrArg (·[i]?) e
  simpa [ha, hb, List.getElem?_map, h1, h2, Binning.bins] using this

/-- **h(A) + h(B) = h(A and B together), all axes adaptive, N dimensions.**  Both branches of `__iadd__`:
    equal bins on every axis (pointwise sums) and different bins (per axis: plan the common grid, carry both
    operands' arrays over, add). -/
theorem tracksA_iadd_full (fo : FloatOps) (a b : HN) (ga gb : List Grid) (A B : List Row)
    (ta : TracksA fo a ga A) (tb : TracksA fo b gb B) (hlat : lattice ga = lattice gb) (hm : MonoGrids fo ga) :
    ∃ (r : HN) (gr : List Grid), a.iadd fo b = .ok r ∧ TracksA fo r gr (A ++ B) ∧ UnionN ga gb gr ∧
      r.dtype = a.dtype.promote b.dtype ∧ r.keep = a.keep ∧ r.names = a.names := by
  have hlen : ga.length = gb.length := lattice_len_eq hlat
  have hl : a.axes.length = b.axes.length := by rw [ta.hax, tb.hax]; simpa using hlen
  have hmb : MonoGrids fo gb := hm.of_lattice hlat.symm
  have fa := ta.flags
  have fb := tb.flags
  cases hsb : a.sameBins fo b with
  | true =>
    have hbins := sameBins_getElem ta.hax tb.hax hsb
    -- per axis: same count, and the same first cell unless empty
    have hax : ∀ (i : Nat) (g1 g2 : Grid), ga[i]? = some g1 → gb[i]? = some g2 →
        g1.count = g2.count ∧ (0 < g1.count → g1.tmin = g2.tmin) := by
      intro i g1 g2 h1 h2
      obtain ⟨hw, hs⟩ := lattice_getElem? hlat i g1 g2 h1 h2
      exact grids_of_same_bins (hm g1 (List.mem_of_getElem? h1)) hw hs (hbins i g1 g2 h1 h2)
    have hab : b.axesBins fo = a.axesBins fo := by
      rw [HN.axesBins_eq_axesOf, HN.axesBins_eq_axesOf, ta.hax, tb.hax]
      apply axesOf_eq_of_bins fo gb ga hlen.symm
      intro i g2 g1 h2 h1
      exact ⟨(hbins i g1 g2 h1 h2).symm, by rw [(fa g1 (List.mem_of_getElem? h1)).2.2, (fb g2 (List.mem_of_getElem? h2)).2.2]⟩
    have un : UnionN ga gb ga := by
      refine ⟨rfl, hlen.symm, ?_⟩
      intro i g1 g2 g' h1 h2 h'
      rw [h1] at h'
      cases h'
      obtain ⟨hc, ht⟩ := hax i g1 g2 h1 h2
      refine ⟨rfl, rfl, rfl, rfl, rfl, fun hp _ => ?_, fun _ => ⟨rfl, rfl⟩, fun h0 hp => by omega⟩
      have := ht hp
      omega
    refine ⟨_, ga, iaddN_same_eq fo a b hl hsb, ?_, un, rfl, rfl, rfl⟩
    refine ⟨ta.hax, fa, ?_, ?_, ?_, ?_⟩
    · show Arr.zipWith (· + ·) a.freq b.freq = (calcND (a.axesBins fo) (A ++ B)).freq
      rw [ta.freq, tb.freq, hab, calcND_append_freq]
    · show Arr.zipWith (· + ·) a.err2 b.err2 = (calcND (a.axesBins fo) (A ++ B)).err2
      rw [ta.err2, tb.err2, hab, calcND_append_err2]
    · show nadd a.missed b.missed = some 0
      rw [ta.missed, tb.missed]; exact nadd_zero _
    · intro r hr
      rcases List.mem_append.mp hr with h | h
      · exact ta.inside r h
      · exact un.inside_right hlat (tb.inside r h)
  | false =>
    obtain ⟨plans, hpl, f1, f2, un⟩ := plans_spec fo ga gb hlat hm
    have hall : a.axes.all Binning.isAdaptive = true := by
      rw [ta.hax]; exact all_isAdaptive_map_fixed ga (fun g hg => (fa g hg).1)
    have hallow : b.axes.all Binning.adaptiveAllowed = true := by
      rw [tb.hax]; exact all_adaptiveAllowed_map_fixed gb
    have hmiss : ∀ m, b.missed = some m → ¬ 0 < m := by
      intro m hm'
      rw [tb.missed] at hm'
      cases hm'
      exact lt_irrefl _
    have e := iaddN_adapt_bind fo a b hl hsb hall hmiss hallow
    rw [ta.hax, tb.hax, hpl] at e
    have flr := un.flags fa
    have hpire : ∀ p ∈ plans, p.1.ire = false := fun p hp => (flr p.1 (List.mem_map_of_mem hp)).2.2
    have rowsOK : ∀ (gs : List Grid) (rows : List Row), (∀ r ∈ rows, InsideGrids fo gs r.1) →
        ∀ r ∈ rows, r.1.length = ([] : List Binning).length + gs.length ∧
          ∀ (j : Nat) (g : Grid) (x : Rat), gs[j]? = some g → r.1[([] : List Binning).length + j]? = some x →
            InGrid fo g x := by
      intro gs rows hin r hr
      obtain ⟨h1, h2⟩ := hin r hr
      refine ⟨by simpa using h1, ?_⟩
      intro j g x hg hx
      exact h2 j g x hg (by simpa using hx)
    have s1 := planFold_calcND fo true A ga plans f1
      (fun g hg => ⟨(fa g hg).2.2, hm g hg⟩) hpire [] a.freq a.err2
      (by rw [ta.freq, HN.axesBins_eq_axesOf, ta.hax]; rfl) (by rw [ta.err2, HN.axesBins_eq_axesOf, ta.hax]; rfl)
      (rowsOK ga A ta.inside)
    have s2 := planFold_calcND fo false B gb plans f2
      (fun g hg => ⟨(fb g hg).2.2, hmb g hg⟩) hpire [] b.freq b.err2
      (by rw [tb.freq, HN.axesBins_eq_axesOf, tb.hax]; rfl) (by rw [tb.err2, HN.axesBins_eq_axesOf, tb.hax]; rfl)
      (rowsOK gb B tb.inside)
    simp only [List.length_nil, List.nil_append] at s1 s2
    refine ⟨_, plans.map (·.1), e, ?_, un, rfl, rfl, rfl⟩
    refine ⟨by simp [List.map_map, Function.comp], flr, ?_, ?_, ta.missed, ?_⟩
    · show Arr.zipWith (· + ·) _ _ = (calcND (axesOf fo (plans.map fun p => Binning.fixed p.1)) (A ++ B)).freq
      rw [s1.1, s2.1, calcND_append_freq]
    · show Arr.zipWith (· + ·) _ _ = (calcND (axesOf fo (plans.map fun p => Binning.fixed p.1)) (A ++ B)).err2
      rw [s1.2, s2.2, calcND_append_err2]
    · intro r hr
      rcases List.mem_append.mp hr with h | h
      · exact un.inside_left (ta.inside r h)
      · exact un.inside_right hlat (tb.inside r h)

/-! ## Hulls of many ranges -/

/-- the union of two hulls is the hull of both lists -/
theorem SpanList.union {l1 l2 : List Grid} {g1 g2 g : Grid} (s1 : SpanList l1 g1) (s2 : SpanList l2 g2)
    (su : SpanUnion g1 g2 g) : SpanList (l1 ++ l2) g := by
  refine ⟨?_, ?_, ?_⟩
  · intro x hx hp
    rcases List.mem_append.mp hx with h | h
    · have c := s1.covers x h hp
      by_cases hb : g2.count = 0
      · have := su.rightEmpty hb; omega
      · have := su.both (by omega) (Nat.pos_of_ne_zero hb); omega
    · have c := s2.covers x h hp
      by_cases ha : g1.count = 0
      · have := su.leftEmpty ha (by omega); omega
      · have := su.both (Nat.pos_of_ne_zero ha) (by omega); omega
  · intro hp
    have left : 0 < g1.count → g1.tmin = g.tmin → ∃ x ∈ l1 ++ l2, 0 < x.count ∧ x.tmin = g.tmin := by
      intro h1 he
      obtain ⟨x, hx, px, ex⟩ := s1.loTight h1
      exact ⟨x, List.mem_append_left _ hx, px, ex.trans he⟩
    have right : 0 < g2.count → g2.tmin = g.tmin → ∃ x ∈ l1 ++ l2, 0 < x.count ∧ x.tmin = g.tmin := by
      intro h2 he
      obtain ⟨x, hx, px, ex⟩ := s2.loTight h2
      exact ⟨x, List.mem_append_right _ hx, px, ex.trans he⟩
    by_cases ha : g1.count = 0 <;> by_cases hb : g2.count = 0
    · have := su.rightEmpty hb; omega
    · have := su.leftEmpty ha (Nat.pos_of_ne_zero hb); exact right (by omega) (by omega)
    · have := su.rightEmpty hb; exact left (by omega) (by omega)
    · have := su.both (Nat.pos_of_ne_zero ha) (Nat.pos_of_ne_zero hb)
      by_cases hle : g1.tmin ≤ g2.tmin
      · exact left (by omega) (by omega)
      · exact right (by omega) (by omega)
  · intro hp
    have left : 0 < g1.count → g1.tmin + g1.count = g.tmin + g.count →
        ∃ x ∈ l1 ++ l2, 0 < x.count ∧ x.tmin + x.count = g.tmin + g.count := by
      intro h1 he
      obtain ⟨x, hx, px, ex⟩ := s1.hiTight h1
      exact ⟨x, List.mem_append_left _ hx, px, ex.trans he⟩
    have right : 0 < g2.count → g2.tmin + g2.count = g.tmin + g.count →
        ∃ x ∈ l1 ++ l2, 0 < x.count ∧ x.tmin + x.count = g.tmin + g.count := by
      intro h2 he
      obtain ⟨x, hx, px, ex⟩ := s2.hiTight h2
      exact ⟨x, List.mem_append_right _ hx, px, ex.trans he⟩
    by_cases ha : g1.count = 0 <;> by_cases hb : g2.count = 0
    · have := su.rightEmpty hb; omega
    · have := su.leftEmpty ha (Nat.pos_of_ne_zero hb); exact right (by omega) (by omega)
    · have := su.rightEmpty hb; exact left (by omega) (by omega)
    · have := su.both (Nat.pos_of_ne_zero ha) (Nat.pos_of_ne_zero hb)
      by_cases hle : g2.tmin + g2.count ≤ g1.tmin + g1.count
      · exact left (by omega) (by omega)
      · exact right (by omega) (by omega)

/-- the hull of a collection of ranges is unique (and does not depend on order or repetitions) -/
theorem SpanList.unique {l l' : List Grid} {g g' : Grid} (s : SpanList l g) (s' : SpanList l' g')
    (hmem : ∀ x, x ∈ l ↔ x ∈ l') : (g.count = 0 ∧ g'.count = 0) ∨ (g.tmin = g'.tmin ∧ g.count = g'.count) := by
  by_cases hp : 0 < g.count
  · obtain ⟨x, hx, px, ex⟩ := s.loTight hp
    obtain ⟨y, hy, py, ey⟩ := s.hiTight hp
    have cx := s'.covers x ((hmem x).mp hx) px
    have cy := s'.covers y ((hmem y).mp hy) py
    have hp' : 0 < g'.count := by omega
    obtain ⟨x', hx', px', ex'⟩ := s'.loTight hp'
    obtain ⟨y', hy', py', ey'⟩ := s'.hiTight hp'
    have cx' := s.covers x' ((hmem x').mpr hx') px'
    have cy' := s.covers y' ((hmem y').mpr hy') py'
    right; omega
  · by_cases hp' : 0 < g'.count
    · obtain ⟨x', hx', px', ex'⟩ := s'.loTight hp'
      have cx' := s.covers x' ((hmem x').mpr hx') px'
      omega
    · left; omega

/-- **Per axis the grid is the hull of all the operands' ranges** (`SpanList`: every non-empty range is
    contained, both ends are attained; all operands empty on an axis: the result is empty there). -/
structure HullAll (gss : List (List Grid)) (gr : List Grid) : Prop where
  len : ∀ gs ∈ gss, gs.length = gr.length
  each : ∀ (i : Nat) (g' : Grid), gr[i]? = some g' → SpanList (gss.filterMap (·[i]?)) g'

theorem HullAll.single (g : List Grid) : HullAll [g] g := by
  refine ⟨by simp, ?_⟩
  intro i g' hg'
  simp only [List.filterMap_cons, hg', List.filterMap_nil]
  exact SpanList.single g'

theorem HullAll.union {L1 L2 : List (List Grid)} {g1 g2 gr : List Grid} (h1 : HullAll L1 g1) (h2 : HullAll L2 g2)
    (u : UnionN g1 g2 gr) : HullAll (L1 ++ L2) gr := by
  refine ⟨?_, ?_⟩
  · intro gs hgs
    rcases List.mem_append.mp hgs with h | h
    · rw [h1.len gs h, u.len]
    · rw [h2.len gs h, u.lenb, u.len]
  · intro i g' hg'
    have hi : i < gr.length := (List.getElem?_eq_some_iff.mp hg').1
    have hi1 : i < g1.length := by rw [← u.len]; exact hi
    have hi2 : i < g2.length := by rw [u.lenb]; exact hi1
    rw [List.filterMap_append]
    exact (h1.each i _ (List.getElem?_eq_getElem hi1)).union (h2.each i _ (List.getElem?_eq_getElem hi2))
      (u.each i _ _ g' (List.getElem?_eq_getElem hi1) (List.getElem?_eq_getElem hi2) hg').2.2.2.2.2

/-- two hulls of the same collection of operand grids (in any order, with any repetitions) on the same
    lattice have the same bins on every axis -/
theorem HullAll.axesOf_eq (fo : FloatOps) {L1 L2 : List (List Grid)} {g1 g2 : List Grid} (h1 : HullAll L1 g1)
    (h2 : HullAll L2 g2) (hmem : ∀ x, x ∈ L1 ↔ x ∈ L2) (hlat : lattice g1 = lattice g2)
    (f1 : ∀ g ∈ g1, g.ire = false) (f2 : ∀ g ∈ g2, g.ire = false) :
    axesOf fo (g1.map Binning.fixed) = axesOf fo (g2.map Binning.fixed) := by
  apply axesOf_eq_of_bins fo g1 g2 (lattice_len_eq hlat)
  intro i x1 x2 hx1 hx2
  obtain ⟨hw, hs⟩ := lattice_getElem? hlat i x1 x2 hx1 hx2
  refine ⟨?_, by rw [f1 x1 (List.mem_of_getElem? hx1), f2 x2 (List.mem_of_getElem? hx2)]⟩
  apply bins_eq_of_range fo hw hs
  apply (h1.each i x1 hx1).unique (h2.each i x2 hx2)
  intro x
  simp only [List.mem_filterMap]
  constructor
  · rintro ⟨gs, hgs, e⟩; exact ⟨gs, (hmem gs).mp hgs, e⟩
  · rintro ⟨gs, hgs, e⟩; exact ⟨gs, (hmem gs).mpr hgs, e⟩

/-! ## 2. Agreement of two sums; commutativity, associativity -/

theorem monoGrids_of_lattice {fo : FloatOps} {lat : List (Rat × Rat)} (hm : ∀ p ∈ lat, EdgeMono fo p.1 p.2)
    {gs : List Grid} (h : lattice gs = lat) : MonoGrids fo gs := by
  intro g hg
  have : (g.w, g.shift) ∈ lattice gs := List.mem_map_of_mem (f := fun g : Grid => (g.w, g.shift)) hg
  rw [h] at this
  exact hm _ this

/-- two all-adaptive states over the same bins that hold the same rows in any order agree -/
theorem tracksA_agree_perm {fo : FloatOps} {r1 r2 : HN} {g1 g2 : List Grid} {R1 R2 : List Row}
    (t1 : TracksA fo r1 g1 R1) (t2 : TracksA fo r2 g2 R2) (hp : R1.Perm R2)
    (hb : axesOf fo (g1.map Binning.fixed) = axesOf fo (g2.map Binning.fixed)) :
    r1.axesBins fo = r2.axesBins fo ∧ r1.freq = r2.freq ∧ r1.err2 = r2.err2 ∧ r1.missed = r2.missed ∧
      r1.total = r2.total := by
  have hab : r1.axesBins fo = r2.axesBins fo := by
    rw [HN.axesBins_eq_axesOf, HN.axesBins_eq_axesOf, t1.hax, t2.hax, hb]
  have hf : r1.freq = r2.freq := by rw [t1.freq, t2.freq, hab, calcND_perm _ _ _ hp]
  refine ⟨hab, hf, ?_, by rw [t1.missed, t2.missed], by unfold HN.total; rw [hf]⟩
  rw [t1.err2, t2.err2, hab, calcND_perm _ _ _ hp]

/-- two hulls of the same operand grids with no empty axis are the same grids -/
theorem HullAll.grids_eq {L1 L2 : List (List Grid)} {g1 g2 : List Grid} (h1 : HullAll L1 g1)
    (h2 : HullAll L2 g2) (hmem : ∀ x, x ∈ L1 ↔ x ∈ L2) (hlat : lattice g1 = lattice g2)
    (f1 : ∀ g ∈ g1, g.adaptive = true ∧ g.align = true ∧ g.ire = false)
    (f2 : ∀ g ∈ g2, g.adaptive = true ∧ g.align = true ∧ g.ire = false)
    (hpos : ∀ g ∈ g1, 0 < g.count) : g1 = g2 := by
  apply List.ext_getElem?
  intro i
  have hlen := lattice_len_eq hlat
  by_cases hi : i < g1.length
  · have hi' : i < g2.length := by omega
    have hx1 := List.getElem?_eq_getElem hi
    have hx2 := List.getElem?_eq_getElem hi'
    obtain ⟨hw, hs⟩ := lattice_getElem? hlat i _ _ hx1 hx2
    have hu := (h1.each i _ hx1).unique (h2.each i _ hx2) (by
      intro x
      simp only [List.mem_filterMap]
      constructor
      · rintro ⟨gs, hgs, e⟩; exact ⟨gs, (hmem gs).mp hgs, e⟩
      · rintro ⟨gs, hgs, e⟩; exact ⟨gs, (hmem gs).mpr hgs, e⟩)
    have := hpos _ (List.getElem_mem hi)
    obtain ⟨a1, a2, a3⟩ := f1 _ (List.getElem_mem hi)
    obtain ⟨b1, b2, b3⟩ := f2 _ (List.getElem_mem hi')
    rw [hx1, hx2]
    congr 1
    exact grid_ext hw hs (by omega) (by omega) (by rw [a2, b2]) (by rw [a1, b1]) (by rw [a3, b3])
  · rw [List.getElem?_eq_none (by omega), List.getElem?_eq_none (by omega)]

/-- **2. Addition of all-adaptive N-d histograms is commutative**: `a + b` and `b + a` are both accepted and
    agree on the bins and right-edge rule of every axis, contents, squared errors, missed, total and dtype;
    and on the axis records themselves when no axis is empty in both operands. -/
theorem tracksA_iadd_comm (fo : FloatOps) (a b : HN) (ga gb : List Grid) (A B : List Row)
    (ta : TracksA fo a ga A) (tb : TracksA fo b gb B) (hlat : lattice ga = lattice gb) (hm : MonoGrids fo ga) :
    ∃ r1 r2 : HN, a.iadd fo b = .ok r1 ∧ b.iadd fo a = .ok r2 ∧
      r1.axesBins fo = r2.axesBins fo ∧ r1.freq = r2.freq ∧ r1.err2 = r2.err2 ∧ r1.missed = r2.missed ∧
      r1.total = r2.total ∧ r1.dtype = r2.dtype ∧
      ((∀ (i : Nat) (g1 g2 : Grid), ga[i]? = some g1 → gb[i]? = some g2 → 0 < g1.count ∨ 0 < g2.count) →
        r1.axes = r2.axes) := by
  have hmb : MonoGrids fo gb := hm.of_lattice hlat.symm
  obtain ⟨r1, g1, e1, t1, u1, d1, _⟩ := tracksA_iadd_full fo a b ga gb A B ta tb hlat hm
  obtain ⟨r2, g2, e2, t2, u2, d2, _⟩ := tracksA_iadd_full fo b a gb ga B A tb ta hlat.symm hmb
  have h1 : HullAll [ga, gb] g1 := (HullAll.single ga).union (HullAll.single gb) u1
  have h2 : HullAll [gb, ga] g2 := (HullAll.single gb).union (HullAll.single ga) u2
  have hmem : ∀ x, x ∈ [ga, gb] ↔ x ∈ [gb, ga] := by intro x; simp [or_comm]
  have hl : lattice g1 = lattice g2 := by rw [u1.lattice, u2.lattice, hlat]
  have hb := h1.axesOf_eq fo h2 hmem hl (fun g hg => (t1.flags g hg).2.2) (fun g hg => (t2.flags g hg).2.2)
  obtain ⟨b1, b2, b3, b4, b5⟩ := tracksA_agree_perm t1 t2 List.perm_append_comm hb
  refine ⟨r1, r2, e1, e2, b1, b2, b3, b4, b5, ?_, ?_⟩
  · rw [d1, d2]; exact (C13_promote_algebra.1 _ (DType.mem_all _) _ (DType.mem_all _))
  · intro hne
    rw [t1.hax, t2.hax]
    congr 1
    apply h1.grids_eq h2 hmem hl t1.flags t2.flags
    intro g hg
    obtain ⟨i, hi, rfl⟩ := List.getElem_of_mem hg
    have hia : i < ga.length := by rw [← u1.len]; exact hi
    have hib : i < gb.length := by rw [u1.lenb]; exact hia
    have sp := (u1.each i _ _ _ (List.getElem?_eq_getElem hia) (List.getElem?_eq_getElem hib)
      (List.getElem?_eq_getElem hi)).2.2.2.2.2
    exact sp.pos_iff.mpr (hne i _ _ (List.getElem?_eq_getElem hia) (List.getElem?_eq_getElem hib))

/-- **Addition of all-adaptive N-d histograms is associative**: `(a + b) + c` and `a + (b + c)` are accepted
    and agree on bins, contents, squared errors, missed, total and dtype. -/
theorem tracksA_iadd_assoc (fo : FloatOps) (a b c : HN) (ga gb gc : List Grid) (A B C : List Row)
    (ta : TracksA fo a ga A) (tb : TracksA fo b gb B) (tc : TracksA fo c gc C)
    (hlat : lattice ga = lattice gb) (hlat2 : lattice gb = lattice gc) (hm : MonoGrids fo ga) :
    ∃ ab abc bc abc' : HN, a.iadd fo b = .ok ab ∧ ab.iadd fo c = .ok abc ∧
      b.iadd fo c = .ok bc ∧ a.iadd fo bc = .ok abc' ∧
      abc.axesBins fo = abc'.axesBins fo ∧ abc.freq = abc'.freq ∧ abc.err2 = abc'.err2 ∧
      abc.missed = abc'.missed ∧ abc.total = abc'.total ∧ abc.dtype = abc'.dtype := by
  have hmb : MonoGrids fo gb := hm.of_lattice hlat.symm
  obtain ⟨ab, g1, e1, t1, u1, d1, _⟩ := tracksA_iadd_full fo a b ga gb A B ta tb hlat hm
  obtain ⟨abc, g2, e2, t2, u2, d2, _⟩ := tracksA_iadd_full fo ab c g1 gc (A ++ B) C t1 tc
    (by rw [u1.lattice, hlat, hlat2]) (hm.of_lattice u1.lattice)
  obtain ⟨bc, g3, e3, t3, u3, d3, _⟩ := tracksA_iadd_full fo b c gb gc B C tb tc hlat2 hmb
  obtain ⟨abc', g4, e4, t4, u4, d4, _⟩ := tracksA_iadd_full fo a bc ga g3 A (B ++ C) ta t3
    (by rw [u3.lattice, hlat]) hm
  have h2 : HullAll ([ga, gb] ++ [gc]) g2 :=
    ((HullAll.single ga).union (HullAll.single gb) u1).union (HullAll.single gc) u2
  have h4 : HullAll ([ga] ++ [gb, gc]) g4 :=
    (HullAll.single ga).union ((HullAll.single gb).union (HullAll.single gc) u3) u4
  have hl : lattice g2 = lattice g4 := by rw [u2.lattice, u1.lattice, u4.lattice]
  have hb := h2.axesOf_eq fo h4 (fun x => Iff.rfl) hl (fun g hg => (t2.flags g hg).2.2)
    (fun g hg => (t4.flags g hg).2.2)
  obtain ⟨b1, b2, b3, b4, b5⟩ := tracksA_agree_perm t2 t4 (by rw [List.append_assoc]) hb
  refine ⟨ab, abc, bc, abc', e1, e2, e3, e4, b1, b2, b3, b4, b5, ?_⟩
  rw [d2, d1, d4, d3]
  exact (C13_promote_algebra.2.2 _ (DType.mem_all _) _ (DType.mem_all _) _ (DType.mem_all _))

/-! ## 3. Sums over any list of chunks, in any bracketing and any order -/

/-- **`sum()` over a list of chunk histograms** (left fold of `+=`): every chunk `p.1` holds the histogram of
    its rows `p.2.2` on its own grids `p.2.1`, all on the same lattice.  Every step is accepted and the result
    holds the histogram of all the rows over, per axis, the hull of all the chunk ranges. -/
theorem tracksA_sum (fo : FloatOps) (lat : List (Rat × Rat)) (hm : ∀ p ∈ lat, EdgeMono fo p.1 p.2)
    (rest : List (HN × List Grid × List Row))
    (hrest : ∀ p ∈ rest, TracksA fo p.1 p.2.1 p.2.2 ∧ lattice p.2.1 = lat)
    (first : HN) (gf : List Grid) (F : List Row) (tf : TracksA fo first gf F) (hlf : lattice gf = lat) :
    ∃ (r : HN) (gr : List Grid), rest.foldlM (fun acc p => acc.iadd fo p.1) first = .ok r ∧
      TracksA fo r gr (F ++ (rest.map (·.2.2)).flatten) ∧ lattice gr = lat ∧
      HullAll (gf :: rest.map (·.2.1)) gr := by
  suffices key : ∀ (rest : List (HN × List Grid × List Row)),
      (∀ p ∈ rest, TracksA fo p.1 p.2.1 p.2.2 ∧ lattice p.2.1 = lat) →
      ∀ (first : HN) (gf : List Grid) (F : List Row) (L0 : List (List Grid)), TracksA fo first gf F →
        lattice gf = lat → HullAll L0 gf →
        ∃ (r : HN) (gr : List Grid), rest.foldlM (fun acc p => acc.iadd fo p.1) first = .ok r ∧
          TracksA fo r gr (F ++ (rest.map (·.2.2)).flatten) ∧ lattice gr = lat ∧
          HullAll (L0 ++ rest.map (·.2.1)) gr by
    simpa using key rest hrest first gf F [gf] tf hlf (HullAll.single gf)
  intro rest
  induction rest with
  | nil =>
    intro _ first gf F L0 tf hlf h0
    exact ⟨first, gf, rfl, by simpa using tf, hlf, by simpa using h0⟩
  | cons p ps ih =>
    intro hrest first gf F L0 tf hlf h0
    obtain ⟨tp, hlp⟩ := hrest p (List.mem_cons_self ..)
    obtain ⟨m, gm, em, tm, um, _⟩ := tracksA_iadd_full fo first p.1 gf p.2.1 F p.2.2 tf tp (by rw [hlf, hlp])
      (monoGrids_of_lattice hm hlf)
    obtain ⟨r, gr, er, tr, hlr, hr⟩ := ih (fun q hq => hrest q (List.mem_cons_of_mem _ hq)) m gm (F ++ p.2.2)
      (L0 ++ [p.2.1]) tm (um.lattice.trans hlf) (h0.union (HullAll.single p.2.1) um)
    refine ⟨r, gr, ?_, ?_, hlr, ?_⟩
    · simp only [List.foldlM_cons, bind, Except.bind, em]
      exact er
    · have : F ++ ((p :: ps).map (·.2.2)).flatten = F ++ p.2.2 ++ (ps.map (·.2.2)).flatten := by
        simp [List.append_assoc]
      rw [this]; exact tr
    · simpa [List.append_assoc] using hr

/-- a way of summing chunk histograms: the leaves are the chunks (histogram, its grids, its rows), the inner
    nodes are additions -/
inductive SumTree where
  | leaf (h : HN) (g : List Grid) (rows : List Row)
  | add (l r : SumTree)

namespace SumTree

/-- evaluate the additions (`l + r`: the left result is the object `+=` is called on) -/
def eval (fo : FloatOps) : SumTree → R HN
  | leaf h _ _ => .ok h
  | add l r => (l.eval fo).bind fun a => (r.eval fo).bind fun b => a.iadd fo b

def leaves : SumTree → List (HN × List Grid × List Row)
  | leaf h g rows => [(h, g, rows)]
  | add l r => l.leaves ++ r.leaves

/-- all the rows, in the order of the leaves -/
def rows (t : SumTree) : List Row := (t.leaves.map (·.2.2)).flatten

/-- the grids of the chunks -/
def grids (t : SumTree) : List (List Grid) := t.leaves.map (·.2.1)

/-- every chunk histogram holds the histogram of its rows on its own adaptive grids, all on one lattice -/
def Good (fo : FloatOps) (lat : List (Rat × Rat)) (t : SumTree) : Prop :=
  ∀ p ∈ t.leaves, TracksA fo p.1 p.2.1 p.2.2 ∧ lattice p.2.1 = lat

end SumTree

/-- **Any bracketing of the additions**: accepted at every node, and the result holds the histogram of all
    the rows over, per axis, the hull of all the chunk ranges. -/
theorem sumTree_spec (fo : FloatOps) (lat : List (Rat × Rat)) (hm : ∀ p ∈ lat, EdgeMono fo p.1 p.2)
    (t : SumTree) (good : t.Good fo lat) :
    ∃ (r : HN) (gr : List Grid), t.eval fo = .ok r ∧ TracksA fo r gr t.rows ∧ lattice gr = lat ∧
      HullAll t.grids gr := by
  induction t with
  | leaf h g rows =>
    obtain ⟨th, hl⟩ := good (h, g, rows) (by simp [SumTree.leaves])
    exact ⟨h, g, rfl, by simpa [SumTree.rows, SumTree.leaves] using th, hl,
      by simpa [SumTree.grids, SumTree.leaves] using HullAll.single g⟩
  | add l r ihl ihr =>
    obtain ⟨a, ga, ea, ta, la, ha⟩ := ihl (fun p hp => good p (by simp [SumTree.leaves, hp]))
    obtain ⟨b, gb, eb, tb, lb, hb⟩ := ihr (fun p hp => good p (by simp [SumTree.leaves, hp]))
    obtain ⟨m, gm, em, tm, um, _⟩ := tracksA_iadd_full fo a b ga gb l.rows r.rows ta tb (by rw [la, lb])
      (monoGrids_of_lattice hm la)
    refine ⟨m, gm, ?_, ?_, um.lattice.trans la, ?_⟩
    · simp only [SumTree.eval, ea, eb, Except.bind]
      exact em
    · have : (SumTree.add l r).rows = l.rows ++ r.rows := by
        simp [SumTree.rows, SumTree.leaves, List.flatten_append]
      rw [this]; exact tm
    · have : (SumTree.add l r).grids = l.grids ++ r.grids := by simp [SumTree.grids, SumTree.leaves]
      rw [this]; exact ha.union hb um

/-- **Any bracketing, any order**: two ways of summing the same chunks (the leaves of one tree are a
    permutation of the leaves of the other) are both accepted and give the same bins on every axis, the same
    contents, squared errors, missed and total. -/
theorem sumTree_agree (fo : FloatOps) (lat : List (Rat × Rat)) (hm : ∀ p ∈ lat, EdgeMono fo p.1 p.2)
    (t1 t2 : SumTree) (good1 : t1.Good fo lat) (hp : t1.leaves.Perm t2.leaves) :
    ∃ r1 r2 : HN, t1.eval fo = .ok r1 ∧ t2.eval fo = .ok r2 ∧
      r1.axesBins fo = r2.axesBins fo ∧ r1.freq = r2.freq ∧ r1.err2 = r2.err2 ∧ r1.missed = r2.missed ∧
      r1.total = r2.total := by
  have good2 : t2.Good fo lat := fun p hp2 => good1 p (hp.mem_iff.mpr hp2)
  obtain ⟨r1, g1, e1, tr1, l1, h1⟩ := sumTree_spec fo lat hm t1 good1
  obtain ⟨r2, g2, e2, tr2, l2, h2⟩ := sumTree_spec fo lat hm t2 good2
  have hb := h1.axesOf_eq fo h2 (fun x => (hp.map (·.2.1)).mem_iff) (l1.trans l2.symm)
    (fun g hg => (tr1.flags g hg).2.2) (fun g hg => (tr2.flags g hg).2.2)
  have hrows : t1.rows.Perm t2.rows := (hp.map (fun p : HN × List Grid × List Row => p.2.2)).flatten
  exact ⟨r1, r2, e1, e2, tracksA_agree_perm tr1 tr2 hrows hb⟩

/-! ## Adding `b` = filling the rows of `b` -/

/-- if the right operand's range is the hull of its own data (it was filled from empty), the union of both
    ranges is the hull of the left range and the right operand's data -/
theorem SpanUnion.toHull {edge : Int → Rat} {g0 g1 g2 g : Grid} {vs : List Rat} (su : SpanUnion g1 g2 g)
    (hw : g.w = g1.w) (hs : g.shift = g1.shift) (sp0 : SpanHull edge g0 g2 vs) (h0 : g0.count = 0) :
    SpanHull edge g1 g vs := by
  have p2 : vs ≠ [] → 0 < g2.count := fun h => sp0.pos (Or.inr h)
  have e2 : vs = [] → g2.count = 0 := fun h => by have := sp0.stay h; omega
  refine ⟨hw, hs, ?_, ?_, ?_, ?_, ?_, ?_, ?_⟩
  · intro hp
    by_cases hb : g2.count = 0
    · have := su.rightEmpty hb; omega
    · have := su.both hp (Nat.pos_of_ne_zero hb); omega
  · intro hp
    by_cases hb : g2.count = 0
    · have := su.rightEmpty hb; omega
    · have := su.both hp (Nat.pos_of_ne_zero hb); omega
  · intro v hv
    obtain ⟨k, hk, h1, h2⟩ := sp0.covers v hv
    refine ⟨k, hk, ?_⟩
    by_cases ha : g1.count = 0
    · have := su.leftEmpty ha (by omega); omega
    · have := su.both (Nat.pos_of_ne_zero ha) (by omega); omega
  · rintro (hp | hv)
    · exact su.pos_iff.mpr (Or.inl hp)
    · exact su.pos_iff.mpr (Or.inr (p2 hv))
  · intro hp
    have right : 0 < g2.count → g.tmin = g2.tmin → ∃ v ∈ vs, CellOf edge v g.tmin := by
      intro hb he
      rcases sp0.loTight hb with ⟨h, _⟩ | ⟨v, hv, hc⟩
      · omega
      · exact ⟨v, hv, by rw [he]; exact hc⟩
    by_cases ha : g1.count = 0 <;> by_cases hb : g2.count = 0
    · have := su.rightEmpty hb; omega
    · have := su.leftEmpty ha (Nat.pos_of_ne_zero hb); exact Or.inr (right (by omega) (by omega))
    · have := su.rightEmpty hb; exact Or.inl ⟨by omega, by omega⟩
    · have := su.both (Nat.pos_of_ne_zero ha) (Nat.pos_of_ne_zero hb)
      by_cases hle : g1.tmin ≤ g2.tmin
      · exact Or.inl ⟨by omega, by omega⟩
      · exact Or.inr (right (by omega) (by omega))
  · intro hp
    have right : 0 < g2.count → g.tmin + g.count = g2.tmin + g2.count →
        ∃ v ∈ vs, CellOf edge v (g.tmin + g.count - 1) := by
      intro hb he
      rcases sp0.hiTight hb with ⟨h, _⟩ | ⟨v, hv, hc⟩
      · omega
      · exact ⟨v, hv, by rw [he]; exact hc⟩
    by_cases ha : g1.count = 0 <;> by_cases hb : g2.count = 0
    · have := su.rightEmpty hb; omega
    · have := su.leftEmpty ha (Nat.pos_of_ne_zero hb); exact Or.inr (right (by omega) (by omega))
    · have := su.rightEmpty hb; exact Or.inl ⟨by omega, by omega⟩
    · have := su.both (Nat.pos_of_ne_zero ha) (Nat.pos_of_ne_zero hb)
      by_cases hle : g2.tmin + g2.count ≤ g1.tmin + g1.count
      · exact Or.inl ⟨by omega, by omega⟩
      · exact Or.inr (right (by omega) (by omega))
  · intro hv
    exact su.rightEmpty (e2 hv)

/-- N-d: if the right operand's grids are the hull of its rows `E` (grown from empty grids `g0`), the grids
    of the sum are what filling the rows `E` into the left operand produces (`HullN`) -/
theorem UnionN.toHullN (fo : FloatOps) {ga gb g0 gr : List Grid} {E : List (List Rat)} (u : UnionN ga gb gr)
    (hlat : Physt.lattice ga = Physt.lattice gb) (h0 : HullN fo g0 gb E) (hz : ∀ g ∈ g0, g.count = 0) :
    HullN fo ga gr E := by
  refine ⟨u.len, ?_⟩
  intro i g1 g' h1 h'
  have hi : i < ga.length := (List.getElem?_eq_some_iff.mp h1).1
  have hib : i < gb.length := by rw [u.lenb]; exact hi
  have hi0 : i < g0.length := by rw [← h0.len]; exact hib
  have sp0 := h0.each i _ _ (List.getElem?_eq_getElem hi0) (List.getElem?_eq_getElem hib)
  obtain ⟨hw, hs, _, _, _, su⟩ := u.each i g1 _ g' h1 (List.getElem?_eq_getElem hib) h'
  obtain ⟨lw, ls⟩ := lattice_getElem? hlat i g1 _ h1 (List.getElem?_eq_getElem hib)
  have he : fo.edge g0[i].w g0[i].shift = fo.edge g1.w g1.shift := by rw [← sp0.w, ← sp0.shift, lw, ls]
  rw [he] at sp0
  exact su.toHull hw hs sp0 (hz _ (List.getElem_mem hi0))

/-- filling keeps every axis on its lattice -/
theorem HullN.lattice_eq {fo : FloatOps} {gs gs' : List Grid} {E : List (List Rat)} (h : HullN fo gs gs' E) :
    lattice gs' = lattice gs := by
  apply List.ext_getElem?
  intro i
  simp only [lattice, List.getElem?_map]
  by_cases hi : i < gs.length
  · have hi' : i < gs'.length := by rw [h.len]; exact hi
    have sp := h.each i _ _ (List.getElem?_eq_getElem hi) (List.getElem?_eq_getElem hi')
    rw [List.getElem?_eq_getElem hi, List.getElem?_eq_getElem hi']
    simp [sp.w, sp.shift]
  · rw [List.getElem?_eq_none (by rw [h.len]; omega), List.getElem?_eq_none (by omega)]

/-- **`a + b` is what FILLING the rows of `b` into `a` gives** — same axis records, contents, squared errors
    and missed — when the ranges of `b` are the hull of its own rows (`b` was filled from empty grids `g0`);
    `ops` is any sequence of `fill` / `fill_n` calls that enters the rows `B` in order. -/
theorem tracksA_iadd_eq_fill (fo : FloatOps) (fuel : Nat) (a b : HN) (ga gb g0 : List Grid) (A B : List Row)
    (ta : TracksA fo a ga A) (tb : TracksA fo b gb B) (hlat : lattice ga = lattice gb) (hm : MonoGrids fo ga)
    (hb0 : HullN fo g0 gb (B.map (·.1))) (hz : ∀ g ∈ g0, g.count = 0)
    (ops : List OpN) (hops : enteredRows ops = B)
    (hv : ∀ op ∈ ops, op.Valid ga.length) (hacc : ∀ op ∈ ops, op.Accepted ga.length)
    (hreach : ∀ r ∈ B, ReachGrids fo fuel ga r.1) :
    ∃ r r' : HN, a.iadd fo b = .ok r ∧ ops.foldlM (OpN.apply fo fuel) a = .ok r' ∧
      r.axes = r'.axes ∧ r.freq = r'.freq ∧ r.err2 = r'.err2 ∧ r.missed = r'.missed := by
  obtain ⟨r, gr, e, t, u, _⟩ := tracksA_iadd_full fo a b ga gb A B ta tb hlat hm
  obtain ⟨r', gr', e', t', u', _⟩ := tracksA_history fo fuel ops a ga A ta hm hv hacc (by rw [hops]; exact hreach)
  rw [hops] at t' u'
  obtain ⟨_, h1, h2, h3, h4⟩ := tracksA_agree hm t t' (u.toHullN fo hlat hb0 hz) u'
  exact ⟨r, r', e, e', h1, h2, h3, h4⟩

/-! ## Refusals: a width or origin mismatch on some axis -/

theorem mapM_error_of_getElem {α β} (f : α → R β) (l : List α) (i : Nat) (x : α) (e : String)
    (hx : l[i]? = some x) (he : f x = .error e) : ∃ e', l.mapM f = .error e' ∧ ∃ y ∈ l, f y = .error e' := by
  induction l generalizing i with
  | nil => simp at hx
  | cons a l ih =>
    rw [List.mapM_cons]
    cases ha : f a with
    | error e0 => exact ⟨e0, rfl, a, List.mem_cons_self .., ha⟩
    | ok b =>
      cases i with
      | zero =>
        simp only [List.getElem?_cons_zero, Option.some.injEq] at hx
        subst hx
        rw [ha] at he
        cases he
      | succ i =>
        obtain ⟨e', h1, y, hy, h2⟩ := ih i (by simpa using hx)
        refine ⟨e', ?_, y, List.mem_cons_of_mem _ hy, h2⟩
        simp only [bind, Except.bind, h1]

/-- the only complaints of `FixedWidthBinning._adapt` -/
theorem adaptGrids_error (g1 g2 : Grid) (e : String) (h : adaptGrids g1 g2 = .error e) :
    (e = "different widths" ∧ g1.w ≠ g2.w) ∨ (e = "different shifts" ∧ g1.shift ≠ g2.shift) := by
  unfold adaptGrids at h
  simp only [bind, Except.bind, pure, Except.pure, throw, throwThe, MonadExceptOf.throw] at h
  by_cases hw : g1.w = g2.w
  · by_cases hs : g1.shift = g2.shift
    · simp only [hw, hs, bne_self_eq_false, Bool.false_eq_true, if_false] at h
      split at h
      · cases h
      · split at h <;> cases h
    · right
      have : (g1.shift != g2.shift) = true := by simpa using hs
      simp only [hw, bne_self_eq_false, Bool.false_eq_true, if_false, this, if_true] at h
      cases h
      exact ⟨rfl, hs⟩
  · left
    have : (g1.w != g2.w) = true := by simpa using hw
    simp only [this, if_true] at h
    cases h
    exact ⟨rfl, hw⟩

theorem adaptGrids_mismatch (g1 g2 : Grid) (h : g1.w ≠ g2.w ∨ g1.shift ≠ g2.shift) :
    ∃ e, adaptGrids g1 g2 = .error e := by
  cases hr : adaptGrids g1 g2 with
  | error e => exact ⟨e, rfl⟩
  | ok p =>
    obtain ⟨g', r1, r2⟩ := p
    exfalso
    unfold adaptGrids at hr
    simp only [bind, Except.bind, pure, Except.pure, throw, throwThe, MonadExceptOf.throw] at hr
    by_cases hw : g1.w = g2.w
    · have hs : g1.shift ≠ g2.shift := by
        rcases h with h | h
        · exact (h hw).elim
        · exact h
      have : (g1.shift != g2.shift) = true := by simpa using hs
      simp [hw, this] at hr
    · have : (g1.w != g2.w) = true := by simpa using hw
      simp [this] at hr

theorem planOf_fixed_error (fo : FloatOps) (g1 g2 : Grid) (e : String)
    (h : planOf fo (.fixed g1, .fixed g2) = .error e) : e = "different widths" ∨ e = "different shifts" := by
  simp only [planOf, pure, Except.pure] at h
  split at h
  · cases h
  · rcases adaptGrids_error g1 g2 e h with ⟨h1, _⟩ | ⟨h1, _⟩
    · exact Or.inl h1
    · exact Or.inr h1

/-- **A width or origin mismatch on SOME axis refuses the whole addition** (when the bins of that axis differ —
    two axes that are both empty have equal bins whatever their widths): with an all-adaptive left operand
    and a right operand on fixed-width axes without positive missed, the call returns `.error` with the
    message of `FixedWidthBinning._adapt`; nothing of the left operand is changed. -/
theorem iaddN_lattice_refused_msg (fo : FloatOps) (a b : HN) (ga gb : List Grid) (ha : a.axes = ga.map Binning.fixed)
    (hb : b.axes = gb.map Binning.fixed) (hlen : ga.length = gb.length)
    (hall : ∀ g ∈ ga, g.adaptive = true) (hmiss : ∀ m, b.missed = some m → ¬ 0 < m)
    (i : Nat) (g1 g2 : Grid) (h1 : ga[i]? = some g1) (h2 : gb[i]? = some g2)
    (hbins : g1.bins fo ≠ g2.bins fo) (hmis : g1.w ≠ g2.w ∨ g1.shift ≠ g2.shift) :
    ∃ e, a.iadd fo b = .error e ∧ (e = "different widths" ∨ e = "different shifts") := by
  have hl : a.axes.length = b.axes.length := by rw [ha, hb]; simpa using hlen
  have hs : a.sameBins fo b = false := by
    cases hsb : a.sameBins fo b with
    | false => rfl
    | true => exact absurd (sameBins_getElem ha hb hsb i g1 g2 h1 h2) hbins
  have e0 := iaddN_adapt_bind fo a b hl hs (by rw [ha]; exact all_isAdaptive_map_fixed ga hall) hmiss
    (by rw [hb]; exact all_adaptiveAllowed_map_fixed gb)
  obtain ⟨e1, he1⟩ := adaptGrids_mismatch g1 g2 hmis
  have hp : planOf fo (Binning.fixed g1, Binning.fixed g2) = .error e1 := by
    simp [planOf, hbins, he1]
  have hz : ((ga.map Binning.fixed).zip (gb.map Binning.fixed))[i]? = some (Binning.fixed g1, Binning.fixed g2) := by
    simp [List.getElem?_zip_eq_some, List.getElem?_map, h1, h2]
  obtain ⟨e', hm, y, hy, hye⟩ := mapM_error_of_getElem (planOf fo) _ i _ e1 hz hp
  refine ⟨e', ?_, ?_⟩
  · rw [e0, ha, hb, hm]; rfl
  · obtain ⟨y1, y2⟩ := y
    obtain ⟨m1, m2⟩ := List.of_mem_zip hy
    obtain ⟨x1, _, rfl⟩ := List.mem_map.mp m1
    obtain ⟨x2, _, rfl⟩ := List.mem_map.mp m2
    exact planOf_fixed_error fo x1 x2 e' hye

/-- the same without any assumption on adaptivity or missed: the call is refused one way or another -/
theorem iaddN_lattice_refused (fo : FloatOps) (a b : HN) (ga gb : List Grid) (ha : a.axes = ga.map Binning.fixed)
    (hb : b.axes = gb.map Binning.fixed) (hlen : ga.length = gb.length)
    (i : Nat) (g1 g2 : Grid) (h1 : ga[i]? = some g1) (h2 : gb[i]? = some g2)
    (hbins : g1.bins fo ≠ g2.bins fo) (hmis : g1.w ≠ g2.w ∨ g1.shift ≠ g2.shift) :
    ∃ e, a.iadd fo b = .error e := by
  have hl : a.axes.length = b.axes.length := by rw [ha, hb]; simpa using hlen
  have hs : a.sameBins fo b = false := by
    cases hsb : a.sameBins fo b with
    | false => rfl
    | true => exact absurd (sameBins_getElem ha hb hsb i g1 g2 h1 h2) hbins
  by_cases hall : a.axes.all Binning.isAdaptive = true
  · by_cases hmiss : ∀ m, b.missed = some m → ¬ 0 < m
    · have hall' : ∀ g ∈ ga, g.adaptive = true := by
        intro g hg
        rw [ha] at hall
        simp only [List.all_map, List.all_eq_true, Function.comp] at hall
        exact hall g hg
      obtain ⟨e, he, _⟩ := iaddN_lattice_refused_msg fo a b ga gb ha hb hlen hall' hmiss i g1 g2 h1 h2 hbins hmis
      exact ⟨e, he⟩
    · simp only [not_forall, not_not] at hmiss
      obtain ⟨m, hm, hpos⟩ := hmiss
      exact ⟨_, iaddN_missed_refused fo a b hl hs hall m hm hpos⟩
  · exact ⟨_, iaddN_nonadaptive_refused fo a b hl hs (by simpa using hall)⟩

end Physt

import Physt.Proofs.ArrayLaws
import Physt.Proofs.MaskedEdges
/-!
# The projection of a histogram is the histogram of the kept columns (C09, "direct" clause)

For every number of axes, every shape, every list of rows (of any lengths):

* `axisCell_lt` — a cell found along an axis is a bin of that axis (no hypothesis on the bins);
* `rowCell_split` — the cell of a row with one axis set apart;
* `cellArr_sumAxis` / `calcND_sumAxis` — summing `calcND`'s arrays over one axis gives the arrays,
  over the other axes, of the rows that hit that axis (`hitRows`), column erased;
* `cellArr_sumAxes` / `calcND_sumAxes` — the same for the axes `HN.projection` sums away
  (`dropList`): kept axes and kept coordinates in their original order (`keptOf`, `keptRows`);
* `maskRows_keptOf` — the NaN mask of the kept columns;
* `HN.projection_of_construct`, `HN.projection_eq_direct`, `HN.construct_kept_accepted` — the
  histogram level; `NoMissDropped` / `noMiss_weak` — the plain no-miss hypothesis.

`cellArr g` is either array of `calcND` (`g w = w`: contents, `g w = w * w`: squared errors).
-/
namespace Physt

/-! ## a cell found along an axis is a bin of that axis (no hypothesis on the bins) -/

theorem maskedEdgesAux_mask_length (bins : Bins) (j : Nat) :
    (maskedEdgesAux bins j).2.length = bins.length := by
  fun_induction maskedEdgesAux bins j <;> simp_all

theorem maskedEdges_mask_length (bins : Bins) : (maskedEdges bins).2.length = bins.length := by
  cases bins with
  | nil => rfl
  | cons c rest =>
    obtain ⟨l, r⟩ := c
    rw [maskedEdges_cons]
    exact maskedEdgesAux_mask_length _ _

theorem axisCell_lt (bins : Bins) (ire : Bool) (x : Rat) (i : Nat) (h : axisCell bins ire x = some i) :
    i < bins.length := by
  rw [axisCell_eq] at h
  split at h
  · cases h
  · split at h
    · rename_i hlt
      cases h
      rw [← maskedEdges_mask_length bins]
      exact hlt
    · cases h

/-! ## the cell of a row, one axis set apart -/

theorem rowCell_cons (a : Bins × Bool) (as : AxesB) (x : Rat) (xs : List Rat) :
    rowCell (a :: as) (x :: xs) = (axisCell a.1 a.2 x).bind fun c => (rowCell as xs).map (c :: ·) := by
  unfold rowCell
  simp only [List.zip_cons_cons, List.mapM_cons, Option.bind_eq_bind, Option.pure_def]
  cases axisCell a.1 a.2 x with
  | none => rfl
  | some c =>
    simp only [Option.bind_some]
    cases List.mapM (fun x => axisCell x.1.1 x.1.2 x.2) (as.zip xs) <;> rfl

theorem rowCell_nil_left (v : List Rat) : rowCell [] v = some [] := by
  simp [rowCell]

theorem rowCell_nil_right (axes : AxesB) : rowCell axes [] = some [] := by
  simp [rowCell]

/-- a cell has one entry per axis that has a coordinate (`zip` stops at the shorter list) -/
theorem rowCell_length_min (axes : AxesB) (v : List Rat) (c : List Nat) (h : rowCell axes v = some c) :
    c.length = min axes.length v.length := by
  induction axes generalizing v c with
  | nil => rw [rowCell_nil_left] at h; cases h; simp
  | cons a as ih =>
    cases v with
    | nil => rw [rowCell_nil_right] at h; cases h; simp
    | cons x xs =>
      rw [rowCell_cons] at h
      cases h1 : axisCell a.1 a.2 x with
      | none => rw [h1] at h; cases h
      | some k =>
        cases h2 : rowCell as xs with
        | none => rw [h1, h2] at h; cases h
        | some cs =>
          rw [h1, h2] at h
          cases h
          simp only [List.length_cons, ih xs cs h2]
          omega

/-- **The cell of a row, axis `j` set apart** (any row that has a `j`-th coordinate): the row has a
    cell iff its `j`-th coordinate has a bin `k` on axis `j` and the other coordinates have a cell
    `idx` on the other axes; the cell is then `idx` with `k` inserted at position `j`. -/
theorem rowCell_split (axes : AxesB) (v : List Rat) (j : Nat) (hj : j < axes.length) (hv : j < v.length) :
    rowCell axes v =
      (axisCell (axes[j]).1 (axes[j]).2 v[j]).bind fun k =>
        (rowCell (axes.eraseIdx j) (v.eraseIdx j)).map fun idx => insAt idx j k := by
  induction j generalizing axes v with
  | zero =>
    cases axes with
    | nil => simp at hj
    | cons a as =>
      cases v with
      | nil => simp at hv
      | cons x xs =>
        rw [rowCell_cons]
        simp only [List.getElem_cons_zero, List.eraseIdx_cons_zero, insAt_zero]
  | succ j ih =>
    cases axes with
    | nil => simp at hj
    | cons a as =>
      cases v with
      | nil => simp at hv
      | cons x xs =>
        have hj' : j < as.length := by simpa using hj
        have hv' : j < xs.length := by simpa using hv
        rw [rowCell_cons, ih as xs hj' hv']
        simp only [List.getElem_cons_succ, List.eraseIdx_cons_succ, rowCell_cons]
        cases axisCell a.1 a.2 x <;> cases axisCell as[j].1 as[j].2 xs[j] <;>
          cases rowCell (as.eraseIdx j) (xs.eraseIdx j) <;> simp

theorem insAt_inj (idx idx' : List Nat) (j k k' : Nat) (h : j ≤ idx.length) (h' : j ≤ idx'.length) :
    insAt idx' j k' = insAt idx j k ↔ idx' = idx ∧ k' = k := by
  induction j generalizing idx idx' with
  | zero => simp [and_comm]
  | succ j ih =>
    cases idx with
    | nil => simp at h
    | cons i is =>
      cases idx' with
      | nil => simp at h'
      | cons i' is' =>
        have := ih is is' (by simpa using h) (by simpa using h')
        simp [this, and_assoc]

theorem length_insAt (idx : List Nat) (j k : Nat) : (insAt idx j k).length = idx.length + 1 := by
  simp only [insAt, List.length_append, List.length_take, List.length_drop, List.length_cons, List.length_nil]
  omega

/-- the row's cell is `idx` with `k` inserted at `j` iff `k` is the bin of coordinate `j` and `idx`
    the cell of the other coordinates -/
theorem rowCell_eq_insAt_iff (axes : AxesB) (v : List Rat) (j : Nat) (hj : j < axes.length)
    (hv : j < v.length) (idx : List Nat) (hidx : idx.length + 1 = axes.length) (k : Nat) :
    rowCell axes v = some (insAt idx j k) ↔
      (axisCell (axes[j]).1 (axes[j]).2 v[j] = some k ∧
        rowCell (axes.eraseIdx j) (v.eraseIdx j) = some idx) := by
  rw [rowCell_split axes v j hj hv]
  cases h1 : axisCell (axes[j]).1 (axes[j]).2 v[j] with
  | none => simp
  | some k0 =>
    cases h2 : rowCell (axes.eraseIdx j) (v.eraseIdx j) with
    | none => simp
    | some idx' =>
      have hl' := rowCell_length_min _ _ _ h2
      rw [List.length_eraseIdx_of_lt hj, List.length_eraseIdx_of_lt hv] at hl'
      simp only [Option.bind_some, Option.map_some, Option.some.injEq]
      rw [insAt_inj idx idx' j k k0 (by omega) (by omega)]
      exact and_comm

/-! ## the two arrays of `calcND`, uniformly -/

/-- the sum of `g weight` over the rows whose cell is `idx` (`g w = w`: contents; `g w = w * w`:
    squared errors) -/
def cellSum (g : Rat → Rat) (axes : AxesB) (rows : List Row) (idx : List Nat) : Rat :=
  (((rows.map fun r => (rowCell axes r.1, r.2)).filter fun c => c.1 == some idx).map fun c => g c.2).sum

def cellArr (g : Rat → Rat) (axes : AxesB) (rows : List Row) : Arr :=
  Arr.ofFn (axes.map (·.1.length)) (cellSum g axes rows)

theorem calcND_freq_eq (axes : AxesB) (rows : List Row) :
    (calcND axes rows).freq = cellArr (fun w => w) axes rows := rfl

theorem calcND_err2_eq (axes : AxesB) (rows : List Row) :
    (calcND axes rows).err2 = cellArr (fun w => w * w) axes rows := rfl

theorem cellSum_nil (g : Rat → Rat) (axes : AxesB) (idx : List Nat) : cellSum g axes [] idx = 0 := rfl

theorem cellSum_cons (g : Rat → Rat) (axes : AxesB) (r : Row) (rs : List Row) (idx : List Nat) :
    cellSum g axes (r :: rs) idx
      = (if rowCell axes r.1 = some idx then g r.2 else 0) + cellSum g axes rs idx := by
  unfold cellSum
  by_cases h : rowCell axes r.1 = some idx
  · simp [h]
  · simp [h]

/-- rows with the same cells and the same weights give the same array -/
theorem cellArr_map_congr (g : Rat → Rat) (axes : AxesB) (rows : List Row) (f1 f2 : Row → Row)
    (h : ∀ r ∈ rows, rowCell axes (f1 r).1 = rowCell axes (f2 r).1 ∧ (f1 r).2 = (f2 r).2) :
    cellArr g axes (rows.map f1) = cellArr g axes (rows.map f2) := by
  unfold cellArr
  apply Arr.ofFn_congr
  intro idx
  induction rows with
  | nil => rfl
  | cons r rs ih =>
    obtain ⟨h1, h2⟩ := h r (List.mem_cons_self ..)
    rw [List.map_cons, List.map_cons, cellSum_cons, cellSum_cons, h1, h2,
      ih (fun q hq => h q (List.mem_cons_of_mem _ hq))]

/-- the row has a coordinate `j` and that coordinate lies in some bin of axis `j` -/
def hitsAxis (axes : AxesB) (j : Nat) (v : List Rat) : Bool :=
  match axes[j]?, v[j]? with
  | some a, some x => (axisCell a.1 a.2 x).isSome
  | _, _ => false

/-- the rows that did not miss axis `j`, with column `j` erased -/
def hitRows (axes : AxesB) (j : Nat) (rows : List Row) : List Row :=
  (rows.filter fun r => hitsAxis axes j r.1).map fun r => (r.1.eraseIdx j, r.2)

theorem hitRows_cons_pos (axes : AxesB) (j : Nat) (r : Row) (rs : List Row) (h : hitsAxis axes j r.1 = true) :
    hitRows axes j (r :: rs) = (r.1.eraseIdx j, r.2) :: hitRows axes j rs := by
  simp [hitRows, h]

theorem hitRows_cons_neg (axes : AxesB) (j : Nat) (r : Row) (rs : List Row) (h : ¬ hitsAxis axes j r.1 = true) :
    hitRows axes j (r :: rs) = hitRows axes j rs := by
  simp [hitRows, h]

theorem hitsAxis_eq (axes : AxesB) (j : Nat) (v : List Rat) (hj : j < axes.length) (hv : j < v.length) :
    hitsAxis axes j v = (axisCell (axes[j]).1 (axes[j]).2 v[j]).isSome := by
  unfold hitsAxis
  rw [List.getElem?_eq_getElem hj, List.getElem?_eq_getElem hv]

theorem hitsAxis_short (axes : AxesB) (j : Nat) (v : List Rat) (hv : v.length ≤ j) : hitsAxis axes j v = false := by
  unfold hitsAxis
  rw [List.getElem?_eq_none hv]
  cases axes[j]? <;> rfl

theorem sum_range_ite (n k0 : Nat) (x : Rat) (h : k0 < n) :
    ((List.range n).map fun k => if k0 = k then x else 0).sum = x := by
  induction n with
  | zero => omega
  | succ n ih =>
    rw [List.range_succ, List.map_append, List.sum_append]
    by_cases e : k0 = n
    · subst e
      have : ((List.range k0).map fun k => if k0 = k then x else 0) = (List.range k0).map fun _ => (0 : Rat) := by
        apply List.map_congr_left
        intro k hk
        have := List.mem_range.mp hk
        rw [if_neg (by omega)]
      rw [this, sum_map_zero]
      simp
    · rw [ih (by omega)]
      simp [e]

/-- one row (of any length), summed along axis `j`: it is counted (once) iff it hits axis `j` and
    its other coordinates have the cell `idx` -/
theorem sum_range_rowCell (axes : AxesB) (v : List Rat) (j : Nat) (hj : j < axes.length)
    (idx : List Nat) (hidx : idx.length + 1 = axes.length) (x : Rat) :
    ((List.range (axes[j]).1.length).map fun k =>
        if rowCell axes v = some (insAt idx j k) then x else 0).sum
      = if hitsAxis axes j v = true ∧ rowCell (axes.eraseIdx j) (v.eraseIdx j) = some idx then x else 0 := by
  by_cases hv : j < v.length
  · rw [hitsAxis_eq axes j v hj hv]
    simp only [rowCell_eq_insAt_iff axes v j hj hv idx hidx]
    cases h1 : axisCell (axes[j]).1 (axes[j]).2 v[j] with
    | none => simp
    | some k0 =>
      have hk0 := axisCell_lt _ _ _ _ h1
      by_cases h2 : rowCell (axes.eraseIdx j) (v.eraseIdx j) = some idx
      · simp only [h2, and_true, Option.some.injEq, Option.isSome_some, and_self, if_true]
        exact sum_range_ite _ k0 x hk0
      · simp [h2]
  · -- the row has no `j`-th coordinate: its cell is too short to be a cell of the parent
    rw [hitsAxis_short axes j v (by omega)]
    have hne : ∀ k, ¬ rowCell axes v = some (insAt idx j k) := by
      intro k hc
      have := rowCell_length_min _ _ _ hc
      rw [length_insAt] at this
      omega
    simp [hne]

/-- **Fubini for the rows**: summing the cell sums along axis `j` gives the cell sum, over the
    other axes, of the rows that hit axis `j` -/
theorem sum_range_cellSum (g : Rat → Rat) (axes : AxesB) (rows : List Row) (j : Nat) (hj : j < axes.length)
    (idx : List Nat) (hidx : idx.length + 1 = axes.length) :
    ((List.range (axes[j]).1.length).map fun k => cellSum g axes rows (insAt idx j k)).sum
      = cellSum g (axes.eraseIdx j) (hitRows axes j rows) idx := by
  induction rows with
  | nil => simp only [cellSum_nil, sum_map_zero]; rfl
  | cons r rs ih =>
    simp only [cellSum_cons]
    rw [sum_map_add, ih, sum_range_rowCell axes r.1 j hj idx hidx (g r.2)]
    by_cases hh : hitsAxis axes j r.1 = true
    · rw [hitRows_cons_pos axes j r rs hh, cellSum_cons]
      simp only [hh, true_and]
    · rw [hitRows_cons_neg axes j r rs hh]
      simp [hh]

/-! ## one axis summed out -/

theorem cellArr_shape (g : Rat → Rat) (axes : AxesB) (rows : List Row) :
    (cellArr g axes rows).shape = axes.map (·.1.length) := rfl

theorem cellArr_wellShaped (g : Rat → Rat) (axes : AxesB) (rows : List Row) : (cellArr g axes rows).WellShaped :=
  Arr.wellShaped_ofFn _ _

theorem removeAt_shape (axes : AxesB) (j : Nat) :
    Arr.removeAt (axes.map (·.1.length)) j = (axes.eraseIdx j).map (·.1.length) := by
  simp [Arr.removeAt, List.eraseIdx_map]

/-- **Summing out one axis, general form** (either array of `calcND`; rows of any length): the sum
    over axis `j` is the array, over the remaining axes, of exactly the rows whose `j`-th coordinate
    lies in some bin of axis `j`, with that coordinate erased. -/
theorem cellArr_sumAxis (g : Rat → Rat) (axes : AxesB) (rows : List Row) (j : Nat) (hj : j < axes.length) :
    (cellArr g axes rows).sumAxis j = cellArr g (axes.eraseIdx j) (hitRows axes j rows) := by
  have hs : ((cellArr g axes rows).sumAxis j).shape = (cellArr g (axes.eraseIdx j) (hitRows axes j rows)).shape := by
    rw [Arr.shape_sumAxis, cellArr_shape, cellArr_shape, removeAt_shape]
  apply Arr.ext_get _ _ (Arr.wellShaped_sumAxis _ _) (cellArr_wellShaped _ _ _) hs
  intro idx hv
  rw [hs, cellArr_shape] at hv
  have hjs : j < (cellArr g axes rows).shape.length := by simpa [cellArr_shape] using hj
  have hv' : validIdx (Arr.removeAt (cellArr g axes rows).shape j) idx = true := by
    rw [cellArr_shape, removeAt_shape]; exact hv
  have hidx : idx.length + 1 = axes.length := by
    have := validIdx_length _ _ hv
    rw [List.length_map, List.length_eraseIdx_of_lt hj] at this
    omega
  have hn : (cellArr g axes rows).shape[j]?.getD 0 = (axes[j]).1.length := by
    simp [cellArr_shape, List.getElem?_eq_getElem hj]
  rw [Arr.get_sumAxis _ j idx hjs hv', hn]
  unfold cellArr
  rw [Arr.get_ofFn _ _ _ hv, ← sum_range_cellSum g axes rows j hj idx hidx]
  apply congrArg List.sum
  apply List.map_congr_left
  intro k hk
  apply Arr.get_ofFn
  rw [validIdx_insAt _ _ _ _ (by simpa using hj)]
  refine ⟨by rw [removeAt_shape]; exact hv, ?_⟩
  simpa [List.getElem?_eq_getElem hj] using List.mem_range.mp hk

/-- when no row missed axis `j`, all rows stay -/
theorem hitRows_all (axes : AxesB) (j : Nat) (rows : List Row) (hall : ∀ r ∈ rows, hitsAxis axes j r.1 = true) :
    hitRows axes j rows = rows.map fun r => (r.1.eraseIdx j, r.2) := by
  unfold hitRows
  rw [List.filter_eq_self.mpr hall]

/-! ## any set of axes summed out -/

/-- the entries of `A` kept below position `m`, followed by all entries from `m` on
    (`keptFrom A keep A.length = keptOf A keep A.length`: the kept entries, in their original order) -/
def keptFrom {α} (A : List α) (keep : Nat → Bool) (m : Nat) : List α := keptOf A keep m ++ A.drop m

/-- the row did not miss any of the dropped axes below `m` -/
def hitsDropped (axes : AxesB) (keep : Nat → Bool) (m : Nat) (v : List Rat) : Bool :=
  (List.range m).all fun i => keep i || hitsAxis axes i v

/-- the rows that did not miss any dropped axis below `m`, reduced to their kept coordinates -/
def projRows (axes : AxesB) (keep : Nat → Bool) (m : Nat) (rows : List Row) : List Row :=
  (rows.filter fun r => hitsDropped axes keep m r.1).map fun r => (keptFrom r.1 keep m, r.2)

theorem keptFrom_zero {α} (A : List α) (keep : Nat → Bool) : keptFrom A keep 0 = A := by
  simp [keptFrom, keptOf]

theorem keptFrom_length_self {α} (A : List α) (keep : Nat → Bool) : keptFrom A keep A.length = keptOf A keep A.length := by
  simp [keptFrom]

theorem keptOf_succ' {α} (A : List α) (keep : Nat → Bool) (m : Nat) :
    keptOf A keep (m + 1) = keptOf A keep m ++ (if keep m then A[m]?.toList else []) := by
  unfold keptOf
  rw [List.range_succ, List.filter_append, List.filterMap_append]
  cases h : keep m
  · simp [h]
  · cases h2 : A[m]? <;> simp [h, h2]

theorem drop_eq_toList_append {α} (A : List α) (m : Nat) : A.drop m = A[m]?.toList ++ A.drop (m + 1) := by
  by_cases hm : m < A.length
  · rw [List.drop_eq_getElem_cons hm, List.getElem?_eq_getElem hm]; rfl
  · rw [List.drop_eq_nil_of_le (by omega), List.drop_eq_nil_of_le (by omega), List.getElem?_eq_none (by omega)]
    rfl

theorem keptFrom_succ_keep {α} (A : List α) (keep : Nat → Bool) (m : Nat) (hk : keep m = true) :
    keptFrom A keep (m + 1) = keptFrom A keep m := by
  unfold keptFrom
  rw [keptOf_succ', hk, if_pos rfl, List.append_assoc, ← drop_eq_toList_append]

theorem keptOf_eraseIdx {α} (A : List α) (keep : Nat → Bool) (m : Nat) :
    keptOf (A.eraseIdx m) keep m = keptOf A keep m := by
  unfold keptOf
  apply List.filterMap_congr
  intro i hi
  have : i < m := List.mem_range.mp (List.mem_filter.mp hi).1
  exact List.getElem?_eraseIdx_of_lt this

theorem drop_eraseIdx_self {α} (A : List α) (m : Nat) : (A.eraseIdx m).drop m = A.drop (m + 1) := by
  apply List.ext_getElem?
  intro i
  rw [List.getElem?_drop, List.getElem?_drop, List.getElem?_eraseIdx_of_ge (by omega)]
  congr 1
  omega

theorem keptFrom_succ_drop {α} (A : List α) (keep : Nat → Bool) (m : Nat) (hk : keep m = false) :
    keptFrom A keep (m + 1) = keptFrom (A.eraseIdx m) keep m := by
  unfold keptFrom
  rw [keptOf_succ', hk, keptOf_eraseIdx, drop_eraseIdx_self]
  simp

theorem hitsDropped_zero (axes : AxesB) (keep : Nat → Bool) (v : List Rat) : hitsDropped axes keep 0 v = true := rfl

theorem hitsDropped_succ (axes : AxesB) (keep : Nat → Bool) (m : Nat) (v : List Rat) :
    hitsDropped axes keep (m + 1) v = (hitsDropped axes keep m v && (keep m || hitsAxis axes m v)) := by
  unfold hitsDropped
  rw [List.range_succ, List.all_append]
  simp

theorem hitsAxis_eraseIdx (axes : AxesB) (v : List Rat) (i m : Nat) (h : i < m) :
    hitsAxis (axes.eraseIdx m) i (v.eraseIdx m) = hitsAxis axes i v := by
  unfold hitsAxis
  rw [List.getElem?_eraseIdx_of_lt h, List.getElem?_eraseIdx_of_lt h]

theorem hitsDropped_eraseIdx (axes : AxesB) (keep : Nat → Bool) (v : List Rat) (m n : Nat) (h : n ≤ m) :
    hitsDropped (axes.eraseIdx m) keep n (v.eraseIdx m) = hitsDropped axes keep n v := by
  induction n with
  | zero => rfl
  | succ n ih => rw [hitsDropped_succ, hitsDropped_succ, ih (by omega), hitsAxis_eraseIdx axes v n m (by omega)]

theorem projRows_zero (axes : AxesB) (keep : Nat → Bool) (rows : List Row) : projRows axes keep 0 rows = rows := by
  simp [projRows, hitsDropped_zero, keptFrom_zero]

theorem projRows_cons (axes : AxesB) (keep : Nat → Bool) (m : Nat) (r : Row) (rs : List Row) :
    projRows axes keep m (r :: rs)
      = if hitsDropped axes keep m r.1 = true then (keptFrom r.1 keep m, r.2) :: projRows axes keep m rs
        else projRows axes keep m rs := by
  unfold projRows
  by_cases h : hitsDropped axes keep m r.1 = true <;> simp [h]

theorem projRows_succ_keep (axes : AxesB) (keep : Nat → Bool) (m : Nat) (rows : List Row) (hk : keep m = true) :
    projRows axes keep (m + 1) rows = projRows axes keep m rows := by
  induction rows with
  | nil => rfl
  | cons r rs ih =>
    rw [projRows_cons, projRows_cons, ih, hitsDropped_succ, hk, keptFrom_succ_keep r.1 keep m hk]
    simp

theorem projRows_succ_drop (axes : AxesB) (keep : Nat → Bool) (m : Nat) (rows : List Row) (hk : keep m = false) :
    projRows axes keep (m + 1) rows = projRows (axes.eraseIdx m) keep m (hitRows axes m rows) := by
  induction rows with
  | nil => rfl
  | cons r rs ih =>
    rw [projRows_cons, ih, hitsDropped_succ, hk, keptFrom_succ_drop r.1 keep m hk]
    by_cases hh : hitsAxis axes m r.1 = true
    · rw [hitRows_cons_pos axes m r rs hh, projRows_cons]
      simp only [hitsDropped_eraseIdx axes keep r.1 m m (Nat.le_refl _), hh, Bool.false_or, Bool.and_true]
    · rw [hitRows_cons_neg axes m r rs hh]
      simp [hh]

/-- **Summing out any set of axes, general form** (either array of `calcND`; rows of any length):
    summing away the axes below `m` that are not kept gives the array, over the kept axes in their
    original order (and the axes from `m` on), of exactly the rows that missed none of the dropped
    axes, reduced to the kept coordinates in their original order. -/
theorem cellArr_sumAxes (g : Rat → Rat) (keep : Nat → Bool) (m : Nat) (axes : AxesB) (rows : List Row)
    (hm : m ≤ axes.length) :
    (cellArr g axes rows).sumAxes (dropList m keep)
      = cellArr g (keptFrom axes keep m) (projRows axes keep m rows) := by
  induction m generalizing axes rows with
  | zero => rw [keptFrom_zero, projRows_zero]; rfl
  | succ m ih =>
    have hm' : m < axes.length := by omega
    rw [dropList_succ]
    cases hk : keep m with
    | true =>
      rw [keptFrom_succ_keep axes keep m hk, projRows_succ_keep axes keep m rows hk]
      simpa using ih axes rows (by omega)
    | false =>
      rw [keptFrom_succ_drop axes keep m hk, projRows_succ_drop axes keep m rows hk]
      simp only [Bool.false_eq_true, if_false, List.singleton_append, Arr.sumAxes_cons]
      rw [cellArr_sumAxis g axes rows m hm']
      exact ih (axes.eraseIdx m) (hitRows axes m rows) (by rw [List.length_eraseIdx_of_lt hm']; omega)

/-! ## back to `calcND` -/

/-- the rows that missed none of the dropped axes (of `n`), reduced to the kept coordinates in
    their original order -/
def keptRows (axes : AxesB) (keep : Nat → Bool) (n : Nat) (rows : List Row) : List Row :=
  (rows.filter fun r => hitsDropped axes keep n r.1).map fun r => (keptOf r.1 keep n, r.2)

/-- coordinates beyond the last axis are never looked at -/
theorem rowCell_append_of_le (axes : AxesB) (u t : List Rat) (h : axes.length ≤ u.length) :
    rowCell axes (u ++ t) = rowCell axes u := by
  induction axes generalizing u with
  | nil => rw [rowCell_nil_left, rowCell_nil_left]
  | cons a as ih =>
    cases u with
    | nil => simp at h
    | cons x xs =>
      rw [List.cons_append, rowCell_cons, rowCell_cons, ih xs (by simpa using h)]

theorem keptOf_length_le {α} (A : List α) (keep : Nat → Bool) (m : Nat) : (keptOf A keep m).length ≤ keptBelow keep m := by
  unfold keptOf keptBelow
  exact List.length_filterMap_le _ _

/-- the rows of `projRows` and of `keptRows` differ only by coordinates beyond the last kept axis -/
theorem cellArr_projRows (g : Rat → Rat) (axes : AxesB) (keep : Nat → Bool) (rows : List Row) :
    cellArr g (keptOf axes keep axes.length) (projRows axes keep axes.length rows)
      = cellArr g (keptOf axes keep axes.length) (keptRows axes keep axes.length rows) := by
  unfold projRows keptRows
  apply cellArr_map_congr
  intro r _
  refine ⟨?_, rfl⟩
  show rowCell _ (keptFrom r.1 keep axes.length) = rowCell _ (keptOf r.1 keep axes.length)
  unfold keptFrom
  by_cases hl : axes.length ≤ r.1.length
  · apply rowCell_append_of_le
    rw [keptOf_length _ _ _ (Nat.le_refl _), keptOf_length _ _ _ hl]
  · rw [List.drop_eq_nil_of_le (by omega), List.append_nil]

theorem keptRows_all (axes : AxesB) (keep : Nat → Bool) (n : Nat) (rows : List Row)
    (hall : ∀ r ∈ rows, hitsDropped axes keep n r.1 = true) :
    keptRows axes keep n rows = rows.map fun r => (keptOf r.1 keep n, r.2) := by
  unfold keptRows
  rw [List.filter_eq_self.mpr hall]

/-- **One axis, general form.**  Summing `calcND`'s arrays over axis `j` gives the arrays, over the
    remaining axes, of exactly the rows whose `j`-th coordinate lies in some bin of axis `j`. -/
theorem calcND_sumAxis (axes : AxesB) (rows : List Row) (j : Nat) (hj : j < axes.length) :
    (calcND axes rows).freq.sumAxis j = (calcND (axes.eraseIdx j) (hitRows axes j rows)).freq ∧
    (calcND axes rows).err2.sumAxis j = (calcND (axes.eraseIdx j) (hitRows axes j rows)).err2 :=
  ⟨cellArr_sumAxis (fun w => w) axes rows j hj, cellArr_sumAxis (fun w => w * w) axes rows j hj⟩

/-- **One axis, no row missed it**: the marginal is the histogram of all rows with column `j` erased. -/
theorem calcND_sumAxis_all (axes : AxesB) (rows : List Row) (j : Nat) (hj : j < axes.length)
    (hall : ∀ r ∈ rows, hitsAxis axes j r.1 = true) :
    (calcND axes rows).freq.sumAxis j
      = (calcND (axes.eraseIdx j) (rows.map fun r => (r.1.eraseIdx j, r.2))).freq ∧
    (calcND axes rows).err2.sumAxis j
      = (calcND (axes.eraseIdx j) (rows.map fun r => (r.1.eraseIdx j, r.2))).err2 := by
  rw [← hitRows_all axes j rows hall]
  exact calcND_sumAxis axes rows j hj

/-- **Any set of dropped axes, general form**, as `HN.projection` sums them. -/
theorem calcND_sumAxes (axes : AxesB) (rows : List Row) (keep : Nat → Bool) :
    (calcND axes rows).freq.sumAxes (dropList axes.length keep)
      = (calcND (keptOf axes keep axes.length) (keptRows axes keep axes.length rows)).freq ∧
    (calcND axes rows).err2.sumAxes (dropList axes.length keep)
      = (calcND (keptOf axes keep axes.length) (keptRows axes keep axes.length rows)).err2 := by
  have h1 := cellArr_sumAxes (fun w => w) keep axes.length axes rows (Nat.le_refl _)
  have h2 := cellArr_sumAxes (fun w => w * w) keep axes.length axes rows (Nat.le_refl _)
  rw [keptFrom_length_self, cellArr_projRows] at h1 h2
  exact ⟨h1, h2⟩

/-- **Any set of dropped axes, no row missed any of them.** -/
theorem calcND_sumAxes_all (axes : AxesB) (rows : List Row) (keep : Nat → Bool)
    (hall : ∀ r ∈ rows, hitsDropped axes keep axes.length r.1 = true) :
    (calcND axes rows).freq.sumAxes (dropList axes.length keep)
      = (calcND (keptOf axes keep axes.length) (rows.map fun r => (keptOf r.1 keep axes.length, r.2))).freq ∧
    (calcND axes rows).err2.sumAxes (dropList axes.length keep)
      = (calcND (keptOf axes keep axes.length) (rows.map fun r => (keptOf r.1 keep axes.length, r.2))).err2 := by
  rw [← keptRows_all axes keep axes.length rows hall]
  exact calcND_sumAxes axes rows keep

/-! ## histogram level -/

/-- the argument checks `construct` passed -/
theorem construct_checks (fo : FloatOps) (axes : List Binning) (rows : List (List (Option Rat)))
    (ws : Option (List Rat)) (wkind : DType) (dropna : Bool) (names : Option (List String)) (c : HN)
    (hc : HN.construct fo axes rows ws wkind dropna names = .ok c) :
    (∀ r ∈ rows, r.length = axes.length) ∧
    (dropna = false → ∀ r ∈ rows, r.all Option.isSome = true) ∧
    (∀ w, ws = some w → w.length = rows.length) := by
  unfold HN.construct at hc
  simp only [bind, Except.bind, pure, Except.pure, throw, throwThe, MonadExceptOf.throw] at hc
  have cols_of : ¬ (rows.any fun r => r.length != axes.length) = true → ∀ x ∈ rows, x.length = axes.length := by
    intro h x hx
    by_contra hne
    apply h
    rw [List.any_eq_true]
    exact ⟨x, hx, by simpa using hne⟩
  have nan_of : ¬ ((!dropna && rows.any fun r => r.any Option.isNone) = true) →
      dropna = false → ∀ r ∈ rows, r.all Option.isSome = true := by
    intro h hd r hr
    by_contra hne
    apply h
    rw [hd]
    simp only [Bool.not_false, Bool.true_and, List.any_eq_true]
    exact ⟨r, hr, List.any_eq_true.mp (any_isNone_of_not_all r hne)⟩
  split at hc
  · cases hc
  rename_i hcol
  split at hc
  · cases hc
  rename_i hnan
  refine ⟨cols_of hcol, nan_of hnan, ?_⟩
  cases ws with
  | none => intro w hw; cases hw
  | some w0 =>
    simp only at hc
    split at hc
    · cases hc
    rename_i hw
    intro w hw'
    cases hw'
    simpa using hw

theorem length_filterMap_id_of_all (r : List (Option Rat)) (h : r.all Option.isSome = true) :
    (r.filterMap id).length = r.length := by
  conv => rhs; rw [← map_some_filterMap_id r h]
  simp

/-- every row that survives the NaN mask is a complete input row -/
theorem maskRows_mem (rows : List (List (Option Rat))) (ws : Option (List Rat)) :
    ∀ r ∈ maskRows rows ws, ∃ q ∈ rows, q.all Option.isSome = true ∧ r.1 = q.filterMap id := by
  induction rows generalizing ws with
  | nil => intro r hr; cases ws <;> simp [maskRows] at hr
  | cons q qs ih =>
    intro r hr
    cases ws with
    | none =>
      by_cases hq : q.all Option.isSome = true
      · simp only [maskRows, hq, if_true, List.mem_cons] at hr
        rcases hr with rfl | hr
        · exact ⟨q, List.mem_cons_self .., hq, rfl⟩
        · obtain ⟨q', h1, h2⟩ := ih none r hr
          exact ⟨q', List.mem_cons_of_mem _ h1, h2⟩
      · simp only [maskRows, hq, if_false, Bool.false_eq_true] at hr
        obtain ⟨q', h1, h2⟩ := ih none r hr
        exact ⟨q', List.mem_cons_of_mem _ h1, h2⟩
    | some w =>
      cases w with
      | nil => simp [maskRows] at hr
      | cons w0 w' =>
        by_cases hq : q.all Option.isSome = true
        · simp only [maskRows, hq, if_true, List.mem_cons] at hr
          rcases hr with rfl | hr
          · exact ⟨q, List.mem_cons_self .., hq, rfl⟩
          · obtain ⟨q', h1, h2⟩ := ih (some w') r hr
            exact ⟨q', List.mem_cons_of_mem _ h1, h2⟩
        · simp only [maskRows, hq, if_false, Bool.false_eq_true] at hr
          obtain ⟨q', h1, h2⟩ := ih (some w') r hr
          exact ⟨q', List.mem_cons_of_mem _ h1, h2⟩

theorem maskRows_length (rows : List (List (Option Rat))) (ws : Option (List Rat)) (n : Nat)
    (h : ∀ q ∈ rows, q.length = n) : ∀ r ∈ maskRows rows ws, r.1.length = n := by
  intro r hr
  obtain ⟨q, hq, hall, e⟩ := maskRows_mem rows ws r hr
  rw [e, length_filterMap_id_of_all q hall, h q hq]

theorem filterMap_getElem?_map {α β} (A : List α) (f : α → β) (is : List Nat) :
    is.filterMap ((A.map f)[·]?) = (is.filterMap (A[·]?)).map f := by
  induction is with
  | nil => rfl
  | cons i is ih =>
    rw [List.filterMap_cons, List.filterMap_cons, ih, List.getElem?_map]
    cases A[i]? <;> simp

theorem keptOf_map_pd {α β} (A : List α) (f : α → β) (keep : Nat → Bool) (m : Nat) :
    keptOf (A.map f) keep m = (keptOf A keep m).map f := by
  unfold keptOf
  exact filterMap_getElem?_map A f _

theorem mem_keptOf {α} (A : List α) (keep : Nat → Bool) (m : Nat) (x : α) (h : x ∈ keptOf A keep m) : x ∈ A := by
  unfold keptOf at h
  obtain ⟨i, _, hi⟩ := List.mem_filterMap.mp h
  exact List.mem_of_getElem? hi

theorem all_keptOf {α} (A : List α) (p : α → Bool) (keep : Nat → Bool) (m : Nat) (h : A.all p = true) :
    (keptOf A keep m).all p = true := by
  rw [List.all_eq_true] at h ⊢
  intro x hx
  exact h x (mem_keptOf A keep m x hx)

/-- a complete row reduced to its kept columns, NaN mask before or after -/
theorem filterMap_id_keptOf (r : List (Option Rat)) (keep : Nat → Bool) (m : Nat) (h : r.all Option.isSome = true) :
    (keptOf r keep m).filterMap id = keptOf (r.filterMap id) keep m := by
  conv => lhs; rw [← map_some_filterMap_id r h, keptOf_map_pd]
  exact filterMap_id_map_some _

theorem keptRows_cons (axes : AxesB) (keep : Nat → Bool) (n : Nat) (r : Row) (R : List Row) :
    keptRows axes keep n (r :: R)
      = if hitsDropped axes keep n r.1 = true then (keptOf r.1 keep n, r.2) :: keptRows axes keep n R
        else keptRows axes keep n R := by
  unfold keptRows
  by_cases h : hitsDropped axes keep n r.1 = true <;> simp [h]

theorem maskRows_keptOf_step (axes : AxesB) (keep : Nat → Bool) (n : Nat) (q : List (Option Rat)) (w : Rat)
    (L R : List Row)
    (hnm : (keptOf q keep n).all Option.isSome = true →
      q.all Option.isSome = true ∧ hitsDropped axes keep n (q.filterMap id) = true)
    (hLR : L = keptRows axes keep n R) :
    (if (keptOf q keep n).all Option.isSome = true then ((keptOf q keep n).filterMap id, w) :: L else L)
      = keptRows axes keep n (if q.all Option.isSome = true then (q.filterMap id, w) :: R else R) := by
  by_cases hk : (keptOf q keep n).all Option.isSome = true
  · obtain ⟨h1, h2⟩ := hnm hk
    rw [if_pos hk, if_pos h1, hLR, filterMap_id_keptOf q keep n h1, keptRows_cons, if_pos h2]
  · have h1 : ¬ q.all Option.isSome = true := fun h => hk (all_keptOf q _ keep n h)
    rw [if_neg hk, if_neg h1, hLR]

/-- **The NaN mask of the kept columns.**  If every row that is complete in its kept columns is
    complete and hits the dropped axes, masking the kept columns gives the masked rows that missed
    no dropped axis, reduced to their kept coordinates (weights stay paired). -/
theorem maskRows_keptOf (axes : AxesB) (keep : Nat → Bool) (n : Nat) (rows : List (List (Option Rat)))
    (ws : Option (List Rat))
    (hnm : ∀ q ∈ rows, (keptOf q keep n).all Option.isSome = true →
      q.all Option.isSome = true ∧ hitsDropped axes keep n (q.filterMap id) = true) :
    maskRows (rows.map fun q => keptOf q keep n) ws = keptRows axes keep n (maskRows rows ws) := by
  induction rows generalizing ws with
  | nil => cases ws <;> rfl
  | cons q qs ih =>
    have ih' := fun ws => ih ws (fun q' hq' => hnm q' (List.mem_cons_of_mem _ hq'))
    have hq := hnm q (List.mem_cons_self ..)
    cases ws with
    | none =>
      simp only [List.map_cons, maskRows]
      exact maskRows_keptOf_step axes keep n q 1 _ _ hq (ih' none)
    | some w =>
      cases w with
      | nil => rfl
      | cons w0 w' =>
        simp only [List.map_cons, maskRows]
        exact maskRows_keptOf_step axes keep n q w0 _ _ hq (ih' (some w'))

/-- the positions a projection keeps, as a predicate -/
def keepOf (ax : List Nat) : Nat → Bool := fun i => ax.contains i

theorem axesOf_length (fo : FloatOps) (axes : List Binning) : (axesOf fo axes).length = axes.length := by
  simp [axesOf]

theorem keptOf_axesOf (fo : FloatOps) (axes : List Binning) (keep : Nat → Bool) (m : Nat) :
    keptOf (axesOf fo axes) keep m = axesOf fo (keptOf axes keep m) := by
  unfold axesOf
  exact keptOf_map_pd axes _ keep m

/-- **Projection of a constructed histogram, general form.**  The projection's contents and squared
    errors are the `calcND` arrays, over the kept axes in their original order, of the kept
    coordinates of exactly those (NaN-masked) rows that missed none of the dropped axes. -/
theorem HN.projection_of_construct (fo : FloatOps) (axes : List Binning) (data : List (List (Option Rat)))
    (ws : Option (List Rat)) (wkind : DType) (dropna : Bool) (names : Option (List String)) (h r : HN)
    (sel : List (Sum Int String))
    (hc : HN.construct fo axes data ws wkind dropna names = .ok h) (hr : h.projection sel = .ok r) :
    ∃ ax, sel.mapM h.getAxis = .ok ax ∧
      r.axes = keptOf axes (keepOf ax) axes.length ∧
      r.freq = (calcND (axesOf fo (keptOf axes (keepOf ax) axes.length))
        (keptRows (axesOf fo axes) (keepOf ax) axes.length (maskRows data ws))).freq ∧
      r.err2 = (calcND (axesOf fo (keptOf axes (keepOf ax) axes.length))
        (keptRows (axesOf fo axes) (keepOf ax) axes.length (maskRows data ws))).err2 := by
  obtain ⟨_, ha, _, hf, he, _⟩ := construct_ok fo axes data ws wkind dropna names h hc
  obtain ⟨ax, hm, e⟩ := HN.projection_eq h r sel hr
  obtain ⟨s1, s2⟩ := calcND_sumAxes (axesOf fo axes) (maskRows data ws) (keepOf ax)
  rw [axesOf_length, keptOf_axesOf] at s1 s2
  refine ⟨ax, hm, ?_, ?_, ?_⟩
  · rw [e, ha]; rfl
  · rw [← s1, ← hf, e, ha]; rfl
  · rw [← s2, ← he, e, ha]; rfl

/-- **The projection equals the histogram built directly from the kept columns** (contents, squared
    errors, bins), whenever every row that is complete (NaN-free) in its kept columns is complete
    and has a bin on every dropped axis. -/
theorem HN.projection_eq_direct (fo : FloatOps) (axes : List Binning) (data : List (List (Option Rat)))
    (ws : Option (List Rat)) (wkind : DType) (dropna : Bool) (names : Option (List String)) (h r : HN)
    (sel : List (Sum Int String))
    (hc : HN.construct fo axes data ws wkind dropna names = .ok h) (hr : h.projection sel = .ok r)
    (ax : List Nat) (hax : sel.mapM h.getAxis = .ok ax)
    (hnm : ∀ q ∈ data, (keptOf q (keepOf ax) axes.length).all Option.isSome = true →
      q.all Option.isSome = true ∧ hitsDropped (axesOf fo axes) (keepOf ax) axes.length (q.filterMap id) = true)
    (wkind' : DType) (dropna' : Bool) (names' : Option (List String)) (c : HN)
    (hd : HN.construct fo (keptOf axes (keepOf ax) axes.length)
      (data.map fun q => keptOf q (keepOf ax) axes.length) ws wkind' dropna' names' = .ok c) :
    r.freq = c.freq ∧ r.err2 = c.err2 ∧ r.axes = c.axes := by
  obtain ⟨ax', hm, e1, e2, e3⟩ := HN.projection_of_construct fo axes data ws wkind dropna names h r sel hc hr
  rw [hax] at hm
  cases hm
  obtain ⟨_, ca, _, cf, ce, _⟩ := construct_ok fo _ _ ws wkind' dropna' names' c hd
  rw [maskRows_keptOf (axesOf fo axes) (keepOf ax) axes.length data ws hnm] at cf ce
  exact ⟨by rw [e2, cf], by rw [e3, ce], by rw [e1, ca]⟩

/-! ### the plain form of "no row has a NaN in, or misses, a dropped column" -/

/-- every row has, in every dropped column, a number that lies in some bin of that axis -/
def NoMissDropped (fo : FloatOps) (axes : List Binning) (keep : Nat → Bool) (data : List (List (Option Rat))) : Prop :=
  ∀ q ∈ data, ∀ i b, keep i = false → axes[i]? = some b →
    ∃ x, q[i]? = some (some x) ∧ (axisCell (b.bins fo) b.ire x).isSome = true

theorem mem_keptOf_of {α} (A : List α) (keep : Nat → Bool) (m i : Nat) (x : α) (hi : i < m) (hk : keep i = true)
    (hx : A[i]? = some x) : x ∈ keptOf A keep m := by
  unfold keptOf
  exact List.mem_filterMap.mpr ⟨i, List.mem_filter.mpr ⟨List.mem_range.mpr hi, hk⟩, hx⟩

theorem getElem?_filterMap_id (q : List (Option Rat)) (h : q.all Option.isSome = true) (i : Nat) (x : Rat)
    (hx : q[i]? = some (some x)) : (q.filterMap id)[i]? = some x := by
  have e := map_some_filterMap_id q h
  generalize q.filterMap id = v at e ⊢
  subst e
  simpa using hx

theorem noMiss_weak (fo : FloatOps) (axes : List Binning) (keep : Nat → Bool) (data : List (List (Option Rat)))
    (hcol : ∀ q ∈ data, q.length = axes.length) (hno : NoMissDropped fo axes keep data) :
    ∀ q ∈ data, (keptOf q keep axes.length).all Option.isSome = true →
      q.all Option.isSome = true ∧ hitsDropped (axesOf fo axes) keep axes.length (q.filterMap id) = true := by
  intro q hq hk
  have hall : q.all Option.isSome = true := by
    rw [List.all_eq_true] at hk ⊢
    intro x hx
    obtain ⟨i, hi, rfl⟩ := List.getElem_of_mem hx
    have hin : i < axes.length := by rw [← hcol q hq]; exact hi
    cases hki : keep i with
    | true => exact hk _ (mem_keptOf_of q keep axes.length i _ hin hki (List.getElem?_eq_getElem hi))
    | false =>
      obtain ⟨x, h1, _⟩ := hno q hq i axes[i] hki (List.getElem?_eq_getElem hin)
      rw [List.getElem?_eq_getElem hi] at h1
      rw [Option.some.inj h1]; rfl
  refine ⟨hall, ?_⟩
  unfold hitsDropped
  rw [List.all_eq_true]
  intro i hi
  have hin : i < axes.length := List.mem_range.mp hi
  cases hki : keep i with
  | true => rfl
  | false =>
    obtain ⟨x, h1, h2⟩ := hno q hq i axes[i] hki (List.getElem?_eq_getElem hin)
    have e1 : (axesOf fo axes)[i]? = some ((axes[i]).bins fo, (axes[i]).ire) := by
      simp [axesOf, List.getElem?_eq_getElem hin]
    simp only [Bool.false_or, hitsAxis, e1, getElem?_filterMap_id q hall i x h1, h2]

/-- **The direct construction is accepted** whenever the parent construction was: the kept columns
    pass the argument checks of `construct` over the kept binnings (same weights, same `dropna`). -/
theorem HN.construct_kept_accepted (fo : FloatOps) (axes : List Binning) (data : List (List (Option Rat)))
    (ws : Option (List Rat)) (wkind : DType) (dropna : Bool) (names : Option (List String)) (h : HN)
    (hc : HN.construct fo axes data ws wkind dropna names = .ok h)
    (keep : Nat → Bool) (wkind' : DType) (names' : Option (List String)) :
    ∃ c, HN.construct fo (keptOf axes keep axes.length) (data.map fun q => keptOf q keep axes.length)
      ws wkind' dropna names' = .ok c := by
  obtain ⟨hris, _⟩ := construct_ok fo axes data ws wkind dropna names h hc
  obtain ⟨hcol, hnan, hw⟩ := construct_checks fo axes data ws wkind dropna names h hc
  have c1 : ¬ ((data.map fun q => keptOf q keep axes.length).any
      fun r => r.length != (keptOf axes keep axes.length).length) = true := by
    rw [List.any_eq_true]
    rintro ⟨r, hr, hne⟩
    obtain ⟨q, hq, rfl⟩ := List.mem_map.mp hr
    rw [keptOf_length _ _ _ (by rw [hcol q hq]), keptOf_length _ _ _ (Nat.le_refl _)] at hne
    simp at hne
  have c2 : ¬ ((!dropna && (data.map fun q => keptOf q keep axes.length).any fun r => r.any Option.isNone) = true) := by
    cases hd : dropna with
    | true => simp
    | false =>
      simp only [Bool.not_false, Bool.true_and, List.any_eq_true]
      rintro ⟨r, hr, x, hx, hxn⟩
      obtain ⟨q, hq, rfl⟩ := List.mem_map.mp hr
      have := List.all_eq_true.mp (hnan hd q hq) x (mem_keptOf q keep _ x hx)
      cases x <;> simp_all
  have c4 : ¬ ((keptOf axes keep axes.length).any fun b => !risingB (b.bins fo)) = true := by
    rw [List.any_eq_true]
    rintro ⟨b, hb, hne⟩
    have := (risingB_iff _).mpr (hris b (mem_keptOf axes keep _ b hb))
    simp [this] at hne
  unfold HN.construct
  simp only [bind, Except.bind, pure, Except.pure, throw, throwThe, MonadExceptOf.throw]
  cases ws with
  | none => simp only [c1, c2, c4]; exact ⟨_, rfl⟩
  | some w =>
    have c3 : ¬ (w.length != (data.map fun q => keptOf q keep axes.length).length) = true := by
      simp [hw w rfl]
    simp only [c1, c2, c3, c4]; exact ⟨_, rfl⟩

/-- a computable form of `NoMissDropped` (for closed examples) -/
def noMissDroppedB (fo : FloatOps) (axes : List Binning) (keep : Nat → Bool) (data : List (List (Option Rat))) : Bool :=
  data.all fun q => (List.range axes.length).all fun i => keep i ||
    (match axes[i]?, q[i]? with
     | some b, some (some x) => (axisCell (b.bins fo) b.ire x).isSome
     | _, _ => false)

theorem noMissDropped_of_B (fo : FloatOps) (axes : List Binning) (keep : Nat → Bool) (data : List (List (Option Rat)))
    (hB : noMissDroppedB fo axes keep data = true) : NoMissDropped fo axes keep data := by
  intro q hq i b hk hb
  have hi : i < axes.length := (List.getElem?_eq_some_iff.mp hb).1
  unfold noMissDroppedB at hB
  have h1 := List.all_eq_true.mp (List.all_eq_true.mp hB q hq) i (List.mem_range.mpr hi)
  rw [hk, hb, Bool.false_or] at h1
  cases hq' : q[i]? with
  | none => rw [hq'] at h1; cases h1
  | some v =>
    cases v with
    | none => rw [hq'] at h1; cases h1
    | some x => rw [hq'] at h1; exact ⟨x, rfl, h1⟩

theorem Except.eq_ok_of_toOption {ε α} (e : Except ε α) (x : α) (h : e.toOption = some x) : e = .ok x := by
  cases e with
  | error _ => cases h
  | ok y => cases h; rfl

/-- the projection of any histogram reports no missed weight (the model follows physt here) -/
theorem HN.projection_missed (h r : HN) (sel : List (Sum Int String)) (hr : h.projection sel = .ok r) :
    r.missed = some 0 := by
  obtain ⟨ax, _, e⟩ := HN.projection_eq h r sel hr
  rw [e]

end Physt

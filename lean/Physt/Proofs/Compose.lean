import Physt.Proofs.AdaptiveHistory
import Physt.Proofs.Quantiles
/-!
# Composition: the binning factories (C07 / C04) followed by the 1-D construction (C01)

* `in_some_bin`, `calc1d_spanning` — a rising, consecutive, non-empty binning whose first edge is `≤`
  and whose last edge is `≥` every value: every value lies in a bin, nothing is missed, the total is the
  total weight;
* `construct_eq_ok` — when `H1.construct` is accepted and what it returns;
* `construct_spanning` — the two together: the histogram `h1` builds over such a binning.
The factory-specific facts (the binning each factory derives from the data spans the data) follow.
-/
namespace Physt
open Grid H1

/-! ## A binning that spans the data -/

/-- **Every value between the first and the last edge of a rising, consecutive binning lies in a bin**
    (the last bin contains its right edge). -/
theorem in_some_bin (bins : Bins) (hb : Rising bins) (hc : consecutiveB bins = true) (hne : bins ≠ [])
    (v : Rat) (hlo : (bins.head hne).1 ≤ v) (hhi : v ≤ (bins.getLast hne).2) :
    ∃ i, i < bins.length ∧ inBin bins true i v = true := by
  have spec := leCount_spec bins hb v
  have hlen : 0 < bins.length := List.length_pos_iff.mpr hne
  have hkle : leCount bins v ≤ bins.length := List.length_filter_le _ _
  have h0 : bins[0]? = some (bins.head hne) := by
    rw [List.getElem?_eq_getElem hlen, List.head_eq_getElem]
  have hk0 : 0 < leCount bins v := (spec 0 _ h0).mpr hlo
  have hi : leCount bins v - 1 < bins.length := by omega
  refine ⟨leCount bins v - 1, hi, ?_⟩
  have hget : bins[leCount bins v - 1]? = some bins[leCount bins v - 1] := List.getElem?_eq_getElem hi
  have hl : (bins[leCount bins v - 1]).1 ≤ v := (spec _ _ hget).mp (by omega)
  rw [inBin_eq bins _ _ _ (by rw [hget])]
  by_cases hlast : leCount bins v - 1 + 1 = bins.length
  · have hlastE : bins[leCount bins v - 1] = bins.getLast hne := by
      rw [List.getLast_eq_getElem]; congr 1; omega
    simp only [hlast, if_true, Bool.and_eq_true, decide_eq_true_eq]
    exact ⟨hl, by rw [hlastE]; exact hhi⟩
  · have hnext : leCount bins v - 1 + 1 < bins.length := by omega
    have hcons := (consecutiveB_iff_getElem bins).mp hc (leCount bins v - 1) hnext
    have hgetn : bins[leCount bins v - 1 + 1]? = some bins[leCount bins v - 1 + 1] :=
      List.getElem?_eq_getElem hnext
    have hnot : ¬ (bins[leCount bins v - 1 + 1]).1 ≤ v := by
      intro hle
      have := (spec _ _ hgetn).mpr hle
      omega
    simp only [hlast, if_false, Bool.and_eq_true, decide_eq_true_eq]
    exact ⟨hl, by rw [hcons]; exact not_le.mp hnot⟩

/-- **Nothing is missed and nothing is lost** over a binning that spans the data. -/
theorem calc1d_spanning (bins : Bins) (pts : List Pt) (hb : Rising bins) (hc : consecutiveB bins = true)
    (hne : bins ≠ []) (hspan : ∀ p ∈ pts, (bins.head hne).1 ≤ p.1 ∧ p.1 ≤ (bins.getLast hne).2) :
    (calc1d bins pts).under = some 0 ∧ (calc1d bins pts).over = some 0 ∧
    (calc1d bins pts).freq.sum = wsum pts := by
  have h0 : bins.head? = some (bins.head hne) := List.head?_eq_some_head hne
  have hl : bins.getLast? = some (bins.getLast hne) := List.getLast?_eq_some_getLast hne
  have e := C01_under_over bins pts hc _ _ h0 hl
  have f1 : (pts.filter fun p => decide (p.1 < (bins.head hne).1)) = [] := by
    rw [List.filter_eq_nil_iff]
    intro p hp hlt
    simp only [decide_eq_true_eq] at hlt
    linarith [(hspan p hp).1]
  have f2 : (pts.filter fun p => decide ((bins.getLast hne).2 < p.1)) = [] := by
    rw [List.filter_eq_nil_iff]
    intro p hp hlt
    simp only [decide_eq_true_eq] at hlt
    linarith [(hspan p hp).2]
  have hu : (calc1d bins pts).under = some 0 := by rw [e.1, f1]; rfl
  have ho : (calc1d bins pts).over = some 0 := by rw [e.2, f2]; rfl
  refine ⟨hu, ho, ?_⟩
  obtain ⟨u, o, hu', ho', hsum⟩ := C01_accounting bins pts hne hb hc
  rw [hu] at hu'; rw [ho] at ho'
  cases hu'; cases ho'
  linarith

/-! ## What `h1` returns when it accepts -/

/-- the content type `h1` chooses: the requested one, else the weights' type, else `int64` -/
def constructDType (ws : Option (List Rat)) (wkind : DType) (dtype : Option DType) : DType :=
  dtype.getD (if ws.isSome then wkind else .i64)

/-- the arguments pass every validation of `h1` that does not concern the bins -/
structure ArgsOk (vs : List (Option Rat)) (ws : Option (List Rat)) (wkind : DType) (dtype : Option DType)
    (dropna : Bool) : Prop where
  /-- `dropna=False` is only accepted for data without NaN -/
  nan : dropna = false → vs.any Option.isNone = false
  /-- the weights have the shape of the data -/
  shape : weightsShapeOk vs ws = true
  /-- no integer histogram from float weights -/
  dt : (constructDType ws wkind dtype).isInt = true → (if ws.isSome then wkind else DType.i64).isInt = true

theorem construct_eq_ok (fo : FloatOps) (b : Binning) (vs : List (Option Rat)) (ws : Option (List Rat))
    (wkind : DType) (dtype : Option DType) (keep dropna : Bool) (ok : ArgsOk vs ws wkind dtype dropna)
    (hne : b.bins fo ≠ []) (hr : Rising (b.bins fo)) :
    H1.construct fo b vs ws wkind dtype keep dropna = .ok
      { binning := b, freq := (calc1d (b.bins fo) (maskPts vs ws)).freq,
        err2 := (calc1d (b.bins fo) (maskPts vs ws)).err2,
        under := if keep then (calc1d (b.bins fo) (maskPts vs ws)).under else some 0,
        over := if keep then (calc1d (b.bins fo) (maskPts vs ws)).over else some 0,
        inner := some 0, keep := keep, dtype := constructDType ws wkind dtype,
        stats := statsOf (maskPts vs ws) (allEqual ((maskPts vs ws).map (·.2)))
          (medianOf ((maskPts vs ws).map (·.1))) } := by
  have h1 : (!dropna && vs.any Option.isNone) = false := by
    cases hd : dropna with
    | true => rfl
    | false => simp [ok.nan hd]
  have h2 : (!weightsShapeOk vs ws) = false := by simp [ok.shape]
  have h3 : (b.bins fo).isEmpty = false := by
    cases hbb : b.bins fo with
    | nil => exact (hne hbb).elim
    | cons _ _ => rfl
  have h4 : (!risingB (b.bins fo)) = false := by simp [(risingB_iff _).mpr hr]
  have h5 : ((constructDType ws wkind dtype).isInt && !(if ws.isSome then wkind else DType.i64).isInt) = false := by
    cases hi : (constructDType ws wkind dtype).isInt with
    | false => rfl
    | true => simp [ok.dt hi]
  unfold H1.construct
  simp only [bind, Except.bind, pure, Except.pure, throw, throwThe, MonadExceptOf.throw]
  unfold constructDType at h5
  simp only [h1, h2, h3, h4, h5, Bool.false_eq_true, if_false]
  rfl

/-- **The histogram counts every value exactly once and misses nothing**: one content and one squared
    error per bin, the content of bin `i` is the weight of the values inside bin `i`, every value lies in
    exactly one bin, underflow / overflow / inner-missed are `0`, the total is the total weight. -/
structure CountsAll (bins : Bins) (pts : List Pt) (h : H1) : Prop where
  flen : h.freq.length = bins.length
  elen : h.err2.length = bins.length
  content : ∀ i, i < bins.length → h.freq[i]? = some (wsum (pts.filter fun p => inBin bins true i p.1))
  error2 : ∀ i, i < bins.length → h.err2[i]? = some (w2sum (pts.filter fun p => inBin bins true i p.1))
  placed : ∀ p ∈ pts, ∃ i, i < bins.length ∧ inBin bins true i p.1 = true ∧
    ∀ j, inBin bins true j p.1 = true → j = i
  under : h.under = some 0
  over : h.over = some 0
  inner : h.inner = some 0
  underflow : h.underflow = if h.keep then some 0 else none
  overflow : h.overflow = if h.keep then some 0 else none
  total : h.total = wsum pts
  weight : h.stats.weight = wsum pts

theorem statsOf_weight (data : List Pt) (eq : Bool) (m : Option Rat) : (statsOf data eq m).weight = wsum data := by
  cases data with
  | nil => rfl
  | cons p ps => rfl

/-- **`h1` over a binning that spans the data**: the call is accepted and the histogram counts every
    (non-NaN) value once, in the bin that contains it, with nothing missed. -/
theorem construct_spanning (fo : FloatOps) (b : Binning) (vs : List (Option Rat)) (ws : Option (List Rat))
    (wkind : DType) (dtype : Option DType) (keep dropna : Bool) (ok : ArgsOk vs ws wkind dtype dropna)
    (hr : Rising (b.bins fo)) (hc : consecutiveB (b.bins fo) = true) (hne : b.bins fo ≠ [])
    (hspan : ∀ p ∈ maskPts vs ws, ((b.bins fo).head hne).1 ≤ p.1 ∧ p.1 ≤ ((b.bins fo).getLast hne).2) :
    ∃ h : H1, H1.construct fo b vs ws wkind dtype keep dropna = .ok h ∧ h.binning = b ∧ h.keep = keep ∧
      h.dtype = constructDType ws wkind dtype ∧ CountsAll (b.bins fo) (maskPts vs ws) h := by
  refine ⟨_, construct_eq_ok fo b vs ws wkind dtype keep dropna ok hne hr, rfl, rfl, rfl, ?_⟩
  obtain ⟨hu, ho, hsum⟩ := calc1d_spanning (b.bins fo) (maskPts vs ws) hr hc hne hspan
  have hshape := C01_shape (b.bins fo) (maskPts vs ws)
  refine ⟨hshape.1, hshape.2, fun i hi => (C01_content _ _ hr i hi).1, fun i hi => (C01_content _ _ hr i hi).2,
    ?_, ?_, ?_, rfl, ?_, ?_, hsum, statsOf_weight _ _ _⟩
  · intro p hp
    obtain ⟨i, hi, hin⟩ := in_some_bin (b.bins fo) hr hc hne p.1 (hspan p hp).1 (hspan p hp).2
    exact ⟨i, hi, hin, fun j hj => C01_once _ hr p.1 j i hj hin⟩
  · simp only [hu]; cases keep <;> rfl
  · simp only [ho]; cases keep <;> rfl
  · simp only [H1.underflow, hu]; cases keep <;> rfl
  · simp only [H1.overflow, ho]; cases keep <;> rfl

/-- a binning that is not rising is refused, whatever the data -/
theorem construct_refused_not_rising (fo : FloatOps) (b : Binning) (vs : List (Option Rat))
    (ws : Option (List Rat)) (wkind : DType) (dtype : Option DType) (keep dropna : Bool)
    (hr : risingB (b.bins fo) = false) :
    ∃ e, H1.construct fo b vs ws wkind dtype keep dropna = .error e := by
  unfold H1.construct
  simp only [bind, Except.bind, pure, Except.pure, throw, throwThe, MonadExceptOf.throw, hr]
  repeat (split <;> try exact ⟨_, rfl⟩)

/-! ## Fixed-width bins derived from the data (`fixed_width`, `integer`, `pretty`) -/

theorem binsFrom_ne_nil (edge : Int → Rat) (t : Int) (n : Nat) (hn : 0 < n) : binsFrom edge t n ≠ [] := by
  intro h
  have := congrArg List.length h
  rw [binsFrom_length] at this
  simp at this; omega

theorem binsFrom_head (edge : Int → Rat) (t : Int) (n : Nat) (hne : binsFrom edge t n ≠ []) :
    (binsFrom edge t n).head hne = (edge t, edge (t + 1)) := by
  have hn : 0 < n := by
    rcases Nat.eq_zero_or_pos n with h | h
    · subst h; exact (hne rfl).elim
    · exact h
  have h1 := List.head?_eq_some_head hne
  rw [List.head?_eq_getElem?, binsFrom_getElem? edge t n 0 hn] at h1
  simpa using (Option.some.inj h1).symm

theorem binsFrom_getLast (edge : Int → Rat) (t : Int) (n : Nat) (hne : binsFrom edge t n ≠ []) :
    (binsFrom edge t n).getLast hne = (edge (t + n - 1), edge (t + n)) := by
  have hn : 0 < n := by
    rcases Nat.eq_zero_or_pos n with h | h
    · subst h; exact (hne rfl).elim
    · exact h
  have h1 := List.getLast?_eq_some_getLast hne
  rw [List.getLast?_eq_getElem?, binsFrom_length, binsFrom_getElem? edge t n (n - 1) (by omega)] at h1
  have e1 : t + ((n - 1 : Nat) : Int) = t + n - 1 := by omega
  rw [e1] at h1
  have e2 : t + (n : Int) - 1 + 1 = t + n := by omega
  rw [e2] at h1
  exact (Option.some.inj h1).symm

/-- data inside a grid lie between its first and its last edge -/
theorem inside_spans {edge : Int → Rat} (hm : ∀ a b : Int, a < b → edge a < edge b) (t : Int) (n : Nat)
    (pts : List Pt) (hin : Inside edge t n pts) (hne : binsFrom edge t n ≠ []) :
    ∀ p ∈ pts, ((binsFrom edge t n).head hne).1 ≤ p.1 ∧ p.1 ≤ ((binsFrom edge t n).getLast hne).2 := by
  intro p hp
  obtain ⟨k, hk, h1, h2⟩ := hin p hp
  rw [binsFrom_head, binsFrom_getLast]
  constructor
  · exact le_trans (edge_le_of_le hm h1) hk.1
  · exact le_trans (le_of_lt hk.2) (edge_le_of_le hm (by omega))

/-- **`fixed_width_binning(data)`**: a fresh (empty, aligned) grid grown for the minimum and the maximum
    of the data, for either value of `includes_right_edge`.  The grid starts at the cell of the minimum
    and ends with the cell of the maximum — or, with `includes_right_edge`, AT the maximum when the
    maximum sits on a grid edge. -/
theorem forceMany_from_empty (fo : FloatOps) (fuel : Nat) (g0 : Grid) (h0 : g0.count = 0)
    (halign : g0.align = true) (hm : EdgeMono fo g0.w g0.shift) (ire : Bool) (vals : List Rat) (lo hi : Rat)
    (hmin : listMin vals = some lo) (hmax : listMax vals = some hi) (hle : lo ≤ hi) (klo khi : Int)
    (hklo : CellOf (fo.edge g0.w g0.shift) lo klo) (hflo : (fo.est g0.w g0.shift lo - klo).natAbs ≤ fuel)
    (hkhi : CellOf (fo.edge g0.w g0.shift) hi khi) (hfhi : (fo.est g0.w g0.shift hi - khi).natAbs ≤ fuel) :
    ∃ n : Nat, (g0.forceMany fo fuel vals ire).1 = { g0 with tmin := klo, count := n } ∧ 0 < n ∧
      (klo + n = khi + 1 ∨ (ire = true ∧ fo.edge g0.w g0.shift khi = hi ∧ klo < khi ∧ klo + n = khi)) := by
  rw [forceMany_of_min_max fo fuel g0 vals ire lo hi hmin hmax]
  have hloc : g0.findIndex fo fuel lo = klo := locate_spec (g0.edgeAt fo) lo hm klo _ fuel hklo hflo
  have hg1 : (g0.forceSingle fo fuel lo g0.ire).1 = { g0 with tmin := klo, count := 1 } := by
    unfold forceSingle
    simp [h0, halign, hloc]
  rw [hg1]
  have hkk : klo ≤ khi := cell_mono hm hklo hkhi hle
  have hloc2 : ({ g0 with tmin := klo, count := 1 } : Grid).findIndex fo fuel hi = khi :=
    locate_spec (g0.edgeAt fo) hi hm khi _ fuel hkhi hfhi
  have hfirst : ¬ hi < ({ g0 with tmin := klo, count := 1 } : Grid).firstEdge fo := by
    show ¬ hi < fo.edge g0.w g0.shift klo
    have := hklo.1
    intro h; linarith
  unfold forceSingle
  simp only [show ¬ (1 : Nat) = 0 by omega, if_false, hfirst, hloc2]
  by_cases h2 : ({ g0 with tmin := klo, count := 1 } : Grid).lastEdge fo ≤ hi
  · simp only [h2, if_true]
    have hkgt : klo + 1 ≤ khi := by
      have : fo.edge g0.w g0.shift (klo + ((1 : Nat) : Int)) ≤ hi := h2
      exact cell_ge_of_le hm hkhi (by simpa using this)
    have hedge : ({ g0 with tmin := klo, count := 1 } : Grid).edgeAt fo khi = fo.edge g0.w g0.shift khi := rfl
    rw [hedge]
    by_cases hon : fo.edge g0.w g0.shift khi = hi ∧ ire = true
    · rw [if_pos hon]
      by_cases hz : khi - klo + 1 - 1 - ((1 : Nat) : Int) = 0
      · simp only [hz, if_true]
        exact ⟨1, rfl, by omega, Or.inr ⟨hon.2, hon.1, by omega, by push_cast at hz ⊢; omega⟩⟩
      · simp only [hz, if_false]
        refine ⟨(((1 : Nat) : Int) + (khi - klo + 1 - 1 - ((1 : Nat) : Int))).toNat, rfl, by push_cast at hz ⊢; omega,
          Or.inr ⟨hon.2, hon.1, by push_cast at hz ⊢; omega, by push_cast at hz ⊢; omega⟩⟩
    · rw [if_neg hon]
      have hz : ¬ khi - klo + 1 - 0 - ((1 : Nat) : Int) = 0 := by push_cast; omega
      simp only [hz, if_false]
      exact ⟨(((1 : Nat) : Int) + (khi - klo + 1 - 0 - ((1 : Nat) : Int))).toNat, rfl, by push_cast; omega,
        Or.inl (by push_cast; omega)⟩
  · simp only [h2, if_false]
    have : hi < fo.edge g0.w g0.shift (klo + ((1 : Nat) : Int)) := not_le.mp h2
    have hlt : khi < klo + 1 := cell_lt_of_lt hm hkhi (by simpa using this)
    exact ⟨1, rfl, by omega, Or.inl (by omega)⟩

/-- the binning `fixed_width_binning(data, bin_width=w, …)` derives from the data -/
def fixedWidthOf (fo : FloatOps) (fuel : Nat) (g0 : Grid) (ire : Bool) (vs : List (Option Rat)) : Grid :=
  (g0.forceMany fo fuel (vs.filterMap id) ire).1

/-- the first bin starts at or below the least, the last bin ends at or above the greatest value, and both
    ends are tight: the least value lies in the first bin, the greatest in the last one -/
structure TightOn (edge : Int → Rat) (g : Grid) (vals : List Rat) (ire : Bool) : Prop where
  pos : 0 < g.count
  lo : ∃ lo, listMin vals = some lo ∧ CellOf edge lo g.tmin
  hi : ∃ hi, listMax vals = some hi ∧
    (CellOf edge hi (g.tmin + g.count - 1) ∨
      (ire = true ∧ edge (g.tmin + g.count) = hi))

theorem mem_vals_of_mem_maskPts (vs : List (Option Rat)) (ws : Option (List Rat))
    (hok : weightsShapeOk vs ws = true) (p : Pt) (hp : p ∈ maskPts vs ws) : p.1 ∈ vs.filterMap id := by
  rw [← maskPts_values vs ws hok]
  exact List.mem_map_of_mem hp

/-- **C01 ∘ C07/C04, fixed-width bins derived from the data** (any `FloatOps` with a strictly increasing
    edge function whose cell search reaches the cells of the least and the greatest value; aligned grid;
    either value of `includes_right_edge`). -/
theorem construct_fixed_width (fo : FloatOps) (fuel : Nat) (g0 : Grid) (h0 : g0.count = 0)
    (halign : g0.align = true) (hm : EdgeMono fo g0.w g0.shift) (ire : Bool)
    (vs : List (Option Rat)) (ws : Option (List Rat)) (wkind : DType) (dtype : Option DType)
    (keep dropna : Bool) (ok : ArgsOk vs ws wkind dtype dropna) (hdata : vs.filterMap id ≠ [])
    (hreach : ∀ v, (listMin (vs.filterMap id) = some v ∨ listMax (vs.filterMap id) = some v) →
      Reach fo g0.w g0.shift fuel v) :
    ∃ h : H1, H1.construct fo (.fixed (fixedWidthOf fo fuel g0 ire vs)) vs ws wkind dtype keep dropna = .ok h ∧
      h.binning = .fixed (fixedWidthOf fo fuel g0 ire vs) ∧ h.keep = keep ∧
      h.dtype = constructDType ws wkind dtype ∧
      CountsAll ((fixedWidthOf fo fuel g0 ire vs).bins fo) (maskPts vs ws) h ∧
      Rising ((fixedWidthOf fo fuel g0 ire vs).bins fo) ∧
      consecutiveB ((fixedWidthOf fo fuel g0 ire vs).bins fo) = true ∧
      (fixedWidthOf fo fuel g0 ire vs).w = g0.w ∧ (fixedWidthOf fo fuel g0 ire vs).shift = g0.shift ∧
      TightOn (fo.edge g0.w g0.shift) (fixedWidthOf fo fuel g0 ire vs) (vs.filterMap id) ire := by
  obtain ⟨x, xs, hx⟩ : ∃ x xs, vs.filterMap id = x :: xs := by
    cases hv : vs.filterMap id with
    | nil => exact (hdata hv).elim
    | cons x xs => exact ⟨x, xs, rfl⟩
  obtain ⟨lo, hi, hmin, hmax, hlomem, himem, hbound⟩ := listMin_listMax_spec x xs
  rw [← hx] at hmin hmax hlomem himem hbound
  obtain ⟨klo, hklo, hflo⟩ := hreach lo (Or.inl hmin)
  obtain ⟨khi, hkhi, hfhi⟩ := hreach hi (Or.inr hmax)
  obtain ⟨n, hg, hn, hend⟩ := forceMany_from_empty fo fuel g0 h0 halign hm ire (vs.filterMap id) lo hi hmin hmax
    (hbound lo hlomem).2 klo khi hklo hflo hkhi hfhi
  have hg' : fixedWidthOf fo fuel g0 ire vs = { g0 with tmin := klo, count := n } := hg
  rw [hg']
  have hbins : (Binning.fixed { g0 with tmin := klo, count := n }).bins fo
      = binsFrom (fo.edge g0.w g0.shift) klo n := rfl
  have hbins' : ({ g0 with tmin := klo, count := n } : Grid).bins fo = binsFrom (fo.edge g0.w g0.shift) klo n := rfl
  have hne : binsFrom (fo.edge g0.w g0.shift) klo n ≠ [] := binsFrom_ne_nil _ _ _ hn
  have hrise : Rising (binsFrom (fo.edge g0.w g0.shift) klo n) := binsFrom_rising _ hm _ _
  have hcons : consecutiveB (binsFrom (fo.edge g0.w g0.shift) klo n) = true := binsFrom_consecutive _ _ _
  have hlast : hi ≤ fo.edge g0.w g0.shift (klo + n) := by
    rcases hend with h | ⟨_, he, _, h⟩
    · rw [h]; exact le_of_lt hkhi.2
    · rw [h, he]
  have hspan : ∀ p ∈ maskPts vs ws,
      ((binsFrom (fo.edge g0.w g0.shift) klo n).head hne).1 ≤ p.1 ∧
      p.1 ≤ ((binsFrom (fo.edge g0.w g0.shift) klo n).getLast hne).2 := by
    intro p hp
    have hv := hbound p.1 (mem_vals_of_mem_maskPts vs ws ok.shape p hp)
    rw [binsFrom_head, binsFrom_getLast]
    exact ⟨le_trans hklo.1 hv.1, le_trans hv.2 hlast⟩
  obtain ⟨h, hc, hb, hk, hd, hcount⟩ := construct_spanning fo (.fixed { g0 with tmin := klo, count := n }) vs ws wkind
    dtype keep dropna ok (by rw [hbins]; exact hrise) (by rw [hbins]; exact hcons) (by rw [hbins]; exact hne)
    (by simpa only [hbins] using hspan)
  refine ⟨h, hc, hb, hk, hd, ?_, by rw [hbins']; exact hrise, by rw [hbins']; exact hcons, rfl, rfl, ?_⟩
  · rw [hbins']; rw [hbins] at hcount; exact hcount
  · refine ⟨hn, ⟨lo, hmin, hklo⟩, ⟨hi, hmax, ?_⟩⟩
    show CellOf (fo.edge g0.w g0.shift) hi (klo + (n : Int) - 1) ∨
      (ire = true ∧ fo.edge g0.w g0.shift (klo + (n : Int)) = hi)
    rcases hend with hE | ⟨h1, he, hlt, hE⟩
    · left
      have : klo + (n : Int) - 1 = khi := by omega
      rw [this]; exact hkhi
    · right
      refine ⟨h1, ?_⟩
      rw [hE, he]

/-- in exact arithmetic the only hypothesis on the grid is a positive width -/
theorem construct_fixed_width_exact (fuel : Nat) (g0 : Grid) (h0 : g0.count = 0) (halign : g0.align = true)
    (hw : 0 < g0.w) (ire : Bool) (vs : List (Option Rat)) (ws : Option (List Rat)) (wkind : DType)
    (dtype : Option DType) (keep dropna : Bool) (ok : ArgsOk vs ws wkind dtype dropna)
    (hdata : vs.filterMap id ≠ []) :
    ∃ h : H1, H1.construct FloatOps.exact (.fixed (fixedWidthOf FloatOps.exact fuel g0 ire vs)) vs ws wkind dtype
        keep dropna = .ok h ∧
      h.binning = .fixed (fixedWidthOf FloatOps.exact fuel g0 ire vs) ∧ h.keep = keep ∧
      h.dtype = constructDType ws wkind dtype ∧
      CountsAll ((fixedWidthOf FloatOps.exact fuel g0 ire vs).bins FloatOps.exact) (maskPts vs ws) h ∧
      Rising ((fixedWidthOf FloatOps.exact fuel g0 ire vs).bins FloatOps.exact) ∧
      consecutiveB ((fixedWidthOf FloatOps.exact fuel g0 ire vs).bins FloatOps.exact) = true ∧
      (fixedWidthOf FloatOps.exact fuel g0 ire vs).w = g0.w ∧
      (fixedWidthOf FloatOps.exact fuel g0 ire vs).shift = g0.shift ∧
      TightOn (FloatOps.exact.edge g0.w g0.shift) (fixedWidthOf FloatOps.exact fuel g0 ire vs)
        (vs.filterMap id) ire :=
  construct_fixed_width FloatOps.exact fuel g0 h0 halign (C04_exact_mono _ _ hw) ire vs ws wkind dtype keep dropna
    ok hdata (fun v _ => reach_exact g0.w g0.shift hw fuel v)

/-! ## Bins given by their edges (`numpy`-style `bins=n`, quantile edges) -/

theorem edgesToBins_ne_nil (e : List Rat) (h2 : 2 ≤ e.length) : edgesToBins e ≠ [] := by
  intro h
  have := congrArg List.length h
  rw [C07_bin_count] at this
  simp at this; omega

/-- first and last edge of the bins made from an edge list are the first and the last entry of the list -/
theorem edgesToBins_ends (e : List Rat) (h2 : 2 ≤ e.length) (hne : edgesToBins e ≠ []) (he : e ≠ []) :
    ((edgesToBins e).head hne).1 = e.head he ∧ ((edgesToBins e).getLast hne).2 = e.getLast he := by
  have hends := binsToEdges_ends (edgesToBins e)
  rw [C07_edges_pairs e h2] at hends
  constructor
  · have h1 := hends.1
    rw [List.head?_eq_some_head he, firstEdge?, List.head?_eq_some_head hne] at h1
    exact (Option.some.inj h1).symm
  · have h1 := hends.2
    rw [List.getLast?_eq_some_getLast he, lastEdge?, List.getLast?_eq_some_getLast hne] at h1
    exact (Option.some.inj h1).symm

/-- **C01 ∘ C07, bins given by strictly increasing edges that reach from (at most) the least to (at
    least) the greatest value** — what `np.linspace(min, max, n + 1)` produces in ANY arithmetic, as long
    as the computed edges strictly increase and the end points are the exact minimum / maximum. -/
theorem construct_edges (fo : FloatOps) (e : List Rat) (he : e.Pairwise (· < ·)) (h2 : 2 ≤ e.length)
    (hne : e ≠ []) (ire : Bool)
    (vs : List (Option Rat)) (ws : Option (List Rat)) (wkind : DType) (dtype : Option DType)
    (keep dropna : Bool) (ok : ArgsOk vs ws wkind dtype dropna)
    (hspan : ∀ v ∈ vs.filterMap id, e.head hne ≤ v ∧ v ≤ e.getLast hne) :
    ∃ h : H1, H1.construct fo (.static (edgesToBins e) ire) vs ws wkind dtype keep dropna = .ok h ∧
      h.binning = .static (edgesToBins e) ire ∧ h.keep = keep ∧ h.dtype = constructDType ws wkind dtype ∧
      CountsAll (edgesToBins e) (maskPts vs ws) h ∧ Rising (edgesToBins e) ∧
      consecutiveB (edgesToBins e) = true ∧ (edgesToBins e).length = e.length - 1 := by
  have hbne := edgesToBins_ne_nil e h2
  have hr := C07_edges_rising e he
  have hc := C07_edges_consecutive e
  have hends := edgesToBins_ends e h2 hbne hne
  obtain ⟨h, hc1, hb, hk, hd, hcount⟩ := construct_spanning fo (.static (edgesToBins e) ire) vs ws wkind dtype keep
    dropna ok hr hc hbne (by
      intro p hp
      have hv := hspan p.1 (mem_vals_of_mem_maskPts vs ws ok.shape p hp)
      show ((edgesToBins e).head hbne).1 ≤ p.1 ∧ p.1 ≤ ((edgesToBins e).getLast hbne).2
      rw [hends.1, hends.2]; exact hv)
  exact ⟨h, hc1, hb, hk, hd, hcount, hr, hc, C07_bin_count e⟩

theorem listMin_le (vals : List Rat) (lo : Rat) (h : listMin vals = some lo) : lo ∈ vals ∧ ∀ v ∈ vals, lo ≤ v := by
  cases vals with
  | nil => simp [listMin] at h
  | cons x xs =>
    obtain ⟨lo', hi', h1, _, hm, _, hb⟩ := listMin_listMax_spec x xs
    rw [h1] at h; cases h
    exact ⟨hm, fun v hv => (hb v hv).1⟩

theorem le_listMax (vals : List Rat) (hi : Rat) (h : listMax vals = some hi) : hi ∈ vals ∧ ∀ v ∈ vals, v ≤ hi := by
  cases vals with
  | nil => simp [listMax] at h
  | cons x xs =>
    obtain ⟨lo', hi', _, h1, _, hm, hb⟩ := listMin_listMax_spec x xs
    rw [h1] at h; cases h
    exact ⟨hm, fun v hv => (hb v hv).2⟩

/-- **`h1(data, bins=n)` in exact arithmetic**: `n` equal bins from the least to the greatest value. -/
theorem construct_numpy_exact (fo : FloatOps) (n : Nat) (hn : 0 < n) (ire : Bool)
    (vs : List (Option Rat)) (ws : Option (List Rat)) (wkind : DType) (dtype : Option DType)
    (keep dropna : Bool) (ok : ArgsOk vs ws wkind dtype dropna) (lo hi : Rat)
    (hmin : listMin (vs.filterMap id) = some lo) (hmax : listMax (vs.filterMap id) = some hi) (hlt : lo < hi) :
    ∃ h : H1, H1.construct fo (.static (edgesToBins (linspace lo hi n)) ire) vs ws wkind dtype keep dropna = .ok h ∧
      h.binning = .static (edgesToBins (linspace lo hi n)) ire ∧ h.keep = keep ∧
      h.dtype = constructDType ws wkind dtype ∧
      CountsAll (edgesToBins (linspace lo hi n)) (maskPts vs ws) h ∧ Rising (edgesToBins (linspace lo hi n)) ∧
      consecutiveB (edgesToBins (linspace lo hi n)) = true ∧ (edgesToBins (linspace lo hi n)).length = n ∧
      ∀ b ∈ edgesToBins (linspace lo hi n), b.2 - b.1 = (hi - lo) / n := by
  obtain ⟨hlen, hhead, hlast, hpw, hstep⟩ := C07_linspace lo hi n hn hlt
  have hne : linspace lo hi n ≠ [] := by
    intro h0; rw [h0] at hlen; simp at hlen
  have hh : (linspace lo hi n).head hne = lo := by
    rw [List.head?_eq_some_head hne] at hhead; exact Option.some.inj hhead
  have hl : (linspace lo hi n).getLast hne = hi := by
    rw [List.getLast?_eq_some_getLast hne] at hlast; exact Option.some.inj hlast
  obtain ⟨h, hc, hb, hk, hd, hcount, hr, hcs, hbl⟩ := construct_edges fo (linspace lo hi n) hpw (by omega) hne ire vs ws
    wkind dtype keep dropna ok (by
      intro v hv
      rw [hh, hl]
      exact ⟨(listMin_le _ lo hmin).2 v hv, (le_listMax _ hi hmax).2 v hv⟩)
  refine ⟨h, hc, hb, hk, hd, hcount, hr, hcs, by rw [hbl, hlen]; omega, ?_⟩
  intro b hb'
  obtain ⟨i, hi', hget⟩ := List.getElem_of_mem hb'
  have hi2 : i < n := by rw [hbl, hlen] at hi'; omega
  obtain ⟨a, c, ha, hc', hd'⟩ := hstep i hi2
  -- bin `i` of `edgesToBins e` is `(e[i], e[i+1])`
  have key : ∀ (e : List Rat) (i : Nat) (a c : Rat), e[i]? = some a → e[i + 1]? = some c →
      (edgesToBins e)[i]? = some (a, c) := by
    intro e
    induction e with
    | nil => intro i a c h1; simp at h1
    | cons x t ih =>
      intro i a c h1 h2
      cases t with
      | nil => simp at h2
      | cons y u =>
        cases i with
        | zero =>
          simp only [List.getElem?_cons_zero, List.getElem?_cons_succ, Option.some.injEq] at h1 h2
          simp [edgesToBins, h1, h2]
        | succ i =>
          simp only [List.getElem?_cons_succ] at h1 h2
          simp only [edgesToBins, List.getElem?_cons_succ]
          exact ih i a c h1 (by simpa using h2)
  have := key (linspace lo hi n) i a c ha hc'
  rw [List.getElem?_eq_getElem hi', hget] at this
  cases this
  exact hd'

/-- **`h1(data, "quantile", q=qs)`**: `s` is the sorted data; the `qs` increase strictly from 0 to 1.  The
    call is accepted exactly when no two neighbouring quantiles coincide, and then every value is counted
    once with nothing missed; otherwise it is refused. -/
theorem construct_quantile (fo : FloatOps) (s : List Rat) (qs : List Rat)
    (vs : List (Option Rat)) (ws : Option (List Rat)) (wkind : DType) (dtype : Option DType)
    (keep dropna : Bool) (ok : ArgsOk vs ws wkind dtype dropna)
    (hperm : s.Perm (vs.filterMap id)) (hs : s.Pairwise (· ≤ ·)) (hdata : vs.filterMap id ≠ [])
    (hqs : qs.Pairwise (· < ·)) (h01 : ∀ q ∈ qs, 0 ≤ q ∧ q ≤ 1) (hq0 : qs.head? = some 0)
    (hq1 : qs.getLast? = some 1) (hlen : 2 ≤ qs.length) :
    ∃ es : List Rat, qs.map (quantile s) = es.map some ∧
      ((∀ i (hi : i + 1 < es.length), es[i] ≠ es[i + 1]) →
        ∃ h : H1, H1.construct fo (.static (edgesToBins es) true) vs ws wkind dtype keep dropna = .ok h ∧
          h.binning = .static (edgesToBins es) true ∧ h.keep = keep ∧
          h.dtype = constructDType ws wkind dtype ∧ CountsAll (edgesToBins es) (maskPts vs ws) h ∧
          (edgesToBins es).length = qs.length - 1) ∧
      (¬ (∀ i (hi : i + 1 < es.length), es[i] ≠ es[i + 1]) →
        ∃ e, H1.construct fo (.static (edgesToBins es) true) vs ws wkind dtype keep dropna = .error e) := by
  have hsne : s ≠ [] := by
    intro h0; subst h0
    exact hdata (List.perm_nil.mp hperm.symm ▸ rfl)
  obtain ⟨es, hmap, heslen, _, _, hrise, hriseB, hhead, hlast⟩ := quantile_edges s hs hsne qs hqs h01
  refine ⟨es, hmap, ?_, ?_⟩
  · intro hdist
    have hpw : es.Pairwise (· < ·) := (rising_edgesToBins_iff es).mp (hrise.mpr hdist)
    have hene : es ≠ [] := by
      intro h0; subst h0; simp at heslen; omega
    have e1 : es.head hene = s.head hsne := by
      have := hhead hq0
      rw [List.head?_eq_some_head hene, List.head?_eq_some_head hsne] at this
      exact Option.some.inj this
    have e2 : es.getLast hene = s.getLast hsne := by
      have := hlast hq1
      rw [List.getLast?_eq_some_getLast hene, List.getLast?_eq_some_getLast hsne] at this
      exact Option.some.inj this
    obtain ⟨h, hc, hb, hk, hd, hcount, _, _, hbl⟩ := construct_edges fo es hpw (by omega) hene true vs ws wkind dtype
      keep dropna ok (by
        intro v hv
        have hvs : v ∈ s := hperm.symm.subset hv
        obtain ⟨i, hi, rfl⟩ := List.getElem_of_mem hvs
        rw [e1, e2]
        exact ⟨sorted_head_le s hs hsne i hi, sorted_le_getLast s hs hsne i hi⟩)
    exact ⟨h, hc, hb, hk, hd, hcount, by rw [hbl, heslen]⟩
  · intro hnot
    apply construct_refused_not_rising
    show risingB (edgesToBins es) = false
    cases hb : risingB (edgesToBins es) with
    | false => rfl
    | true => exact (hnot (hriseB.mp hb)).elim

/-! ## Integer bins and the pretty width -/

/-- **Integer bins**: in exact arithmetic with width 1 and origin 1/2, bin `i` of the grid is centred on the
    integer `tmin + i + 1`, and an integer value lies in bin `i` exactly when it IS that integer. -/
theorem integer_bin_iff (g : Grid) (hw : g.w = 1) (hs : g.shift = 1 / 2) (i : Nat) (hi : i < g.count) (m : Int) :
    (g.bins FloatOps.exact)[i]? = some (((g.tmin + i + 1 : Int) : Rat) - 1 / 2, ((g.tmin + i + 1 : Int) : Rat) + 1 / 2) ∧
    (inBin (g.bins FloatOps.exact) true i (m : Rat) = true ↔ m = g.tmin + i + 1) := by
  have hget : (g.bins FloatOps.exact)[i]?
      = some (((g.tmin + i + 1 : Int) : Rat) - 1 / 2, ((g.tmin + i + 1 : Int) : Rat) + 1 / 2) := by
    rw [bins_eq_binsFrom, binsFrom_getElem? _ _ _ _ hi]
    simp only [edgeAt, FloatOps.exact, hw, hs]
    congr 2 <;> (push_cast; ring)
  refine ⟨hget, ?_⟩
  unfold inBin
  rw [hget]
  simp only [Bool.and_eq_true, Bool.or_eq_true, decide_eq_true_eq, Bool.true_and, beq_iff_eq]
  constructor
  · rintro ⟨h1, h2⟩
    have a1 : (2 * (g.tmin + i + 1) - 1 : Int) ≤ 2 * m := by
      have : ((2 * (g.tmin + i + 1) - 1 : Int) : Rat) ≤ ((2 * m : Int) : Rat) := by push_cast at h1 ⊢; linarith
      exact_mod_cast this
    rcases h2 with h2 | ⟨_, h2⟩
    · have a2 : (2 * m : Int) < 2 * (g.tmin + i + 1) + 1 := by
        have : ((2 * m : Int) : Rat) < ((2 * (g.tmin + i + 1) + 1 : Int) : Rat) := by push_cast at h2 ⊢; linarith
        exact_mod_cast this
      omega
    · have a2 : (2 * m : Int) = 2 * (g.tmin + i + 1) + 1 := by
        have : ((2 * m : Int) : Rat) = ((2 * (g.tmin + i + 1) + 1 : Int) : Rat) := by push_cast at h2 ⊢; linarith
        exact_mod_cast this
      omega
  · intro hm
    subst hm
    refine ⟨by linarith, Or.inl (by linarith)⟩

/-- when every value is an integer, the values inside integer bin `i` are the values EQUAL to its centre -/
theorem integer_bin_filter (g : Grid) (hw : g.w = 1) (hs : g.shift = 1 / 2) (pts : List Pt)
    (hint : ∀ p ∈ pts, ∃ m : Int, p.1 = (m : Rat)) (i : Nat) (hi : i < g.count) :
    (pts.filter fun p => inBin (g.bins FloatOps.exact) true i p.1)
      = pts.filter fun p => decide (p.1 = ((g.tmin + i + 1 : Int) : Rat)) := by
  apply List.filter_congr
  intro p hp
  obtain ⟨m, hm⟩ := hint p hp
  rw [hm, Bool.eq_iff_iff, (integer_bin_iff g hw hs i hi m).2]
  simp only [decide_eq_true_eq]
  constructor
  · intro h; rw [h]
  · intro h; exact_mod_cast h

/-- the pretty width is positive when every candidate is -/
theorem prettyChoice_pos (raw : Rat) (cands : List Rat) (hpos : ∀ c ∈ cands, 0 < c) (w : Rat)
    (h : prettyChoice raw cands = some w) : 0 < w := by
  have hne : cands ≠ [] := by
    intro h0; subst h0; simp [prettyChoice] at h
  obtain ⟨w', hw', hmem, _⟩ := C07_pretty raw cands hne
  rw [h] at hw'; cases hw'
  exact hpos w hmem

theorem decimalCandidates_pos (p : Rat) (hp : 0 < p) : ∀ c ∈ decimalCandidates p, 0 < c := by
  intro c hc
  rw [C07_pretty_set] at hc
  simp only [List.mem_cons, List.not_mem_nil, or_false] at hc
  rcases hc with rfl | rfl | rfl | rfl | rfl | rfl <;> linarith

/-! ## The unaligned grid (`align=False`) in exact arithmetic -/

/-- **`h1` over a grid that spans the data** (any `FloatOps` with strictly increasing edges): the generic
    step behind the fixed-width statements. -/
theorem construct_grid_spanning (fo : FloatOps) (g : Grid) (hn : 0 < g.count) (hm : EdgeMono fo g.w g.shift)
    (vs : List (Option Rat)) (ws : Option (List Rat)) (wkind : DType) (dtype : Option DType)
    (keep dropna : Bool) (ok : ArgsOk vs ws wkind dtype dropna)
    (hlo : ∀ v ∈ vs.filterMap id, g.edgeAt fo g.tmin ≤ v)
    (hhi : ∀ v ∈ vs.filterMap id, v ≤ g.edgeAt fo (g.tmin + g.count)) :
    ∃ h : H1, H1.construct fo (.fixed g) vs ws wkind dtype keep dropna = .ok h ∧ h.binning = .fixed g ∧
      h.keep = keep ∧ h.dtype = constructDType ws wkind dtype ∧ CountsAll (g.bins fo) (maskPts vs ws) h ∧
      Rising (g.bins fo) ∧ consecutiveB (g.bins fo) = true := by
  have hbins : (Binning.fixed g).bins fo = binsFrom (g.edgeAt fo) g.tmin g.count := rfl
  have hne : binsFrom (g.edgeAt fo) g.tmin g.count ≠ [] := binsFrom_ne_nil _ _ _ hn
  have hrise : Rising (binsFrom (g.edgeAt fo) g.tmin g.count) := binsFrom_rising _ hm _ _
  have hcons : consecutiveB (binsFrom (g.edgeAt fo) g.tmin g.count) = true := binsFrom_consecutive _ _ _
  obtain ⟨h, hc, hb, hk, hd, hcount⟩ := construct_spanning fo (.fixed g) vs ws wkind dtype keep dropna ok
    (by rw [hbins]; exact hrise) (by rw [hbins]; exact hcons) (by rw [hbins]; exact hne) (by
      intro p hp
      have hv := mem_vals_of_mem_maskPts vs ws ok.shape p hp
      show ((binsFrom (g.edgeAt fo) g.tmin g.count).head hne).1 ≤ p.1 ∧
        p.1 ≤ ((binsFrom (g.edgeAt fo) g.tmin g.count).getLast hne).2
      rw [binsFrom_head, binsFrom_getLast]
      exact ⟨hlo p.1 hv, hhi p.1 hv⟩)
  exact ⟨h, hc, hb, hk, hd, hcount, hrise, hcons⟩

/-- the second call of `_force_bin_existence` (for the maximum) on a one-bin grid whose first edge is not
    above the value -/
theorem forceSingle_second (fo : FloatOps) (fuel : Nat) (g1 : Grid) (hc : g1.count = 1)
    (hm : EdgeMono fo g1.w g1.shift) (ire : Bool) (hi : Rat) (khi : Int)
    (hkhi : CellOf (fo.edge g1.w g1.shift) hi khi) (hfhi : (fo.est g1.w g1.shift hi - khi).natAbs ≤ fuel)
    (hge : fo.edge g1.w g1.shift g1.tmin ≤ hi) :
    ∃ n : Nat, (g1.forceSingle fo fuel hi ire).1 = { g1 with count := n } ∧ 0 < n ∧
      (g1.tmin + n = khi + 1 ∨
        (ire = true ∧ fo.edge g1.w g1.shift khi = hi ∧ g1.tmin < khi ∧ g1.tmin + n = khi)) := by
  obtain ⟨w, s, t, c, al, ad, ir⟩ := g1
  simp only at hc hm hkhi hfhi hge ⊢
  subst hc
  have hloc2 : ({ w := w, shift := s, tmin := t, count := 1, align := al, adaptive := ad, ire := ir } : Grid).findIndex
      fo fuel hi = khi := locate_spec (fo.edge w s) hi hm khi _ fuel hkhi hfhi
  have hfirst : ¬ hi < ({ w := w, shift := s, tmin := t, count := 1, align := al, adaptive := ad, ire := ir } : Grid).firstEdge fo := by
    show ¬ hi < fo.edge w s t
    intro h; linarith
  have hkk : t ≤ khi := cell_ge_of_le hm hkhi hge
  unfold forceSingle
  simp only [show ¬ (1 : Nat) = 0 by omega, if_false, hfirst, hloc2]
  by_cases h2 : ({ w := w, shift := s, tmin := t, count := 1, align := al, adaptive := ad, ire := ir } : Grid).lastEdge fo ≤ hi
  · simp only [h2, if_true]
    have hkgt : t + 1 ≤ khi := by
      have : fo.edge w s (t + ((1 : Nat) : Int)) ≤ hi := h2
      exact cell_ge_of_le hm hkhi (by simpa using this)
    have hedge : ({ w := w, shift := s, tmin := t, count := 1, align := al, adaptive := ad, ire := ir } : Grid).edgeAt fo khi
        = fo.edge w s khi := rfl
    rw [hedge]
    by_cases hon : fo.edge w s khi = hi ∧ ire = true
    · rw [if_pos hon]
      by_cases hz : khi - t + 1 - 1 - ((1 : Nat) : Int) = 0
      · simp only [hz, if_true]
        exact ⟨1, rfl, by omega, Or.inr ⟨hon.2, hon.1, by omega, by push_cast at hz ⊢; omega⟩⟩
      · simp only [hz, if_false]
        refine ⟨(((1 : Nat) : Int) + (khi - t + 1 - 1 - ((1 : Nat) : Int))).toNat, rfl, by push_cast at hz ⊢; omega,
          Or.inr ⟨hon.2, hon.1, by push_cast at hz ⊢; omega, by push_cast at hz ⊢; omega⟩⟩
    · rw [if_neg hon]
      have hz : ¬ khi - t + 1 - 0 - ((1 : Nat) : Int) = 0 := by push_cast; omega
      simp only [hz, if_false]
      exact ⟨(((1 : Nat) : Int) + (khi - t + 1 - 0 - ((1 : Nat) : Int))).toNat, rfl, by push_cast; omega,
        Or.inl (by push_cast; omega)⟩
  · simp only [h2, if_false]
    have : hi < fo.edge w s (t + ((1 : Nat) : Int)) := not_le.mp h2
    have hlt : khi < t + 1 := cell_lt_of_lt hm hkhi (by simpa using this)
    exact ⟨1, rfl, by omega, Or.inl (by omega)⟩

/-- the first call on an empty unaligned grid, exact arithmetic: the origin moves onto the value, which
    becomes the first edge -/
theorem forceSingle_empty_unaligned_exact (fuel : Nat) (g0 : Grid) (h0 : g0.count = 0) (hal : g0.align = false)
    (hw : 0 < g0.w) (lo : Rat) (ire : Bool) :
    (g0.forceSingle FloatOps.exact fuel lo ire).1
      = { g0 with shift := lo - ((FloatOps.exact.est g0.w g0.shift lo : Int) : Rat) * g0.w,
                  tmin := FloatOps.exact.est g0.w g0.shift lo, count := 1 } ∧
    FloatOps.exact.edge g0.w (lo - ((FloatOps.exact.est g0.w g0.shift lo : Int) : Rat) * g0.w)
      (FloatOps.exact.est g0.w g0.shift lo) = lo := by
  have hloc : g0.findIndex FloatOps.exact fuel lo = FloatOps.exact.est g0.w g0.shift lo :=
    locate_spec (g0.edgeAt FloatOps.exact) lo (C04_exact_mono _ _ hw) _ _ fuel (C04_exact_cell _ _ _ hw) (by simp)
  have hedge : FloatOps.exact.edge g0.w (lo - ((FloatOps.exact.est g0.w g0.shift lo : Int) : Rat) * g0.w)
      (FloatOps.exact.est g0.w g0.shift lo) = lo := by
    simp only [FloatOps.exact]; ring
  refine ⟨?_, hedge⟩
  -- the second search, with the new origin, finds the same cell
  have hcell2 : CellOf (FloatOps.exact.edge g0.w (lo - ((FloatOps.exact.est g0.w g0.shift lo : Int) : Rat) * g0.w)) lo
      (FloatOps.exact.est g0.w g0.shift lo) := by
    refine ⟨le_of_eq hedge, ?_⟩
    have := C04_exact_mono g0.w (lo - ((FloatOps.exact.est g0.w g0.shift lo : Int) : Rat) * g0.w) hw
      (FloatOps.exact.est g0.w g0.shift lo) (FloatOps.exact.est g0.w g0.shift lo + 1) (by omega)
    rw [hedge] at this; exact this
  have hest2 := cell_unique (C04_exact_mono g0.w (lo - ((FloatOps.exact.est g0.w g0.shift lo : Int) : Rat) * g0.w) hw)
    (C04_exact_cell g0.w (lo - ((FloatOps.exact.est g0.w g0.shift lo : Int) : Rat) * g0.w) lo hw) hcell2
  have hloc2 : ∀ (t : Int) (c : Nat) (al ad ir : Bool),
      Grid.findIndex FloatOps.exact fuel
        { w := g0.w, shift := FloatOps.exact.shiftOf g0.w (FloatOps.exact.est g0.w g0.shift lo) lo, tmin := t,
          count := c, align := al, adaptive := ad, ire := ir } lo = FloatOps.exact.est g0.w g0.shift lo := by
    intro t c al ad ir
    apply locate_spec _ lo _ _ _ fuel hcell2
    · show (FloatOps.exact.est g0.w (lo - ((FloatOps.exact.est g0.w g0.shift lo : Int) : Rat) * g0.w) lo
        - FloatOps.exact.est g0.w g0.shift lo).natAbs ≤ fuel
      rw [hest2]; simp
    · exact C04_exact_mono _ _ hw
  unfold forceSingle
  simp only [h0, if_true, hal, Bool.false_eq_true, if_false, hloc]
  rw [hloc2]
  rfl

/-- **`fixed_width` with `align=False`, exact arithmetic**: the first edge is the least value itself; the
    statement is otherwise the one for aligned grids. -/
theorem construct_fixed_width_unaligned_exact (fuel : Nat) (g0 : Grid) (h0 : g0.count = 0)
    (hal : g0.align = false) (hw : 0 < g0.w) (ire : Bool)
    (vs : List (Option Rat)) (ws : Option (List Rat)) (wkind : DType) (dtype : Option DType)
    (keep dropna : Bool) (ok : ArgsOk vs ws wkind dtype dropna) (lo : Rat)
    (hmin : listMin (vs.filterMap id) = some lo) :
    ∃ h : H1, H1.construct FloatOps.exact (.fixed (fixedWidthOf FloatOps.exact fuel g0 ire vs)) vs ws wkind dtype
        keep dropna = .ok h ∧
      h.binning = .fixed (fixedWidthOf FloatOps.exact fuel g0 ire vs) ∧ h.keep = keep ∧
      h.dtype = constructDType ws wkind dtype ∧
      CountsAll ((fixedWidthOf FloatOps.exact fuel g0 ire vs).bins FloatOps.exact) (maskPts vs ws) h ∧
      Rising ((fixedWidthOf FloatOps.exact fuel g0 ire vs).bins FloatOps.exact) ∧
      consecutiveB ((fixedWidthOf FloatOps.exact fuel g0 ire vs).bins FloatOps.exact) = true ∧
      (fixedWidthOf FloatOps.exact fuel g0 ire vs).w = g0.w ∧
      0 < (fixedWidthOf FloatOps.exact fuel g0 ire vs).count ∧
      (fixedWidthOf FloatOps.exact fuel g0 ire vs).firstEdge FloatOps.exact = lo := by
  obtain ⟨hlomem, hlob⟩ := listMin_le _ lo hmin
  obtain ⟨hi, hmax⟩ : ∃ hi, listMax (vs.filterMap id) = some hi := by
    cases hv : vs.filterMap id with
    | nil => rw [hv] at hlomem; cases hlomem
    | cons x xs => exact ⟨_, rfl⟩
  obtain ⟨himem, hib⟩ := le_listMax _ hi hmax
  obtain ⟨hg1, hedge⟩ := forceSingle_empty_unaligned_exact fuel g0 h0 hal hw lo g0.ire
  have hm' := C04_exact_mono g0.w (lo - ((FloatOps.exact.est g0.w g0.shift lo : Int) : Rat) * g0.w) hw
  obtain ⟨n, hg2, hn, hend⟩ := forceSingle_second FloatOps.exact fuel
    { g0 with shift := lo - ((FloatOps.exact.est g0.w g0.shift lo : Int) : Rat) * g0.w,
              tmin := FloatOps.exact.est g0.w g0.shift lo, count := 1 } rfl hm' ire hi _
    (C04_exact_cell _ _ hi hw) (by simp) (by
      show FloatOps.exact.edge g0.w _ _ ≤ hi
      rw [hedge]; exact hlob hi himem)
  have hg : fixedWidthOf FloatOps.exact fuel g0 ire vs
      = { g0 with shift := lo - ((FloatOps.exact.est g0.w g0.shift lo : Int) : Rat) * g0.w,
                  tmin := FloatOps.exact.est g0.w g0.shift lo, count := n } := by
    unfold fixedWidthOf
    rw [forceMany_of_min_max FloatOps.exact fuel g0 _ ire lo hi hmin hmax, hg1]
    exact hg2
  rw [hg]
  have hlast : hi ≤ FloatOps.exact.edge g0.w (lo - ((FloatOps.exact.est g0.w g0.shift lo : Int) : Rat) * g0.w)
      (FloatOps.exact.est g0.w g0.shift lo + n) := by
    rcases hend with h | ⟨_, he, _, h⟩
    · have h' : FloatOps.exact.est g0.w g0.shift lo + (n : Int) = FloatOps.exact.est g0.w
          (lo - ((FloatOps.exact.est g0.w g0.shift lo : Int) : Rat) * g0.w) hi + 1 := h
      rw [h']; exact le_of_lt (C04_exact_cell _ _ hi hw).2
    · have h' : FloatOps.exact.est g0.w g0.shift lo + (n : Int) = FloatOps.exact.est g0.w
          (lo - ((FloatOps.exact.est g0.w g0.shift lo : Int) : Rat) * g0.w) hi := h
      rw [h']; exact le_of_eq he.symm
  obtain ⟨h, hc, hb, hk, hd, hcount, hr, hcs⟩ := construct_grid_spanning FloatOps.exact
    { g0 with shift := lo - ((FloatOps.exact.est g0.w g0.shift lo : Int) : Rat) * g0.w,
              tmin := FloatOps.exact.est g0.w g0.shift lo, count := n } hn hm' vs ws wkind dtype keep dropna ok
    (by intro v hv
        show FloatOps.exact.edge g0.w _ _ ≤ v
        rw [hedge]; exact hlob v hv)
    (by intro v hv
        exact le_trans (hib v hv) hlast)
  exact ⟨h, hc, hb, hk, hd, hcount, hr, hcs, rfl, hn, hedge⟩

end Physt

import Physt.Theorems.C03
import Physt.Theorems.C04
/-!
# Histories of `fill` / `fill_n` on an adaptive fixed-width histogram

`C04_fill` says what ONE `fill` does to the grid.  This file lifts it to arbitrary histories and adds
the clause "the result equals the fixed-bin histogram of the same data over the final bins":

* `GridTracks fo h g pts` — the state `h` (adaptive grid `g`) holds exactly `calc1d (g.bins fo) pts`,
  underflow / overflow are `0`, and every point of `pts` lies in a cell of the grid
  (consequences: `GridTracks.eq_calc1d`, `GridTracks.total`, `GridTracks.in_bin`);
* `calc1d_grid_grow` / `calc1d_bins_grow` — growing a grid by `a` cells on the left and `b` on the right
  pads the batch histogram of data inside the old range by `a` / `b` zeros (contents stay attached to
  their interval);
* `gridTracks_fill` — one `fill` keeps the invariant; `gridTracks_history` / `C04_history` /
  `C04_history_from_empty` — any list of fills, with the final range = hull (`SpanHull`);
* `forceMany_spec`, `gridTracks_fillN` — one `fill_n` batch keeps the invariant;
  `fillN_eq_singles` — batch = the same pairs entered one by one;
* `gridTracks_ops` / `C04_any_history` — ANY sequence of `fill` / `fill_n` calls;
* at the end: non-vacuity examples and the counterexamples for `ire = true` and `align = false`.
-/
namespace Physt
open Grid H1

/-! ## Cells -/

/-- every point lies in a cell of the range `[t, t+n)` -/
def Inside (edge : Int → Rat) (t : Int) (n : Nat) (pts : List Pt) : Prop :=
  ∀ p ∈ pts, ∃ k : Int, CellOf edge p.1 k ∧ t ≤ k ∧ k < t + n

theorem cell_unique {edge : Int → Rat} (hm : ∀ a b : Int, a < b → edge a < edge b) {v : Rat} {k k' : Int}
    (hk : CellOf edge v k) (hk' : CellOf edge v k') : k = k' := by
  have h1 := cell_lt_of_lt hm hk hk'.2
  have h2 := cell_lt_of_lt hm hk' hk.2
  omega

/-- the cell is monotone in the value -/
theorem cell_mono {edge : Int → Rat} (hm : ∀ a b : Int, a < b → edge a < edge b) {v v' : Rat} {k k' : Int}
    (hk : CellOf edge v k) (hk' : CellOf edge v' k') (hv : v ≤ v') : k ≤ k' := by
  have : v < edge (k' + 1) := lt_of_le_of_lt hv hk'.2
  have := cell_lt_of_lt hm hk this
  omega

theorem Inside.nil (edge : Int → Rat) (t : Int) (n : Nat) : Inside edge t n [] := by
  intro p hp; cases hp

theorem Inside.eq_nil {edge : Int → Rat} {t : Int} {pts : List Pt} (h : Inside edge t 0 pts) : pts = [] := by
  cases pts with
  | nil => rfl
  | cons p ps =>
    obtain ⟨k, _, h1, h2⟩ := h p (List.mem_cons_self ..)
    omega

theorem Inside.mono {edge : Int → Rat} {t t' : Int} {n n' : Nat} {pts : List Pt} (h : Inside edge t n pts)
    (h1 : t' ≤ t) (h2 : t + n ≤ t' + n') : Inside edge t' n' pts := by
  intro p hp
  obtain ⟨k, hk, ha, hb⟩ := h p hp
  exact ⟨k, hk, by omega, by omega⟩

theorem Inside.append {edge : Int → Rat} {t : Int} {n : Nat} {a b : List Pt} (ha : Inside edge t n a)
    (hb : Inside edge t n b) : Inside edge t n (a ++ b) := by
  intro p hp
  rcases List.mem_append.mp hp with h | h
  · exact ha p h
  · exact hb p h

/-- membership test of a cell -/
def inCell (edge : Int → Rat) (c : Int) (v : Rat) : Bool := decide (edge c ≤ v) && decide (v < edge (c + 1))

theorem inCell_iff (edge : Int → Rat) (c : Int) (v : Rat) : inCell edge c v = true ↔ CellOf edge v c := by
  simp [inCell, CellOf]

/-- the part of the data that lies in cell `c` -/
def cellSlice (edge : Int → Rat) (pts : List Pt) (c : Int) : List Pt := pts.filter fun p => inCell edge c p.1

theorem cellSlice_outside {edge : Int → Rat} (hm : ∀ a b : Int, a < b → edge a < edge b) {t : Int} {n : Nat}
    {pts : List Pt} (h : Inside edge t n pts) (c : Int) (hc : c < t ∨ t + n ≤ c) : cellSlice edge pts c = [] := by
  unfold cellSlice
  rw [List.filter_eq_nil_iff]
  intro p hp hin
  obtain ⟨k, hk, h1, h2⟩ := h p hp
  have := cell_unique hm hk ((inCell_iff edge c p.1).mp hin)
  omega

/-- for a value that lies in a cell of the range, "in bin `i` of the grid" (right edge of the last bin
    included) is "in cell `t+i`" -/
theorem inBin_binsFrom {edge : Int → Rat} (hm : ∀ a b : Int, a < b → edge a < edge b) (t : Int) (n : Nat)
    (v : Rat) (k : Int) (hk : CellOf edge v k) (h2 : k < t + n) (i : Nat) (hi : i < n) :
    inBin (binsFrom edge t n) true i v = inCell edge (t + i) v := by
  unfold inBin inCell
  rw [binsFrom_getElem? edge t n i hi]
  simp only [binsFrom_length]
  have hne : ¬ (i + 1 = n ∧ v = edge (t + (i : Int) + 1)) := by
    rintro ⟨hin, he⟩
    have := cell_ge_of_le hm hk (le_of_eq he.symm)
    omega
  by_cases hin : i + 1 = n
  · have hv : ¬ v = edge (t + (i : Int) + 1) := fun he => hne ⟨hin, he⟩
    simp [hv]
  · have hb : (i + 1 == n) = false := beq_eq_false_iff_ne.mpr hin
    simp [hb]

/-- **Batch histogram over a grid, by cells.**  When every point lies in a cell of the range, content
    `i` of the batch histogram is the weight in cell `t+i`. -/
theorem calc1d_grid {edge : Int → Rat} (hm : ∀ a b : Int, a < b → edge a < edge b) (t : Int) (n : Nat)
    (pts : List Pt) (h : Inside edge t n pts) :
    (calc1d (binsFrom edge t n) pts).freq = (List.range n).map (fun i : Nat => wsum (cellSlice edge pts (t + i))) ∧
    (calc1d (binsFrom edge t n) pts).err2 = (List.range n).map (fun i : Nat => w2sum (cellSlice edge pts (t + i))) := by
  have hb := binsFrom_rising edge hm t n
  have hfil : ∀ i, i < n → (pts.filter fun p => inBin (binsFrom edge t n) true i p.1) = cellSlice edge pts (t + i) := by
    intro i hi
    unfold cellSlice
    apply List.filter_congr
    intro p hp
    obtain ⟨k, hk, _, h2⟩ := h p hp
    exact inBin_binsFrom hm t n p.1 k hk h2 i hi
  constructor
  · apply List.ext_getElem?
    intro i
    by_cases hi : i < n
    · rw [(C01_content _ pts hb i (by rw [binsFrom_length]; exact hi)).1, hfil i hi]
      simp [List.getElem?_map, List.getElem?_range hi]
    · have h1 := calc1d_freq_length (binsFrom edge t n) pts
      rw [binsFrom_length] at h1
      rw [List.getElem?_eq_none (by omega), List.getElem?_eq_none (by simp; omega)]
  · apply List.ext_getElem?
    intro i
    by_cases hi : i < n
    · rw [(C01_content _ pts hb i (by rw [binsFrom_length]; exact hi)).2, hfil i hi]
      simp [List.getElem?_map, List.getElem?_range hi]
    · have h1 := calc1d_err2_length (binsFrom edge t n) pts
      rw [binsFrom_length] at h1
      rw [List.getElem?_eq_none (by omega), List.getElem?_eq_none (by simp; omega)]

/-- a function on `0 … a+n+b-1` that vanishes outside `[a, a+n)`, tabulated -/
theorem map_range_pad (F : Nat → Rat) (a n b : Nat) (hlo : ∀ j, j < a → F j = 0)
    (hhi : ∀ j, a + n ≤ j → F j = 0) :
    (List.range (a + n + b)).map F
      = List.replicate a 0 ++ (List.range n).map (fun i => F (a + i)) ++ List.replicate b 0 := by
  apply List.ext_getElem?
  intro j
  by_cases h1 : j < a
  · rw [List.append_assoc, List.getElem?_append_left (by simpa using h1)]
    simp [h1, List.getElem?_range (show j < a + n + b by omega), hlo j h1]
  · by_cases h2 : j < a + n
    · rw [List.getElem?_append_left (by simp; omega), List.getElem?_append_right (by simp; omega)]
      simp only [List.length_replicate, List.getElem?_map]
      rw [List.getElem?_range (by omega), List.getElem?_range (by omega)]
      simp only [Option.map_some]
      congr 2; omega
    · by_cases h3 : j < a + n + b
      · rw [List.getElem?_append_right (by simp; omega)]
        simp only [List.length_append, List.length_replicate, List.length_map, List.length_range,
          List.getElem?_map, List.getElem?_range h3, Option.map_some]
        rw [List.getElem?_replicate, if_pos (by omega), hhi j (by omega)]
      · rw [List.getElem?_eq_none (by simp; omega), List.getElem?_eq_none (by simp; omega)]

/-- **Contents recorded earlier stay attached to the same interval.**  Growing the grid by `a` cells on
    the left and `b` cells on the right pads the batch histogram of data inside the old range with `a`
    zeros on the left and `b` zeros on the right — what `reshape1 old (a+n+b) (.shift a)` does. -/
theorem calc1d_grid_grow {edge : Int → Rat} (hm : ∀ a b : Int, a < b → edge a < edge b) (t : Int) (n a b : Nat)
    (pts : List Pt) (h : Inside edge t n pts) :
    (calc1d (binsFrom edge (t - a) (a + n + b)) pts).freq
      = List.replicate a 0 ++ (calc1d (binsFrom edge t n) pts).freq ++ List.replicate b 0 ∧
    (calc1d (binsFrom edge (t - a) (a + n + b)) pts).err2
      = List.replicate a 0 ++ (calc1d (binsFrom edge t n) pts).err2 ++ List.replicate b 0 := by
  have hbig : Inside edge (t - a) (a + n + b) pts := h.mono (by omega) (by push_cast; omega)
  have e1 := calc1d_grid hm (t - a) (a + n + b) pts hbig
  have e0 := calc1d_grid hm t n pts h
  have hidx : ∀ i : Nat, t - (a : Int) + ((a + i : Nat) : Int) = t + (i : Int) := by intro i; push_cast; omega
  constructor
  · rw [e1.1, e0.1, map_range_pad (fun i : Nat => wsum (cellSlice edge pts (t - a + i))) a n b]
    · simp only [hidx]
    · intro j hj; rw [cellSlice_outside hm h _ (Or.inl (by omega))]; rfl
    · intro j hj; rw [cellSlice_outside hm h _ (Or.inr (by omega))]; rfl
  · rw [e1.2, e0.2, map_range_pad (fun i : Nat => w2sum (cellSlice edge pts (t - a + i))) a n b]
    · simp only [hidx]
    · intro j hj; rw [cellSlice_outside hm h _ (Or.inl (by omega))]; rfl
    · intro j hj; rw [cellSlice_outside hm h _ (Or.inr (by omega))]; rfl

/-! ## One growth step of the grid, and what `_reshape_data` is told -/

/-- the reshape instruction issued by `_force_bin_existence_single` moves the old contents by exactly the
    number of cells added on the left, and pads with the cells added on the right -/
theorem forceSingle_reshape (fo : FloatOps) (fuel : Nat) (g : Grid) (v : Rat) (k : Int)
    (hm : EdgeMono fo g.w g.shift) (hk : CellOf (g.edgeAt fo) v k)
    (hf : (fo.est g.w g.shift v - k).natAbs ≤ fuel) (old : List Rat) (hold : old.length = g.count) :
    (g.count = 0 → (g.forceSingle fo fuel v false).2 = .fresh) ∧
    (0 < g.count →
      reshape1 old (g.forceSingle fo fuel v false).1.count (g.forceSingle fo fuel v false).2
        = List.replicate (g.tmin - (g.forceSingle fo fuel v false).1.tmin).toNat 0 ++ old ++
          List.replicate ((g.forceSingle fo fuel v false).1.count
            - (g.tmin - (g.forceSingle fo fuel v false).1.tmin).toNat - g.count) 0) := by
  have hloc : g.findIndex fo fuel v = k := locate_spec (g.edgeAt fo) v hm k _ fuel hk hf
  constructor
  · intro h0
    unfold forceSingle
    simp [h0]
  · intro hpos
    have h0 : ¬ g.count = 0 := by omega
    unfold forceSingle
    simp only [h0, if_false]
    by_cases h1 : v < g.firstEdge fo
    · have hkt : k < g.tmin := cell_lt_of_lt hm hk h1
      have hal' : (g.tmin - k).toNat ≠ 0 := by omega
      simp only [h1, if_true, hloc, hal', if_false]
      have e1 : (g.tmin - (g.tmin - ((g.tmin - k).toNat : Int))).toNat = (g.tmin - k).toNat := by omega
      have e2 : g.count + (g.tmin - k).toNat - (g.tmin - k).toNat - g.count = 0 := by omega
      have e3 : g.count + (g.tmin - k).toNat - (g.tmin - k).toNat - old.length = 0 := by omega
      simp only [reshape1, e1, e2, e3]
      rw [List.take_of_length_le (by simp; omega)]
    · simp only [h1, if_false]
      by_cases h2 : g.lastEdge fo ≤ v
      · have hkt : g.tmin + g.count ≤ k := cell_ge_of_le hm hk h2
        have hne : ¬ (k - g.tmin + 1 - (if g.edgeAt fo k = v ∧ false = true then 1 else 0) - (g.count : Int) = 0) := by
          simp; omega
        simp only [h2, if_true, hloc, hne, if_false]
        have e0 : (if g.edgeAt fo k = v ∧ false = true then (1 : Int) else 0) = 0 := by simp
        simp only [e0, reshape1, Int.sub_self, Int.toNat_zero, List.replicate_zero, List.nil_append,
          Nat.sub_zero, hold]
        rw [List.take_of_length_le (by simp; omega)]
      · simp [h2, reshape1]

/-! ## The invariant -/

/-- **The state holds the fixed-bin histogram of the data entered so far.**  `h` is an adaptive
    fixed-width histogram on the grid `g`; contents and squared errors are those of the batch histogram
    of `pts` over the current bins; nothing was ever missed; every point lies in a cell of the grid
    (so for an empty grid `pts = []`, see `GridTracks.nil_of_empty`). -/
structure GridTracks (fo : FloatOps) (h : H1) (g : Grid) (pts : List Pt) : Prop where
  state : GridState h g
  freq : h.freq = (calc1d (g.bins fo) pts).freq
  err2 : h.err2 = (calc1d (g.bins fo) pts).err2
  under : h.under = some 0
  over : h.over = some 0
  inside : Inside (g.edgeAt fo) g.tmin g.count pts

theorem GridTracks.nil_of_empty {fo : FloatOps} {h : H1} {g : Grid} {pts : List Pt}
    (t : GridTracks fo h g pts) (h0 : g.count = 0) : pts = [] := by
  have := t.inside
  rw [h0] at this
  exact this.eq_nil

/-- the empty adaptive histogram (no bins yet) satisfies the invariant with no data -/
theorem gridTracks_empty (fo : FloatOps) (g : Grid) (hc : g.count = 0) (had : g.adaptive = true)
    (hal : g.align = true) (hire : g.ire = false) (dt : Option DType) :
    GridTracks fo (H1.empty fo (.fixed g) true dt) g [] := by
  have hb : g.bins fo = [] := by simp [Grid.bins, hc]
  refine ⟨⟨rfl, had, hal, hire, rfl, ?_, ?_⟩, ?_, ?_, rfl, rfl, Inside.nil _ _ _⟩
  · simp [H1.empty, Binning.bins, hb, hc, zeros]
  · simp [H1.empty, Binning.bins, hb, hc, zeros]
  · simp [H1.empty, Binning.bins, hb, zeros, calc1d, sweepAux]
  · simp [H1.empty, Binning.bins, hb, zeros, calc1d, sweepAux]

/-- what one `fill` does to the fields of an adaptive state -/
theorem fill_adaptive_fields (fo : FloatOps) (fuel : Nat) (h : H1) (g : Grid) (st : GridState h g) (v w : Rat)
    (wk : NumKind) (k : Int) (hm : EdgeMono fo g.w g.shift) (hk : CellOf (g.edgeAt fo) v k)
    (hf : (fo.est g.w g.shift v - k).natAbs ≤ fuel) :
    (h.fill fo fuel (some v) w wk).1.binning = .fixed (g.forceSingle fo fuel v false).1 ∧
    (h.fill fo fuel (some v) w wk).1.keep = true ∧
    (h.fill fo fuel (some v) w wk).1.under = h.under ∧
    (h.fill fo fuel (some v) w wk).1.over = h.over ∧
    (h.fill fo fuel (some v) w wk).1.freq
      = addAt (reshape1 h.freq (g.forceSingle fo fuel v false).1.count (g.forceSingle fo fuel v false).2)
          (k - (g.forceSingle fo fuel v false).1.tmin).toNat w ∧
    (h.fill fo fuel (some v) w wk).1.err2
      = addAt (reshape1 h.err2 (g.forceSingle fo fuel v false).1.count (g.forceSingle fo fuel v false).2)
          (k - (g.forceSingle fo fuel v false).1.tmin).toNat (w * w) ∧
    (h.fill fo fuel (some v) w wk).2 = some (.bin (k - (g.forceSingle fo fuel v false).1.tmin).toNat) := by
  have cov := forceSingle_covers fo fuel g v k st.align hm hk hf
  simp only at cov
  obtain ⟨hw, hs, hal, had, hire, hlo, hhi, hzero, hpos⟩ := cov
  have hfind : findBinIn ((g.forceSingle fo fuel v false).1.bins fo) v
      = .bin (k - (g.forceSingle fo fuel v false).1.tmin).toNat := by
    rw [bins_eq_binsFrom]
    have hm' : ∀ a b : Int, a < b → (g.forceSingle fo fuel v false).1.edgeAt fo a < (g.forceSingle fo fuel v false).1.edgeAt fo b := by
      intro a b hab; simp only [edgeAt, hw, hs]; exact hm a b hab
    have hk' : CellOf ((g.forceSingle fo fuel v false).1.edgeAt fo) v k := by
      simp only [CellOf, edgeAt, hw, hs]; exact hk
    exact findBinIn_grid _ hm' _ _ v k hk' hlo hhi
  unfold fill
  simp only [adapt, coerce, st.binning, st.adaptive, if_true, st.ire, findBin, H1.bins, Binning.bins, hfind]
  exact ⟨by trivial, st.keep, by trivial, by trivial, by trivial, by trivial, by trivial⟩

/-- the batch histogram of data inside a grid `g`, seen over a grid `g'` with the same edge function
    that contains `g`: the old contents, moved by the cells added on the left -/
theorem calc1d_bins_grow (fo : FloatOps) (g g' : Grid) (hm : EdgeMono fo g.w g.shift) (hw : g'.w = g.w)
    (hs : g'.shift = g.shift) (hlo : g'.tmin ≤ g.tmin) (hhi : g.tmin + g.count ≤ g'.tmin + g'.count)
    (pts : List Pt) (hin : Inside (g.edgeAt fo) g.tmin g.count pts) :
    (calc1d (g'.bins fo) pts).freq
      = List.replicate (g.tmin - g'.tmin).toNat 0 ++ (calc1d (g.bins fo) pts).freq ++
        List.replicate (g'.count - (g.tmin - g'.tmin).toNat - g.count) 0 ∧
    (calc1d (g'.bins fo) pts).err2
      = List.replicate (g.tmin - g'.tmin).toNat 0 ++ (calc1d (g.bins fo) pts).err2 ++
        List.replicate (g'.count - (g.tmin - g'.tmin).toNat - g.count) 0 := by
  have hedge : g'.edgeAt fo = g.edgeAt fo := by funext c; simp only [edgeAt, hw, hs]
  have e1 : g'.tmin = g.tmin - ((g.tmin - g'.tmin).toNat : Int) := by omega
  have e2 : g'.count = (g.tmin - g'.tmin).toNat + g.count + (g'.count - (g.tmin - g'.tmin).toNat - g.count) := by
    omega
  have := calc1d_grid_grow (edge := g.edgeAt fo) hm g.tmin g.count (g.tmin - g'.tmin).toNat
    (g'.count - (g.tmin - g'.tmin).toNat - g.count) pts hin
  rw [← e1, ← e2] at this
  rw [bins_eq_binsFrom, bins_eq_binsFrom, hedge]
  exact this

/-- **B. One `fill` keeps the invariant.**  For every strictly increasing edge function and every
    estimate within the fuel, `fill(v, w)` on a state that holds the fixed-bin histogram of `pts` gives a
    state that holds the fixed-bin histogram of `pts ++ [(v, w)]` over the grown bins; width and origin
    are unchanged, the new range is the hull of the old range and the cell of `v`, and the bin reported
    is the cell of `v`. -/
theorem gridTracks_fill (fo : FloatOps) (fuel : Nat) (h : H1) (g : Grid) (pts : List Pt)
    (tr : GridTracks fo h g pts) (v w : Rat) (wk : NumKind) (k : Int) (hm : EdgeMono fo g.w g.shift)
    (hk : CellOf (g.edgeAt fo) v k) (hf : (fo.est g.w g.shift v - k).natAbs ≤ fuel) :
    ∃ g' : Grid, GridTracks fo (h.fill fo fuel (some v) w wk).1 g' (pts ++ [(v, w)]) ∧
      g'.w = g.w ∧ g'.shift = g.shift ∧
      g'.tmin ≤ k ∧ k < g'.tmin + g'.count ∧
      (0 < g.count → g'.tmin = min g.tmin k ∧ g'.tmin + g'.count = max (g.tmin + g.count) (k + 1)) ∧
      (g.count = 0 → g'.tmin = k ∧ g'.count = 1) ∧
      (h.fill fo fuel (some v) w wk).2 = some (.bin (k - g'.tmin).toNat) := by
  have st := tr.state
  have cov := forceSingle_covers fo fuel g v k st.align hm hk hf
  simp only at cov
  obtain ⟨hw, hs, hal, had, hire, hlo, hhi, hzero, hpos⟩ := cov
  obtain ⟨fb, fk, fu, fov, ff, fe, fr⟩ := fill_adaptive_fields fo fuel h g st v w wk k hm hk hf
  have rsf := forceSingle_reshape fo fuel g v k hm hk hf h.freq st.flen
  have rse := forceSingle_reshape fo fuel g v k hm hk hf h.err2 st.elen
  generalize (g.forceSingle fo fuel v false).1 = g' at *
  generalize (g.forceSingle fo fuel v false).2 = r at *
  have hedge : g'.edgeAt fo = g.edgeAt fo := by funext c; simp only [edgeAt, hw, hs]
  have hm' : ∀ a b : Int, a < b → g'.edgeAt fo a < g'.edgeAt fo b := by rw [hedge]; exact hm
  have hk' : CellOf (g'.edgeAt fo) v k := by rw [hedge]; exact hk
  have hrise : Rising (g'.bins fo) := by rw [bins_eq_binsFrom]; exact binsFrom_rising _ hm' _ _
  have hlen : (g'.bins fo).length = g'.count := by rw [bins_eq_binsFrom, binsFrom_length]
  have hidx : (k - g'.tmin).toNat < g'.count := by omega
  -- the new point lies in the bin reported
  have hinb : inBin (g'.bins fo) true (k - g'.tmin).toNat v = true := by
    rw [bins_eq_binsFrom, inBin_binsFrom hm' g'.tmin g'.count v k hk' hhi _ hidx, inCell_iff]
    have : g'.tmin + ((k - g'.tmin).toNat : Int) = k := by omega
    rw [this]; exact hk'
  have hsingle := (calc1d_single (g'.bins fo) hrise v w).1 _ hinb
  -- the old data over the new bins: the old contents, moved
  have hold : (calc1d (g'.bins fo) pts).freq = reshape1 h.freq g'.count r ∧
      (calc1d (g'.bins fo) pts).err2 = reshape1 h.err2 g'.count r := by
    by_cases h0 : g.count = 0
    · have hp : pts = [] := tr.nil_of_empty h0
      subst hp
      rw [calc1d_nil_freq _ hrise, calc1d_nil_err2 _ hrise, hlen, rsf.1 h0]
      exact ⟨rfl, rfl⟩
    · have hp : 0 < g.count := Nat.pos_of_ne_zero h0
      have hh := hpos hp
      have grow := calc1d_bins_grow fo g g' hm hw hs (by omega) (by omega) pts tr.inside
      rw [rsf.2 hp, rse.2 hp, tr.freq, tr.err2]
      exact grow
  have hinside : Inside (g'.edgeAt fo) g'.tmin g'.count (pts ++ [(v, w)]) := by
    apply Inside.append
    · rw [hedge]
      by_cases h0 : g.count = 0
      · rw [tr.nil_of_empty h0]; exact Inside.nil _ _ _
      · have hh := hpos (Nat.pos_of_ne_zero h0)
        exact tr.inside.mono (by omega) (by omega)
    · intro p hp
      simp only [List.mem_singleton] at hp
      subst hp
      exact ⟨k, hk', hlo, hhi⟩
  have hfreq : (h.fill fo fuel (some v) w wk).1.freq = (calc1d (g'.bins fo) (pts ++ [(v, w)])).freq := by
    rw [ff, calc1d_append_freq _ hrise, hsingle.1, ← hold.1, addAt_eq_zipAdd, calc1d_freq_length]
  have herr : (h.fill fo fuel (some v) w wk).1.err2 = (calc1d (g'.bins fo) (pts ++ [(v, w)])).err2 := by
    rw [fe, calc1d_append_err2 _ hrise, hsingle.2, ← hold.2, addAt_eq_zipAdd, calc1d_err2_length]
  refine ⟨g', ⟨⟨fb, by rw [had]; exact st.adaptive, by rw [hal]; exact st.align, by rw [hire]; exact st.ire,
      fk, ?_, ?_⟩, hfreq, herr, by rw [fu]; exact tr.under, by rw [fov]; exact tr.over, hinside⟩,
    hw, hs, hlo, hhi, hpos, hzero, fr⟩
  · rw [hfreq, calc1d_freq_length, hlen]
  · rw [herr, calc1d_err2_length, hlen]

/-! ## Consequences of the invariant: the state IS the fixed-bin histogram over its bins -/

theorem edge_le_of_le {edge : Int → Rat} (hm : ∀ a b : Int, a < b → edge a < edge b) {a b : Int} (h : a ≤ b) :
    edge a ≤ edge b := by
  rcases lt_or_eq_of_le h with h | h
  · exact le_of_lt (hm a b h)
  · rw [h]

/-- data inside the grid leaves nothing below the first and nothing above the last edge -/
theorem calc1d_inside_missed {edge : Int → Rat} (hm : ∀ a b : Int, a < b → edge a < edge b) (t : Int) (n : Nat)
    (pts : List Pt) (h : Inside edge t n pts) :
    (calc1d (binsFrom edge t n) pts).under = some 0 ∧ (calc1d (binsFrom edge t n) pts).over = some 0 := by
  cases n with
  | zero =>
    have : pts = [] := h.eq_nil
    subst this
    simp [binsFrom, calc1d, consecutiveB]
  | succ m =>
    have hc := binsFrom_consecutive edge t (m + 1)
    have h0 : (binsFrom edge t (m + 1)).head? = some (edge (t + ((0 : Nat) : Int)), edge (t + ((0 : Nat) : Int) + 1)) := by
      rw [List.head?_eq_getElem?]; exact binsFrom_getElem? edge t (m + 1) 0 (by omega)
    have hl : (binsFrom edge t (m + 1)).getLast? = some (edge (t + (m : Int)), edge (t + (m : Int) + 1)) := by
      rw [List.getLast?_eq_getElem?, binsFrom_length]; exact binsFrom_getElem? edge t (m + 1) m (by omega)
    have e := C01_under_over _ pts hc _ _ h0 hl
    have f1 : (pts.filter fun p => decide (p.1 < edge (t + ((0 : Nat) : Int)))) = [] := by
      rw [List.filter_eq_nil_iff]
      intro p hp hlt
      obtain ⟨k, hk, h1, h2⟩ := h p hp
      simp only [decide_eq_true_eq] at hlt
      have := edge_le_of_le hm (show t + ((0 : Nat) : Int) ≤ k by simpa using h1)
      linarith [hk.1]
    have f2 : (pts.filter fun p => decide (edge (t + (m : Int) + 1) < p.1)) = [] := by
      rw [List.filter_eq_nil_iff]
      intro p hp hlt
      obtain ⟨k, hk, h1, h2⟩ := h p hp
      simp only [decide_eq_true_eq] at hlt
      have := edge_le_of_le hm (show k + 1 ≤ t + (m : Int) + 1 by push_cast at h2; omega)
      linarith [hk.2]
    rw [e.1, e.2, f1, f2]
    exact ⟨rfl, rfl⟩

/-- **The result equals the fixed-bin histogram of the same data over the current bins**: contents,
    squared errors, underflow and overflow are those `calc1d` computes from all the data at once. -/
theorem GridTracks.eq_calc1d {fo : FloatOps} {h : H1} {g : Grid} {pts : List Pt} (tr : GridTracks fo h g pts)
    (hm : EdgeMono fo g.w g.shift) :
    h.freq = (calc1d (g.bins fo) pts).freq ∧ h.err2 = (calc1d (g.bins fo) pts).err2 ∧
    h.under = (calc1d (g.bins fo) pts).under ∧ h.over = (calc1d (g.bins fo) pts).over ∧
    h.underflow = some 0 ∧ h.overflow = some 0 := by
  have m := calc1d_inside_missed (edge := g.edgeAt fo) hm g.tmin g.count pts tr.inside
  rw [← bins_eq_binsFrom] at m
  refine ⟨tr.freq, tr.err2, by rw [m.1]; exact tr.under, by rw [m.2]; exact tr.over, ?_, ?_⟩
  · simp [H1.underflow, tr.state.keep, tr.under]
  · simp [H1.overflow, tr.state.keep, tr.over]

/-- **The total is the total weight entered.** -/
theorem GridTracks.total {fo : FloatOps} {h : H1} {g : Grid} {pts : List Pt} (tr : GridTracks fo h g pts)
    (hm : EdgeMono fo g.w g.shift) : h.total = wsum pts := by
  unfold H1.total
  by_cases h0 : g.count = 0
  · have hp := tr.nil_of_empty h0
    have : h.freq = [] := List.length_eq_zero_iff.mp (by rw [tr.state.flen]; exact h0)
    rw [this, hp]; rfl
  · have hne : g.bins fo ≠ [] := by
      intro he
      have := congrArg List.length he
      rw [bins_eq_binsFrom, binsFrom_length] at this
      exact h0 (by simpa using this)
    have hr : Rising (g.bins fo) := by rw [bins_eq_binsFrom]; exact binsFrom_rising _ hm _ _
    have hc : consecutiveB (g.bins fo) = true := by rw [bins_eq_binsFrom]; exact binsFrom_consecutive _ _ _
    obtain ⟨u, o, hu, ho, hsum⟩ := C01_accounting (g.bins fo) pts hne hr hc
    have m := calc1d_inside_missed (edge := g.edgeAt fo) hm g.tmin g.count pts tr.inside
    rw [← bins_eq_binsFrom, hu, ho] at m
    have hu0 : u = 0 := by simpa using m.1
    have ho0 : o = 0 := by simpa using m.2
    rw [tr.freq]
    rw [hu0, ho0] at hsum
    linarith

/-- **Every value entered lies inside a bin**: `find_bin` reports the bin of its cell, and that bin is
    `[origin + k*width, origin + (k+1)*width)` for the cell `k` of the value. -/
theorem GridTracks.in_bin {fo : FloatOps} {h : H1} {g : Grid} {pts : List Pt} (tr : GridTracks fo h g pts)
    (hm : EdgeMono fo g.w g.shift) (p : Pt) (hp : p ∈ pts) :
    ∃ k : Int, CellOf (fo.edge g.w g.shift) p.1 k ∧ g.tmin ≤ k ∧ k < g.tmin + g.count ∧
      findBinIn (g.bins fo) p.1 = .bin (k - g.tmin).toNat ∧
      (g.bins fo)[(k - g.tmin).toNat]? = some (fo.edge g.w g.shift k, fo.edge g.w g.shift (k + 1)) := by
  obtain ⟨k, hk, h1, h2⟩ := tr.inside p hp
  refine ⟨k, hk, h1, h2, ?_, ?_⟩
  · rw [bins_eq_binsFrom]; exact findBinIn_grid _ hm _ _ _ k hk h1 h2
  · rw [bins_eq_binsFrom, binsFrom_getElem? _ _ _ _ (by omega)]
    have : g.tmin + ((k - g.tmin).toNat : Int) = k := by omega
    rw [this]; rfl

/-- **The bins stay contiguous on the original grid**: bin `i` is `[edge (tmin+i), edge (tmin+i+1))`
    with `edge k = fo.edge w shift k` (`k*w + shift` in exact arithmetic). -/
theorem grid_bins_on_grid (fo : FloatOps) (g : Grid) (i : Nat) (hi : i < g.count) :
    (g.bins fo)[i]? = some (fo.edge g.w g.shift (g.tmin + i), fo.edge g.w g.shift (g.tmin + i + 1)) ∧
    consecutiveB (g.bins fo) = true ∧ (g.bins fo).length = g.count := by
  refine ⟨?_, ?_, ?_⟩
  · rw [bins_eq_binsFrom, binsFrom_getElem? _ _ _ _ hi]; rfl
  · rw [bins_eq_binsFrom]; exact binsFrom_consecutive _ _ _
  · rw [bins_eq_binsFrom, binsFrom_length]

/-! ## Histories of single fills -/

/-- the value has a cell, and the estimate of the cell is within the search fuel
    (stated for the width and origin, which never change along a history) -/
def Reach (fo : FloatOps) (w s : Rat) (fuel : Nat) (v : Rat) : Prop :=
  ∃ k : Int, CellOf (fo.edge w s) v k ∧ (fo.est w s v - k).natAbs ≤ fuel

/-- in exact arithmetic every value is reachable with any fuel (the estimate is the cell) -/
theorem reach_exact (w s : Rat) (hw : 0 < w) (fuel : Nat) (v : Rat) : Reach FloatOps.exact w s fuel v :=
  ⟨FloatOps.exact.est w s v, C04_exact_cell w s v hw, by simp⟩

/-- **The final range is exactly the hull** of the initial range (if any) and the cells of the values
    entered: same width and origin, the initial range and every cell are contained, and both ends are
    attained — the low end is the initial low end or the cell of a value entered, same for the high end.
    Nothing entered: nothing changes. -/
structure SpanHull (edge : Int → Rat) (g g' : Grid) (vs : List Rat) : Prop where
  w : g'.w = g.w
  shift : g'.shift = g.shift
  keepLo : 0 < g.count → g'.tmin ≤ g.tmin
  keepHi : 0 < g.count → g.tmin + g.count ≤ g'.tmin + g'.count
  covers : ∀ v ∈ vs, ∃ k : Int, CellOf edge v k ∧ g'.tmin ≤ k ∧ k < g'.tmin + g'.count
  pos : 0 < g.count ∨ vs ≠ [] → 0 < g'.count
  loTight : 0 < g'.count → (0 < g.count ∧ g'.tmin = g.tmin) ∨ ∃ v ∈ vs, CellOf edge v g'.tmin
  hiTight : 0 < g'.count → (0 < g.count ∧ g'.tmin + g'.count = g.tmin + g.count) ∨
    ∃ v ∈ vs, CellOf edge v (g'.tmin + g'.count - 1)
  stay : vs = [] → g'.tmin = g.tmin ∧ g'.count = g.count

theorem SpanHull.refl (edge : Int → Rat) (g : Grid) : SpanHull edge g g [] := by
  refine ⟨rfl, rfl, fun _ => le_refl _, fun _ => le_refl _, ?_, ?_, fun h => Or.inl ⟨h, rfl⟩,
    fun h => Or.inl ⟨h, rfl⟩, fun _ => ⟨rfl, rfl⟩⟩
  · intro v hv; cases hv
  · intro h
    rcases h with h | h
    · exact h
    · exact (h rfl).elim

/-- one growth step followed by a hull is a hull -/
theorem SpanHull.step {edge : Int → Rat} {g g1 g' : Grid} {v : Rat} {vs : List Rat} {k : Int}
    (hk : CellOf edge v k) (hw : g1.w = g.w) (hs : g1.shift = g.shift)
    (hpos : 0 < g.count → g1.tmin = min g.tmin k ∧ g1.tmin + g1.count = max (g.tmin + g.count) (k + 1))
    (hzero : g.count = 0 → g1.tmin = k ∧ g1.count = 1)
    (sp : SpanHull edge g1 g' vs) : SpanHull edge g g' (v :: vs) := by
  have h1pos : 0 < g1.count := by
    by_cases h0 : g.count = 0
    · rw [(hzero h0).2]; omega
    · have := hpos (Nat.pos_of_ne_zero h0); omega
  have klo := sp.keepLo h1pos
  have khi := sp.keepHi h1pos
  have hin1 : g1.tmin ≤ k ∧ k < g1.tmin + g1.count := by
    by_cases h0 : g.count = 0
    · have := hzero h0; omega
    · have := hpos (Nat.pos_of_ne_zero h0); omega
  have hp' : 0 < g'.count := sp.pos (Or.inl h1pos)
  refine ⟨by rw [sp.w, hw], by rw [sp.shift, hs], ?_, ?_, ?_, fun _ => hp', ?_, ?_, ?_⟩
  · intro hp; have := hpos hp; omega
  · intro hp; have := hpos hp; omega
  · intro x hx
    rcases List.mem_cons.mp hx with rfl | hx
    · exact ⟨k, hk, by omega, by omega⟩
    · exact sp.covers x hx
  · intro _
    rcases sp.loTight hp' with ⟨_, he⟩ | ⟨x, hx, hc⟩
    · by_cases h0 : g.count = 0
      · right; refine ⟨v, List.mem_cons_self .., ?_⟩
        rw [he, (hzero h0).1]; exact hk
      · have hh := hpos (Nat.pos_of_ne_zero h0)
        by_cases hle : g.tmin ≤ k
        · left; exact ⟨Nat.pos_of_ne_zero h0, by omega⟩
        · right; refine ⟨v, List.mem_cons_self .., ?_⟩
          have : g'.tmin = k := by omega
          rw [this]; exact hk
    · right; exact ⟨x, List.mem_cons_of_mem _ hx, hc⟩
  · intro _
    rcases sp.hiTight hp' with ⟨_, he⟩ | ⟨x, hx, hc⟩
    · by_cases h0 : g.count = 0
      · right; refine ⟨v, List.mem_cons_self .., ?_⟩
        have hz := hzero h0
        have : g'.tmin + g'.count - 1 = k := by omega
        rw [this]; exact hk
      · have hh := hpos (Nat.pos_of_ne_zero h0)
        by_cases hle : k + 1 ≤ g.tmin + g.count
        · left; exact ⟨Nat.pos_of_ne_zero h0, by omega⟩
        · right; refine ⟨v, List.mem_cons_self .., ?_⟩
          have : g'.tmin + g'.count - 1 = k := by omega
          rw [this]; exact hk
    · right; exact ⟨x, List.mem_cons_of_mem _ hx, hc⟩
  · intro h; cases h

/-- the hull is unique -/
theorem SpanHull.unique {edge : Int → Rat} (hm : ∀ a b : Int, a < b → edge a < edge b) {g g' g'' : Grid}
    {vs : List Rat} (a : SpanHull edge g g' vs) (b : SpanHull edge g g'' vs) :
    g'.w = g''.w ∧ g'.shift = g''.shift ∧ g'.tmin = g''.tmin ∧ g'.count = g''.count := by
  refine ⟨by rw [a.w, b.w], by rw [a.shift, b.shift], ?_⟩
  by_cases hv : vs = []
  · have := a.stay hv; have := b.stay hv; omega
  · have pa : 0 < g'.count := a.pos (Or.inr hv)
    have pb : 0 < g''.count := b.pos (Or.inr hv)
    have lo : ∀ {x y : Grid}, SpanHull edge g x vs → SpanHull edge g y vs → 0 < x.count → y.tmin ≤ x.tmin := by
      intro x y sx sy px
      rcases sx.loTight px with ⟨hp, he⟩ | ⟨v, hv, hc⟩
      · have := sy.keepLo hp; omega
      · obtain ⟨k, hk, h1, _⟩ := sy.covers v hv
        have := cell_unique hm hk hc
        omega
    have hi : ∀ {x y : Grid}, SpanHull edge g x vs → SpanHull edge g y vs → 0 < x.count →
        x.tmin + x.count ≤ y.tmin + y.count := by
      intro x y sx sy px
      rcases sx.hiTight px with ⟨hp, he⟩ | ⟨v, hv, hc⟩
      · have := sy.keepHi hp; omega
      · obtain ⟨k, hk, _, h2⟩ := sy.covers v hv
        have := cell_unique hm hk hc
        omega
    have l1 := lo a b pa
    have l2 := lo b a pb
    have u1 := hi a b pa
    have u2 := hi b a pb
    omega

/-- a history of `fill(value, weight)` calls (each with its own kind of weight) -/
def fillAll (fo : FloatOps) (fuel : Nat) (h : H1) (hist : List (Pt × NumKind)) : H1 :=
  hist.foldl (fun h e => (h.fill fo fuel (some e.1.1) e.1.2 e.2).1) h

/-- **C. Any history of fills keeps the invariant.**  From a state that holds the fixed-bin histogram of
    `pts` (in particular the empty adaptive histogram, `gridTracks_empty`), after any list of fills whose
    values are reachable within the fuel, the state holds the fixed-bin histogram of `pts` followed by
    everything entered, over the final bins, and the final range is exactly the hull of the initial range
    and the cells of the values entered. -/
theorem gridTracks_history (fo : FloatOps) (fuel : Nat) (w s : Rat) (hm : EdgeMono fo w s)
    (hist : List (Pt × NumKind)) (hreach : ∀ e ∈ hist, Reach fo w s fuel e.1.1)
    (h : H1) (g : Grid) (pts : List Pt) (hw : g.w = w) (hs : g.shift = s) (tr : GridTracks fo h g pts) :
    ∃ g' : Grid, GridTracks fo (fillAll fo fuel h hist) g' (pts ++ hist.map (·.1)) ∧
      SpanHull (fo.edge w s) g g' (hist.map (·.1.1)) := by
  induction hist generalizing h g pts with
  | nil => exact ⟨g, by simpa [fillAll] using tr, SpanHull.refl _ g⟩
  | cons e es ih =>
    obtain ⟨k, hk, hf⟩ := hreach e (List.mem_cons_self ..)
    have hm' : EdgeMono fo g.w g.shift := by rw [hw, hs]; exact hm
    have hk' : CellOf (g.edgeAt fo) e.1.1 k := by
      show CellOf (fo.edge g.w g.shift) e.1.1 k
      rw [hw, hs]; exact hk
    have hf' : (fo.est g.w g.shift e.1.1 - k).natAbs ≤ fuel := by rw [hw, hs]; exact hf
    obtain ⟨g1, tr1, hw1, hs1, _, _, hpos, hzero, _⟩ :=
      gridTracks_fill fo fuel h g pts tr e.1.1 e.1.2 e.2 k hm' hk' hf'
    obtain ⟨g', tr', sp⟩ := ih (fun x hx => hreach x (List.mem_cons_of_mem _ hx))
      (h.fill fo fuel (some e.1.1) e.1.2 e.2).1 g1 (pts ++ [(e.1.1, e.1.2)]) (by rw [hw1, hw]) (by rw [hs1, hs]) tr1
    refine ⟨g', ?_, ?_⟩
    · have : pts ++ (e :: es).map (·.1) = pts ++ [(e.1.1, e.1.2)] ++ es.map (·.1) := by simp
      rw [this]
      exact tr'
    · exact SpanHull.step hk hw1 hs1 hpos hzero sp

/-- **C04 for histories of fills.**  After ANY list of `fill` calls (reachable values) on a state that
    tracks `pts`: the state equals the fixed-bin histogram of all the data over the final bins (contents,
    squared errors, underflow, overflow), the total is the initial total plus the weights entered,
    underflow and overflow are zero, every value entered is found in the bin of its cell on the original
    grid (`origin + k*width`), and the final range is the hull (`SpanHull`). -/
theorem C04_history (fo : FloatOps) (fuel : Nat) (w s : Rat) (hm : EdgeMono fo w s)
    (hist : List (Pt × NumKind)) (hreach : ∀ e ∈ hist, Reach fo w s fuel e.1.1)
    (h : H1) (g : Grid) (pts : List Pt) (hw : g.w = w) (hs : g.shift = s) (tr : GridTracks fo h g pts) :
    ∃ g' : Grid, GridTracks fo (fillAll fo fuel h hist) g' (pts ++ hist.map (·.1)) ∧
      SpanHull (fo.edge w s) g g' (hist.map (·.1.1)) ∧
      (fillAll fo fuel h hist).freq = (calc1d (g'.bins fo) (pts ++ hist.map (·.1))).freq ∧
      (fillAll fo fuel h hist).err2 = (calc1d (g'.bins fo) (pts ++ hist.map (·.1))).err2 ∧
      (fillAll fo fuel h hist).under = (calc1d (g'.bins fo) (pts ++ hist.map (·.1))).under ∧
      (fillAll fo fuel h hist).over = (calc1d (g'.bins fo) (pts ++ hist.map (·.1))).over ∧
      (fillAll fo fuel h hist).total = h.total + wsum (hist.map (·.1)) ∧
      (fillAll fo fuel h hist).underflow = some 0 ∧ (fillAll fo fuel h hist).overflow = some 0 ∧
      (∀ p ∈ pts ++ hist.map (·.1), ∃ k : Int, CellOf (fo.edge w s) p.1 k ∧ g'.tmin ≤ k ∧ k < g'.tmin + g'.count ∧
        findBinIn (g'.bins fo) p.1 = .bin (k - g'.tmin).toNat ∧
        (g'.bins fo)[(k - g'.tmin).toNat]? = some (fo.edge w s k, fo.edge w s (k + 1))) := by
  obtain ⟨g', tr', sp⟩ := gridTracks_history fo fuel w s hm hist hreach h g pts hw hs tr
  have hw' : g'.w = w := by rw [sp.w, hw]
  have hs' : g'.shift = s := by rw [sp.shift, hs]
  have hm' : EdgeMono fo g'.w g'.shift := by rw [hw', hs']; exact hm
  have hm0 : EdgeMono fo g.w g.shift := by rw [hw, hs]; exact hm
  obtain ⟨e1, e2, e3, e4, e5, e6⟩ := tr'.eq_calc1d hm'
  refine ⟨g', tr', sp, e1, e2, e3, e4, ?_, e5, e6, ?_⟩
  · rw [tr'.total hm', tr.total hm0, wsum_append]
  · intro p hp
    have := tr'.in_bin hm' p hp
    rw [hw', hs'] at this
    exact this

/-- **From the empty adaptive histogram the bins span exactly from the lowest to the highest cell ever
    needed.** -/
theorem C04_history_from_empty (fo : FloatOps) (fuel : Nat) (g : Grid) (hm : EdgeMono fo g.w g.shift)
    (hc : g.count = 0) (had : g.adaptive = true) (hal : g.align = true) (hire : g.ire = false)
    (dt : Option DType) (hist : List (Pt × NumKind)) (hne : hist ≠ [])
    (hreach : ∀ e ∈ hist, Reach fo g.w g.shift fuel e.1.1) :
    ∃ g' : Grid, GridTracks fo (fillAll fo fuel (H1.empty fo (.fixed g) true dt) hist) g' (hist.map (·.1)) ∧
      g'.w = g.w ∧ g'.shift = g.shift ∧ 0 < g'.count ∧
      (∃ e ∈ hist, CellOf (fo.edge g.w g.shift) e.1.1 g'.tmin) ∧
      (∃ e ∈ hist, CellOf (fo.edge g.w g.shift) e.1.1 (g'.tmin + g'.count - 1)) ∧
      (∀ e ∈ hist, ∃ k : Int, CellOf (fo.edge g.w g.shift) e.1.1 k ∧ g'.tmin ≤ k ∧ k < g'.tmin + g'.count) ∧
      (fillAll fo fuel (H1.empty fo (.fixed g) true dt) hist).total = wsum (hist.map (·.1)) := by
  obtain ⟨g', tr', sp⟩ := gridTracks_history fo fuel g.w g.shift hm hist hreach _ g [] rfl rfl
    (gridTracks_empty fo g hc had hal hire dt)
  have hne' : hist.map (·.1.1) ≠ [] := by simpa using hne
  have hp := sp.pos (Or.inr hne')
  have hm' : EdgeMono fo g'.w g'.shift := by rw [sp.w, sp.shift]; exact hm
  simp only [List.nil_append] at tr'
  refine ⟨g', tr', sp.w, sp.shift, hp, ?_, ?_, ?_, tr'.total hm'⟩
  · rcases sp.loTight hp with ⟨h0, _⟩ | ⟨v, hv, hcell⟩
    · omega
    · obtain ⟨e, he, rfl⟩ := List.mem_map.mp hv
      exact ⟨e, he, hcell⟩
  · rcases sp.hiTight hp with ⟨h0, _⟩ | ⟨v, hv, hcell⟩
    · omega
    · obtain ⟨e, he, rfl⟩ := List.mem_map.mp hv
      exact ⟨e, he, hcell⟩
  · intro e he
    exact sp.covers e.1.1 (List.mem_map.mpr ⟨e, he, rfl⟩)

/-! ## Batches (`fill_n`): `_force_bin_existence` for an array = two single growth steps (min, max) -/

theorem foldl_min_spec (xs : List Rat) (a : Rat) :
    (xs.foldl (fun a b => if b < a then b else a) a = a ∨ xs.foldl (fun a b => if b < a then b else a) a ∈ xs) ∧
    xs.foldl (fun a b => if b < a then b else a) a ≤ a ∧
    ∀ y ∈ xs, xs.foldl (fun a b => if b < a then b else a) a ≤ y := by
  induction xs generalizing a with
  | nil => simp
  | cons x xs ih =>
    simp only [List.foldl_cons]
    by_cases hx : x < a
    · simp only [if_pos hx]
      obtain ⟨h1, h2, h3⟩ := ih x
      refine ⟨?_, by linarith, ?_⟩
      · rcases h1 with h1 | h1
        · right; rw [h1]; exact List.mem_cons_self ..
        · right; exact List.mem_cons_of_mem _ h1
      · intro y hy
        rcases List.mem_cons.mp hy with rfl | hy
        · exact h2
        · exact h3 y hy
    · simp only [if_neg hx]
      obtain ⟨h1, h2, h3⟩ := ih a
      refine ⟨?_, h2, ?_⟩
      · rcases h1 with h1 | h1
        · left; exact h1
        · right; exact List.mem_cons_of_mem _ h1
      · intro y hy
        rcases List.mem_cons.mp hy with rfl | hy
        · linarith [not_lt.mp hx]
        · exact h3 y hy

theorem foldl_max_spec (xs : List Rat) (a : Rat) :
    (xs.foldl (fun a b => if a < b then b else a) a = a ∨ xs.foldl (fun a b => if a < b then b else a) a ∈ xs) ∧
    a ≤ xs.foldl (fun a b => if a < b then b else a) a ∧
    ∀ y ∈ xs, y ≤ xs.foldl (fun a b => if a < b then b else a) a := by
  induction xs generalizing a with
  | nil => simp
  | cons x xs ih =>
    simp only [List.foldl_cons]
    by_cases hx : a < x
    · simp only [if_pos hx]
      obtain ⟨h1, h2, h3⟩ := ih x
      refine ⟨?_, by linarith, ?_⟩
      · rcases h1 with h1 | h1
        · right; rw [h1]; exact List.mem_cons_self ..
        · right; exact List.mem_cons_of_mem _ h1
      · intro y hy
        rcases List.mem_cons.mp hy with rfl | hy
        · exact h2
        · exact h3 y hy
    · simp only [if_neg hx]
      obtain ⟨h1, h2, h3⟩ := ih a
      refine ⟨?_, h2, ?_⟩
      · rcases h1 with h1 | h1
        · left; exact h1
        · right; exact List.mem_cons_of_mem _ h1
      · intro y hy
        rcases List.mem_cons.mp hy with rfl | hy
        · linarith [not_lt.mp hx]
        · exact h3 y hy

/-- `np.min` / `np.max` of a non-empty array: members, and bounds of every member -/
theorem listMin_listMax_spec (x : Rat) (xs : List Rat) :
    ∃ lo hi, listMin (x :: xs) = some lo ∧ listMax (x :: xs) = some hi ∧ lo ∈ x :: xs ∧ hi ∈ x :: xs ∧
      ∀ y ∈ x :: xs, lo ≤ y ∧ y ≤ hi := by
  have a := foldl_min_spec xs x
  have b := foldl_max_spec xs x
  refine ⟨_, _, rfl, rfl, ?_, ?_, ?_⟩
  · rcases a.1 with h | h
    · rw [h]; exact List.mem_cons_self ..
    · exact List.mem_cons_of_mem _ h
  · rcases b.1 with h | h
    · rw [h]; exact List.mem_cons_self ..
    · exact List.mem_cons_of_mem _ h
  · intro y hy
    rcases List.mem_cons.mp hy with rfl | hy
    · exact ⟨a.2.1, b.2.1⟩
    · exact ⟨a.2.2 y hy, b.2.2 y hy⟩

/-- the reshape instruction `r` is the right one for the growth `g → g'` -/
def ReshapeOK (g g' : Grid) (r : Reshape) : Prop :=
  (g.count = 0 ∧ r = .fresh) ∨
  (r = .noChange ∧ g'.tmin = g.tmin ∧ g'.count = g.count) ∨
  (0 < g.count ∧ r = .shift (g.tmin - g'.tmin).toNat ∧ g'.tmin ≤ g.tmin ∧ g.tmin + g.count ≤ g'.tmin + g'.count)

/-- a right instruction moves the old contents by the cells added on the left, pads on the right -/
theorem reshape1_of_ok {g g' : Grid} {r : Reshape} (ok : ReshapeOK g g' r) (old : List Rat)
    (hold : old.length = g.count) :
    (g.count = 0 → reshape1 old g'.count r = List.replicate g'.count 0) ∧
    (0 < g.count → reshape1 old g'.count r
      = List.replicate (g.tmin - g'.tmin).toNat 0 ++ old ++
        List.replicate (g'.count - (g.tmin - g'.tmin).toNat - g.count) 0) := by
  rcases ok with ⟨h0, rfl⟩ | ⟨rfl, h1, h2⟩ | ⟨hp, rfl, h1, h2⟩
  · exact ⟨fun _ => rfl, fun hp => by omega⟩
  · constructor
    · intro h0
      have : old = [] := List.length_eq_zero_iff.mp (by omega)
      subst this
      simp [reshape1, h2, h0]
    · intro _
      have e1 : (g.tmin - g'.tmin).toNat = 0 := by omega
      have e2 : g'.count - g.count = 0 := by omega
      simp [reshape1, e1, e2]
  · constructor
    · intro h0; omega
    · intro _
      simp only [reshape1, hold]
      rw [List.take_of_length_le (by simp; omega)]

theorem forceSingle_reshapeOK (fo : FloatOps) (fuel : Nat) (g : Grid) (v : Rat) (k : Int)
    (hm : EdgeMono fo g.w g.shift) (hk : CellOf (g.edgeAt fo) v k)
    (hf : (fo.est g.w g.shift v - k).natAbs ≤ fuel) :
    ReshapeOK g (g.forceSingle fo fuel v false).1 (g.forceSingle fo fuel v false).2 := by
  have hloc : g.findIndex fo fuel v = k := locate_spec (g.edgeAt fo) v hm k _ fuel hk hf
  by_cases h0 : g.count = 0
  · left
    refine ⟨h0, ?_⟩
    unfold forceSingle
    simp [h0]
  · right
    have hpos : 0 < g.count := Nat.pos_of_ne_zero h0
    unfold forceSingle
    simp only [h0, if_false]
    by_cases h1 : v < g.firstEdge fo
    · have hkt : k < g.tmin := cell_lt_of_lt hm hk h1
      have hal' : (g.tmin - k).toNat ≠ 0 := by omega
      simp only [h1, if_true, hloc, hal', if_false]
      right
      refine ⟨hpos, ?_, by omega, by push_cast; omega⟩
      congr 1; omega
    · simp only [h1, if_false]
      by_cases h2 : g.lastEdge fo ≤ v
      · have hkt : g.tmin + g.count ≤ k := cell_ge_of_le hm hk h2
        have hne : ¬ (k - g.tmin + 1 - (if g.edgeAt fo k = v ∧ false = true then 1 else 0) - (g.count : Int) = 0) := by
          simp; omega
        simp only [h2, if_true, hloc, hne, if_false]
        have e0 : (if g.edgeAt fo k = v ∧ false = true then (1 : Int) else 0) = 0 := by simp
        right
        refine ⟨hpos, by simp, le_refl _, ?_⟩
        simp only [e0]; omega
      · simp only [h2, if_false]
        left; exact ⟨by trivial, by trivial, by trivial⟩

theorem forceMany_nil (fo : FloatOps) (fuel : Nat) (g : Grid) (ire : Bool) :
    g.forceMany fo fuel [] ire = (g, .noChange) := rfl

theorem forceMany_of_min_max (fo : FloatOps) (fuel : Nat) (g : Grid) (vs : List Rat) (ire : Bool) (lo hi : Rat)
    (h1 : listMin vs = some lo) (h2 : listMax vs = some hi) :
    g.forceMany fo fuel vs ire
      = (((g.forceSingle fo fuel lo g.ire).1.forceSingle fo fuel hi ire).1,
         if (g.forceSingle fo fuel lo g.ire).2 = .noChange
         then ((g.forceSingle fo fuel lo g.ire).1.forceSingle fo fuel hi ire).2
         else (g.forceSingle fo fuel lo g.ire).2) := by
  unfold forceMany
  rw [h1, h2]

/-- **`_force_bin_existence` for an array.**  It is NOT a fold of the single-value routine over the
    array: it calls the single-value routine twice, for the minimum and for the maximum.  The result is
    nevertheless the hull of the old range and the cells of ALL the values (cells are monotone in the
    value), and the reshape instruction handed to `_reshape_data` is the right one for that growth. -/
theorem forceMany_spec (fo : FloatOps) (fuel : Nat) (g : Grid) (halign : g.align = true) (hire : g.ire = false)
    (hm : EdgeMono fo g.w g.shift) (vals : List Rat) (hreach : ∀ v ∈ vals, Reach fo g.w g.shift fuel v) :
    (g.forceMany fo fuel vals g.ire).1.align = g.align ∧
    (g.forceMany fo fuel vals g.ire).1.adaptive = g.adaptive ∧
    (g.forceMany fo fuel vals g.ire).1.ire = g.ire ∧
    ReshapeOK g (g.forceMany fo fuel vals g.ire).1 (g.forceMany fo fuel vals g.ire).2 ∧
    SpanHull (fo.edge g.w g.shift) g (g.forceMany fo fuel vals g.ire).1 vals := by
  cases vals with
  | nil =>
    rw [forceMany_nil]
    exact ⟨rfl, rfl, rfl, Or.inr (Or.inl ⟨rfl, rfl, rfl⟩), SpanHull.refl _ g⟩
  | cons x xs =>
    obtain ⟨lo, hi, hmin, hmax, hlomem, himem, hbound⟩ := listMin_listMax_spec x xs
    rw [forceMany_of_min_max fo fuel g (x :: xs) g.ire lo hi hmin hmax, hire]
    obtain ⟨klo, hklo, hflo⟩ := hreach lo hlomem
    obtain ⟨khi, hkhi, hfhi⟩ := hreach hi himem
    have hkk : klo ≤ khi := cell_mono hm hklo hkhi ((hbound lo hlomem).2)
    have c1 := forceSingle_covers fo fuel g lo klo halign hm hklo hflo
    have ok1 := forceSingle_reshapeOK fo fuel g lo klo hm hklo hflo
    simp only at c1
    generalize (g.forceSingle fo fuel lo false).1 = g1 at *
    generalize (g.forceSingle fo fuel lo false).2 = r1 at *
    obtain ⟨hw1, hs1, hal1, had1, hire1, hlo1, hhi1, hzero1, hpos1⟩ := c1
    have hm1 : EdgeMono fo g1.w g1.shift := by rw [hw1, hs1]; exact hm
    have hk1 : CellOf (g1.edgeAt fo) hi khi := by
      show CellOf (fo.edge g1.w g1.shift) hi khi
      rw [hw1, hs1]; exact hkhi
    have hf1 : (fo.est g1.w g1.shift hi - khi).natAbs ≤ fuel := by rw [hw1, hs1]; exact hfhi
    have c2 := forceSingle_covers fo fuel g1 hi khi (hal1.trans halign) hm1 hk1 hf1
    have ok2 := forceSingle_reshapeOK fo fuel g1 hi khi hm1 hk1 hf1
    simp only at c2
    generalize (g1.forceSingle fo fuel hi false).1 = g2 at *
    generalize (g1.forceSingle fo fuel hi false).2 = r2 at *
    obtain ⟨hw2, hs2, hal2, had2, hire2, hlo2, hhi2, hzero2, hpos2⟩ := c2
    have h1pos : 0 < g1.count := by omega
    have hh2 := hpos2 h1pos
    have ht2 : g2.tmin = g1.tmin := by omega
    refine ⟨hal2.trans hal1, had2.trans had1, hire2.trans (hire1.trans hire), ?_, ?_⟩
    · -- the combined reshape instruction
      show ReshapeOK g g2 (if r1 = .noChange then r2 else r1)
      rcases ok1 with ⟨h0, rfl⟩ | ⟨rfl, e1, e2⟩ | ⟨hp, rfl, e1, e2⟩
      · left; exact ⟨h0, by simp⟩
      · rw [if_pos rfl]
        rcases ok2 with ⟨h0', _⟩ | ⟨rfl, f1, f2⟩ | ⟨hp', rfl, f1, f2⟩
        · omega
        · right; left; exact ⟨rfl, by omega, by omega⟩
        · right; right
          refine ⟨by omega, ?_, by omega, by omega⟩
          congr 1; omega
      · right; right
        refine ⟨hp, ?_, by omega, by omega⟩
        simp only [reduceCtorEq, if_false]
        congr 1; omega
    · -- the hull
      refine ⟨hw2.trans hw1, hs2.trans hs1, ?_, ?_, ?_, fun _ => by omega, ?_, ?_, fun h => by cases h⟩
      · intro hp; have := hpos1 hp; omega
      · intro hp; have := hpos1 hp; omega
      · intro v hv
        obtain ⟨k, hk, _⟩ := hreach v hv
        have b := hbound v hv
        have := cell_mono hm hklo hk b.1
        have := cell_mono hm hk hkhi b.2
        exact ⟨k, hk, by omega, by omega⟩
      · intro _
        by_cases h0 : g.count = 0
        · right; refine ⟨lo, hlomem, ?_⟩
          have := hzero1 h0
          have : g2.tmin = klo := by omega
          rw [this]; exact hklo
        · have hh := hpos1 (Nat.pos_of_ne_zero h0)
          by_cases hle : g.tmin ≤ klo
          · left; exact ⟨Nat.pos_of_ne_zero h0, by omega⟩
          · right; refine ⟨lo, hlomem, ?_⟩
            have : g2.tmin = klo := by omega
            rw [this]; exact hklo
      · intro _
        by_cases h0 : g.count = 0
        · right; refine ⟨hi, himem, ?_⟩
          have := hzero1 h0
          have : g2.tmin + g2.count - 1 = khi := by omega
          rw [this]; exact hkhi
        · have hh := hpos1 (Nat.pos_of_ne_zero h0)
          by_cases hle : khi + 1 ≤ g.tmin + g.count
          · left; exact ⟨Nat.pos_of_ne_zero h0, by omega⟩
          · right; refine ⟨hi, himem, ?_⟩
            have : g2.tmin + g2.count - 1 = khi := by omega
            rw [this]; exact hkhi

/-- growing the grid and moving the contents as instructed keeps the invariant (same data) -/
theorem gridTracks_regrid (fo : FloatOps) (h : H1) (g : Grid) (pts : List Pt) (tr : GridTracks fo h g pts)
    (hm : EdgeMono fo g.w g.shift) (g' : Grid) (r : Reshape) (hw : g'.w = g.w) (hs : g'.shift = g.shift)
    (hal : g'.align = g.align) (had : g'.adaptive = g.adaptive) (hire : g'.ire = g.ire)
    (ok : ReshapeOK g g' r) :
    GridTracks fo { h with binning := .fixed g', freq := reshape1 h.freq g'.count r,
                           err2 := reshape1 h.err2 g'.count r } g' pts := by
  have st := tr.state
  have hedge : g'.edgeAt fo = g.edgeAt fo := by funext c; simp only [edgeAt, hw, hs]
  have hm' : ∀ a b : Int, a < b → g'.edgeAt fo a < g'.edgeAt fo b := by rw [hedge]; exact hm
  have hrise : Rising (g'.bins fo) := by rw [bins_eq_binsFrom]; exact binsFrom_rising _ hm' _ _
  have hlen : (g'.bins fo).length = g'.count := by rw [bins_eq_binsFrom, binsFrom_length]
  have rf := reshape1_of_ok ok h.freq st.flen
  have re := reshape1_of_ok ok h.err2 st.elen
  have hcont : 0 < g.count → g'.tmin ≤ g.tmin ∧ g.tmin + g.count ≤ g'.tmin + g'.count := by
    intro hp
    rcases ok with ⟨h0, _⟩ | ⟨_, e1, e2⟩ | ⟨_, _, e1, e2⟩ <;> omega
  have hfe : reshape1 h.freq g'.count r = (calc1d (g'.bins fo) pts).freq ∧
      reshape1 h.err2 g'.count r = (calc1d (g'.bins fo) pts).err2 := by
    by_cases h0 : g.count = 0
    · have hp : pts = [] := tr.nil_of_empty h0
      subst hp
      rw [calc1d_nil_freq _ hrise, calc1d_nil_err2 _ hrise, hlen, rf.1 h0, re.1 h0]
      exact ⟨rfl, rfl⟩
    · have hp : 0 < g.count := Nat.pos_of_ne_zero h0
      have hh := hcont hp
      have grow := calc1d_bins_grow fo g g' hm hw hs hh.1 hh.2 pts tr.inside
      rw [rf.2 hp, re.2 hp, tr.freq, tr.err2]
      exact ⟨grow.1.symm, grow.2.symm⟩
  refine ⟨⟨rfl, by rw [had]; exact st.adaptive, by rw [hal]; exact st.align, by rw [hire]; exact st.ire,
      st.keep, ?_, ?_⟩, hfe.1, hfe.2, tr.under, tr.over, ?_⟩
  · show (reshape1 h.freq g'.count r).length = g'.count
    rw [hfe.1, calc1d_freq_length, hlen]
  · show (reshape1 h.err2 g'.count r).length = g'.count
    rw [hfe.2, calc1d_err2_length, hlen]
  · rw [hedge]
    by_cases h0 : g.count = 0
    · rw [tr.nil_of_empty h0]; exact Inside.nil _ _ _
    · have hh := hcont (Nat.pos_of_ne_zero h0)
      exact tr.inside.mono hh.1 hh.2

theorem adapt_many_eq (fo : FloatOps) (fuel : Nat) (h : H1) (g : Grid) (hb : h.binning = .fixed g)
    (ha : g.adaptive = true) (vals : List Rat) :
    h.adapt fo fuel vals false
      = { h with binning := .fixed (g.forceMany fo fuel vals g.ire).1,
                 freq := reshape1 h.freq (g.forceMany fo fuel vals g.ire).1.count (g.forceMany fo fuel vals g.ire).2,
                 err2 := reshape1 h.err2 (g.forceMany fo fuel vals g.ire).1.count (g.forceMany fo fuel vals g.ire).2 } := by
  unfold adapt
  simp [hb, ha]

/-- the adaptation step of `fill_n` keeps the invariant; the new range is the hull -/
theorem gridTracks_adapt_many (fo : FloatOps) (fuel : Nat) (h : H1) (g : Grid) (pts : List Pt)
    (tr : GridTracks fo h g pts) (hm : EdgeMono fo g.w g.shift) (vals : List Rat)
    (hreach : ∀ v ∈ vals, Reach fo g.w g.shift fuel v) :
    ∃ g' : Grid, GridTracks fo (h.adapt fo fuel vals false) g' pts ∧ SpanHull (fo.edge g.w g.shift) g g' vals := by
  have st := tr.state
  obtain ⟨hal, had, hire, ok, sp⟩ := forceMany_spec fo fuel g st.align st.ire hm vals hreach
  rw [adapt_many_eq fo fuel h g st.binning st.adaptive]
  exact ⟨_, gridTracks_regrid fo h g pts tr hm _ _ sp.w sp.shift hal had hire ok, sp⟩

theorem gridTracks_coerce {fo : FloatOps} {h : H1} {g : Grid} {pts : List Pt} (tr : GridTracks fo h g pts)
    (d : DType) : GridTracks fo (h.coerce d) g pts :=
  ⟨⟨tr.state.binning, tr.state.adaptive, tr.state.align, tr.state.ire, tr.state.keep, tr.state.flen,
    tr.state.elen⟩, tr.freq, tr.err2, tr.under, tr.over, tr.inside⟩

/-- the counting core of `fill_n` on data inside the grid extends the tracked data by the batch -/
theorem gridTracks_fillData (fo : FloatOps) (h : H1) (g : Grid) (pts : List Pt) (tr : GridTracks fo h g pts)
    (hm : EdgeMono fo g.w g.shift) (d : List Pt) (hin : Inside (g.edgeAt fo) g.tmin g.count d) :
    GridTracks fo (h.fillData fo d) g (pts ++ d) := by
  have st := tr.state
  have hrise : Rising (g.bins fo) := by rw [bins_eq_binsFrom]; exact binsFrom_rising _ hm _ _
  have hlen : (g.bins fo).length = g.count := by rw [bins_eq_binsFrom, binsFrom_length]
  have m := calc1d_inside_missed (edge := g.edgeAt fo) hm g.tmin g.count d hin
  rw [← bins_eq_binsFrom] at m
  have hf : (h.fillData fo d).freq = (calc1d (g.bins fo) (pts ++ d)).freq := by
    simp only [fillData, H1.bins, st.binning, Binning.bins]
    rw [calc1d_append_freq _ hrise, tr.freq]
  have he : (h.fillData fo d).err2 = (calc1d (g.bins fo) (pts ++ d)).err2 := by
    simp only [fillData, H1.bins, st.binning, Binning.bins]
    rw [calc1d_append_err2 _ hrise, tr.err2]
  refine ⟨⟨st.binning, st.adaptive, st.align, st.ire, st.keep, ?_, ?_⟩, hf, he, ?_, ?_, tr.inside.append hin⟩
  · rw [hf, calc1d_freq_length, hlen]
  · rw [he, calc1d_err2_length, hlen]
  · simp only [fillData, H1.bins, st.binning, Binning.bins, st.keep, if_true]
    rw [m.1, tr.under]; exact nadd_zero _
  · simp only [fillData, H1.bins, st.binning, Binning.bins, st.keep, if_true]
    rw [m.2, tr.over]; exact nadd_zero _

/-- the values of the masked data are the non-NaN values -/
theorem maskPts_values (vs : List (Option Rat)) (ws : Option (List Rat)) (hok : weightsShapeOk vs ws = true) :
    (maskPts vs ws).map (·.1) = vs.filterMap id := by
  cases ws with
  | none => rw [C01_nan_unweighted]; simp [List.map_map, Function.comp_def]
  | some w =>
    have hl : w.length = vs.length := by simpa [weightsShapeOk] using hok
    clear hok
    induction vs generalizing w with
    | nil => simp [maskPts]
    | cons v vs ih =>
      cases w with
      | nil => simp at hl
      | cons x xs =>
        have hl' : xs.length = vs.length := by simpa using hl
        cases v <;> simp [maskPts, ih xs hl']

/-- **D. One `fill_n` batch keeps the invariant.**  With weights of the right shape and reachable
    values, `fill_n(values, weights)` is accepted; the new state holds the fixed-bin histogram of the old
    data followed by the (NaN-masked) batch, over the grown bins; the new range is the hull of the old
    range and the cells of the batch. -/
theorem gridTracks_fillN (fo : FloatOps) (fuel : Nat) (h : H1) (g : Grid) (pts : List Pt)
    (tr : GridTracks fo h g pts) (hm : EdgeMono fo g.w g.shift) (vs : List (Option Rat))
    (ws : Option (List Rat)) (wkind : DType) (hok : weightsShapeOk vs ws = true)
    (hreach : ∀ v ∈ vs.filterMap id, Reach fo g.w g.shift fuel v) :
    ∃ (h' : H1) (g' : Grid), h.fillN fo fuel vs ws wkind = .ok h' ∧
      GridTracks fo h' g' (pts ++ maskPts vs ws) ∧
      SpanHull (fo.edge g.w g.shift) g g' (vs.filterMap id) := by
  obtain ⟨g', tr1, sp⟩ := gridTracks_adapt_many fo fuel h g pts tr hm (vs.filterMap id) hreach
  have hm' : EdgeMono fo g'.w g'.shift := by rw [sp.w, sp.shift]; exact hm
  have hin : Inside (g'.edgeAt fo) g'.tmin g'.count (maskPts vs ws) := by
    intro p hp
    have : p.1 ∈ vs.filterMap id := by
      rw [← maskPts_values vs ws hok]; exact List.mem_map.mpr ⟨p, hp, rfl⟩
    obtain ⟨k, hk, h1, h2⟩ := sp.covers p.1 this
    refine ⟨k, ?_, h1, h2⟩
    show CellOf (fo.edge g'.w g'.shift) p.1 k
    rw [sp.w, sp.shift]; exact hk
  cases hws : ws.isSome with
  | true =>
    refine ⟨((h.adapt fo fuel (vs.filterMap id) false).coerce wkind).fillData fo (maskPts vs ws), g', ?_,
      gridTracks_fillData fo _ g' pts (gridTracks_coerce tr1 wkind) hm' _ hin, sp⟩
    unfold fillN
    simp [hok, hws]
    rfl
  | false =>
    refine ⟨(h.adapt fo fuel (vs.filterMap id) false).fillData fo (maskPts vs ws), g', ?_,
      gridTracks_fillData fo _ g' pts tr1 hm' _ hin, sp⟩
    unfold fillN
    simp [hok, hws]
    rfl

theorem grid_ext {a b : Grid} (h1 : a.w = b.w) (h2 : a.shift = b.shift) (h3 : a.tmin = b.tmin)
    (h4 : a.count = b.count) (h5 : a.align = b.align) (h6 : a.adaptive = b.adaptive) (h7 : a.ire = b.ire) :
    a = b := by
  cases a; cases b; simp_all

/-- two states that track the same data over hulls of the same values are on the same grid and have the
    same contents -/
theorem gridTracks_agree {fo : FloatOps} {h1 h2 : H1} {g g1 g2 : Grid} {pts : List Pt} {vals : List Rat}
    (hm : EdgeMono fo g.w g.shift) (t1 : GridTracks fo h1 g1 pts) (t2 : GridTracks fo h2 g2 pts)
    (s1 : SpanHull (fo.edge g.w g.shift) g g1 vals) (s2 : SpanHull (fo.edge g.w g.shift) g g2 vals) :
    g1 = g2 ∧ h1.binning = h2.binning ∧ h1.freq = h2.freq ∧ h1.err2 = h2.err2 ∧ h1.under = h2.under ∧
      h1.over = h2.over ∧ h1.keep = h2.keep := by
  obtain ⟨e1, e2, e3, e4⟩ := s1.unique hm s2
  have hg : g1 = g2 := grid_ext e1 e2 e3 e4 (by rw [t1.state.align, t2.state.align])
    (by rw [t1.state.adaptive, t2.state.adaptive]) (by rw [t1.state.ire, t2.state.ire])
  subst hg
  exact ⟨rfl, by rw [t1.state.binning, t2.state.binning], by rw [t1.freq, t2.freq], by rw [t1.err2, t2.err2],
    by rw [t1.under, t2.under], by rw [t1.over, t2.over], by rw [t1.state.keep, t2.state.keep]⟩

/-- **D. One batch = the folded singles.**  `_force_bin_existence` on an array is not a fold of the
    single-value routine (it looks at min and max only), but the results agree: `fill_n(values, weights)`
    and the same (value, weight) pairs entered one by one with `fill` end on the same grid (`binning`,
    hence the same bins) with the same contents, squared errors, underflow and overflow. -/
theorem fillN_eq_singles (fo : FloatOps) (fuel : Nat) (h : H1) (g : Grid) (pts : List Pt)
    (tr : GridTracks fo h g pts) (hm : EdgeMono fo g.w g.shift) (vs : List (Option Rat))
    (ws : Option (List Rat)) (wkind : DType) (wk : NumKind) (hok : weightsShapeOk vs ws = true)
    (hreach : ∀ v ∈ vs.filterMap id, Reach fo g.w g.shift fuel v) :
    ∃ h' : H1, h.fillN fo fuel vs ws wkind = .ok h' ∧
      h'.binning = (fillAll fo fuel h ((maskPts vs ws).map fun p => (p, wk))).binning ∧
      h'.freq = (fillAll fo fuel h ((maskPts vs ws).map fun p => (p, wk))).freq ∧
      h'.err2 = (fillAll fo fuel h ((maskPts vs ws).map fun p => (p, wk))).err2 ∧
      h'.under = (fillAll fo fuel h ((maskPts vs ws).map fun p => (p, wk))).under ∧
      h'.over = (fillAll fo fuel h ((maskPts vs ws).map fun p => (p, wk))).over ∧
      h'.keep = (fillAll fo fuel h ((maskPts vs ws).map fun p => (p, wk))).keep := by
  obtain ⟨h', g', he, tr', sp'⟩ := gridTracks_fillN fo fuel h g pts tr hm vs ws wkind hok hreach
  have hvals := maskPts_values vs ws hok
  have hreach' : ∀ e ∈ (maskPts vs ws).map (fun p => (p, wk)), Reach fo g.w g.shift fuel e.1.1 := by
    intro e he
    obtain ⟨p, hp, rfl⟩ := List.mem_map.mp he
    apply hreach
    rw [← hvals]; exact List.mem_map.mpr ⟨p, hp, rfl⟩
  obtain ⟨g'', tr'', sp''⟩ := gridTracks_history fo fuel g.w g.shift hm _ hreach' h g pts rfl rfl tr
  have e1 : ((maskPts vs ws).map fun p => (p, wk)).map (·.1) = maskPts vs ws := by
    simp [List.map_map, Function.comp_def]
  have e2 : ((maskPts vs ws).map fun p => (p, wk)).map (·.1.1) = vs.filterMap id := by
    rw [← hvals]; simp [List.map_map, Function.comp_def]
  rw [e1] at tr''
  rw [e2] at sp''
  obtain ⟨_, a1, a2, a3, a4, a5, a6⟩ := gridTracks_agree hm tr' tr'' sp' sp''
  exact ⟨h', he, a1, a2, a3, a4, a5, a6⟩

/-! ## Any sequence of `fill` / `fill_n` calls -/

/-- hulls compose -/
theorem SpanHull.trans {edge : Int → Rat} {g g1 g' : Grid} {vs1 vs2 : List Rat}
    (a : SpanHull edge g g1 vs1) (b : SpanHull edge g1 g' vs2) : SpanHull edge g g' (vs1 ++ vs2) := by
  refine ⟨b.w.trans a.w, b.shift.trans a.shift, ?_, ?_, ?_, ?_, ?_, ?_, ?_⟩
  · intro hp
    have := a.keepLo hp
    have := b.keepLo (a.pos (Or.inl hp))
    omega
  · intro hp
    have := a.keepHi hp
    have := b.keepHi (a.pos (Or.inl hp))
    omega
  · intro v hv
    rcases List.mem_append.mp hv with hv | hv
    · obtain ⟨k, hk, h1, h2⟩ := a.covers v hv
      have hp1 : 0 < g1.count := a.pos (Or.inr (List.ne_nil_of_mem hv))
      have := b.keepLo hp1
      have := b.keepHi hp1
      exact ⟨k, hk, by omega, by omega⟩
    · exact b.covers v hv
  · intro hp
    by_cases h1 : 0 < g.count ∨ vs1 ≠ []
    · exact b.pos (Or.inl (a.pos h1))
    · have hv1 : vs1 = [] := by
        by_contra hne; exact h1 (Or.inr hne)
      have h0 : ¬ 0 < g.count := fun hh => h1 (Or.inl hh)
      rcases hp with hp | hp
      · exact (h0 hp).elim
      · rw [hv1, List.nil_append] at hp
        exact b.pos (Or.inr hp)
  · intro hp
    rcases b.loTight hp with ⟨hp1, he⟩ | ⟨v, hv, hc⟩
    · rcases a.loTight hp1 with ⟨hp0, he0⟩ | ⟨v, hv, hc⟩
      · left; exact ⟨hp0, he.trans he0⟩
      · right; exact ⟨v, List.mem_append_left _ hv, by rw [he]; exact hc⟩
    · right; exact ⟨v, List.mem_append_right _ hv, hc⟩
  · intro hp
    rcases b.hiTight hp with ⟨hp1, he⟩ | ⟨v, hv, hc⟩
    · rcases a.hiTight hp1 with ⟨hp0, he0⟩ | ⟨v, hv, hc⟩
      · left; exact ⟨hp0, he.trans he0⟩
      · right; exact ⟨v, List.mem_append_left _ hv, by rw [he]; exact hc⟩
    · right; exact ⟨v, List.mem_append_right _ hv, hc⟩
  · intro he
    have h1 : vs1 = [] := (List.append_eq_nil_iff.mp he).1
    have h2 : vs2 = [] := (List.append_eq_nil_iff.mp he).2
    have := a.stay h1
    have := b.stay h2
    omega

/-- one call: `fill(value, weight)` (`value = none` is NaN) or `fill_n(values, weights)` -/
inductive FillOp
  | one (v : Option Rat) (w : Rat) (wk : NumKind)
  | many (vs : List (Option Rat)) (ws : Option (List Rat)) (wkind : DType)

/-- the (value, weight) pairs a call enters (NaN entries are skipped together with their weights) -/
def FillOp.pts : FillOp → List Pt
  | .one none _ _ => []
  | .one (some v) w _ => [(v, w)]
  | .many vs ws _ => maskPts vs ws

/-- the call is well-formed: the weights of a batch have the shape of the values -/
def FillOp.ok : FillOp → Bool
  | .one _ _ _ => true
  | .many vs ws _ => weightsShapeOk vs ws

def FillOp.run (fo : FloatOps) (fuel : Nat) (h : H1) : FillOp → R H1
  | .one v w wk => pure (h.fill fo fuel v w wk).1
  | .many vs ws wkind => h.fillN fo fuel vs ws wkind

def runOps (fo : FloatOps) (fuel : Nat) (h : H1) : List FillOp → R H1
  | [] => pure h
  | op :: ops => do
    let h' ← op.run fo fuel h
    runOps fo fuel h' ops

/-- all the pairs a list of calls enters, in order -/
def opsPts (ops : List FillOp) : List Pt := (ops.map FillOp.pts).flatten

/-- one call keeps the invariant -/
theorem gridTracks_op (fo : FloatOps) (fuel : Nat) (h : H1) (g : Grid) (pts : List Pt)
    (tr : GridTracks fo h g pts) (hm : EdgeMono fo g.w g.shift) (op : FillOp) (hok : op.ok = true)
    (hreach : ∀ p ∈ op.pts, Reach fo g.w g.shift fuel p.1) :
    ∃ (h' : H1) (g' : Grid), op.run fo fuel h = .ok h' ∧ GridTracks fo h' g' (pts ++ op.pts) ∧
      SpanHull (fo.edge g.w g.shift) g g' (op.pts.map (·.1)) := by
  cases op with
  | one v w wk =>
    cases v with
    | none => exact ⟨h, g, rfl, by simpa [FillOp.pts] using tr, SpanHull.refl _ g⟩
    | some v =>
      obtain ⟨k, hk, hf⟩ := hreach (v, w) (by simp [FillOp.pts])
      obtain ⟨g1, tr1, hw1, hs1, _, _, hpos, hzero, _⟩ := gridTracks_fill fo fuel h g pts tr v w wk k hm hk hf
      exact ⟨_, g1, rfl, tr1, SpanHull.step hk hw1 hs1 hpos hzero (SpanHull.refl _ g1)⟩
  | many vs ws wkind =>
    have hok' : weightsShapeOk vs ws = true := hok
    have hvals := maskPts_values vs ws hok'
    have hr : ∀ v ∈ vs.filterMap id, Reach fo g.w g.shift fuel v := by
      intro v hv
      rw [← hvals] at hv
      obtain ⟨p, hp, rfl⟩ := List.mem_map.mp hv
      exact hreach p hp
    obtain ⟨h', g', he, tr', sp⟩ := gridTracks_fillN fo fuel h g pts tr hm vs ws wkind hok' hr
    refine ⟨h', g', he, tr', ?_⟩
    show SpanHull _ g g' ((maskPts vs ws).map (·.1))
    rw [hvals]; exact sp

/-- **ANY sequence of `fill` / `fill_n` calls keeps the invariant.**  Every call is accepted, the final
    state holds the fixed-bin histogram of everything entered over the final bins, and the final range
    is the hull of the initial range and the cells of all values entered. -/
theorem gridTracks_ops (fo : FloatOps) (fuel : Nat) (w s : Rat) (hm : EdgeMono fo w s) (ops : List FillOp)
    (hok : ∀ op ∈ ops, op.ok = true) (hreach : ∀ p ∈ opsPts ops, Reach fo w s fuel p.1)
    (h : H1) (g : Grid) (pts : List Pt) (hw : g.w = w) (hs : g.shift = s) (tr : GridTracks fo h g pts) :
    ∃ (h' : H1) (g' : Grid), runOps fo fuel h ops = .ok h' ∧ GridTracks fo h' g' (pts ++ opsPts ops) ∧
      SpanHull (fo.edge w s) g g' ((opsPts ops).map (·.1)) := by
  induction ops generalizing h g pts with
  | nil => exact ⟨h, g, rfl, by simpa [opsPts] using tr, by simpa [opsPts] using SpanHull.refl _ g⟩
  | cons op ops ih =>
    have hm' : EdgeMono fo g.w g.shift := by rw [hw, hs]; exact hm
    have hr1 : ∀ p ∈ op.pts, Reach fo g.w g.shift fuel p.1 := by
      intro p hp
      rw [hw, hs]
      exact hreach p (by simp only [opsPts, List.map_cons, List.flatten_cons]; exact List.mem_append_left _ hp)
    obtain ⟨h1, g1, e1, tr1, sp1⟩ := gridTracks_op fo fuel h g pts tr hm' op (hok op (List.mem_cons_self ..)) hr1
    rw [hw, hs] at sp1
    obtain ⟨h', g', e', tr', sp'⟩ := ih (fun o ho => hok o (List.mem_cons_of_mem _ ho))
      (fun p hp => hreach p (by
        simp only [opsPts, List.map_cons, List.flatten_cons]; exact List.mem_append_right _ hp))
      h1 g1 (pts ++ op.pts) (sp1.w.trans hw) (sp1.shift.trans hs) tr1
    refine ⟨h', g', ?_, ?_, ?_⟩
    · simp only [runOps, e1]; exact e'
    · have : pts ++ opsPts (op :: ops) = pts ++ op.pts ++ opsPts ops := by
        simp [opsPts, List.append_assoc]
      rw [this]; exact tr'
    · have : (opsPts (op :: ops)).map (·.1) = op.pts.map (·.1) ++ (opsPts ops).map (·.1) := by
        simp [opsPts]
      rw [this]; exact sp1.trans sp'

/-- **C04 for any sequence of `fill` / `fill_n` calls** on an adaptive fixed-width histogram (started
    empty — `gridTracks_empty` — or pre-filled — any state satisfying `GridTracks`): every call is accepted;
    the final state equals the fixed-bin histogram of all the data over the final bins (contents, squared
    errors, underflow, overflow); the total is the initial total plus the total weight entered;
    underflow and overflow are zero; every value entered is found in the bin `[edge k, edge (k+1))` of its
    cell `k` on the original grid; the final range is the hull of the initial range and all cells needed. -/
theorem C04_any_history (fo : FloatOps) (fuel : Nat) (w s : Rat) (hm : EdgeMono fo w s) (ops : List FillOp)
    (hok : ∀ op ∈ ops, op.ok = true) (hreach : ∀ p ∈ opsPts ops, Reach fo w s fuel p.1)
    (h : H1) (g : Grid) (pts : List Pt) (hw : g.w = w) (hs : g.shift = s) (tr : GridTracks fo h g pts) :
    ∃ (h' : H1) (g' : Grid), runOps fo fuel h ops = .ok h' ∧ GridTracks fo h' g' (pts ++ opsPts ops) ∧
      SpanHull (fo.edge w s) g g' ((opsPts ops).map (·.1)) ∧
      h'.freq = (calc1d (h'.bins fo) (pts ++ opsPts ops)).freq ∧
      h'.err2 = (calc1d (h'.bins fo) (pts ++ opsPts ops)).err2 ∧
      h'.under = (calc1d (h'.bins fo) (pts ++ opsPts ops)).under ∧
      h'.over = (calc1d (h'.bins fo) (pts ++ opsPts ops)).over ∧
      h'.total = h.total + wsum (opsPts ops) ∧
      h'.underflow = some 0 ∧ h'.overflow = some 0 ∧
      (∀ p ∈ pts ++ opsPts ops, ∃ k : Int, CellOf (fo.edge w s) p.1 k ∧ g'.tmin ≤ k ∧ k < g'.tmin + g'.count ∧
        h'.findBin fo p.1 = .bin (k - g'.tmin).toNat ∧
        (h'.bins fo)[(k - g'.tmin).toNat]? = some (fo.edge w s k, fo.edge w s (k + 1))) := by
  obtain ⟨h', g', he, tr', sp⟩ := gridTracks_ops fo fuel w s hm ops hok hreach h g pts hw hs tr
  have hw' : g'.w = w := by rw [sp.w, hw]
  have hs' : g'.shift = s := by rw [sp.shift, hs]
  have hm' : EdgeMono fo g'.w g'.shift := by rw [hw', hs']; exact hm
  have hm0 : EdgeMono fo g.w g.shift := by rw [hw, hs]; exact hm
  have hb : h'.bins fo = g'.bins fo := by simp [H1.bins, tr'.state.binning, Binning.bins]
  obtain ⟨e1, e2, e3, e4, e5, e6⟩ := tr'.eq_calc1d hm'
  refine ⟨h', g', he, tr', sp, by rw [hb]; exact e1, by rw [hb]; exact e2, by rw [hb]; exact e3,
    by rw [hb]; exact e4, ?_, e5, e6, ?_⟩
  · rw [tr'.total hm', tr.total hm0, wsum_append]
  · intro p hp
    have := tr'.in_bin hm' p hp
    rw [hw', hs'] at this
    unfold H1.findBin
    rw [hb]
    exact this

/-- in exact arithmetic the only hypothesis left is a positive width -/
theorem C04_any_history_exact (fuel : Nat) (ops : List FillOp) (hok : ∀ op ∈ ops, op.ok = true)
    (h : H1) (g : Grid) (pts : List Pt) (hw : 0 < g.w) (tr : GridTracks FloatOps.exact h g pts) :
    ∃ (h' : H1) (g' : Grid), runOps FloatOps.exact fuel h ops = .ok h' ∧
      GridTracks FloatOps.exact h' g' (pts ++ opsPts ops) ∧
      SpanHull (FloatOps.exact.edge g.w g.shift) g g' ((opsPts ops).map (·.1)) ∧
      h'.total = h.total + wsum (opsPts ops) ∧ h'.underflow = some 0 ∧ h'.overflow = some 0 := by
  obtain ⟨h', g', he, tr', sp, _, _, _, _, ht, hu, ho, _⟩ :=
    C04_any_history FloatOps.exact fuel g.w g.shift (C04_exact_mono _ _ hw) ops hok
      (fun p _ => reach_exact g.w g.shift hw fuel p.1) h g pts rfl rfl tr
  exact ⟨h', g', he, tr', sp, ht, hu, ho⟩

/-! ## Non-vacuity and the limits of the statement -/

/-- The hypotheses are satisfiable for a non-trivial history: exact arithmetic, width 1/10, the values
    17/10 (cell 17), -3/10 (cell -3: growth to the left) and 5 (cell 50: growth to the right). -/
example :
    let g : Grid := { w := 1 / 10, adaptive := true }
    let hist : List (Pt × NumKind) := [((17 / 10, 1), .pyInt), ((-3 / 10, 2), .pyFloat), ((5, 1 / 2), .pyInt)]
    EdgeMono FloatOps.exact g.w g.shift ∧ (∀ e ∈ hist, Reach FloatOps.exact g.w g.shift 4 e.1.1) ∧
    GridTracks FloatOps.exact (H1.empty FloatOps.exact (.fixed g) true none) g [] ∧
    CellOf (FloatOps.exact.edge g.w g.shift) (17 / 10) 17 ∧ CellOf (FloatOps.exact.edge g.w g.shift) (-3 / 10) (-3) ∧
    CellOf (FloatOps.exact.edge g.w g.shift) 5 50 := by
  refine ⟨C04_exact_mono _ _ (by norm_num), fun e _ => reach_exact _ _ (by norm_num) _ _,
    gridTracks_empty _ _ rfl rfl rfl rfl _, ?_, ?_, ?_⟩ <;>
  (simp only [CellOf, FloatOps.exact]; constructor <;> norm_num)

/-- … and the model computes what the theorems say: range `[-3, 51)`, total `7/2`, the weights in the
    bins of cells -3, 17 and 50, nothing missed; the same data as one `fill_n` batch gives the same. -/
example :
    let g : Grid := { w := 1 / 10, adaptive := true }
    let h := fillAll FloatOps.exact 4 (H1.empty FloatOps.exact (.fixed g) true none)
      [((17 / 10, 1), .pyInt), ((-3 / 10, 2), .pyFloat), ((5, 1 / 2), .pyInt)]
    h.binning = .fixed { w := 1 / 10, tmin := -3, count := 54, adaptive := true } ∧ h.total = 7 / 2 ∧
    h.freq[0]? = some 2 ∧ h.freq[20]? = some 1 ∧ h.freq[53]? = some (1 / 2) ∧
    h.under = some 0 ∧ h.over = some 0 ∧
    (H1.fillN FloatOps.exact 4 (H1.empty FloatOps.exact (.fixed g) true none)
      [some (17 / 10), none, some (-3 / 10), some 5] (some [1, 9, 2, 1 / 2]) .f64).map (fun b => (b.binning, b.freq))
      = .ok (h.binning, h.freq) := by
  decide +kernel

/-- **Counterexample for grids with `include_right_edge` (`ire = true`).**  `GridState` asks for
    `ire = false`, and that is needed: with `ire = true` a value ON an edge beyond the last one is put
    into the (then last, right-closed) bin to its LEFT; when the grid grows further that bin is no longer
    the last one and no longer contains the value.  Width 1, fills 1/2, 2, 7/2: the contents are
    `[1, 1, 0, 1]`, the fixed-bin histogram of the same data over the final bins `[0,1) … [3,4]` is
    `[1, 0, 1, 1]` — and that is also what ONE `fill_n` batch of the same values gives, so with
    `ire = true` neither "equals the fixed-bin histogram over the final bins" nor "batch = singles" holds. -/
example :
    let g : Grid := { w := 1, adaptive := true, ire := true }
    let hist : List (Pt × NumKind) := [((1 / 2, 1), .pyInt), ((2, 1), .pyInt), ((7 / 2, 1), .pyInt)]
    let h := fillAll FloatOps.exact 4 (H1.empty FloatOps.exact (.fixed g) true none) hist
    h.binning = .fixed { w := 1, tmin := 0, count := 4, adaptive := true, ire := true } ∧
    h.freq = [1, 1, 0, 1] ∧ (calc1d (h.bins FloatOps.exact) (hist.map (·.1))).freq = [1, 0, 1, 1] ∧
    (H1.fillN FloatOps.exact 4 (H1.empty FloatOps.exact (.fixed g) true none)
      [some (1 / 2), some 2, some (7 / 2)] none .i64).map (fun b => (b.binning, b.freq))
      = .ok (h.binning, [1, 0, 1, 1]) := by
  decide +kernel

/-- **The alignment flag.**  `GridState` asks for `align = true`; with `align = false` the FIRST value
    entered into an empty grid moves the origin (`shift`) onto that value, so `g'.shift = g.shift` fails for
    the first fill (from then on the grid is non-empty and the flag is never read again). -/
example :
    let g : Grid := { w := 1, adaptive := true, align := false }
    (fillAll FloatOps.exact 4 (H1.empty FloatOps.exact (.fixed g) true none) [((1 / 2, 1), .pyInt)]).binning
      = .fixed { w := 1, shift := 1 / 2, tmin := 0, count := 1, adaptive := true, align := false } := by
  decide +kernel

end Physt

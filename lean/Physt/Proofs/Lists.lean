import Physt.Proofs.FindBin
/-! Elementwise list addition (`numpy +` on 1-D arrays). -/
namespace Physt
open H1

theorem zipAdd_length (a b : List Rat) : (zipAdd a b).length = min a.length b.length := by
  simp [zipAdd]

theorem zipAdd_getElem? (a b : List Rat) (i : Nat) :
    (zipAdd a b)[i]? = (a[i]?).bind fun x => (b[i]?).map fun y => x + y := by
  unfold zipAdd
  rw [List.getElem?_zipWith]
  cases a[i]? <;> cases b[i]? <;> simp

theorem zipAdd_assoc (a b c : List Rat) : zipAdd (zipAdd a b) c = zipAdd a (zipAdd b c) := by
  apply List.ext_getElem?
  intro i
  simp only [zipAdd_getElem?]
  cases a[i]? <;> cases b[i]? <;> cases c[i]? <;> simp [add_assoc]

theorem zipAdd_zeros_left (x : List Rat) : zipAdd (zeros x.length) x = x := by
  apply List.ext_getElem?
  intro i
  simp only [zipAdd_getElem?, zeros]
  by_cases hi : i < x.length
  · simp [List.getElem?_replicate, hi, List.getElem?_eq_getElem hi]
  · simp [List.getElem?_replicate, hi, List.getElem?_eq_none (Nat.le_of_not_lt hi)]

theorem zipAdd_zeros_right (x : List Rat) : zipAdd x (zeros x.length) = x := by
  apply List.ext_getElem?
  intro i
  simp only [zipAdd_getElem?, zeros]
  by_cases hi : i < x.length
  · simp [List.getElem?_replicate, hi, List.getElem?_eq_getElem hi]
  · simp [List.getElem?_replicate, hi, List.getElem?_eq_none (Nat.le_of_not_lt hi)]

/-- the contents of the histogram of one point: `w` in bin `i`, nothing elsewhere -/
def indicator (n i : Nat) (w : Rat) : List Rat := (List.range n).map fun j => if j = i then w else 0

theorem addAt_eq_zipAdd (l : List Rat) (i : Nat) (w : Rat) :
    addAt l i w = zipAdd l (indicator l.length i w) := by
  apply List.ext_getElem?
  intro j
  simp only [addAt, zipAdd_getElem?, indicator, List.getElem?_modify, List.getElem?_map]
  by_cases hj : j < l.length
  · simp only [List.getElem?_eq_getElem hj, List.getElem?_range hj, Option.map_some, Option.bind_some]
    by_cases hji : i = j
    · subst hji; simp
    · have : ¬ j = i := fun h => hji h.symm
      simp [hji, this]
  · simp [List.getElem?_eq_none (Nat.le_of_not_lt hj)]

theorem nadd_zero (a : NRat) : nadd a (some 0) = a := by
  cases a <;> simp [nadd]

theorem nadd_assoc (a b c : NRat) : nadd (nadd a b) c = nadd a (nadd b c) := by
  cases a <;> cases b <;> cases c <;> simp [nadd, add_assoc]

end Physt

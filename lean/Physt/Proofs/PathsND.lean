import Physt.Proofs.Lists
import Physt.Theorems.C02
/-!
# ND paths: `calcND` is additive in the rows; `fill` / `fill_n` / `+` track batch construction

ND analogues of `Physt/Proofs/Paths.lean`, the `Tracks` invariant of C03 and `C05_combined` /
`C05_chunks`, for every number of axes, every shape, every list of rows.
-/
namespace Physt

/-! ## `Arr` lemmas -/

theorem zipWith_map_same {α} (f : Rat → Rat → Rat) (g1 g2 : α → Rat) (l : List α) :
    List.zipWith f (l.map g1) (l.map g2) = l.map fun i => f (g1 i) (g2 i) := by
  induction l with
  | nil => rfl
  | cons x xs ih => simp [ih]

theorem sum_map_add {α} (g1 g2 : α → Rat) (l : List α) :
    (l.map fun i => g1 i + g2 i).sum = (l.map g1).sum + (l.map g2).sum := by
  induction l with
  | nil => simp
  | cons x xs ih => simp only [List.map_cons, List.sum_cons, ih]; ring

theorem sum_map_zero {α} (l : List α) : (l.map fun _ => (0 : Rat)).sum = 0 := by
  induction l with
  | nil => rfl
  | cons x xs ih => simp

/-- pointwise combination of two materialised functions over the same shape -/
theorem Arr.zipWith_ofFn (f : Rat → Rat → Rat) (shape : List Nat) (g1 g2 : List Nat → Rat) :
    Arr.zipWith f (Arr.ofFn shape g1) (Arr.ofFn shape g2) = Arr.ofFn shape fun i => f (g1 i) (g2 i) := by
  simp only [Arr.zipWith, Arr.ofFn, zipWith_map_same]

/-- extensionality for functions materialised over the same shape -/
theorem Arr.ofFn_congr (shape : List Nat) (g1 g2 : List Nat → Rat) (h : ∀ i, g1 i = g2 i) :
    Arr.ofFn shape g1 = Arr.ofFn shape g2 := by
  have : g1 = g2 := funext h
  rw [this]

theorem Arr.total_zipWith_ofFn (shape : List Nat) (g1 g2 : List Nat → Rat) :
    (Arr.zipWith (· + ·) (Arr.ofFn shape g1) (Arr.ofFn shape g2)).total
      = (Arr.ofFn shape g1).total + (Arr.ofFn shape g2).total := by
  rw [Arr.zipWith_ofFn]
  simp only [Arr.total, Arr.ofFn, sum_map_add]

theorem Arr.total_zeros (shape : List Nat) : (Arr.zeros shape).total = 0 := by
  simp only [Arr.zeros, Arr.total, Arr.ofFn, sum_map_zero]

/-- an array has the given shape and exactly as many stored entries as the shape has cells -/
def Arr.HasShape (a : Arr) (s : List Nat) : Prop := a.shape = s ∧ a.data.length = prodL s

theorem Arr.hasShape_ofFn (shape : List Nat) (g : List Nat → Rat) : (Arr.ofFn shape g).HasShape shape :=
  ⟨rfl, by simp [Arr.ofFn, allIdx_length]⟩

theorem Arr.hasShape_zipWith (f : Rat → Rat → Rat) (a b : Arr) (s : List Nat) (ha : a.HasShape s)
    (hb : b.HasShape s) : (Arr.zipWith f a b).HasShape s :=
  ⟨ha.1, by simp [Arr.zipWith, ha.2, hb.2]⟩

theorem Arr.zipWith_zeros_right (a : Arr) (s : List Nat) (ha : a.HasShape s) :
    Arr.zipWith (· + ·) a (Arr.zeros s) = a := by
  obtain ⟨sh, d⟩ := a
  obtain ⟨h1, h2⟩ := ha
  simp only at h1 h2
  simp only [Arr.zipWith, Arr.zeros, Arr.ofFn, Arr.mk.injEq, true_and]
  apply List.ext_getElem?
  intro i
  rw [List.getElem?_zipWith]
  by_cases hi : i < d.length
  · have hi' : i < (allIdx s).length := by rw [allIdx_length]; omega
    simp [List.getElem?_eq_getElem hi, hi']
  · simp [List.getElem?_eq_none (Nat.le_of_not_lt hi)]

/-! ## `calcND` is additive -/

abbrev AxesB := List (Bins × Bool)

theorem calcND_nil (axes : AxesB) :
    (calcND axes []).freq = Arr.zeros (axes.map (·.1.length)) ∧
    (calcND axes []).err2 = Arr.zeros (axes.map (·.1.length)) ∧
    (calcND axes []).missing = 0 := by
  refine ⟨rfl, rfl, ?_⟩
  show ([] : List Rat).sum - (Arr.zeros (axes.map (·.1.length))).total = 0
  rw [Arr.total_zeros]; simp

theorem calcND_freq_hasShape (axes : AxesB) (rows : List Row) :
    (calcND axes rows).freq.HasShape (axes.map (·.1.length)) := Arr.hasShape_ofFn _ _

theorem calcND_err2_hasShape (axes : AxesB) (rows : List Row) :
    (calcND axes rows).err2.HasShape (axes.map (·.1.length)) := Arr.hasShape_ofFn _ _

theorem calcND_append_freq (axes : AxesB) (a b : List Row) :
    (calcND axes (a ++ b)).freq = Arr.zipWith (· + ·) (calcND axes a).freq (calcND axes b).freq := by
  simp only [calcND]
  rw [Arr.zipWith_ofFn]
  apply Arr.ofFn_congr
  intro i
  simp only [List.map_append, List.filter_append, List.sum_append]

theorem calcND_append_err2 (axes : AxesB) (a b : List Row) :
    (calcND axes (a ++ b)).err2 = Arr.zipWith (· + ·) (calcND axes a).err2 (calcND axes b).err2 := by
  simp only [calcND]
  rw [Arr.zipWith_ofFn]
  apply Arr.ofFn_congr
  intro i
  simp only [List.map_append, List.filter_append, List.sum_append]

theorem calcND_append_missing (axes : AxesB) (a b : List Row) :
    (calcND axes (a ++ b)).missing = (calcND axes a).missing + (calcND axes b).missing := by
  have h := C02_missed axes (a ++ b)
  have ha := C02_missed axes a
  have hb := C02_missed axes b
  have ht : (calcND axes (a ++ b)).freq.total = (calcND axes a).freq.total + (calcND axes b).freq.total := by
    rw [calcND_append_freq]
    simp only [calcND]
    exact Arr.total_zipWith_ofFn _ _ _
  simp only [List.map_append, List.sum_append] at h
  linarith

/-- **`calcND` of a concatenation** is the cell-wise sum. -/
theorem calcND_append (axes : AxesB) (a b : List Row) :
    (calcND axes (a ++ b)).freq = Arr.zipWith (· + ·) (calcND axes a).freq (calcND axes b).freq ∧
    (calcND axes (a ++ b)).err2 = Arr.zipWith (· + ·) (calcND axes a).err2 (calcND axes b).err2 ∧
    (calcND axes (a ++ b)).missing = (calcND axes a).missing + (calcND axes b).missing :=
  ⟨calcND_append_freq axes a b, calcND_append_err2 axes a b, calcND_append_missing axes a b⟩

/-- **Order of the rows does not matter.** -/
theorem calcND_perm (axes : AxesB) (a b : List Row) (hp : a.Perm b) : calcND axes a = calcND axes b := by
  have hc : (a.map fun r => (rowCell axes r.1, r.2)).Perm (b.map fun r => (rowCell axes r.1, r.2)) := hp.map _
  have hf : (calcND axes a).freq = (calcND axes b).freq := by
    simp only [calcND]
    apply Arr.ofFn_congr
    intro i
    exact ((hc.filter _).map _).sum_eq
  have he : (calcND axes a).err2 = (calcND axes b).err2 := by
    simp only [calcND]
    apply Arr.ofFn_congr
    intro i
    exact ((hc.filter _).map _).sum_eq
  have hm : (calcND axes a).missing = (calcND axes b).missing := by
    have ha := C02_missed axes a
    have hb := C02_missed axes b
    have hs : (a.map (·.2)).sum = (b.map (·.2)).sum := (hp.map _).sum_eq
    rw [hf] at ha
    linarith
  cases ha : calcND axes a
  cases hb : calcND axes b
  simp only [ha, hb] at hf he hm
  simp [hf, he, hm]

/-! ## positions in the flat list -/

/-- every flat position below the number of cells is the ravel of exactly the index stored there -/
theorem allIdx_unravel (shape : List Nat) (p : Nat) (hp : p < prodL shape) :
    ∃ idx, (allIdx shape)[p]? = some idx ∧ validIdx shape idx = true ∧ ravel shape idx = p := by
  induction shape generalizing p with
  | nil =>
    have : p = 0 := by simpa [prodL] using hp
    subst this; exact ⟨[], rfl, rfl, rfl⟩
  | cons n rest ih =>
    simp only [prodL] at hp
    have hm : 0 < prodL rest := by
      rcases Nat.eq_zero_or_pos (prodL rest) with h | h
      · rw [h] at hp; simp at hp
      · exact h
    have hr : p % prodL rest < prodL rest := Nat.mod_lt _ hm
    have hi : p / prodL rest < n := by
      rw [Nat.div_lt_iff_lt_mul hm]; exact hp
    have hpe : (p / prodL rest) * prodL rest + p % prodL rest = p := by
      rw [Nat.mul_comm]; exact Nat.div_add_mod p (prodL rest)
    generalize p / prodL rest = i at hi hpe
    generalize p % prodL rest = r at hr hpe
    subst hpe
    obtain ⟨is, h1, h2, h3⟩ := ih r hr
    refine ⟨i :: is, ?_, ?_, ?_⟩
    · unfold allIdx
      rw [flatMap_range_getElem? _ (prodL rest) n _ _ (fun j _ => by simp [allIdx_length]) hi hr]
      simp [List.getElem?_map, h1]
    · simp [validIdx, hi, h2]
    · simp only [ravel, h3]

theorem sum_modify_add (l : List Rat) (k : Nat) (x : Rat) (hk : k < l.length) :
    (l.modify k (· + x)).sum = l.sum + x := by
  induction l generalizing k with
  | nil => simp at hk
  | cons y ys ih =>
    cases k with
    | zero => simp only [List.modify_zero_cons, List.sum_cons]; ring
    | succ k =>
      simp only [List.modify_succ_cons, List.sum_cons, ih k (by simpa using hk)]; ring

/-- adding `x` at one valid cell is adding the array that holds `x` there and `0` elsewhere -/
theorem addAtIdx_eq_zipWith (a : Arr) (s : List Nat) (ha : a.HasShape s) (idx : List Nat)
    (hv : validIdx s idx = true) (x : Rat) (g : List Nat → Rat) (hg : g idx = x)
    (hg0 : ∀ j, j ≠ idx → g j = 0) :
    HN.addAtIdx a idx x = Arr.zipWith (· + ·) a (Arr.ofFn s g) := by
  obtain ⟨sh, d⟩ := a
  obtain ⟨h1, h2⟩ := ha
  simp only at h1 h2
  subst h1
  simp only [HN.addAtIdx, Arr.zipWith, Arr.ofFn, Arr.mk.injEq, true_and]
  apply List.ext_getElem?
  intro p
  rw [List.getElem?_zipWith, List.getElem?_modify, List.getElem?_map]
  by_cases hp : p < d.length
  · obtain ⟨jdx, e1, e2, e3⟩ := allIdx_unravel sh p (by omega)
    rw [List.getElem?_eq_getElem hp, e1]
    by_cases hk : ravel sh idx = p
    · have : jdx = idx := by
        have := allIdx_getElem? sh idx hv
        rw [hk, e1] at this
        exact Option.some.inj this
      subst this
      simp [hk, hg]
    · have : jdx ≠ idx := by
        intro h; subst h; exact hk e3
      simp [hk, hg0 jdx this]
  · simp [List.getElem?_eq_none (Nat.le_of_not_lt hp)]

theorem total_addAtIdx (a : Arr) (s : List Nat) (ha : a.HasShape s) (idx : List Nat)
    (hv : validIdx s idx = true) (x : Rat) : (HN.addAtIdx a idx x).total = a.total + x := by
  simp only [HN.addAtIdx, Arr.total]
  apply sum_modify_add
  rw [ha.1, ha.2]
  exact ravel_lt s idx hv

/-! ## one row -/

theorem calcND_single_none (axes : AxesB) (v : List Rat) (w : Rat) (hc : rowCell axes v = none) :
    (calcND axes [(v, w)]).freq = Arr.zeros (axes.map (·.1.length)) ∧
    (calcND axes [(v, w)]).err2 = Arr.zeros (axes.map (·.1.length)) ∧
    (calcND axes [(v, w)]).missing = w := by
  have hf : (calcND axes [(v, w)]).freq = Arr.zeros (axes.map (·.1.length)) := by
    simp only [calcND, Arr.zeros]
    apply Arr.ofFn_congr
    intro i
    simp [hc]
  refine ⟨hf, ?_, ?_⟩
  · simp only [calcND, Arr.zeros]
    apply Arr.ofFn_congr
    intro i
    simp [hc]
  · have := C02_missed axes [(v, w)]
    rw [hf, Arr.total_zeros] at this
    simpa using this

theorem calcND_single_some (axes : AxesB) (v : List Rat) (w : Rat) (idx : List Nat)
    (hc : rowCell axes v = some idx) (hv : validIdx (axes.map (·.1.length)) idx = true) :
    (∀ a : Arr, a.HasShape (axes.map (·.1.length)) →
      HN.addAtIdx a idx w = Arr.zipWith (· + ·) a (calcND axes [(v, w)]).freq) ∧
    (∀ a : Arr, a.HasShape (axes.map (·.1.length)) →
      HN.addAtIdx a idx (w * w) = Arr.zipWith (· + ·) a (calcND axes [(v, w)]).err2) ∧
    (calcND axes [(v, w)]).missing = 0 := by
  have hf : ∀ a : Arr, a.HasShape (axes.map (·.1.length)) →
      HN.addAtIdx a idx w = Arr.zipWith (· + ·) a (calcND axes [(v, w)]).freq := by
    intro a ha
    simp only [calcND]
    apply addAtIdx_eq_zipWith a _ ha idx hv
    · simp [hc]
    · intro j hj
      have : ¬ idx = j := fun h => hj h.symm
      simp [hc, this]
  refine ⟨hf, ?_, ?_⟩
  · intro a ha
    simp only [calcND]
    apply addAtIdx_eq_zipWith a _ ha idx hv
    · simp [hc]
    · intro j hj
      have : ¬ idx = j := fun h => hj h.symm
      simp [hc, this]
  · have hz := hf (Arr.zeros _) (Arr.hasShape_ofFn _ _)
    have ht := total_addAtIdx (Arr.zeros (axes.map (·.1.length))) _ (Arr.hasShape_ofFn _ _) idx hv w
    rw [hz, Arr.total_zeros] at ht
    have ht2 : (Arr.zipWith (· + ·) (Arr.zeros (axes.map (·.1.length))) (calcND axes [(v, w)]).freq).total
        = (Arr.zeros (axes.map (·.1.length))).total + (calcND axes [(v, w)]).freq.total := by
      simp only [calcND, Arr.zeros]
      exact Arr.total_zipWith_ofFn _ _ _
    rw [Arr.total_zeros] at ht2
    have := C02_missed axes [(v, w)]
    simp only [List.map_cons, List.map_nil, List.sum_cons, List.sum_nil] at this
    linarith

/-! ## the cell search of `fill` -/

/-- the per-axis bridge between `calculate_nd_frequencies` and `find_bin` (proved separately) -/
def CellBridge : Prop :=
  ∀ (bins : Bins) (ire : Bool) (x : Rat), Rising bins → axisCell bins ire x = HN.findBinAxis bins ire x

theorem rowCell_eq_findBin (hcell : CellBridge) (axes : AxesB) (hr : ∀ a ∈ axes, Rising a.1) (v : List Rat) :
    rowCell axes v = (axes.zip v).mapM fun (a, x) => HN.findBinAxis a.1 a.2 x := by
  unfold rowCell
  induction axes generalizing v with
  | nil => rfl
  | cons a as ih =>
    cases v with
    | nil => rfl
    | cons x xs =>
      simp only [List.zip_cons_cons, List.mapM_cons]
      rw [hcell a.1 a.2 x (hr a (List.mem_cons_self ..)), ih (fun b hb => hr b (List.mem_cons_of_mem _ hb)) xs]

theorem findBinAxis_lt (bins : Bins) (ire : Bool) (x : Rat) (i : Nat)
    (h : HN.findBinAxis bins ire x = some i) : i < bins.length := by
  unfold HN.findBinAxis at h
  simp only at h
  split at h
  · cases h
  · rename_i h0
    split at h
    · cases h
    · rename_i l r hb
      have hlt : (bins.filter fun b => decide (b.1 ≤ x)).length - 1 < bins.length :=
        (List.getElem?_eq_some_iff.mp hb).1
      split at h
      · split at h
        · cases h; exact hlt
        · cases h
      · split at h
        · cases h; exact hlt
        · cases h

theorem findBin_valid (axes : AxesB) (v : List Rat) (idx : List Nat) (hl : v.length = axes.length)
    (h : ((axes.zip v).mapM fun (a, x) => HN.findBinAxis a.1 a.2 x) = some idx) :
    validIdx (axes.map (·.1.length)) idx = true := by
  induction axes generalizing v idx with
  | nil =>
    cases v with
    | nil => simp at h; subst h; rfl
    | cons _ _ => simp at hl
  | cons a as ih =>
    cases v with
    | nil => simp at hl
    | cons x xs =>
      simp only [List.zip_cons_cons, List.mapM_cons, Option.bind_eq_bind, Option.pure_def] at h
      cases hc : HN.findBinAxis a.1 a.2 x with
      | none => simp [hc] at h
      | some c =>
        cases hm : List.mapM (fun x => HN.findBinAxis x.1.1 x.1.2 x.2) (as.zip xs) with
        | none => simp [hc, hm] at h
        | some cs =>
          simp only [hc, hm, Option.bind_some, Option.some.injEq] at h
          subst h
          simp only [List.map_cons, validIdx, Bool.and_eq_true, decide_eq_true_eq]
          exact ⟨findBinAxis_lt _ _ _ _ hc, ih xs cs (by simpa using hl) hm⟩

/-! ## non-adaptive axes never change -/

def NonAdaptive (axes : List Binning) : Prop := ∀ b ∈ axes, b.isAdaptive = false

theorem foldl_fixed {α β} (f : α → β → α) (a : α) (l : List β) (h : ∀ b, f a b = a) : l.foldl f a = a := by
  induction l with
  | nil => rfl
  | cons b bs ih => simp [List.foldl_cons, h b, ih]

theorem adaptAxes_nonadaptive (fo : FloatOps) (fuel : Nat) (h : HN) (cols : List (List Rat)) (single : Bool)
    (hs : NonAdaptive h.axes) : h.adaptAxes fo fuel cols single = h := by
  unfold HN.adaptAxes
  apply foldl_fixed
  intro i
  cases ha : h.axes[i]? with
  | none => rfl
  | some b =>
    cases b with
    | static bs ire => rfl
    | fixed g =>
      cases hc : cols[i]? with
      | none => rfl
      | some vs =>
        have : g.adaptive = false := hs _ (List.mem_of_getElem? ha)
        simp [this]

/-! ## one `fill` adds the one-row batch -/

theorem any_isNone_map_some (v : List Rat) : (v.map some).any Option.isNone = false := by
  induction v with
  | nil => rfl
  | cons x xs ih => simp

theorem all_isSome_map_some (v : List Rat) : (v.map some).all Option.isSome = true := by
  induction v with
  | nil => rfl
  | cons x xs ih => simp [ih]

theorem filterMap_id_map_some (v : List Rat) : (v.map some).filterMap id = v := by
  induction v with
  | nil => rfl
  | cons x xs ih => simp

theorem HN.axesBins_shape (fo : FloatOps) (h : HN) : (h.axesBins fo).map (·.1.length) = h.shape fo := by
  simp [HN.axesBins, HN.shape, List.map_map, Function.comp_def]

/-- `find_bin` looks at the axes only, never at the contents -/
theorem HN.findBin_axes (fo : FloatOps) (h h' : HN) (hax : h'.axes = h.axes) (v : List Rat) :
    h'.findBin fo v = h.findBin fo v := by
  simp only [HN.findBin, HN.axesBins, hax]

theorem fill_unfold (fo : FloatOps) (fuel : Nat) (h : HN) (hs : NonAdaptive h.axes) (hk : h.keep = true)
    (v : List Rat) (w : Rat) (wk : H1.NumKind) :
    h.fill fo fuel (v.map some) w wk =
      match h.findBin fo v with
      | none => ({ h.coerce wk.dtype with missed := nadd h.missed (some w) }, some none)
      | some idx => ({ h.coerce wk.dtype with freq := HN.addAtIdx h.freq idx w,
                                               err2 := HN.addAtIdx h.err2 idx (w * w) }, some (some idx)) := by
  unfold HN.fill
  simp only [any_isNone_map_some, filterMap_id_map_some, Bool.false_eq_true, if_false]
  rw [adaptAxes_nonadaptive fo fuel (h.coerce wk.dtype) _ true hs]
  rw [HN.findBin_axes fo h (h.coerce wk.dtype) rfl v]
  cases h.findBin fo v with
  | none => simp [HN.coerce, hk]
  | some idx => simp [HN.coerce]

/-- **A single `fill` is the addition of the one-row batch.** -/
theorem fill_eq_single (hcell : CellBridge) (fo : FloatOps) (fuel : Nat) (h : HN) (hs : NonAdaptive h.axes)
    (hr : ∀ b ∈ h.axes, Rising (b.bins fo)) (hk : h.keep = true)
    (hf : h.freq.HasShape (h.shape fo)) (he : h.err2.HasShape (h.shape fo))
    (v : List Rat) (hl : v.length = h.axes.length) (w : Rat) (wk : H1.NumKind) :
    (h.fill fo fuel (v.map some) w wk).1.freq
      = Arr.zipWith (· + ·) h.freq (calcND (h.axesBins fo) [(v, w)]).freq ∧
    (h.fill fo fuel (v.map some) w wk).1.err2
      = Arr.zipWith (· + ·) h.err2 (calcND (h.axesBins fo) [(v, w)]).err2 ∧
    (h.fill fo fuel (v.map some) w wk).1.missed
      = nadd h.missed (some (calcND (h.axesBins fo) [(v, w)]).missing) ∧
    (h.fill fo fuel (v.map some) w wk).2 = some (h.findBin fo v) ∧
    (h.fill fo fuel (v.map some) w wk).1.axes = h.axes ∧
    (h.fill fo fuel (v.map some) w wk).1.keep = true := by
  have hrB : ∀ a ∈ h.axesBins fo, Rising a.1 := by
    intro a ha
    simp only [HN.axesBins, List.mem_map] at ha
    obtain ⟨b, hb, rfl⟩ := ha
    exact hr b hb
  have hrc : rowCell (h.axesBins fo) v = h.findBin fo v := rowCell_eq_findBin hcell _ hrB v
  have hsh := HN.axesBins_shape fo h
  rw [fill_unfold fo fuel h hs hk v w wk]
  cases hfb : h.findBin fo v with
  | none =>
    rw [hfb] at hrc
    obtain ⟨z1, z2, z3⟩ := calcND_single_none (h.axesBins fo) v w hrc
    rw [z1, z2, z3, hsh, Arr.zipWith_zeros_right _ _ hf, Arr.zipWith_zeros_right _ _ he]
    exact ⟨rfl, rfl, rfl, rfl, rfl, hk⟩
  | some idx =>
    rw [hfb] at hrc
    have hlen : v.length = (h.axesBins fo).length := by simp [HN.axesBins, hl]
    have hv : validIdx ((h.axesBins fo).map (·.1.length)) idx = true :=
      findBin_valid (h.axesBins fo) v idx hlen hfb
    obtain ⟨z1, z2, z3⟩ := calcND_single_some (h.axesBins fo) v w idx hrc hv
    rw [hsh] at z1 z2
    rw [← z1 _ hf, ← z2 _ he, z3, nadd_zero]
    exact ⟨rfl, rfl, rfl, rfl, rfl, hk⟩

/-! ## the invariant -/

/-- the per-axis (bins, include-right-edge) pairs `calcND` works with -/
def axesOf (fo : FloatOps) (axes : List Binning) : AxesB := axes.map fun b => (b.bins fo, b.ire)

theorem axesOf_shape (fo : FloatOps) (axes : List Binning) :
    (axesOf fo axes).map (·.1.length) = axes.map fun b => (b.bins fo).length := by
  simp [axesOf, List.map_map, Function.comp_def]

/-- `h` holds exactly what batch construction from `rows` over the non-adaptive `axes` gives -/
structure TracksN (fo : FloatOps) (axes : List Binning) (h : HN) (rows : List Row) : Prop where
  hax : h.axes = axes
  static : NonAdaptive axes
  keep : h.keep = true
  freq : h.freq = (calcND (axesOf fo axes) rows).freq
  err2 : h.err2 = (calcND (axesOf fo axes) rows).err2
  missed : h.missed = some (calcND (axesOf fo axes) rows).missing

theorem tracksN_empty (fo : FloatOps) (axes : List Binning) (hs : NonAdaptive axes) (dt : Option DType)
    (names : Option (List String)) : TracksN fo axes (HN.empty fo axes true dt names) [] := by
  obtain ⟨z1, z2, z3⟩ := calcND_nil (axesOf fo axes)
  refine ⟨rfl, hs, rfl, ?_, ?_, ?_⟩
  · rw [z1, axesOf_shape]; rfl
  · rw [z2, axesOf_shape]; rfl
  · rw [z3]; rfl

theorem construct_ok (fo : FloatOps) (axes : List Binning) (rows : List (List (Option Rat)))
    (ws : Option (List Rat)) (wkind : DType) (dropna : Bool) (names : Option (List String)) (c : HN)
    (hc : HN.construct fo axes rows ws wkind dropna names = .ok c) :
    (∀ b ∈ axes, Rising (b.bins fo)) ∧ c.axes = axes ∧ c.keep = true ∧
    c.freq = (calcND (axesOf fo axes) (maskRows rows ws)).freq ∧
    c.err2 = (calcND (axesOf fo axes) (maskRows rows ws)).err2 ∧
    c.missed = some (calcND (axesOf fo axes) (maskRows rows ws)).missing := by
  unfold HN.construct at hc
  simp only [bind, Except.bind, pure, Except.pure, throw, throwThe, MonadExceptOf.throw] at hc
  have rising_of : ¬ (axes.any fun b => !risingB (b.bins fo)) = true → ∀ b ∈ axes, Rising (b.bins fo) := by
    intro hris b hb
    apply (risingB_iff _).mp
    by_contra hne
    apply hris
    rw [List.any_eq_true]
    exact ⟨b, hb, by simpa using hne⟩
  split at hc
  · cases hc
  split at hc
  · cases hc
  split at hc
  · split at hc
    · cases hc
    split at hc
    · cases hc
    rename_i hris
    cases hc
    exact ⟨rising_of hris, rfl, rfl, rfl, rfl, rfl⟩
  · split at hc
    · cases hc
    rename_i hris
    cases hc
    exact ⟨rising_of hris, rfl, rfl, rfl, rfl, rfl⟩

/-- **Construction from all rows at once** establishes the invariant (for non-adaptive axes). -/
theorem tracksN_construct (fo : FloatOps) (axes : List Binning) (hs : NonAdaptive axes)
    (rows : List (List (Option Rat))) (ws : Option (List Rat)) (wkind : DType) (dropna : Bool)
    (names : Option (List String)) (c : HN)
    (hc : HN.construct fo axes rows ws wkind dropna names = .ok c) :
    TracksN fo axes c (maskRows rows ws) := by
  obtain ⟨_, h1, h2, h3, h4, h5⟩ := construct_ok fo axes rows ws wkind dropna names c hc
  exact ⟨h1, hs, h2, h3, h4, h5⟩

theorem TracksN.freq_shape {fo : FloatOps} {axes : List Binning} {h : HN} {rows : List Row}
    (t : TracksN fo axes h rows) : h.freq.HasShape (h.shape fo) ∧ h.err2.HasShape (h.shape fo) := by
  have e : h.shape fo = (axesOf fo axes).map (·.1.length) := by
    rw [axesOf_shape, ← t.hax]; rfl
  rw [e, t.freq, t.err2]
  exact ⟨calcND_freq_hasShape _ _, calcND_err2_hasShape _ _⟩

/-- `fill` of a complete value appends its row to the tracked rows -/
theorem tracksN_fill (hcell : CellBridge) (fo : FloatOps) (fuel : Nat) (axes : List Binning)
    (hr : ∀ b ∈ axes, Rising (b.bins fo)) (h : HN) (rows : List Row) (t : TracksN fo axes h rows)
    (v : List Rat) (hl : v.length = axes.length) (w : Rat) (wk : H1.NumKind) :
    TracksN fo axes (h.fill fo fuel (v.map some) w wk).1 (rows ++ [(v, w)]) := by
  have hax := t.hax
  obtain ⟨f1, f2, f3, _, f5, f6⟩ := fill_eq_single hcell fo fuel h (by rw [hax]; exact t.static)
    (by rw [hax]; exact hr) t.keep t.freq_shape.1 t.freq_shape.2 v (by rw [hax]; exact hl) w wk
  have hab : h.axesBins fo = axesOf fo axes := by rw [← hax]; rfl
  rw [hab] at f1 f2 f3
  obtain ⟨a1, a2, a3⟩ := calcND_append (axesOf fo axes) rows [(v, w)]
  refine ⟨by rw [f5, hax], t.static, f6, ?_, ?_, ?_⟩
  · rw [f1, a1, t.freq]
  · rw [f2, a2, t.err2]
  · rw [f3, a3, t.missed]; rfl

theorem map_some_filterMap_id (v : List (Option Rat)) (h : v.all Option.isSome = true) :
    (v.filterMap id).map some = v := by
  induction v with
  | nil => rfl
  | cons x xs ih =>
    cases x with
    | none => simp at h
    | some y =>
      simp only [List.all_cons, Option.isSome_some, Bool.true_and] at h
      simpa using ih h

theorem any_isNone_of_not_all (v : List (Option Rat)) (h : ¬ v.all Option.isSome = true) :
    v.any Option.isNone = true := by
  induction v with
  | nil => simp at h
  | cons x xs ih =>
    cases x with
    | none => simp
    | some y =>
      simp only [List.all_cons, Option.isSome_some, Bool.true_and] at h
      simp [ih h]

/-- `fill` of any value (a NaN coordinate makes it a no-op, exactly as the NaN mask of `fill_n`) -/
theorem tracksN_fill_opt (hcell : CellBridge) (fo : FloatOps) (fuel : Nat) (axes : List Binning)
    (hr : ∀ b ∈ axes, Rising (b.bins fo)) (h : HN) (rows : List Row) (t : TracksN fo axes h rows)
    (value : List (Option Rat)) (hl : value.all Option.isSome = true → value.length = axes.length)
    (w : Rat) (wk : H1.NumKind) :
    TracksN fo axes (h.fill fo fuel value w wk).1 (rows ++ maskRows [value] (some [w])) := by
  by_cases hall : value.all Option.isSome = true
  · have hv := map_some_filterMap_id value hall
    have hlen : (value.filterMap id).length = axes.length := by
      rw [← hl hall]; conv => rhs; rw [← hv]
      simp
    have := tracksN_fill hcell fo fuel axes hr h rows t (value.filterMap id) hlen w wk
    rw [hv] at this
    simpa [maskRows, hall] using this
  · have hany := any_isNone_of_not_all value hall
    have e : h.fill fo fuel value w wk = (h, none) := by
      unfold HN.fill; simp [hany]
    rw [e]
    simpa [maskRows, hall] using t

theorem fillN_unfold (fo : FloatOps) (fuel : Nat) (h : HN) (hs : NonAdaptive h.axes)
    (rows : List (List (Option Rat))) (ws : Option (List Rat)) (wkind : DType) (r : HN)
    (hrun : h.fillN fo fuel rows ws wkind = .ok r) :
    (∀ x ∈ rows, x.length = h.axes.length) ∧ (∀ w, ws = some w → w.length = rows.length) ∧
    r.axes = h.axes ∧ r.keep = h.keep ∧
    r.freq = Arr.zipWith (· + ·) h.freq (calcND (h.axesBins fo) (maskRows rows ws)).freq ∧
    r.err2 = Arr.zipWith (· + ·) h.err2 (calcND (h.axesBins fo) (maskRows rows ws)).err2 ∧
    r.missed = if h.keep then nadd h.missed (some (calcND (h.axesBins fo) (maskRows rows ws)).missing)
      else h.missed := by
  unfold HN.fillN at hrun
  simp only [bind, Except.bind, pure, Except.pure, throw, throwThe, MonadExceptOf.throw] at hrun
  have cols_of : ¬ (rows.any fun r => r.length != h.axes.length) = true → ∀ x ∈ rows, x.length = h.axes.length := by
    intro hc x hx
    by_contra hne
    apply hc
    rw [List.any_eq_true]
    exact ⟨x, hx, by simpa using hne⟩
  cases ws with
  | none =>
    simp only [Option.isSome_none, Bool.false_eq_true, if_false] at hrun
    split at hrun
    · cases hrun
    rename_i hcol
    rw [adaptAxes_nonadaptive fo fuel h _ false hs] at hrun
    cases hrun
    exact ⟨cols_of hcol, (fun w hw => by cases hw), rfl, rfl, rfl, rfl, rfl⟩
  | some w =>
    simp only [Option.isSome_some, if_true] at hrun
    split at hrun
    · cases hrun
    split at hrun
    · cases hrun
    rename_i hcol hw
    rw [adaptAxes_nonadaptive fo fuel (h.coerce wkind) _ false hs] at hrun
    cases hrun
    refine ⟨cols_of hcol, ?_, rfl, rfl, rfl, rfl, rfl⟩
    intro w' hw'
    cases hw'
    simpa using hw

/-- an accepted `fill_n` batch appends its (NaN-masked) rows to the tracked rows -/
theorem tracksN_fillN (fo : FloatOps) (fuel : Nat) (axes : List Binning) (h : HN) (rows : List Row)
    (t : TracksN fo axes h rows) (batch : List (List (Option Rat))) (ws : Option (List Rat)) (wkind : DType)
    (r : HN) (hrun : h.fillN fo fuel batch ws wkind = .ok r) :
    TracksN fo axes r (rows ++ maskRows batch ws) := by
  have hax := t.hax
  obtain ⟨_, _, f1, f2, f3, f4, f5⟩ := fillN_unfold fo fuel h (by rw [hax]; exact t.static) batch ws wkind r hrun
  have hab : h.axesBins fo = axesOf fo axes := by rw [← hax]; rfl
  rw [hab] at f3 f4 f5
  obtain ⟨a1, a2, a3⟩ := calcND_append (axesOf fo axes) rows (maskRows batch ws)
  refine ⟨by rw [f1, hax], t.static, by rw [f2, t.keep], ?_, ?_, ?_⟩
  · rw [f3, a1, t.freq]
  · rw [f4, a2, t.err2]
  · rw [f5, a3, t.missed, t.keep]; rfl

/-- `fill_n` is accepted exactly when every row has one coordinate per axis and there are as many
    weights as rows (non-adaptive axes) -/
theorem fillN_accepted (fo : FloatOps) (fuel : Nat) (h : HN) (batch : List (List (Option Rat)))
    (ws : Option (List Rat)) (wkind : DType) (hcol : ∀ x ∈ batch, x.length = h.axes.length)
    (hw : ∀ w, ws = some w → w.length = batch.length) : ∃ r, h.fillN fo fuel batch ws wkind = .ok r := by
  unfold HN.fillN
  simp only [bind, Except.bind, pure, Except.pure, throw, throwThe, MonadExceptOf.throw]
  have hc : ¬ (batch.any fun r => r.length != h.axes.length) = true := by
    rw [List.any_eq_true]
    rintro ⟨x, hx, hne⟩
    simp [hcol x hx] at hne
  cases ws with
  | none => simp only [hc]; exact ⟨_, rfl⟩
  | some w =>
    have : ¬ (w.length != batch.length) = true := by simp [hw w rfl]
    simp only [hc, this]; exact ⟨_, rfl⟩

/-! ## any interleaving of `fill` and `fill_n` -/

/-- one step of a filling history -/
inductive OpN
  | fill (value : List (Option Rat)) (w : Rat) (wk : H1.NumKind)
  | fillN (batch : List (List (Option Rat))) (ws : Option (List Rat)) (wkind : DType)

namespace OpN

def apply (fo : FloatOps) (fuel : Nat) (h : HN) : OpN → R HN
  | .fill value w wk => .ok (h.fill fo fuel value w wk).1
  | .fillN batch ws wkind => h.fillN fo fuel batch ws wkind

/-- the rows an operation enters (after the NaN mask) -/
def rows : OpN → List Row
  | .fill value w _ => maskRows [value] (some [w])
  | .fillN batch ws _ => maskRows batch ws

/-- a filled value has one coordinate per axis (`fill_n` checks this itself) -/
def Valid (d : Nat) : OpN → Prop
  | .fill value _ _ => value.all Option.isSome = true → value.length = d
  | .fillN _ _ _ => True

/-- the argument checks of `fill_n` pass -/
def Accepted (d : Nat) : OpN → Prop
  | .fill _ _ _ => True
  | .fillN batch ws _ => (∀ x ∈ batch, x.length = d) ∧ ∀ w, ws = some w → w.length = batch.length

end OpN

theorem tracksN_apply (hcell : CellBridge) (fo : FloatOps) (fuel : Nat) (axes : List Binning)
    (hr : ∀ b ∈ axes, Rising (b.bins fo)) (h : HN) (rows : List Row) (t : TracksN fo axes h rows)
    (op : OpN) (hv : op.Valid axes.length) (r : HN) (hrun : op.apply fo fuel h = .ok r) :
    TracksN fo axes r (rows ++ op.rows) := by
  cases op with
  | fill value w wk =>
    simp only [OpN.apply, Except.ok.injEq] at hrun
    subst hrun
    exact tracksN_fill_opt hcell fo fuel axes hr h rows t value hv w wk
  | fillN batch ws wkind => exact tracksN_fillN fo fuel axes h rows t batch ws wkind r hrun

/-- **Any path.** Whatever sequence of `fill` / `fill_n` calls (any chunking, empty batches and NaN
    rows included) is run on a histogram that holds the batch histogram of `rows0`, the result holds
    the batch histogram of `rows0` followed by all entered rows. -/
theorem pathsND (hcell : CellBridge) (fo : FloatOps) (fuel : Nat) (axes : List Binning)
    (hr : ∀ b ∈ axes, Rising (b.bins fo)) (ops : List OpN) (hv : ∀ op ∈ ops, op.Valid axes.length)
    (h0 : HN) (rows0 : List Row) (t0 : TracksN fo axes h0 rows0) (r : HN)
    (hrun : ops.foldlM (OpN.apply fo fuel) h0 = .ok r) :
    TracksN fo axes r (rows0 ++ (ops.map OpN.rows).flatten) := by
  induction ops generalizing h0 rows0 with
  | nil => simp only [List.foldlM_nil, pure, Except.pure] at hrun; cases hrun; simpa using t0
  | cons op ops ih =>
    simp only [List.foldlM_cons, bind, Except.bind] at hrun
    cases h1 : op.apply fo fuel h0 with
    | error e => simp [h1] at hrun
    | ok m =>
      simp only [h1] at hrun
      have tm := tracksN_apply hcell fo fuel axes hr h0 rows0 t0 op (hv op (List.mem_cons_self ..)) m h1
      have := ih (fun q hq => hv q (List.mem_cons_of_mem _ hq)) m (rows0 ++ op.rows) tm hrun
      simpa [List.append_assoc] using this

/-- the run is accepted when every `fill_n` call passes its argument checks -/
theorem pathsND_accepted (hcell : CellBridge) (fo : FloatOps) (fuel : Nat) (axes : List Binning)
    (hr : ∀ b ∈ axes, Rising (b.bins fo)) (ops : List OpN) (hv : ∀ op ∈ ops, op.Valid axes.length)
    (hacc : ∀ op ∈ ops, op.Accepted axes.length)
    (h0 : HN) (rows0 : List Row) (t0 : TracksN fo axes h0 rows0) :
    ∃ r, ops.foldlM (OpN.apply fo fuel) h0 = .ok r := by
  induction ops generalizing h0 rows0 with
  | nil => exact ⟨h0, rfl⟩
  | cons op ops ih =>
    have h1 : ∃ m, op.apply fo fuel h0 = .ok m := by
      cases op with
      | fill value w wk => exact ⟨_, rfl⟩
      | fillN batch ws wkind =>
        have ha := hacc _ (List.mem_cons_self ..)
        exact fillN_accepted fo fuel h0 batch ws wkind (by rw [t0.hax]; exact ha.1) ha.2
    obtain ⟨m, hm⟩ := h1
    have tm := tracksN_apply hcell fo fuel axes hr h0 rows0 t0 op (hv op (List.mem_cons_self ..)) m hm
    obtain ⟨r, hr'⟩ := ih (fun q hq => hv q (List.mem_cons_of_mem _ hq))
      (fun q hq => hacc q (List.mem_cons_of_mem _ hq)) m _ tm
    exact ⟨r, by simp only [List.foldlM_cons, bind, Except.bind, hm]; exact hr'⟩

/-- **Filling an empty histogram by any path = construction from all the rows at once, in any
    order**: the path result and the constructed histogram have identical contents, squared errors
    and missed, whenever the entered rows are a permutation of the constructed ones. -/
theorem pathsND_eq_construct (hcell : CellBridge) (fo : FloatOps) (fuel : Nat) (axes : List Binning)
    (hs : NonAdaptive axes) (ops : List OpN) (hv : ∀ op ∈ ops, op.Valid axes.length)
    (dt : Option DType) (names : Option (List String)) (r : HN)
    (hrun : ops.foldlM (OpN.apply fo fuel) (HN.empty fo axes true dt names) = .ok r)
    (all : List (List (Option Rat))) (ws : Option (List Rat)) (wkind : DType) (dropna : Bool)
    (names' : Option (List String)) (c : HN)
    (hc : HN.construct fo axes all ws wkind dropna names' = .ok c)
    (hp : (maskRows all ws).Perm (ops.map OpN.rows).flatten) :
    r.freq = c.freq ∧ r.err2 = c.err2 ∧ r.missed = c.missed ∧ r.axes = c.axes ∧ r.keep = c.keep := by
  have hr := (construct_ok fo axes all ws wkind dropna names' c hc).1
  have tc := tracksN_construct fo axes hs all ws wkind dropna names' c hc
  have tr := pathsND hcell fo fuel axes hr ops hv _ [] (tracksN_empty fo axes hs dt names) r hrun
  rw [List.nil_append] at tr
  have e := calcND_perm (axesOf fo axes) _ _ hp
  exact ⟨by rw [tr.freq, tc.freq, e], by rw [tr.err2, tc.err2, e], by rw [tr.missed, tc.missed, e],
    by rw [tr.hax, tc.hax], by rw [tr.keep, tc.keep]⟩

/-- two histories entering the same multiset of rows end in the same contents -/
theorem pathsND_order (fo : FloatOps) (axes : List Binning) (h h' : HN) (rows rows' : List Row)
    (t : TracksN fo axes h rows) (t' : TracksN fo axes h' rows') (hp : rows.Perm rows') :
    h.freq = h'.freq ∧ h.err2 = h'.err2 ∧ h.missed = h'.missed := by
  have e := calcND_perm (axesOf fo axes) _ _ hp
  exact ⟨by rw [t.freq, t'.freq, e], by rw [t.err2, t'.err2, e], by rw [t.missed, t'.missed, e]⟩

/-- the accounting identity (C02) holds along every path -/
theorem TracksN.account {fo : FloatOps} {axes : List Binning} {h : HN} {rows : List Row}
    (t : TracksN fo axes h rows) : ∃ m, h.missed = some m ∧ h.freq.total + m = (rows.map (·.2)).sum :=
  ⟨_, t.missed, by rw [t.freq]; exact C02_missed _ _⟩

/-! ## C05 in N dimensions -/

/-- **h(A) + h(B) = h(A and B together)** (same bins): the sum is accepted and tracks `A ++ B`. -/
theorem tracksN_iadd (fo : FloatOps) (axes : List Binning) (a b : HN) (A B : List Row)
    (ta : TracksN fo axes a A) (tb : TracksN fo axes b B) :
    ∃ r, a.iadd fo b = .ok r ∧ TracksN fo axes r (A ++ B) := by
  have hlen : ¬ (a.axes.length != b.axes.length) = true := by simp [ta.hax, tb.hax]
  have hsb : a.sameBins fo b = true := by simp [HN.sameBins, ta.hax, tb.hax]
  obtain ⟨a1, a2, a3⟩ := calcND_append (axesOf fo axes) A B
  refine ⟨_, by unfold HN.iadd; simp only [bind, Except.bind, pure, Except.pure, hlen, hsb, if_true]; rfl, ?_⟩
  refine ⟨ta.hax, ta.static, ta.keep, ?_, ?_, ?_⟩
  · show Arr.zipWith (· + ·) a.freq b.freq = _
    rw [a1, ta.freq, tb.freq]
  · show Arr.zipWith (· + ·) a.err2 b.err2 = _
    rw [a2, ta.err2, tb.err2]
  · show nadd a.missed b.missed = _
    rw [a3, ta.missed, tb.missed]; rfl

/-- **Any partition into chunks**: summing the chunk histograms is accepted and gives the histogram
    of all the rows (by `calcND_perm`, in any order of the chunks and of the rows inside them). -/
theorem tracksN_chunks (fo : FloatOps) (axes : List Binning) (first : HN) (F : List Row)
    (tf : TracksN fo axes first F) (rest : List (HN × List Row))
    (hrest : ∀ p ∈ rest, TracksN fo axes p.1 p.2) :
    ∃ r, rest.foldlM (fun acc p => acc.iadd fo p.1) first = .ok r ∧
      TracksN fo axes r (F ++ (rest.map (·.2)).flatten) := by
  induction rest generalizing first F with
  | nil => exact ⟨first, rfl, by simpa using tf⟩
  | cons p ps ih =>
    obtain ⟨m, hm, tm⟩ := tracksN_iadd fo axes first p.1 F p.2 tf (hrest p (List.mem_cons_self ..))
    obtain ⟨r, hr, tr⟩ := ih m (F ++ p.2) tm (fun q hq => hrest q (List.mem_cons_of_mem _ hq))
    refine ⟨r, by simp only [List.foldlM_cons, bind, Except.bind, hm]; exact hr, ?_⟩
    simpa [List.append_assoc] using tr

/-! ## Non-vacuity: a concrete 2-D histogram (a gapped, right-open second axis) -/

namespace ExampleND

def axes : List Binning := [.static [(0, 1), (1, 2)] true, .static [(0, 2), (2, 4), (5, 6)] false]

/-- a history mixing `fill`, `fill_n`, a NaN value, NaN rows, an empty batch and misses -/
def ops : List OpN :=
  [.fill [some (1 / 2), some 1] 2 .pyInt,
   .fillN [[some (3 / 2), some 3], [none, some 1], [some 5, some 1]] (some [1, 7, 3]) .f64,
   .fill [some 2, none] 1 .pyInt,
   .fillN [] none .i64,
   .fill [some 2, some (9 / 2)] 1 .pyFloat,
   .fillN [[some 2, some (11 / 2)], [some 0, some 6]] none .i64]

/-- the same rows in another order, for construction at once -/
def allRows : List (List (Option Rat)) :=
  [[some 0, some 6], [some 5, some 1], [some 2, some (9 / 2)], [some (1 / 2), some 1], [some 2, some (11 / 2)],
   [some 2, none], [some (3 / 2), some 3]]
def allWeights : List Rat := [1, 3, 1, 2, 1, 8, 1]

theorem static : NonAdaptive axes := by
  intro b hb
  simp only [axes, List.mem_cons, List.not_mem_nil, or_false] at hb
  rcases hb with rfl | rfl <;> rfl

theorem rising (fo : FloatOps) : ∀ b ∈ axes, Rising (b.bins fo) := by
  intro b hb
  simp only [axes, List.mem_cons, List.not_mem_nil, or_false] at hb
  rcases hb with rfl | rfl
  · exact (risingB_iff [(0, 1), (1, 2)]).mp (by decide +kernel)
  · exact (risingB_iff [(0, 2), (2, 4), (5, 6)]).mp (by decide +kernel)

theorem valid : ∀ op ∈ ops, op.Valid axes.length := by
  intro op hop
  simp only [ops, List.mem_cons, List.not_mem_nil, or_false] at hop
  rcases hop with rfl | rfl | rfl | rfl | rfl | rfl <;> simp [OpN.Valid, axes]

theorem accepted : ∀ op ∈ ops, op.Accepted axes.length := by
  intro op hop
  simp only [ops, List.mem_cons, List.not_mem_nil, or_false] at hop
  rcases hop with rfl | rfl | rfl | rfl | rfl | rfl <;> simp [OpN.Accepted, axes]

/-- the invariants instantiated: the history is accepted and ends tracking all its rows in order -/
example (hcell : CellBridge) (fo : FloatOps) (fuel : Nat) :
    ∃ r, ops.foldlM (OpN.apply fo fuel) (HN.empty fo axes true none none) = .ok r ∧
      TracksN fo axes r (ops.map OpN.rows).flatten := by
  have t0 := tracksN_empty fo axes static none none
  obtain ⟨r, hr⟩ := pathsND_accepted hcell fo fuel axes (rising fo) ops valid accepted _ [] t0
  exact ⟨r, hr, by simpa using pathsND hcell fo fuel axes (rising fo) ops valid _ [] t0 r hr⟩

/-- … and, computed by the kernel without the bridge hypothesis: the path result equals
    construction from the reordered rows (contents, squared errors, missed), and is not trivial -/
example :
    ((ops.foldlM (OpN.apply FloatOps.exact 0) (HN.empty FloatOps.exact axes true none none)).toOption.map
        fun r => (r.freq, r.err2, r.missed, r.keep))
      = ((HN.construct FloatOps.exact axes allRows (some allWeights) .f64 true none).toOption.map
        fun c => (c.freq, c.err2, c.missed, c.keep)) ∧
    ((HN.construct FloatOps.exact axes allRows (some allWeights) .f64 true none).toOption.map
        fun c => (c.freq.data, c.err2.data, c.missed)) = some ([2, 0, 0, 0, 1, 1], [4, 0, 0, 0, 1, 1], some 5) ∧
    (maskRows allRows (some allWeights)).Perm (ops.map OpN.rows).flatten := by
  refine ⟨by decide +kernel, by decide +kernel, ?_⟩
  decide +kernel

/-- two chunk histograms add up to the histogram of all the rows (C05) -/
example :
    let a := HN.construct FloatOps.exact axes (allRows.take 3) (some (allWeights.take 3)) .f64 true none
    let b := HN.construct FloatOps.exact axes (allRows.drop 3) (some (allWeights.drop 3)) .f64 true none
    let c := HN.construct FloatOps.exact axes allRows (some allWeights) .f64 true none
    ((do let x ← a; let y ← b; x.iadd FloatOps.exact y : R HN).toOption.map fun r => (r.freq, r.err2, r.missed))
      = c.toOption.map fun r => (r.freq, r.err2, r.missed) := by decide +kernel

/-- the side condition "one coordinate per axis" of `fill` is needed: a value that is too short is
    put into a cell by `fill` but counted as missed by `calcND` -/
example :
    let h := HN.empty FloatOps.exact axes true none none
    (h.fill FloatOps.exact 0 [some (1 / 2)] 1 .pyInt).1.freq.data = [1, 0, 0, 0, 0, 0] ∧
    (calcND (h.axesBins FloatOps.exact) [([1 / 2], 1)]).freq.data = [0, 0, 0, 0, 0, 0] ∧
    (calcND (h.axesBins FloatOps.exact) [([1 / 2], 1)]).missing = 1 := by decide +kernel

end ExampleND

end Physt

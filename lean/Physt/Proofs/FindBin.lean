import Physt.Proofs.Account1D
import Physt.Model.Hist1D
/-! `findBinIn` (searchsorted on the left edges + the three-way test) finds the bin that contains the value. -/
namespace Physt

theorem takeWhile_spec {α} (p : α → Bool) (l : List α) :
    (∀ j, j < (l.takeWhile p).length → ∃ b, l[j]? = some b ∧ p b = true) ∧
    (∀ b, l[(l.takeWhile p).length]? = some b → p b = false) := by
  induction l with
  | nil => simp
  | cons a t ih =>
    by_cases ha : p a = true
    · simp only [List.takeWhile_cons, ha, if_true, List.length_cons]
      constructor
      · intro j hj
        cases j with
        | zero => exact ⟨a, by simp, ha⟩
        | succ j => simpa using ih.1 j (by omega)
      · intro b hb
        simp only [List.getElem?_cons_succ] at hb
        exact ih.2 b hb
    · have ha' : p a = false := by simpa using ha
      simp [List.takeWhile_cons, ha']

theorem Rising.sortedLeft {bins : Bins} (h : Rising bins) : SortedV bins := by
  have hp := h.pairwise
  have hl := h.lt
  unfold SortedV
  induction bins with
  | nil => exact List.Pairwise.nil
  | cons c cs ih =>
    rw [List.pairwise_cons] at hp ⊢
    refine ⟨?_, ih h.tail hp.2 (fun b hb => hl b (List.mem_cons_of_mem _ hb))⟩
    intro b hb
    have h1 := hp.1 b hb
    have h2 := hl c (List.mem_cons_self ..)
    linarith

/-- number of bins whose left edge is `≤ v` (= `searchsorted(left_edges, v, "right")`) -/
def leCount (bins : Bins) (v : Rat) : Nat := (bins.filter fun b => decide (b.1 ≤ v)).length

theorem leCount_spec (bins : Bins) (hb : Rising bins) (v : Rat) :
    (∀ j b, bins[j]? = some b → (j < leCount bins v ↔ b.1 ≤ v)) := by
  have hs := hb.sortedLeft
  have htw := (takeWhile_drop_of_downClosed _ (downClosed_le v) bins hs).1
  have hk : leCount bins v = (bins.takeWhile fun b => decide (b.1 ≤ v)).length := by
    unfold leCount; rw [htw]
  have spec := takeWhile_spec (fun b : Bin => decide (b.1 ≤ v)) bins
  intro j b hjb
  rw [hk]
  constructor
  · intro hj
    obtain ⟨b', hb', hp⟩ := spec.1 j hj
    rw [hjb] at hb'; cases hb'
    simpa using hp
  · intro hle
    by_contra hnot
    have hge : (bins.takeWhile fun b => decide (b.1 ≤ v)).length ≤ j := by omega
    have hjn : j < bins.length := (List.getElem?_eq_some_iff.mp hjb).1
    have hkn : (bins.takeWhile fun b => decide (b.1 ≤ v)).length < bins.length := by omega
    obtain ⟨bk, hbk⟩ : ∃ bk, bins[(bins.takeWhile fun b => decide (b.1 ≤ v)).length]? = some bk :=
      ⟨_, List.getElem?_eq_getElem hkn⟩
    have hpk := spec.2 bk hbk
    -- sortedness: bk.1 ≤ b.1
    have hle2 : bk.1 ≤ b.1 := by
      rcases Nat.lt_or_ge (bins.takeWhile fun b => decide (b.1 ≤ v)).length j with hlt | hge'
      · have := List.pairwise_iff_getElem.mp hs _ j hkn hjn hlt
        rw [(List.getElem?_eq_some_iff.mp hbk).2, (List.getElem?_eq_some_iff.mp hjb).2] at this
        exact this
      · have : (bins.takeWhile fun b => decide (b.1 ≤ v)).length = j := by omega
        rw [this, hjb] at hbk; cases hbk; exact le_refl _
    simp only [decide_eq_false_iff_not, not_le] at hpk
    linarith

/-- **find_bin.** For rising bins, `find_bin` returns bin `i` exactly when the value lies in bin
    `i` (`left ≤ v < right`, the last bin also contains its right edge). -/
theorem findBinIn_bin_iff (bins : Bins) (hb : Rising bins) (v : Rat) (i : Nat) :
    H1.findBinIn bins v = .bin i ↔ inBin bins true i v = true := by
  have spec := leCount_spec bins hb v
  have hpw := hb.pairwise
  have hlt := hb.lt
  unfold H1.findBinIn
  simp only
  rw [show (bins.filter fun b => decide (b.1 ≤ v)).length = leCount bins v from rfl]
  constructor
  · intro h
    by_cases hk0 : leCount bins v = 0
    · simp [hk0] at h
    · simp only [hk0, if_false] at h
      cases hget : bins[leCount bins v - 1]? with
      | none => simp [hget] at h
      | some b =>
        obtain ⟨l, r⟩ := b
        simp only [hget] at h
        have hle : l ≤ v := (spec _ _ hget).mp (by omega)
        by_cases hkn : leCount bins v = bins.length
        · simp only [hkn, if_true] at h
          by_cases hvr : v ≤ r
          · simp only [hvr, if_true] at h
            cases h
            unfold inBin
            rw [hkn] at hget
            rw [hget]
            have hlen : bins.length - 1 + 1 = bins.length := by omega
            simp only [hle, decide_true, Bool.true_and, hlen, beq_self_eq_true, Bool.or_eq_true,
              decide_eq_true_eq]
            rcases lt_or_eq_of_le hvr with h1 | h1
            · exact Or.inl h1
            · exact Or.inr h1
          · simp [hvr] at h
        · simp only [hkn, if_false] at h
          by_cases hvr : v < r
          · simp only [hvr, if_true] at h
            cases h
            unfold inBin
            rw [hget]
            simp [hle, hvr]
          · simp [hvr] at h
  · intro h
    unfold inBin at h
    cases hget : bins[i]? with
    | none => simp [hget] at h
    | some b =>
      obtain ⟨l, r⟩ := b
      simp only [hget, Bool.and_eq_true, Bool.or_eq_true, decide_eq_true_eq, Bool.true_and,
        beq_iff_eq] at h
      have hin : i < bins.length := (List.getElem?_eq_some_iff.mp hget).1
      have hik : i < leCount bins v := (spec i (l, r) hget).mpr h.1
      -- the next bin (if any) starts above v
      have hk : leCount bins v = i + 1 := by
        by_contra hne
        have hgt : i + 1 < leCount bins v := by omega
        have hkle : leCount bins v ≤ bins.length := List.length_filter_le _ _
        have hin1 : i + 1 < bins.length := by omega
        obtain ⟨b1, hb1⟩ : ∃ b1, bins[i + 1]? = some b1 := ⟨_, List.getElem?_eq_getElem hin1⟩
        have h1 : b1.1 ≤ v := (spec (i + 1) b1 hb1).mp hgt
        have h2 := List.pairwise_iff_getElem.mp hpw i (i + 1) hin hin1 (by omega)
        rw [(List.getElem?_eq_some_iff.mp hget).2, (List.getElem?_eq_some_iff.mp hb1).2] at h2
        simp only at h2
        rcases h.2 with h3 | h3
        · linarith
        · omega
      have hk0 : ¬ leCount bins v = 0 := by omega
      simp only [hk0, if_false, hk, Nat.add_sub_cancel, hget]
      have hne : bins ≠ [] := by intro h0; subst h0; simp at hin
      by_cases hlast : i + 1 = bins.length
      · simp only [hlast, if_true]
        rcases h.2 with h3 | h3
        · simp [le_of_lt h3, hne]
        · simp [h3.2, hne]
      · simp only [hlast, if_false]
        rcases h.2 with h3 | h3
        · simp [h3]
        · exact (hlast h3.1).elim

end Physt

import Physt.Theorems.C07
import Physt.Theorems.C11
import Physt.Proofs.MaskedEdges
import Physt.Model.Hist1D
import Mathlib.Algebra.Order.Floor.Ring
import Mathlib.Data.Rat.Floor
import Mathlib.Tactic.Linarith
import Mathlib.Tactic.Ring
import Mathlib.Tactic.FieldSimp
import Mathlib.Tactic.Positivity
import Mathlib.Analysis.SpecialFunctions.Pow.Real
import Mathlib.Analysis.SpecialFunctions.Log.Base
/-!
# Quantiles, the median, the representations of a binning, exponential edges

* **A** `quantile` (numpy's linear interpolation between order statistics) for every sorted
  non-empty list and every `0 ≤ q ≤ 1`: minimum / maximum, bracketing by two neighbouring order
  statistics, monotonicity, the edge list of a quantile binning, exactness at `k / (n - 1)`.
* **B** `medianOf`: middle order statistic(s) of *any* sorted permutation, the counting
  characterisation, invariance under permutation, `median = quantile 1/2`.
* **C** the pair, edge and masked-edge representations of a binning, slicing, regularity and the
  integer bins.
* **D** exponential edges form a geometric sequence (over `ℝ`).
-/
namespace Physt

/-! ## A. Quantiles -/

/-- the position `⌊x⌋` as a natural number, as `quantile` computes it -/
def floorNat (x : Rat) : Nat := x.floor.toNat

theorem floorNat_le {x : Rat} (hx : 0 ≤ x) : (floorNat x : Rat) ≤ x := by
  have h0 : 0 ≤ ⌊x⌋ := Int.floor_nonneg.mpr hx
  have h1 : ((⌊x⌋.toNat : Int) : Rat) = ((⌊x⌋ : Int) : Rat) := by rw [Int.toNat_of_nonneg h0]
  have h2 : ((⌊x⌋ : Int) : Rat) ≤ x := Int.floor_le x
  show ((x.floor.toNat : Nat) : Rat) ≤ x
  have : ((x.floor.toNat : Nat) : Rat) = ((⌊x⌋.toNat : Int) : Rat) := by
    rw [Int.cast_natCast]; rfl
  rw [this, h1]; exact h2

theorem lt_floorNat_add_one (x : Rat) : x < (floorNat x : Rat) + 1 := by
  have h2 : x < ((⌊x⌋ : Int) : Rat) + 1 := Int.lt_floor_add_one x
  have h3 : (⌊x⌋ : Int) ≤ ((⌊x⌋.toNat : Nat) : Int) := Int.self_le_toNat _
  have h4 : ((⌊x⌋ : Int) : Rat) ≤ (((⌊x⌋.toNat : Nat) : Int) : Rat) := by exact_mod_cast h3
  have : ((floorNat x : Nat) : Rat) = (((⌊x⌋.toNat : Nat) : Int) : Rat) := by
    rw [Int.cast_natCast]; rfl
  rw [this]; linarith

theorem floorNat_mono {x y : Rat} (h : x ≤ y) : floorNat x ≤ floorNat y :=
  Int.toNat_le_toNat (Int.floor_le_floor h)

theorem floorNat_natCast (k : Nat) : floorNat (k : Rat) = k := by
  show (⌊(k : Rat)⌋).toNat = k
  rw [Int.floor_natCast]; simp

theorem floorNat_le_of_le_natCast {x : Rat} {k : Nat} (h : x ≤ k) : floorNat x ≤ k := by
  have := floorNat_mono h
  rwa [floorNat_natCast] at this

/-- linear interpolation of a sequence at a real (rational) position -/
def interp (g : Nat → Rat) (x : Rat) : Rat :=
  g (floorNat x) + (g (floorNat x + 1) - g (floorNat x)) * (x - (floorNat x : Rat))

theorem interp_bounds (g : Nat → Rat) (hg : Monotone g) {x : Rat} (hx : 0 ≤ x) :
    g (floorNat x) ≤ interp g x ∧ interp g x ≤ g (floorNat x + 1) := by
  have h1 := floorNat_le hx
  have h2 := lt_floorNat_add_one x
  have hd : g (floorNat x) ≤ g (floorNat x + 1) := hg (Nat.le_succ _)
  unfold interp
  constructor
  · nlinarith
  · nlinarith

theorem interp_mono (g : Nat → Rat) (hg : Monotone g) {x y : Rat} (hx : 0 ≤ x) (hxy : x ≤ y) :
    interp g x ≤ interp g y := by
  have hy : 0 ≤ y := le_trans hx hxy
  have hL := floorNat_mono hxy
  rcases Nat.eq_or_lt_of_le hL with he | hlt
  · unfold interp
    rw [← he]
    have hd : g (floorNat x) ≤ g (floorNat x + 1) := hg (Nat.le_succ _)
    nlinarith
  · exact le_trans (interp_bounds g hg hx).2 (le_trans (hg hlt) (interp_bounds g hg hy).1)

/-- the interpolant of a sequence that is strictly increasing up to index `N` is strictly
    increasing on `[0, N]` -/
theorem interp_strictMono (g : Nat → Rat) (hg : Monotone g) (N : Nat)
    (hs : ∀ i, i < N → g i < g (i + 1)) {x y : Rat} (hx : 0 ≤ x) (hxy : x < y) (hy : y ≤ N) :
    interp g x < interp g y := by
  have hy0 : 0 ≤ y := le_trans hx (le_of_lt hxy)
  have hL := floorNat_mono (le_of_lt hxy)
  have h1 := floorNat_le hx
  have h2 := lt_floorNat_add_one x
  have hxN : floorNat x < N := by
    have : (floorNat x : Rat) < N := by linarith
    exact_mod_cast this
  have hd : g (floorNat x) < g (floorNat x + 1) := hs _ hxN
  rcases Nat.eq_or_lt_of_le hL with he | hlt
  · unfold interp
    rw [← he]
    nlinarith
  · have hlt1 : interp g x < g (floorNat x + 1) := by
      unfold interp; nlinarith
    exact lt_of_lt_of_le hlt1 (le_trans (hg hlt) (interp_bounds g hg hy0).1)

theorem interp_natCast (g : Nat → Rat) (k : Nat) : interp g (k : Rat) = g k := by
  unfold interp; rw [floorNat_natCast]; ring

/-- the `i`-th order statistic, the last one for `i` beyond the end -/
def clampGet (s : List Rat) (hne : s ≠ []) (i : Nat) : Rat :=
  s[min i (s.length - 1)]'(by
    have : 0 < s.length := List.length_pos_iff.mpr hne
    omega)

theorem clampGet_of_lt (s : List Rat) (hne : s ≠ []) (i : Nat) (hi : i < s.length) :
    clampGet s hne i = s[i] := by
  unfold clampGet
  congr 1
  omega

theorem clampGet_mono (s : List Rat) (hne : s ≠ []) (hs : s.Pairwise (· ≤ ·)) :
    Monotone (clampGet s hne) := by
  intro i j hij
  unfold clampGet
  have hpos : 0 < s.length := List.length_pos_iff.mpr hne
  rcases Nat.eq_or_lt_of_le (show min i (s.length - 1) ≤ min j (s.length - 1) by omega) with he | hlt
  · simp only [he]; exact le_refl _
  · exact List.pairwise_iff_getElem.mp hs _ _ (by omega) (by omega) hlt

/-- the position `q (n - 1)` of the quantile `q` in a list of length `n` -/
def qpos (s : List Rat) (q : Rat) : Rat := q * ((s.length - 1 : Nat) : Rat)

theorem qpos_nonneg (s : List Rat) {q : Rat} (hq : 0 ≤ q) : 0 ≤ qpos s q :=
  mul_nonneg hq (Nat.cast_nonneg _)

theorem qpos_le (s : List Rat) {q : Rat} (hq : q ≤ 1) : qpos s q ≤ ((s.length - 1 : Nat) : Rat) := by
  unfold qpos
  have : (0 : Rat) ≤ ((s.length - 1 : Nat) : Rat) := Nat.cast_nonneg _
  nlinarith

theorem qpos_mono (s : List Rat) {q₁ q₂ : Rat} (h : q₁ ≤ q₂) : qpos s q₁ ≤ qpos s q₂ :=
  mul_le_mul_of_nonneg_right h (Nat.cast_nonneg _)

/-- **`quantile` is the interpolant of the order statistics** (`q ≤ 1`; for `q > 1` the `getD`
    fall-backs of the model return the maximum, then the minimum: `quantile_outside_unit_interval`). -/
theorem quantile_eq_interp (s : List Rat) (hne : s ≠ []) (q : Rat) (hq1 : q ≤ 1) :
    quantile s q = some (interp (clampGet s hne) (qpos s q)) := by
  have hlo : floorNat (qpos s q) ≤ s.length - 1 := floorNat_le_of_le_natCast (qpos_le s hq1)
  have hpos : 0 < s.length := List.length_pos_iff.mpr hne
  cases s with
  | nil => exact (hne rfl).elim
  | cons x t =>
    unfold quantile
    simp only
    congr 1
    have hlo' : floorNat (qpos (x :: t) q) < (x :: t).length := by omega
    change ((x :: t)[floorNat (qpos (x :: t) q)]?.getD x)
        + (((x :: t)[floorNat (qpos (x :: t) q) + 1]?.getD ((x :: t)[floorNat (qpos (x :: t) q)]?.getD x))
            - ((x :: t)[floorNat (qpos (x :: t) q)]?.getD x))
          * (qpos (x :: t) q - (floorNat (qpos (x :: t) q) : Rat)) = _
    unfold interp
    generalize floorNat (qpos (x :: t) q) = lo at hlo hlo'
    rw [List.getElem?_eq_getElem hlo', Option.getD_some, clampGet_of_lt _ hne lo hlo']
    by_cases h1 : lo + 1 < (x :: t).length
    · rw [List.getElem?_eq_getElem h1, Option.getD_some, clampGet_of_lt _ hne _ h1]
    · have hnone : (x :: t)[lo + 1]? = none := List.getElem?_eq_none (by omega)
      rw [hnone, Option.getD_none]
      have : clampGet (x :: t) hne (lo + 1) = (x :: t)[lo] := by
        unfold clampGet
        congr 1
        omega
      rw [this]

/-- **A1 (minimum).** `quantile s 0` is the first (least) element; `none` only for no data. -/
theorem quantile_zero (s : List Rat) : quantile s 0 = s.head? := by
  cases s with
  | nil => rfl
  | cons x t =>
    rw [quantile_eq_interp (x :: t) (by simp) 0 (by norm_num)]
    have : qpos (x :: t) 0 = ((0 : Nat) : Rat) := by simp [qpos]
    rw [this, interp_natCast, clampGet_of_lt _ _ 0 (by simp)]
    rfl

/-- **A1 (maximum).** `quantile s 1` is the last (greatest) element. -/
theorem quantile_one (s : List Rat) : quantile s 1 = s.getLast? := by
  by_cases hne : s = []
  · subst hne; rfl
  · have hpos : 0 < s.length := List.length_pos_iff.mpr hne
    rw [quantile_eq_interp s hne 1 (le_refl _)]
    have : qpos s 1 = ((s.length - 1 : Nat) : Rat) := by simp [qpos]
    rw [this, interp_natCast, clampGet_of_lt _ _ _ (by omega), List.getLast?_eq_getElem?,
      List.getElem?_eq_getElem (by omega)]

theorem quantile_zero' (s : List Rat) (hne : s ≠ []) : quantile s 0 = some (s.head hne) := by
  rw [quantile_zero, List.head?_eq_some_head hne]

theorem quantile_one' (s : List Rat) (hne : s ≠ []) : quantile s 1 = some (s.getLast hne) := by
  rw [quantile_one, List.getLast?_eq_some_getLast hne]

theorem sorted_head_le (s : List Rat) (hs : s.Pairwise (· ≤ ·)) (hne : s ≠ []) (i : Nat)
    (hi : i < s.length) : s.head hne ≤ s[i] := by
  rw [List.head_eq_getElem]
  rcases Nat.eq_zero_or_pos i with h0 | hpos
  · subst h0; exact le_refl _
  · exact List.pairwise_iff_getElem.mp hs 0 i (by omega) hi hpos

theorem sorted_le_getLast (s : List Rat) (hs : s.Pairwise (· ≤ ·)) (hne : s ≠ []) (i : Nat)
    (hi : i < s.length) : s[i] ≤ s.getLast hne := by
  rw [List.getLast_eq_getElem]
  rcases Nat.eq_or_lt_of_le (show i ≤ s.length - 1 by omega) with he | hlt
  · simp only [he]; exact le_refl _
  · exact List.pairwise_iff_getElem.mp hs i (s.length - 1) hi (by omega) hlt

/-- **A2 (between neighbouring order statistics).**  For sorted non-empty `s` and `0 ≤ q ≤ 1`, with
    `lo = ⌊q (n-1)⌋`: `lo < n`, `s[lo] ≤ quantile s q ≤ s[lo+1]` (for `lo = n-1`, which happens
    only at the top, the value is the maximum); in particular `min ≤ quantile s q ≤ max`. -/
theorem quantile_between (s : List Rat) (hs : s.Pairwise (· ≤ ·)) (hne : s ≠ []) (q : Rat)
    (hq0 : 0 ≤ q) (hq1 : q ≤ 1) :
    ∃ r, quantile s q = some r ∧ s.head hne ≤ r ∧ r ≤ s.getLast hne ∧
      ∃ hlo : floorNat (qpos s q) < s.length,
        s[floorNat (qpos s q)] ≤ r ∧
        (∀ h1 : floorNat (qpos s q) + 1 < s.length, r ≤ s[floorNat (qpos s q) + 1]) ∧
        (floorNat (qpos s q) + 1 = s.length → r = s.getLast hne) := by
  have hpos : 0 < s.length := List.length_pos_iff.mpr hne
  have hlo : floorNat (qpos s q) ≤ s.length - 1 := floorNat_le_of_le_natCast (qpos_le s hq1)
  have hlo' : floorNat (qpos s q) < s.length := by omega
  have hb := interp_bounds (clampGet s hne) (clampGet_mono s hne hs) (qpos_nonneg s hq0)
  rw [clampGet_of_lt s hne _ hlo'] at hb
  refine ⟨_, quantile_eq_interp s hne q hq1, ?_, ?_, hlo', hb.1, ?_, ?_⟩
  · exact le_trans (sorted_head_le s hs hne _ hlo') hb.1
  · refine le_trans hb.2 ?_
    unfold clampGet
    exact sorted_le_getLast s hs hne _ _
  · intro h1
    have := hb.2
    rwa [clampGet_of_lt s hne _ h1] at this
  · intro h1
    have h2 : clampGet s hne (floorNat (qpos s q) + 1) = s.getLast hne := by
      unfold clampGet
      rw [List.getLast_eq_getElem]
      congr 1
      omega
    have h3 : s[floorNat (qpos s q)] = s.getLast hne := by
      rw [List.getLast_eq_getElem]
      congr 1
      omega
    have := hb.2
    rw [h2] at this
    have h4 := hb.1
    rw [h3] at h4
    exact le_antisymm this h4

/-- **A3 (monotone).**  On sorted data a larger `q` gives a larger (or equal) quantile. -/
theorem quantile_mono (s : List Rat) (hs : s.Pairwise (· ≤ ·)) (hne : s ≠ []) (q₁ q₂ : Rat)
    (h0 : 0 ≤ q₁) (h12 : q₁ ≤ q₂) (h1 : q₂ ≤ 1) :
    ∃ r₁ r₂, quantile s q₁ = some r₁ ∧ quantile s q₂ = some r₂ ∧ r₁ ≤ r₂ :=
  ⟨_, _, quantile_eq_interp s hne q₁ (le_trans h12 h1), quantile_eq_interp s hne q₂ h1,
    interp_mono _ (clampGet_mono s hne hs) (qpos_nonneg s h0) (qpos_mono s h12)⟩

/-- **A3 (strictly monotone on distinct data).**  If the (at least two) data values are pairwise
    different, different `q`s give different quantiles. -/
theorem quantile_strictMono (s : List Rat) (hs : s.Pairwise (· < ·)) (hlen : 2 ≤ s.length)
    (q₁ q₂ : Rat) (h0 : 0 ≤ q₁) (h12 : q₁ < q₂) (h1 : q₂ ≤ 1) :
    ∃ r₁ r₂, quantile s q₁ = some r₁ ∧ quantile s q₂ = some r₂ ∧ r₁ < r₂ := by
  have hne : s ≠ [] := by intro h; subst h; simp at hlen
  have hs' : s.Pairwise (· ≤ ·) := hs.imp le_of_lt
  refine ⟨_, _, quantile_eq_interp s hne q₁ (le_of_lt (lt_of_lt_of_le h12 h1)),
    quantile_eq_interp s hne q₂ h1, ?_⟩
  apply interp_strictMono _ (clampGet_mono s hne hs') (s.length - 1) _ (qpos_nonneg s h0) _
    (qpos_le s h1)
  · intro i hi
    rw [clampGet_of_lt s hne i (by omega), clampGet_of_lt s hne (i + 1) (by omega)]
    exact List.pairwise_iff_getElem.mp hs i (i + 1) (by omega) (by omega) (by omega)
  · unfold qpos
    have : (0 : Rat) < ((s.length - 1 : Nat) : Rat) := by
      have : 0 < s.length - 1 := by omega
      exact_mod_cast this
    exact mul_lt_mul_of_pos_right h12 this

/-- **A5 (order statistics).**  At `q = k / (n - 1)` the quantile is exactly `s[k]`. -/
theorem quantile_order_stat (s : List Rat) (hlen : 2 ≤ s.length) (k : Nat) (hk : k ≤ s.length - 1) :
    quantile s ((k : Rat) / ((s.length - 1 : Nat) : Rat)) = some (s[k]'(by omega)) := by
  have hne : s ≠ [] := by intro h; subst h; simp at hlen
  have hn : (0 : Rat) < ((s.length - 1 : Nat) : Rat) := by
    have : 0 < s.length - 1 := by omega
    exact_mod_cast this
  have hkn : (k : Rat) ≤ ((s.length - 1 : Nat) : Rat) := by exact_mod_cast hk
  rw [quantile_eq_interp s hne _ (by rw [div_le_one hn]; exact hkn)]
  have : qpos s ((k : Rat) / ((s.length - 1 : Nat) : Rat)) = (k : Rat) := by
    unfold qpos; field_simp
  rw [this, interp_natCast, clampGet_of_lt s hne k (by omega)]

/-! ### A4. the edge list of a quantile binning -/

/-- the chain form of `Rising` for bins made from edges -/
theorem rising_edgesToBins_iff (es : List Rat) : Rising (edgesToBins es) ↔ es.Pairwise (· < ·) := by
  constructor
  · intro h
    induction es with
    | nil => exact List.Pairwise.nil
    | cons a t ih =>
      cases t with
      | nil => simp
      | cons b u =>
        have hab : a < b := by
          cases u with
          | nil => exact h
          | cons c v => exact h.1
        have ht : Rising (edgesToBins (b :: u)) := by
          cases u with
          | nil => trivial
          | cons c v => exact h.2.2
        have ih' := ih ht
        rw [List.pairwise_cons]
        refine ⟨?_, ih'⟩
        rw [List.pairwise_cons] at ih'
        intro e he
        rcases List.mem_cons.mp he with rfl | he
        · exact hab
        · exact lt_trans hab (ih'.1 e he)
  · exact C07_edges_rising es

/-- a non-decreasing list is strictly increasing iff no two neighbours coincide -/
theorem pairwise_lt_iff_neighbours_ne (es : List Rat) (h : es.Pairwise (· ≤ ·)) :
    es.Pairwise (· < ·) ↔ ∀ i (hi : i + 1 < es.length), es[i] ≠ es[i + 1] := by
  constructor
  · intro hlt i hi
    exact ne_of_lt (List.pairwise_iff_getElem.mp hlt i (i + 1) (by omega) hi (by omega))
  · intro hne
    rw [List.pairwise_iff_getElem]
    intro i j hi hj hij
    have h1 : es[i] < es[i + 1] :=
      lt_of_le_of_ne (List.pairwise_iff_getElem.mp h i (i + 1) hi (by omega) (by omega))
        (hne i (by omega))
    rcases Nat.eq_or_lt_of_le (show i + 1 ≤ j by omega) with he | hlt
    · subst he; exact h1
    · exact lt_of_lt_of_le h1 (List.pairwise_iff_getElem.mp h (i + 1) j (by omega) hj hlt)

/-- **A4 (quantile binning).**  The model assembles a quantile binning as `qs.map (quantile s)`
    (driver query `"quantile"`; the bins are `edgesToBins` of these edges and must pass `is_rising`).
    For sorted non-empty data and strictly increasing `qs` in `[0, 1]`: every edge is defined, the
    edges are non-decreasing and lie between the minimum and the maximum; the bins are rising
    (accepted) **iff** no two consecutive quantiles coincide; if `qs` starts with 0 / ends with 1
    the first / last edge is the minimum / maximum of the data (the bins cover all the data). -/
theorem quantile_edges (s : List Rat) (hs : s.Pairwise (· ≤ ·)) (hne : s ≠ []) (qs : List Rat)
    (hqs : qs.Pairwise (· < ·)) (h01 : ∀ q ∈ qs, 0 ≤ q ∧ q ≤ 1) :
    ∃ es : List Rat, qs.map (quantile s) = es.map some ∧ es.length = qs.length ∧
      es.Pairwise (· ≤ ·) ∧
      (∀ e ∈ es, s.head hne ≤ e ∧ e ≤ s.getLast hne) ∧
      (Rising (edgesToBins es) ↔ ∀ i (hi : i + 1 < es.length), es[i] ≠ es[i + 1]) ∧
      (risingB (edgesToBins es) = true ↔ ∀ i (hi : i + 1 < es.length), es[i] ≠ es[i + 1]) ∧
      (qs.head? = some 0 → es.head? = s.head?) ∧
      (qs.getLast? = some 1 → es.getLast? = s.getLast?) := by
  have hg := clampGet_mono s hne hs
  have hval : ∀ q ∈ qs, quantile s q = some (interp (clampGet s hne) (qpos s q)) :=
    fun q hq => quantile_eq_interp s hne q (h01 q hq).2
  have hsorted : (qs.map fun q => interp (clampGet s hne) (qpos s q)).Pairwise (· ≤ ·) := by
    rw [List.pairwise_map]
    refine List.Pairwise.imp_of_mem ?_ hqs
    intro a b ha _ hab
    exact interp_mono _ hg (qpos_nonneg s (h01 a ha).1) (qpos_mono s (le_of_lt hab))
  have hiff := pairwise_lt_iff_neighbours_ne _ hsorted
  refine ⟨qs.map fun q => interp (clampGet s hne) (qpos s q), ?_, by simp, hsorted, ?_,
    (rising_edgesToBins_iff _).trans hiff,
    ((risingB_iff _).trans (rising_edgesToBins_iff _)).trans hiff, ?_, ?_⟩
  · rw [List.map_map]
    exact List.map_congr_left fun q hq => hval q hq
  · intro e he
    obtain ⟨q, hq, rfl⟩ := List.mem_map.mp he
    obtain ⟨r, hr, h1, h2, _⟩ := quantile_between s hs hne q (h01 q hq).1 (h01 q hq).2
    rw [hval q hq] at hr
    cases hr
    exact ⟨h1, h2⟩
  · intro h
    cases qs with
    | nil => simp at h
    | cons q t =>
      simp only [List.head?_cons, Option.some.injEq] at h
      subst h
      simp only [List.map_cons, List.head?_cons]
      rw [← hval 0 (List.mem_cons_self ..), quantile_zero]
  · intro h
    rw [List.getLast?_map, h, Option.map_some, ← quantile_one,
      quantile_eq_interp s hne 1 (le_refl _)]

/-! ## B. The median -/

open H1 in
/-- the sorted values as `medianOf` computes them (insertion sort of the points `(v, 0)`) -/
def sortedVals (vs : List Rat) : List Rat := (sortPts (vs.map fun v => (v, (0 : Rat)))).map (·.1)

/-- the median of an already sorted list -/
def medianSorted (s : List Rat) : Option Rat :=
  if s.length = 0 then none
  else if s.length % 2 = 1 then s[s.length / 2]?
  else do let a ← s[s.length / 2 - 1]?; let b ← s[s.length / 2]?; pure ((a + b) / 2)

theorem medianOf_eq (vs : List Rat) : H1.medianOf vs = medianSorted (sortedVals vs) := rfl

theorem sortedVals_perm (vs : List Rat) : (sortedVals vs).Perm vs := by
  unfold sortedVals
  have h := (sortPts_perm (vs.map fun v => (v, (0 : Rat)))).map (·.1)
  have e : (vs.map fun v => (v, (0 : Rat))).map (·.1) = vs := by
    rw [List.map_map]; simp [Function.comp_def]
  rwa [e] at h

theorem sortedVals_sorted (vs : List Rat) : (sortedVals vs).Pairwise (· ≤ ·) := by
  unfold sortedVals
  rw [List.pairwise_map]
  exact sortPts_sorted _

theorem sortedVals_length (vs : List Rat) : (sortedVals vs).length = vs.length :=
  (sortedVals_perm vs).length_eq

/-- a sorted permutation is unique: the result of *any* sorting algorithm is `sortedVals` -/
theorem sorted_perm_unique (vs s : List Rat) (hp : s.Perm vs) (hs : s.Pairwise (· ≤ ·)) :
    s = sortedVals vs :=
  List.Perm.eq_of_pairwise (fun _ _ _ _ h1 h2 => le_antisymm h1 h2) hs (sortedVals_sorted vs)
    (hp.trans (sortedVals_perm vs).symm)

theorem medianSorted_odd (s : List Rat) (h : s.length % 2 = 1) :
    medianSorted s = some (s[s.length / 2]'(by omega)) := by
  unfold medianSorted
  have h0 : ¬ s.length = 0 := by omega
  rw [if_neg h0, if_pos h, List.getElem?_eq_getElem]

theorem medianSorted_even (s : List Rat) (h : s.length % 2 = 0) (hpos : 0 < s.length) :
    medianSorted s = some ((s[s.length / 2 - 1]'(by omega) + s[s.length / 2]'(by omega)) / 2) := by
  unfold medianSorted
  have h0 : ¬ s.length = 0 := by omega
  have h1 : ¬ s.length % 2 = 1 := by omega
  rw [if_neg h0, if_neg h1, List.getElem?_eq_getElem (show s.length / 2 - 1 < s.length by omega),
    List.getElem?_eq_getElem (show s.length / 2 < s.length by omega)]
  rfl

/-- **B1 (median = middle order statistics of any sorted permutation).**  Let `s` be *any* sorted
    permutation of `vs`.  No data: NaN.  Odd count: the middle element `s[n/2]`.  Even count: the
    mean of the two middle elements. -/
theorem medianOf_sorted_perm (vs s : List Rat) (hp : s.Perm vs) (hs : s.Pairwise (· ≤ ·)) :
    (s.length = 0 → H1.medianOf vs = none) ∧
    (∀ h : s.length % 2 = 1, H1.medianOf vs = some (s[s.length / 2]'(by omega))) ∧
    (∀ (h : s.length % 2 = 0) (hpos : 0 < s.length),
      H1.medianOf vs = some ((s[s.length / 2 - 1]'(by omega) + s[s.length / 2]'(by omega)) / 2)) := by
  have e := sorted_perm_unique vs s hp hs
  rw [medianOf_eq, ← e]
  refine ⟨fun h => by simp [medianSorted, h], medianSorted_odd s, medianSorted_even s⟩

/-- the model's own sorted list is such a permutation -/
theorem medianOf_sortedVals (vs : List Rat) :
    (sortedVals vs).Perm vs ∧ (sortedVals vs).Pairwise (· ≤ ·) :=
  ⟨sortedVals_perm vs, sortedVals_sorted vs⟩

/-- **B3 (permutation invariance).** -/
theorem medianOf_perm (vs ws : List Rat) (h : vs.Perm ws) : H1.medianOf vs = H1.medianOf ws := by
  rw [medianOf_eq, medianOf_eq,
    sorted_perm_unique ws (sortedVals vs) ((sortedVals_perm vs).trans h) (sortedVals_sorted vs)]

theorem medianOf_none_iff (vs : List Rat) : H1.medianOf vs = none ↔ vs = [] := by
  rw [medianOf_eq]
  constructor
  · intro h
    by_contra hne
    have hpos : 0 < (sortedVals vs).length := by
      rw [sortedVals_length]; exact List.length_pos_iff.mpr hne
    rcases Nat.mod_two_eq_zero_or_one (sortedVals vs).length with h2 | h2
    · rw [medianSorted_even _ h2 hpos] at h; cases h
    · rw [medianSorted_odd _ h2] at h; cases h
  · intro h; subst h; rfl

theorem count_le_of_sorted (s : List Rat) (hs : s.Pairwise (· ≤ ·)) (k : Nat) (hk : k < s.length)
    (x : Rat) (hx : s[k] ≤ x) : k + 1 ≤ s.countP (fun v => decide (v ≤ x)) := by
  have h1 : (s.take (k + 1)).countP (fun v => decide (v ≤ x)) ≤ s.countP (fun v => decide (v ≤ x)) :=
    (List.take_sublist _ _).countP_le
  have h2 : (s.take (k + 1)).countP (fun v => decide (v ≤ x)) = (s.take (k + 1)).length := by
    rw [List.countP_eq_length]
    intro e he
    obtain ⟨i, hi, rfl⟩ := List.getElem_of_mem he
    rw [List.getElem_take]
    rw [List.length_take] at hi
    simp only [decide_eq_true_eq]
    refine le_trans ?_ hx
    rcases Nat.eq_or_lt_of_le (show i ≤ k by omega) with he | hlt
    · subst he; exact le_refl _
    · exact List.pairwise_iff_getElem.mp hs i k (by omega) hk hlt
  rw [h2, List.length_take] at h1
  omega

theorem count_ge_of_sorted (s : List Rat) (hs : s.Pairwise (· ≤ ·)) (k : Nat) (hk : k < s.length)
    (x : Rat) (hx : x ≤ s[k]) : s.length - k ≤ s.countP (fun v => decide (x ≤ v)) := by
  have h1 : (s.drop k).countP (fun v => decide (x ≤ v)) ≤ s.countP (fun v => decide (x ≤ v)) :=
    (List.drop_sublist _ _).countP_le
  have h2 : (s.drop k).countP (fun v => decide (x ≤ v)) = (s.drop k).length := by
    rw [List.countP_eq_length]
    intro e he
    obtain ⟨i, hi, rfl⟩ := List.getElem_of_mem he
    rw [List.getElem_drop]
    rw [List.length_drop] at hi
    simp only [decide_eq_true_eq]
    refine le_trans hx ?_
    rcases Nat.eq_zero_or_pos i with h0 | hpos
    · subst h0; exact le_refl _
    · exact List.pairwise_iff_getElem.mp hs k (k + i) hk (by omega) (by omega)
  rw [h2, List.length_drop] at h1
  exact h1

/-- **B2 (the median splits the data; independent of any sorting).**  If `m` is the median of `vs`
    then at least `⌈n/2⌉` of the values are `≤ m` and at least `⌈n/2⌉` are `≥ m`. -/
theorem medianOf_count (vs : List Rat) (m : Rat) (h : H1.medianOf vs = some m) :
    (vs.length + 1) / 2 ≤ vs.countP (fun v => decide (v ≤ m)) ∧
    (vs.length + 1) / 2 ≤ vs.countP (fun v => decide (m ≤ v)) := by
  have hp := sortedVals_perm vs
  have hs := sortedVals_sorted vs
  rw [← hp.countP_eq, ← hp.countP_eq, ← sortedVals_length vs]
  rw [medianOf_eq] at h
  generalize sortedVals vs = s at h hs
  have hpos : 0 < s.length := by
    by_contra h0
    have : s.length = 0 := by omega
    simp [medianSorted, this] at h
  rcases Nat.mod_two_eq_zero_or_one s.length with h2 | h2
  · rw [medianSorted_even s h2 hpos] at h
    simp only [Option.some.injEq] at h
    have hle : s[s.length / 2 - 1]'(by omega) ≤ s[s.length / 2]'(by omega) :=
      List.pairwise_iff_getElem.mp hs _ _ (by omega) (by omega) (by omega)
    have c1 := count_le_of_sorted s hs (s.length / 2 - 1) (by omega) m (by rw [← h]; linarith)
    have c2 := count_ge_of_sorted s hs (s.length / 2) (by omega) m (by rw [← h]; linarith)
    constructor <;> omega
  · rw [medianSorted_odd s h2] at h
    simp only [Option.some.injEq] at h
    have c1 := count_le_of_sorted s hs (s.length / 2) (by omega) m (by rw [h])
    have c2 := count_ge_of_sorted s hs (s.length / 2) (by omega) m (by rw [h])
    constructor <;> omega

theorem floorNat_add_half (k : Nat) : floorNat ((k : Rat) + 1 / 2) = k := by
  show (⌊(k : Rat) + 1 / 2⌋).toNat = k
  have : ⌊(k : Rat) + 1 / 2⌋ = (k : Int) := by
    rw [Int.floor_eq_iff]
    constructor
    · push_cast; linarith
    · push_cast; linarith
  rw [this]; simp

/-- the median of a sorted list is its quantile `1/2` (`np.median = np.percentile 50`); no
    sortedness is needed for this identity -/
theorem medianSorted_eq_quantile (s : List Rat) : medianSorted s = quantile s (1 / 2) := by
  by_cases hne : s = []
  · subst hne; rfl
  have hpos : 0 < s.length := List.length_pos_iff.mpr hne
  rw [quantile_eq_interp s hne (1 / 2) (by norm_num)]
  rcases Nat.mod_two_eq_zero_or_one s.length with h2 | h2
  · rw [medianSorted_even s h2 hpos]
    have hq : qpos s (1 / 2) = ((s.length / 2 - 1 : Nat) : Rat) + 1 / 2 := by
      unfold qpos
      have e1 : s.length - 1 = 2 * (s.length / 2 - 1) + 1 := by omega
      rw [e1]; push_cast; ring
    rw [hq]
    unfold interp
    rw [floorNat_add_half, clampGet_of_lt s hne _ (by omega), clampGet_of_lt s hne _ (by omega)]
    congr 1
    have e2 : s.length / 2 - 1 + 1 = s.length / 2 := by omega
    simp only [e2]
    ring
  · rw [medianSorted_odd s h2]
    have hq : qpos s (1 / 2) = ((s.length / 2 : Nat) : Rat) := by
      unfold qpos
      have e1 : s.length - 1 = 2 * (s.length / 2) := by omega
      rw [e1]; push_cast; ring
    rw [hq, interp_natCast, clampGet_of_lt s hne _ (by omega)]

/-- **B4 (median = 50 % quantile).**  For any sorted permutation `s` of the data. -/
theorem medianOf_eq_quantile (vs s : List Rat) (hp : s.Perm vs) (hs : s.Pairwise (· ≤ ·)) :
    H1.medianOf vs = quantile s (1 / 2) := by
  rw [medianOf_eq, ← sorted_perm_unique vs s hp hs, medianSorted_eq_quantile]

theorem medianOf_eq_quantile_sortedVals (vs : List Rat) :
    H1.medianOf vs = quantile (sortedVals vs) (1 / 2) :=
  medianOf_eq_quantile vs _ (sortedVals_perm vs) (sortedVals_sorted vs)

/-- the median lies between the minimum and the maximum of the data -/
theorem medianOf_between (vs : List Rat) (m : Rat) (h : H1.medianOf vs = some m) :
    (∃ v ∈ vs, v ≤ m) ∧ (∃ v ∈ vs, m ≤ v) := by
  have hc := medianOf_count vs m h
  have hne : vs ≠ [] := by
    intro h0
    have := (medianOf_none_iff vs).mpr h0
    rw [this] at h; cases h
  have hpos : 0 < vs.length := List.length_pos_iff.mpr hne
  have h1 : 0 < vs.countP (fun v => decide (v ≤ m)) := by omega
  have h2 : 0 < vs.countP (fun v => decide (m ≤ v)) := by omega
  rw [List.countP_pos_iff] at h1 h2
  obtain ⟨a, ha, ha'⟩ := h1
  obtain ⟨b, hb, hb'⟩ := h2
  exact ⟨⟨a, ha, by simpa using ha'⟩, ⟨b, hb, by simpa using hb'⟩⟩

/-! ### the median of an unweighted construction (C14) -/

theorem maskPts_none (vs : List (Option Rat)) :
    maskPts vs none = (vs.filterMap id).map fun v => (v, (1 : Rat)) := by
  induction vs with
  | nil => rfl
  | cons v vs ih =>
    cases v with
    | none => simpa [maskPts] using ih
    | some x => simp [maskPts, ih]

theorem allEqual_const (l : List Rat) : H1.allEqual (l.map fun _ => (1 : Rat)) = true := by
  cases l with
  | nil => rfl
  | cons x xs => simp [H1.allEqual]

/-- **C14 (median after unweighted construction).**  A histogram constructed from data without
    weights (NaNs dropped) records the median of the data: by `medianOf_sorted_perm` the middle
    order statistic(s), by `medianOf_count` a value splitting the data in halves. -/
theorem construct_median (fo : FloatOps) (b : Binning) (vs : List (Option Rat)) (wkind : DType)
    (dtype : Option DType) (keep dropna : Bool) (r : H1)
    (h : H1.construct fo b vs none wkind dtype keep dropna = .ok r) :
    r.stats.median = H1.medianOf (vs.filterMap id) := by
  have hv : (maskPts vs none).map (·.1) = vs.filterMap id := by
    rw [maskPts_none, List.map_map]; simp [Function.comp_def]
  have hw : H1.allEqual ((maskPts vs none).map (·.2)) = true := by
    rw [maskPts_none, List.map_map]
    exact allEqual_const _
  have hst : r.stats = H1.statsOf (maskPts vs none) true (H1.medianOf (vs.filterMap id)) := by
    unfold H1.construct at h
    simp only [bind, Except.bind, pure, Except.pure, throw, throwThe, MonadExceptOf.throw] at h
    repeat (split at h <;> try contradiction)
    all_goals (cases h; simp only [hv, hw])
  rw [hst]
  unfold H1.statsOf
  cases hd : maskPts vs none with
  | nil =>
    have : vs.filterMap id = [] := by rw [← hv, hd]; rfl
    rw [this]; rfl
  | cons p ps => rfl

/-! ## C. The representations of a binning agree -/

/-! ### C1. pairs, edges, masked edges -/

theorem maskedEdgesAux_spec (rest : Bins) : ∀ (b : Bin) (j : Nat),
    (maskedEdgesAux (b :: rest) j).2.length = rest.length + 1 ∧
    (maskedEdgesAux (b :: rest) j).1.getLast? = ((b :: rest).getLast?).map (·.2) ∧
    (maskedEdgesAux (b :: rest) j).1 ≠ [] := by
  induction rest with
  | nil => intro b j; obtain ⟨l, r⟩ := b; simp [maskedEdgesAux]
  | cons c rest ih =>
    intro b j
    obtain ⟨l, r⟩ := b; obtain ⟨l', r'⟩ := c
    rw [maskedEdgesAux_cons₂]
    by_cases heq : r = l'
    · obtain ⟨h1, h2, h3⟩ := ih (l', r') (j + 1)
      simp only [heq, if_true, List.length_cons, h1, true_and]
      refine ⟨?_, by simp⟩
      rw [List.getLast?_cons_of_ne_nil h3, h2, List.getLast?_cons_cons]
    · obtain ⟨h1, h2, h3⟩ := ih (l', r') (j + 2)
      simp only [heq, if_false, List.length_cons, h1, true_and]
      refine ⟨?_, by simp⟩
      rw [List.getLast?_cons_cons, List.getLast?_cons_of_ne_nil h3, h2, List.getLast?_cons_cons]

/-- **C1.** the first masked edge is `first_edge`, the last is `last_edge`, there is one mask entry
    per bin (every binning, rising or not) -/
theorem maskedEdges_ends (bins : Bins) :
    (maskedEdges bins).1.head? = firstEdge? bins ∧
    (maskedEdges bins).1.getLast? = lastEdge? bins ∧
    (maskedEdges bins).2.length = bins.length := by
  cases bins with
  | nil => simp [maskedEdges, firstEdge?, lastEdge?]
  | cons b rest =>
    obtain ⟨l, r⟩ := b
    obtain ⟨h1, h2, h3⟩ := maskedEdgesAux_spec rest (l, r) 0
    rw [maskedEdges_cons]
    refine ⟨by simp [firstEdge?], ?_, h1⟩
    simp only
    rw [List.getLast?_cons_of_ne_nil h3, h2]
    rfl

/-- the pairs recovered from the masked-edge representation -/
def pairsOfMasked (me : List Rat × List Nat) : Bins :=
  me.2.map fun m => (me.1[m]?.getD 0, me.1[m + 1]?.getD 0)

/-- **C1 (masked edges ↦ pairs).**  For a rising binning the masked-edge representation gives back
    the pairs: bin `i` is `(E[mask[i]], E[mask[i] + 1])`; the mask is strictly increasing and the
    edges `E` strictly increase. -/
theorem pairsOfMasked_maskedEdges (bins : Bins) (hb : Rising bins) :
    pairsOfMasked (maskedEdges bins) = bins ∧
    (maskedEdges bins).2.Pairwise (· < ·) ∧ (maskedEdges bins).1.Pairwise (· < ·) := by
  by_cases hne : bins = []
  · subst hne; simp [pairsOfMasked, maskedEdges]
  have inv := maskInv_maskedEdges bins hb hne
  refine ⟨?_, inv.incr, inv.sorted⟩
  apply List.ext_getElem?
  intro i
  unfold pairsOfMasked
  rw [List.getElem?_map]
  by_cases hi : i < bins.length
  · rcases hbi : bins[i] with ⟨a, b⟩
    have hget : bins[i]? = some (a, b) := by rw [List.getElem?_eq_getElem hi, hbi]
    obtain ⟨m, hm, _, ha, hbb, _⟩ := inv.pos i a b hget
    simp only [Nat.sub_zero] at ha hbb
    rw [hm, hget]
    simp [ha, hbb]
  · have h1 : bins[i]? = none := List.getElem?_eq_none (by omega)
    have h2 : (maskedEdges bins).2[i]? = none := List.getElem?_eq_none (by rw [inv.len]; omega)
    rw [h1, h2]; rfl

theorem consecutiveB_iff_getElem (bins : Bins) :
    consecutiveB bins = true ↔ ∀ i (h : i + 1 < bins.length), (bins[i]).2 = (bins[i + 1]).1 := by
  induction bins with
  | nil => simp [consecutiveB]
  | cons b rest ih =>
    cases rest with
    | nil => simp [consecutiveB]
    | cons c rest =>
      obtain ⟨l, r⟩ := b; obtain ⟨l', r'⟩ := c
      simp only [consecutiveB, Bool.and_eq_true, decide_eq_true_eq]
      rw [ih]
      constructor
      · rintro ⟨h1, h2⟩ i hi
        cases i with
        | zero => exact h1
        | succ i =>
          simp only [List.length_cons] at hi
          exact h2 i (by simp only [List.length_cons]; omega)
      · intro h
        refine ⟨h 0 (by simp), fun i hi => ?_⟩
        simp only [List.length_cons] at hi
        exact h (i + 1) (by simp only [List.length_cons]; omega)

theorem consecutiveB_tail {b : Bin} {rest : Bins} (h : consecutiveB (b :: rest) = true) :
    consecutiveB rest = true := by
  cases rest with
  | nil => rfl
  | cons c rest =>
    obtain ⟨l', r'⟩ := c
    simp only [consecutiveB, Bool.and_eq_true] at h
    exact h.2

theorem maskedEdgesAux_consecutive (rest : Bins) : ∀ (b : Bin) (j : Nat),
    consecutiveB (b :: rest) = true →
    maskedEdgesAux (b :: rest) j = (b.2 :: rest.map (·.2), List.range' j (rest.length + 1)) := by
  induction rest with
  | nil => intro b j _; obtain ⟨l, r⟩ := b; simp [maskedEdgesAux]
  | cons c rest ih =>
    intro b j hc
    obtain ⟨l, r⟩ := b; obtain ⟨l', r'⟩ := c
    have heq : r = l' := by
      simp only [consecutiveB, Bool.and_eq_true, decide_eq_true_eq] at hc
      exact hc.1
    rw [maskedEdgesAux_cons₂, if_pos heq, ih (l', r') (j + 1) (consecutiveB_tail hc)]
    simp [List.range'_succ]

/-- **C1 (consecutive bins).**  For consecutive bins the masked edges are the numpy edges and the
    mask is `0, 1, …, n-1`. -/
theorem maskedEdges_consecutive (bins : Bins) (hc : consecutiveB bins = true) :
    maskedEdges bins = (binsToEdges bins, List.range bins.length) := by
  cases bins with
  | nil => rfl
  | cons b rest =>
    obtain ⟨l, r⟩ := b
    rw [maskedEdges_cons, maskedEdgesAux_consecutive rest (l, r) 0 hc, List.range_eq_range']
    rfl

/-- **C1 (edges ↦ pairs ↦ edges).** -/
theorem edgesToBins_binsToEdges (bins : Bins) (hc : consecutiveB bins = true) :
    edgesToBins (binsToEdges bins) = bins := by
  induction bins with
  | nil => rfl
  | cons b rest ih =>
    obtain ⟨l, r⟩ := b
    cases rest with
    | nil => simp [binsToEdges, edgesToBins]
    | cons c rest =>
      obtain ⟨l', r'⟩ := c
      have heq : r = l' := by
        simp only [consecutiveB, Bool.and_eq_true, decide_eq_true_eq] at hc
        exact hc.1
      have ih' := ih (consecutiveB_tail hc)
      simp only [binsToEdges, List.map_cons, edgesToBins] at ih' ⊢
      rw [heq]
      exact congrArg _ ih'

/-- **C1 (pairs ↦ edges ↦ pairs)**, see `C07_edges_pairs` for the other direction -/
theorem binsToEdges_edgesToBins (es : List Rat) (h : 2 ≤ es.length) :
    binsToEdges (edgesToBins es) = es := C07_edges_pairs es h

theorem binsToEdges_length (bins : Bins) (hne : bins ≠ []) :
    (binsToEdges bins).length = bins.length + 1 := by
  cases bins with
  | nil => exact (hne rfl).elim
  | cons b rest => obtain ⟨l, r⟩ := b; simp [binsToEdges]

theorem binsToEdges_ends (bins : Bins) :
    (binsToEdges bins).head? = firstEdge? bins ∧ (binsToEdges bins).getLast? = lastEdge? bins := by
  cases bins with
  | nil => simp [binsToEdges, firstEdge?, lastEdge?]
  | cons b rest =>
    obtain ⟨l, r⟩ := b
    refine ⟨by simp [binsToEdges, firstEdge?], ?_⟩
    simp only [binsToEdges, lastEdge?]
    rw [List.getLast?_cons_cons]
    cases rest with
    | nil => simp
    | cons c rest =>
      rw [List.getLast?_cons_of_ne_nil (by simp), List.getLast?_map, List.getLast?_cons_cons]

/-! ### C2. slicing -/

theorem rising_iff (bins : Bins) :
    Rising bins ↔ (∀ b ∈ bins, b.1 < b.2) ∧ bins.Pairwise fun a b => a.2 ≤ b.1 := by
  constructor
  · exact fun h => ⟨h.lt, h.pairwise⟩
  · rintro ⟨h1, h2⟩
    induction bins with
    | nil => trivial
    | cons b rest ih =>
      rw [List.pairwise_cons] at h2
      have ih' := ih (fun x hx => h1 x (List.mem_cons_of_mem _ hx)) h2.2
      obtain ⟨l, r⟩ := b
      cases rest with
      | nil => exact h1 (l, r) (List.mem_cons_self ..)
      | cons c rest =>
        obtain ⟨l', r'⟩ := c
        exact ⟨h1 (l, r) (List.mem_cons_self ..), h2.1 (l', r') (List.mem_cons_self ..), ih'⟩

/-- every selection of bins of a rising binning (slice, mask, increasing index array) is rising -/
theorem Rising.sublist {bins sub : Bins} (h : Rising bins) (hs : sub.Sublist bins) : Rising sub := by
  rw [rising_iff] at h ⊢
  exact ⟨fun b hb => h.1 b (hs.subset hb), h.2.sublist hs⟩

theorem pySlice_eq_drop_take {α} (l : List α) (a b : Nat) :
    pySlice l a b = List.drop a (List.take b l) := by
  unfold pySlice
  rw [List.take_drop]
  by_cases hab : a ≤ b
  · rw [show a + (b - a) = b by omega]
  · have h1 : (List.take (a + (b - a)) l).length ≤ a := by rw [List.length_take]; omega
    have h2 : (List.take b l).length ≤ a := by rw [List.length_take]; omega
    rw [List.drop_of_length_le h1, List.drop_of_length_le h2]

/-- **C2 (contiguous slices).**  `bins[a:b]` of a rising binning is rising, of a consecutive binning
    consecutive; its bin count is `min b n - a`; for a non-empty slice (`a < b ≤ n`) the first edge
    is the left edge of bin `a`, the last edge the right edge of bin `b - 1`. -/
theorem slice_rising (bins : Bins) (a b : Nat) (h : Rising bins) :
    Rising (List.drop a (List.take b bins)) :=
  h.sublist ((List.drop_sublist _ _).trans (List.take_sublist _ _))

theorem slice_consecutive (bins : Bins) (a b : Nat) (h : consecutiveB bins = true) :
    consecutiveB (List.drop a (List.take b bins)) = true := by
  rw [consecutiveB_iff_getElem] at h ⊢
  intro i hi
  simp only [List.length_drop, List.length_take] at hi
  simp only [List.getElem_drop, List.getElem_take]
  exact h (a + i) (by omega)

theorem slice_length (bins : Bins) (a b : Nat) :
    (List.drop a (List.take b bins)).length = min b bins.length - a := by
  simp [List.length_drop, List.length_take]

theorem slice_edges (bins : Bins) (a b : Nat) (hab : a < b) (hb : b ≤ bins.length) :
    firstEdge? (List.drop a (List.take b bins)) = some (bins[a]'(by omega)).1 ∧
    lastEdge? (List.drop a (List.take b bins)) = some (bins[b - 1]'(by omega)).2 := by
  unfold firstEdge? lastEdge?
  constructor
  · rw [List.head?_drop, List.getElem?_take, if_pos hab, List.getElem?_eq_getElem (by omega)]
    rfl
  · rw [List.getLast?_eq_getElem?, List.getElem?_drop]
    simp only [List.length_drop, List.length_take]
    rw [List.getElem?_take, if_pos (by omega), show a + (min b bins.length - a - 1) = b - 1 by omega,
      List.getElem?_eq_getElem (by omega)]
    rfl

open H1 in
theorem sliceList_eq {α} (l : List α) (start stop : Option Int) :
    sliceList l start stop =
      List.drop (sliceBounds l.length start stop).1 (List.take (sliceBounds l.length start stop).2 l) := by
  unfold sliceList
  exact pySlice_eq_drop_take l _ _

open H1 in
theorem sliceBounds_snd_le (n : Nat) (start stop : Option Int) : (sliceBounds n start stop).2 ≤ n := by
  rw [sliceBounds_eq]
  cases stop with
  | none => exact Nat.le_refl _
  | some s => exact normIdx_le n s

open H1 in
/-- **C2 (the model's `h[start:stop]`)**: Python slices of a binning (negative and out-of-range
    bounds normalised by `sliceBounds`) stay rising / consecutive, the bin count is `b - a`, the
    first / last edge are those of the first / last kept bin. -/
theorem sliceList_binning (bins : Bins) (start stop : Option Int) :
    (Rising bins → Rising (sliceList bins start stop)) ∧
    (consecutiveB bins = true → consecutiveB (sliceList bins start stop) = true) ∧
    (sliceList bins start stop).length
      = (sliceBounds bins.length start stop).2 - (sliceBounds bins.length start stop).1 ∧
    (∀ (hab : (sliceBounds bins.length start stop).1 < (sliceBounds bins.length start stop).2),
      firstEdge? (sliceList bins start stop)
        = some (bins[(sliceBounds bins.length start stop).1]'(by
            have := sliceBounds_snd_le bins.length start stop; omega)).1 ∧
      lastEdge? (sliceList bins start stop)
        = some (bins[(sliceBounds bins.length start stop).2 - 1]'(by
            have := sliceBounds_snd_le bins.length start stop; omega)).2) := by
  have hle := sliceBounds_snd_le bins.length start stop
  rw [sliceList_eq]
  refine ⟨slice_rising bins _ _, slice_consecutive bins _ _, ?_, fun hab => slice_edges bins _ _ hab hle⟩
  rw [slice_length]; omega

/-! ### `==` and `copy()` -/

/-- two consecutive binnings with the same numpy edges are the same binning -/
theorem binsToEdges_injective (b₁ b₂ : Bins) (h₁ : consecutiveB b₁ = true) (h₂ : consecutiveB b₂ = true)
    (h : binsToEdges b₁ = binsToEdges b₂) : b₁ = b₂ := by
  rw [← edgesToBins_binsToEdges b₁ h₁, ← edgesToBins_binsToEdges b₂ h₂, h]

/-- two rising binnings with the same masked-edge representation are the same binning -/
theorem maskedEdges_injective (b₁ b₂ : Bins) (h₁ : Rising b₁) (h₂ : Rising b₂)
    (h : maskedEdges b₁ = maskedEdges b₂) : b₁ = b₂ := by
  rw [← (pairsOfMasked_maskedEdges b₁ h₁).1, ← (pairsOfMasked_maskedEdges b₂ h₂).1, h]

/-- `copy()` keeps the binning (with or without the contents) -/
theorem copy_binning (fo : FloatOps) (h : H1) (withFreq : Bool) :
    (h.copy withFreq).binning = h.binning ∧ (h.copy withFreq).bins fo = h.bins fo := by
  unfold H1.copy
  cases withFreq <;> exact ⟨rfl, rfl⟩

/-! ### C3. regular bins, integer bins -/

/-- **C3 (is_regular).**  All bins of an exact fixed-width grid have the width `w`. -/
theorem binsFrom_exact_width (w s : Rat) (t : Int) (n : Nat) :
    ∀ b ∈ Grid.binsFrom (FloatOps.exact.edge w s) t n, b.2 - b.1 = w := by
  intro b hb
  unfold Grid.binsFrom at hb
  obtain ⟨i, _, rfl⟩ := List.mem_map.mp hb
  simp only [FloatOps.exact]
  push_cast
  ring

theorem grid_bins_width (g : Grid) : ∀ b ∈ g.bins FloatOps.exact, b.2 - b.1 = g.w := by
  rw [Grid.bins_eq_binsFrom]
  exact binsFrom_exact_width g.w g.shift g.tmin g.count

/-- rising, consecutive, equal widths: the three flags of a fixed-width binning with `0 < w` -/
theorem grid_bins_regular' (g : Grid) (hw : 0 < g.w) :
    Rising (g.bins FloatOps.exact) ∧ consecutiveB (g.bins FloatOps.exact) = true ∧
    (∀ b ∈ g.bins FloatOps.exact, b.2 - b.1 = g.w) ∧ (g.bins FloatOps.exact).length = g.count := by
  refine ⟨(grid_bins_regular g).resolve_right (fun h => h hw), ?_, grid_bins_width g, ?_⟩
  · rw [Grid.bins_eq_binsFrom]; exact Grid.binsFrom_consecutive _ _ _
  · rw [Grid.bins_eq_binsFrom]; exact Grid.binsFrom_length _ _ _

/-- **C3 (integer bins are centred on integers).**  `integer_binning` is a fixed-width binning with
    `bin_width = 1` and a half-integer shift (`bin_shift = 0.5` in physt; `j + 1/2` here covers
    `0.5` and `-0.5`).  Bin number `i` of the grid starting at cell `t` has width 1 and its centre
    is the integer `t + i + j + 1`. -/
theorem integer_bins_centred (j t : Int) (n i : Nat) (hi : i < n) :
    ∃ l r, (Grid.binsFrom (FloatOps.exact.edge 1 ((j : Rat) + 1 / 2)) t n)[i]? = some (l, r) ∧
      r - l = 1 ∧ (l + r) / 2 = ((t + (i : Int) + j + 1 : Int) : Rat) := by
  refine ⟨_, _, Grid.binsFrom_getElem? _ t n i hi, ?_, ?_⟩
  · simp only [FloatOps.exact]; push_cast; ring
  · simp only [FloatOps.exact]; push_cast; ring

/-- **C3 (every integer lies in the bin centred on it).**  For an integer `v` whose cell
    `v - j - 1` is inside the grid: that bin `[v - 1/2, v + 1/2)` has centre `v`, contains `v`
    (under both right-edge conventions) and it is the cell that `floor((v - shift) / 1)` finds. -/
theorem integer_in_centred_bin (j t : Int) (n : Nat) (v : Int) (h1 : t ≤ v - j - 1)
    (h2 : v - j - 1 < t + n) (closeLast : Bool) :
    ∃ l r, (Grid.binsFrom (FloatOps.exact.edge 1 ((j : Rat) + 1 / 2)) t n)[(v - j - 1 - t).toNat]?
        = some (l, r) ∧
      (l + r) / 2 = (v : Rat) ∧ l = (v : Rat) - 1 / 2 ∧ r = (v : Rat) + 1 / 2 ∧
      inBin (Grid.binsFrom (FloatOps.exact.edge 1 ((j : Rat) + 1 / 2)) t n) closeLast
        (v - j - 1 - t).toNat (v : Rat) = true ∧
      FloatOps.exact.est 1 ((j : Rat) + 1 / 2) (v : Rat) = v - j - 1 := by
  have hi : (v - j - 1 - t).toNat < n := by omega
  have hk : t + ((v - j - 1 - t).toNat : Int) = v - j - 1 := by omega
  have hget := Grid.binsFrom_getElem? (FloatOps.exact.edge 1 ((j : Rat) + 1 / 2)) t n _ hi
  rw [hk] at hget
  have hl : FloatOps.exact.edge 1 ((j : Rat) + 1 / 2) (v - j - 1) = (v : Rat) - 1 / 2 := by
    simp only [FloatOps.exact]; push_cast; ring
  have hr : FloatOps.exact.edge 1 ((j : Rat) + 1 / 2) (v - j - 1 + 1) = (v : Rat) + 1 / 2 := by
    simp only [FloatOps.exact]; push_cast; ring
  rw [hl, hr] at hget
  refine ⟨_, _, hget, by ring, rfl, rfl, ?_, ?_⟩
  · unfold inBin
    rw [hget]
    simp
  · show ⌊((v : Rat) - ((j : Rat) + 1 / 2)) / 1⌋ = v - j - 1
    rw [Int.floor_eq_iff]
    constructor
    · push_cast; linarith
    · push_cast; linarith

/-- physt's `integer_binning` (`bin_width = 1`, `bin_shift = 0.5`): bin `i` from cell `t` is
    `[t + i + 1/2, t + i + 3/2)` with the integer centre `t + i + 1` -/
theorem integer_binning_shift_half (t : Int) (n i : Nat) (hi : i < n) :
    ∃ l r, (Grid.binsFrom (FloatOps.exact.edge 1 (1 / 2)) t n)[i]? = some (l, r) ∧
      r - l = 1 ∧ (l + r) / 2 = ((t + (i : Int) + 1 : Int) : Rat) := by
  have h := integer_bins_centred 0 t n i hi
  have e : ((0 : Int) : Rat) + 1 / 2 = 1 / 2 := by norm_num
  rw [e] at h
  simpa using h

/-- the same grid written with shift `-1/2`: bin `i` from cell `t` has the integer centre `t + i` -/
theorem integer_binning_shift_neg_half (t : Int) (n i : Nat) (hi : i < n) :
    ∃ l r, (Grid.binsFrom (FloatOps.exact.edge 1 (-1 / 2)) t n)[i]? = some (l, r) ∧
      r - l = 1 ∧ (l + r) / 2 = ((t + (i : Int) : Int) : Rat) := by
  have h := integer_bins_centred (-1) t n i hi
  have e : (((-1 : Int)) : Rat) + 1 / 2 = -1 / 2 := by norm_num
  rw [e] at h
  simpa using h

/-! ## D. Exponential bins form a geometric sequence (over `ℝ`)

`ExponentialBinning(log_min, log_width, bin_count)` has the edges
`np.logspace(log_min, log_min + bin_count * log_width, bin_count + 1)`, i.e.
`10 ^ (log_min + k * log_width)`, `k = 0 … bin_count`; `exponential_binning` takes
`log_min = log10 a`, `log_width = (log10 b - log10 a) / bin_count` for the range `(a, b)`. -/

/-- edge number `k` of an exponential binning, in exact real arithmetic -/
noncomputable def expEdge (logMin lw : ℝ) (k : ℕ) : ℝ := (10 : ℝ) ^ (logMin + (k : ℝ) * lw)

/-- the `n + 1` edges of an exponential binning with `n` bins -/
noncomputable def expEdges (logMin lw : ℝ) (n : ℕ) : List ℝ := (List.range (n + 1)).map (expEdge logMin lw)

theorem expEdge_pos (logMin lw : ℝ) (k : ℕ) : 0 < expEdge logMin lw k :=
  Real.rpow_pos_of_pos (by norm_num) _

/-- **D (geometric sequence).**  Every edge is the previous one times the constant `10 ^ lw`. -/
theorem expEdge_succ (logMin lw : ℝ) (k : ℕ) :
    expEdge logMin lw (k + 1) = expEdge logMin lw k * (10 : ℝ) ^ lw := by
  unfold expEdge
  rw [← Real.rpow_add (by norm_num)]
  congr 1
  push_cast
  ring

/-- **D (constant ratio).** -/
theorem expEdge_ratio (logMin lw : ℝ) (k : ℕ) :
    expEdge logMin lw (k + 1) / expEdge logMin lw k = (10 : ℝ) ^ lw := by
  rw [expEdge_succ, mul_div_assoc, mul_comm, div_mul_cancel₀]
  exact ne_of_gt (expEdge_pos logMin lw k)

/-- **D (closed form `a · rᵏ`).** -/
theorem expEdge_eq (logMin lw : ℝ) (k : ℕ) :
    expEdge logMin lw k = (10 : ℝ) ^ logMin * ((10 : ℝ) ^ lw) ^ k := by
  induction k with
  | zero => simp [expEdge]
  | succ k ih => rw [expEdge_succ, ih, pow_succ]; ring

theorem expEdge_lt_iff (logMin lw : ℝ) (hlw : 0 < lw) (i j : ℕ) :
    expEdge logMin lw i < expEdge logMin lw j ↔ i < j := by
  unfold expEdge
  rw [Real.rpow_lt_rpow_left_iff (by norm_num)]
  constructor
  · intro h
    have : (i : ℝ) * lw < (j : ℝ) * lw := by linarith
    have := lt_of_mul_lt_mul_right this (le_of_lt hlw)
    exact_mod_cast this
  · intro h
    have : (i : ℝ) < (j : ℝ) := by exact_mod_cast h
    nlinarith

/-- **D (strictly increasing iff `0 < log_width`).** -/
theorem expEdge_strictMono_iff (logMin lw : ℝ) : StrictMono (expEdge logMin lw) ↔ 0 < lw := by
  constructor
  · intro h
    have h01 := h (show (0 : ℕ) < 1 by norm_num)
    unfold expEdge at h01
    rw [Real.rpow_lt_rpow_left_iff (by norm_num)] at h01
    simpa using h01
  · intro hlw i j hij
    exact (expEdge_lt_iff logMin lw hlw i j).mpr hij

/-- **D (first and last edge).** -/
theorem expEdge_first_last (logMin lw : ℝ) (n : ℕ) :
    expEdge logMin lw 0 = (10 : ℝ) ^ logMin ∧
    expEdge logMin lw n = (10 : ℝ) ^ (logMin + (n : ℝ) * lw) ∧
    (expEdges logMin lw n).head? = some ((10 : ℝ) ^ logMin) ∧
    (expEdges logMin lw n).getLast? = some ((10 : ℝ) ^ (logMin + (n : ℝ) * lw)) ∧
    (expEdges logMin lw n).length = n + 1 := by
  refine ⟨by simp [expEdge], rfl, ?_, ?_, by simp [expEdges]⟩
  · simp [expEdges, List.head?_map, List.head?_range, expEdge]
  · simp [expEdges, List.getLast?_map, List.getLast?_range, expEdge]

/-- the edge list is strictly increasing (the bins rise) and positive when `0 < log_width` -/
theorem expEdges_rising (logMin lw : ℝ) (hlw : 0 < lw) (n : ℕ) :
    (expEdges logMin lw n).Pairwise (· < ·) ∧ ∀ e ∈ expEdges logMin lw n, 0 < e := by
  constructor
  · unfold expEdges
    rw [List.pairwise_map]
    exact List.Pairwise.imp (fun h => (expEdge_lt_iff logMin lw hlw _ _).mpr h) List.pairwise_lt_range
  · intro e he
    obtain ⟨k, _, rfl⟩ := List.mem_map.mp he
    exact expEdge_pos _ _ _

/-- **D (`exponential_binning` over a range).**  With `log_min = log10 a` and
    `log_width = (log10 b - log10 a) / n` for `0 < a < b`, `0 < n`: the width is positive, the first
    edge is exactly `a`, the last exactly `b` (in exact arithmetic; the implementation's doubles
    agree up to rounding of `log10` and `10 ** x`), and every value `a ≤ v < b` lies in exactly the
    bin `k = ⌊(log10 v - log_min) / log_width⌋ < n`. -/
theorem expEdge_range (a b : ℝ) (ha : 0 < a) (hab : a < b) (n : ℕ) (hn : 0 < n) :
    0 < (Real.logb 10 b - Real.logb 10 a) / n ∧
    expEdge (Real.logb 10 a) ((Real.logb 10 b - Real.logb 10 a) / n) 0 = a ∧
    expEdge (Real.logb 10 a) ((Real.logb 10 b - Real.logb 10 a) / n) n = b ∧
    ∀ v, a ≤ v → v < b →
      ⌊(Real.logb 10 v - Real.logb 10 a) / ((Real.logb 10 b - Real.logb 10 a) / n)⌋₊ < n ∧
      expEdge (Real.logb 10 a) ((Real.logb 10 b - Real.logb 10 a) / n)
        ⌊(Real.logb 10 v - Real.logb 10 a) / ((Real.logb 10 b - Real.logb 10 a) / n)⌋₊ ≤ v ∧
      v < expEdge (Real.logb 10 a) ((Real.logb 10 b - Real.logb 10 a) / n)
        (⌊(Real.logb 10 v - Real.logb 10 a) / ((Real.logb 10 b - Real.logb 10 a) / n)⌋₊ + 1) := by
  have hb : 0 < b := lt_trans ha hab
  have hn' : (0 : ℝ) < n := by exact_mod_cast hn
  have hlog : Real.logb 10 a < Real.logb 10 b := Real.logb_lt_logb (by norm_num) ha hab
  have hlw : 0 < (Real.logb 10 b - Real.logb 10 a) / n := div_pos (by linarith) hn'
  have h10 : (0 : ℝ) < 10 := by norm_num
  have h10' : (10 : ℝ) ≠ 1 := by norm_num
  refine ⟨hlw, ?_, ?_, ?_⟩
  · unfold expEdge
    rw [Nat.cast_zero, zero_mul, add_zero, Real.rpow_logb h10 h10' ha]
  · unfold expEdge
    rw [mul_div_cancel₀ _ (ne_of_gt hn'), add_sub_cancel, Real.rpow_logb h10 h10' hb]
  · intro v hav hvb
    have hv : 0 < v := lt_of_lt_of_le ha hav
    set lw := (Real.logb 10 b - Real.logb 10 a) / n with hlwdef
    set x := (Real.logb 10 v - Real.logb 10 a) / lw with hx
    have hx0 : 0 ≤ x :=
      div_nonneg (by have := (Real.logb_le_logb (b := 10) (by norm_num) ha hv).mpr hav; linarith)
        (le_of_lt hlw)
    have hxn : x < n := by
      rw [hx, div_lt_iff₀ hlw, hlwdef, mul_div_cancel₀ _ (ne_of_gt hn')]
      have := Real.logb_lt_logb (b := 10) (by norm_num) hv hvb
      linarith
    have hxv : Real.logb 10 a + x * lw = Real.logb 10 v := by
      rw [hx, div_mul_cancel₀ _ (ne_of_gt hlw)]; ring
    have hvpow : (10 : ℝ) ^ (Real.logb 10 a + x * lw) = v := by
      rw [hxv, Real.rpow_logb h10 h10' hv]
    refine ⟨(Nat.floor_lt hx0).mpr hxn, ?_, ?_⟩
    · rw [← hvpow]
      unfold expEdge
      rw [Real.rpow_le_rpow_left_iff (by norm_num)]
      have := Nat.floor_le hx0
      nlinarith
    · conv_lhs => rw [← hvpow]
      unfold expEdge
      rw [Real.rpow_lt_rpow_left_iff (by norm_num)]
      have := Nat.lt_floor_add_one x
      push_cast
      nlinarith

/-! ## Counterexamples: the side conditions are needed -/

/-- **`q` outside `[0, 1]`.**  Above 1 the `getD` fall-backs give the maximum as long as
    `⌊q (n-1)⌋ = n - 1` and the *first* element beyond (so the quantile is not monotone there and
    not `≥` the maximum); below 0 the model extrapolates below the minimum.  (numpy refuses such
    `q`; physt passes the user's `q` to `np.percentile`.) -/
theorem quantile_outside_unit_interval :
    quantile [1, 2, 4] 1 = some 4 ∧ quantile [1, 2, 4] (5 / 4) = some 4 ∧
    quantile [1, 2, 4] 2 = some 1 ∧ quantile [1, 2, 4] (-1) = some (-1) := by decide +kernel

/-- **unsorted input.**  `quantile` does not sort: on unsorted input it is neither monotone nor the
    median at `1/2`, nor does `0 ↦ minimum` hold. -/
theorem quantile_unsorted :
    quantile [3, 1, 2] 0 = some 3 ∧ quantile [3, 1, 2] (1 / 2) = some 1 ∧
    H1.medianOf [3, 1, 2] = some 2 := by decide +kernel

/-- **repeated data**: the quantile edges are only non-decreasing; equal neighbours are refused by
    `is_rising` -/
theorem quantile_edges_repeated :
    [0, 1 / 3, 1].map (quantile [1, 1, 1, 2]) = [some 1, some 1, some 2] ∧
    risingB (edgesToBins [1, 1, 2]) = false ∧
    [0, 1 / 2, 1].map (quantile [1, 2, 3]) = [some 1, some 2, some 3] ∧
    risingB (edgesToBins [1, 2, 3]) = true := by decide +kernel

/-! ## Examples (kernel-evaluated) -/

example : quantile [1, 2, 4, 8] (2 / 3) = some 4 ∧ quantile [1, 2, 4, 8] (1 / 2) = some 3 ∧
    quantile [1, 2, 4, 8] (7 / 10) = some (22 / 5) := by decide +kernel
example : floorNat (qpos [1, 2, 4, 8] (7 / 10)) = 2 := by decide +kernel
example : sortedVals [4, 1, 3, 2] = [1, 2, 3, 4] := by decide +kernel
example : H1.medianOf [4, 1, 3, 2] = quantile [1, 2, 3, 4] (1 / 2) := by decide +kernel
example : H1.medianOf [4, 1, 3, 2] = H1.medianOf [2, 3, 1, 4] := medianOf_perm _ _ (by decide)
example : ([4, 1, 3, 2] : List Rat).countP (fun v => decide (v ≤ 5 / 2)) = 2 := by decide +kernel
example : maskedEdges [(0, 1), (1, 2), (3, 4)] = ([0, 1, 2, 3, 4], [0, 1, 3]) := by decide +kernel
example : pairsOfMasked (maskedEdges [(0, 1), (1, 2), (3, 4)]) = [(0, 1), (1, 2), (3, 4)] := by
  decide +kernel
example : maskedEdges [(0, 1), (1, 2), (2, 4)] = (binsToEdges [(0, 1), (1, 2), (2, 4)], [0, 1, 2]) := by
  decide +kernel
example : H1.sliceList [((0 : Rat), (1 : Rat)), (1, 2), (3, 4), (4, 6)] (some 1) (some (-1))
    = [(1, 2), (3, 4)] := by decide +kernel
example : firstEdge? (H1.sliceList [((0 : Rat), (1 : Rat)), (1, 2), (3, 4), (4, 6)] (some 1) (some (-1)))
    = some 1 ∧
    lastEdge? (H1.sliceList [((0 : Rat), (1 : Rat)), (1, 2), (3, 4), (4, 6)] (some 1) (some (-1)))
    = some 4 := by decide +kernel
example : Grid.binsFrom (FloatOps.exact.edge 1 (1 / 2)) 2 3
    = [(5 / 2, 7 / 2), (7 / 2, 9 / 2), (9 / 2, 11 / 2)] := by decide +kernel
example : inBin (Grid.binsFrom (FloatOps.exact.edge 1 (1 / 2)) 2 3) false 1 4 = true := by
  decide +kernel
example : (match H1.construct FloatOps.exact (.static [(0, 2), (2, 4)] true) [some 3, none, some 1, some 2]
      none .i64 none true true with
    | .ok r => r.stats.median
    | .error _ => none) = some 2 := by decide +kernel
example : expEdge 0 1 2 = 100 := by
  unfold expEdge; norm_num
example : expEdges 0 1 2 = [1, 10, 100] := by
  simp [expEdges, List.range_succ, expEdge]; norm_num

end Physt

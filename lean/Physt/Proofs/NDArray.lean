import Physt.Model.NDArray
import Mathlib.Tactic.Ring
import Mathlib.Tactic.Linarith
/-! `ofFn` materialises a function on index tuples; `get` reads it back (row-major raveling). -/
namespace Physt

theorem flatMap_range_length {α} (f : Nat → List α) (m n : Nat) (hf : ∀ i, i < n → (f i).length = m) :
    ((List.range n).flatMap f).length = n * m := by
  induction n with
  | zero => simp
  | succ n ih =>
    rw [List.range_succ, List.flatMap_append, List.length_append, ih (fun i hi => hf i (by omega))]
    simp [hf n (by omega)]; ring

theorem flatMap_range_getElem? {α} (f : Nat → List α) (m n i r : Nat) (hf : ∀ i, i < n → (f i).length = m)
    (hi : i < n) (hr : r < m) : ((List.range n).flatMap f)[i * m + r]? = (f i)[r]? := by
  induction n with
  | zero => omega
  | succ n ih =>
    rw [List.range_succ, List.flatMap_append]
    have hlen := flatMap_range_length f m n (fun j hj => hf j (by omega))
    by_cases hin : i < n
    · have : i * m + r < n * m := by
        have : (i + 1) * m ≤ n * m := Nat.mul_le_mul_right m hin
        nlinarith
      rw [List.getElem?_append_left (by rw [hlen]; exact this)]
      exact ih (fun j hj => hf j (by omega)) hin
    · have : i = n := by omega
      subst this
      rw [List.getElem?_append_right (by rw [hlen]; omega)]
      simp [hlen]

theorem allIdx_length (shape : List Nat) : (allIdx shape).length = prodL shape := by
  induction shape with
  | nil => rfl
  | cons n rest ih =>
    unfold allIdx prodL
    rw [flatMap_range_length _ (prodL rest) n (fun i _ => by simp [ih])]

theorem ravel_lt (shape idx : List Nat) (h : validIdx shape idx = true) : ravel shape idx < prodL shape := by
  induction shape generalizing idx with
  | nil => cases idx <;> simp_all [validIdx, ravel, prodL]
  | cons n rest ih =>
    cases idx with
    | nil => simp [validIdx] at h
    | cons i is =>
      simp only [validIdx, Bool.and_eq_true, decide_eq_true_eq] at h
      have := ih is h.2
      simp only [ravel, prodL]
      have : (i + 1) * prodL rest ≤ n * prodL rest := Nat.mul_le_mul_right _ h.1
      nlinarith

theorem allIdx_getElem? (shape idx : List Nat) (h : validIdx shape idx = true) :
    (allIdx shape)[ravel shape idx]? = some idx := by
  induction shape generalizing idx with
  | nil => cases idx <;> simp_all [validIdx, ravel, allIdx]
  | cons n rest ih =>
    cases idx with
    | nil => simp [validIdx] at h
    | cons i is =>
      simp only [validIdx, Bool.and_eq_true, decide_eq_true_eq] at h
      unfold allIdx ravel
      rw [flatMap_range_getElem? _ (prodL rest) n i (ravel rest is) (fun j _ => by simp [allIdx_length]) h.1
        (ravel_lt rest is h.2)]
      simp [List.getElem?_map, ih is h.2]

/-- **Reading back a materialised function**: for every valid index, `(ofFn shape g).get idx = g idx`. -/
theorem Arr.get_ofFn (shape : List Nat) (g : List Nat → Rat) (idx : List Nat) (h : validIdx shape idx = true) :
    (Arr.ofFn shape g).get idx = g idx := by
  unfold Arr.get Arr.ofFn
  simp only [h, if_true, List.getElem?_map, allIdx_getElem? shape idx h, Option.map_some, Option.getD_some]

theorem Arr.get_invalid (a : Arr) (idx : List Nat) (h : validIdx a.shape idx = false) : a.get idx = 0 := by
  unfold Arr.get; simp [h]

/-- the total of an array built from a function is the sum of the function over all indices -/
theorem Arr.total_ofFn (shape : List Nat) (g : List Nat → Rat) :
    (Arr.ofFn shape g).total = ((allIdx shape).map g).sum := rfl

theorem validIdx_length (shape idx : List Nat) (h : validIdx shape idx = true) : idx.length = shape.length := by
  induction shape generalizing idx with
  | nil => cases idx <;> simp_all [validIdx]
  | cons n rest ih =>
    cases idx with
    | nil => simp [validIdx] at h
    | cons i is => simp only [validIdx, Bool.and_eq_true] at h; simp [ih is h.2]

end Physt

import Physt.Proofs.PathsND
import Physt.Theorems.C09
import Physt.Theorems.C10
/-!
# Laws of the N-d array primitive `Arr.gather` (every shape, every number of axes)

* `Arr.ext_get` — well-shaped arrays with the same shape and the same `get` are equal;
* `sum_allIdx_split` — a sum over all index tuples is a sum over the tuples of the other axes of
  the sums along one axis;
* `Arr.total_gather` — conservation for `gather`; instances `sumAxis`, `sumAxes`, `mergeAxis`,
  `shiftAxis`, `HN.projection`;
* `Arr.sumAxis_comm`, `Arr.sumAxes_steps` — summing axes commutes / projecting in steps = once;
* selection (`selectInt`, `selectSlice`), `cumsum` ends at the marginal;
* `mergeBinsAux` on `amountMap`: merged bins reach from the run's first left to its last right edge.
-/
namespace Physt

/-- the parent index tuple: `k` inserted at position `axis` (this is literally the expression used
    by `Arr.squeeze`) -/
def insAt (idx : List Nat) (axis k : Nat) : List Nat := idx.take axis ++ [k] ++ idx.drop axis

/-- as many stored entries as the shape has cells -/
def Arr.WellShaped (a : Arr) : Prop := a.data.length = prodL a.shape

instance (a : Arr) : Decidable a.WellShaped := by unfold Arr.WellShaped; infer_instance

theorem Arr.HasShape.wellShaped {a : Arr} {s : List Nat} (h : a.HasShape s) : a.WellShaped := by
  unfold Arr.WellShaped; rw [h.1]; exact h.2

theorem Arr.wellShaped_ofFn (shape : List Nat) (g : List Nat → Rat) : (Arr.ofFn shape g).WellShaped :=
  (Arr.hasShape_ofFn shape g).wellShaped

/-! ## index tuples -/

@[simp] theorem insAt_zero (idx : List Nat) (k : Nat) : insAt idx 0 k = k :: idx := by simp [insAt]
@[simp] theorem insAt_succ_cons (i : Nat) (is : List Nat) (ax k : Nat) :
    insAt (i :: is) (ax + 1) k = i :: insAt is ax k := by simp [insAt]
@[simp] theorem insAt_succ_nil (ax k : Nat) : insAt [] (ax + 1) k = [k] := by simp [insAt]

theorem insAt_eq_insertIdx (idx : List Nat) (axis k : Nat) (h : axis ≤ idx.length) :
    insAt idx axis k = idx.insertIdx axis k := by
  induction axis generalizing idx with
  | zero => simp
  | succ ax ih =>
    cases idx with
    | nil => simp at h
    | cons i is => simp [ih is (by simpa using h)]

theorem insAt_getElem? (idx : List Nat) (axis k : Nat) (h : axis ≤ idx.length) :
    (insAt idx axis k)[axis]? = some k := by
  induction axis generalizing idx with
  | zero => simp
  | succ ax ih =>
    cases idx with
    | nil => simp at h
    | cons i is => simpa using ih is (by simpa using h)

theorem setAt_insAt (idx : List Nat) (axis j k : Nat) (h : axis ≤ idx.length) :
    Arr.setAt (insAt idx axis j) axis k = insAt idx axis k := by
  induction axis generalizing idx with
  | zero => simp [Arr.setAt]
  | succ ax ih =>
    cases idx with
    | nil => simp at h
    | cons i is =>
      have := ih is (by simpa using h)
      simp only [Arr.setAt] at this
      simp [Arr.setAt, this]

theorem allIdx_valid (shape idx : List Nat) (h : idx ∈ allIdx shape) : validIdx shape idx = true := by
  induction shape generalizing idx with
  | nil => simp [allIdx] at h; subst h; rfl
  | cons n rest ih =>
    simp only [allIdx, List.mem_flatMap, List.mem_range, List.mem_map] at h
    obtain ⟨i, hi, is, his, rfl⟩ := h
    simp [validIdx, hi, ih is his]

/-- validity of the parent tuple = validity of the projected tuple and of the inserted coordinate -/
theorem validIdx_insAt (shape idx : List Nat) (axis k : Nat) (hax : axis < shape.length) :
    validIdx shape (insAt idx axis k) = true ↔
      (validIdx (Arr.removeAt shape axis) idx = true ∧ k < shape[axis]?.getD 0) := by
  induction axis generalizing shape idx with
  | zero =>
    cases shape with
    | nil => simp at hax
    | cons n rest => simp [validIdx, Arr.removeAt, and_comm]
  | succ ax ih =>
    cases shape with
    | nil => simp at hax
    | cons n rest =>
      have hax' : ax < rest.length := by simpa using hax
      cases idx with
      | nil =>
        cases rest with
        | nil => simp at hax'
        | cons m rest' => simp [validIdx, Arr.removeAt]
      | cons i is =>
        have := ih rest is hax'
        simp only [Arr.removeAt] at this
        simp [validIdx, Arr.removeAt, this, and_assoc]

/-! ## extensionality -/

theorem Arr.ofFn_congr_valid (shape : List Nat) (g1 g2 : List Nat → Rat)
    (h : ∀ i, validIdx shape i = true → g1 i = g2 i) : Arr.ofFn shape g1 = Arr.ofFn shape g2 := by
  unfold Arr.ofFn
  congr 1
  apply List.map_congr_left
  intro i hi
  exact h i (allIdx_valid shape i hi)

/-- a well-shaped array is the materialisation of its own `get` -/
theorem Arr.eq_ofFn_get (a : Arr) (hw : a.WellShaped) : a = Arr.ofFn a.shape a.get := by
  obtain ⟨sh, d⟩ := a
  unfold Arr.WellShaped at hw
  simp only at hw
  simp only [Arr.ofFn, Arr.mk.injEq, true_and]
  apply List.ext_getElem?
  intro p
  rw [List.getElem?_map]
  by_cases hp : p < d.length
  · obtain ⟨idx, e1, e2, e3⟩ := allIdx_unravel sh p (by omega)
    rw [e1]
    simp [Arr.get, e2, e3, List.getElem?_eq_getElem hp]
  · have hp' : (allIdx sh).length ≤ p := by rw [allIdx_length]; omega
    simp [List.getElem?_eq_none (Nat.le_of_not_lt hp), List.getElem?_eq_none hp']

/-- **Extensionality**: two well-shaped arrays of the same shape with the same entry at every
    valid index are equal. -/
theorem Arr.ext_get (a b : Arr) (ha : a.WellShaped) (hb : b.WellShaped) (hs : a.shape = b.shape)
    (h : ∀ idx, validIdx a.shape idx = true → a.get idx = b.get idx) : a = b := by
  rw [Arr.eq_ofFn_get a ha, Arr.eq_ofFn_get b hb, ← hs]
  exact Arr.ofFn_congr_valid _ _ _ h

/-! ## sums over all index tuples -/

theorem sum_map_comm {α β} (l1 : List α) (l2 : List β) (f : α → β → Rat) :
    (l1.map fun x => (l2.map fun y => f x y).sum).sum = (l2.map fun y => (l1.map fun x => f x y).sum).sum := by
  induction l1 with
  | nil => simp
  | cons x xs ih => simp only [List.map_cons, List.sum_cons, ih, sum_map_add]

theorem sum_flatMap_map {α β} (l : List α) (s : α → List β) (f : β → Rat) :
    ((l.flatMap s).map f).sum = (l.map fun j => ((s j).map f).sum).sum := by
  induction l with
  | nil => simp
  | cons x xs ih => simp [List.flatMap_cons, ih]

/-- **Fubini along one axis**: the sum over all index tuples is the sum, over the tuples of the
    other axes, of the sums along `axis`. -/
theorem sum_allIdx_split (shape : List Nat) (axis : Nat) (hax : axis < shape.length) (g : List Nat → Rat) :
    ((allIdx shape).map g).sum
      = ((allIdx (Arr.removeAt shape axis)).map fun js =>
          ((List.range (shape[axis]?.getD 0)).map fun k => g (insAt js axis k)).sum).sum := by
  induction axis generalizing shape g with
  | zero =>
    cases shape with
    | nil => simp at hax
    | cons n rest =>
      simp only [allIdx, Arr.removeAt, List.eraseIdx_cons_zero, List.getElem?_cons_zero, Option.getD_some,
        insAt_zero]
      rw [sum_flatMap_map]
      simp only [List.map_map, Function.comp_def]
      exact sum_map_comm _ _ _
  | succ ax ih =>
    cases shape with
    | nil => simp at hax
    | cons n rest =>
      have hax' : ax < rest.length := by simpa using hax
      simp only [allIdx, Arr.removeAt, List.eraseIdx_cons_succ, List.getElem?_cons_succ]
      rw [sum_flatMap_map, sum_flatMap_map]
      simp only [List.map_map, Function.comp_def, insAt_succ_cons]
      congr 1
      apply List.map_congr_left
      intro i _
      have := ih rest hax' (fun is => g (i :: is))
      simp only [Arr.removeAt] at this
      exact this

/-- the total of a well-shaped array is the sum of its entries over all index tuples -/
theorem Arr.total_eq_sum_get (a : Arr) (hw : a.WellShaped) : a.total = ((allIdx a.shape).map a.get).sum := by
  conv => lhs; rw [Arr.eq_ofFn_get a hw]
  rfl

/-! ## conservation for `gather` -/

theorem sum_map_filter_of_zero (L : List Nat) (p : Nat → Bool) (f : Nat → Rat) (h : ∀ k, p k = false → f k = 0) :
    (L.map f).sum = ((L.filter p).map f).sum := by
  induction L with
  | nil => rfl
  | cons x xs ih =>
    by_cases hx : p x = true
    · simp [hx, ih]
    · have := h x (by simpa using hx)
      simp [hx, ih, this]

/-- a list of indices that contains every `k < n` exactly once (and anything else only where `f`
    vanishes) sums `f` like `range n` -/
theorem sum_map_of_count_one (L : List Nat) (n : Nat) (f : Nat → Rat) (h0 : ∀ k, n ≤ k → f k = 0)
    (h1 : ∀ k, k < n → L.count k = 1) : (L.map f).sum = ((List.range n).map f).sum := by
  rw [sum_map_filter_of_zero L (fun k => decide (k < n)) f (by intro k hk; exact h0 k (by simpa using hk))]
  have hp : (L.filter fun k => decide (k < n)).Perm (List.range n) := by
    rw [List.perm_iff_count]
    intro k
    rw [List.count_range]
    by_cases hk : k < n
    · rw [List.count_filter (by simpa using hk), h1 k hk, if_pos hk]
    · rw [if_neg hk, List.count_eq_zero]
      intro hm
      have := (List.mem_filter.mp hm).2
      simp [hk] at this
  exact (hp.map f).sum_eq

theorem Arr.get_insAt_of_ge (a : Arr) (js : List Nat) (axis k : Nat) (hax : axis < a.shape.length)
    (hk : a.shape[axis]?.getD 0 ≤ k) : a.get (insAt js axis k) = 0 := by
  apply Arr.get_invalid
  cases hv : validIdx a.shape (insAt js axis k) with
  | false => rfl
  | true =>
    have := ((validIdx_insAt a.shape js axis k hax).mp hv).2
    omega

theorem removeAt_setAt {α} (l : List α) (i : Nat) (x : α) : Arr.removeAt (Arr.setAt l i x) i = Arr.removeAt l i := by
  simp [Arr.removeAt, Arr.setAt, List.eraseIdx_set_eq]

theorem length_removeAt {α} (l : List α) (i : Nat) (h : i < l.length) : (Arr.removeAt l i).length = l.length - 1 := by
  simp [Arr.removeAt, List.length_eraseIdx, h]

theorem length_le_of_valid_removeAt (shape js : List Nat) (axis : Nat) (hax : axis < shape.length)
    (hv : validIdx (Arr.removeAt shape axis) js = true) : axis ≤ js.length := by
  rw [validIdx_length _ _ hv, length_removeAt _ _ hax]; omega

/-- the total of `gather`, written over the tuples of the other axes -/
theorem Arr.total_gather_eq (a : Arr) (axis newN : Nat) (src : Nat → List Nat) (hax : axis < a.shape.length) :
    (a.gather axis newN src).total
      = ((allIdx (Arr.removeAt a.shape axis)).map fun js =>
          ((((List.range newN).flatMap src).map fun k => a.get (insAt js axis k)).sum)).sum := by
  unfold Arr.gather
  rw [Arr.total_ofFn, sum_allIdx_split _ axis (by simpa [Arr.setAt] using hax), removeAt_setAt]
  apply congrArg List.sum
  apply List.map_congr_left
  intro js hjs
  have hlen := length_le_of_valid_removeAt a.shape js axis hax (allIdx_valid _ _ hjs)
  have hN : (Arr.setAt a.shape axis newN)[axis]?.getD 0 = newN := by simp [Arr.setAt, hax]
  rw [hN, sum_flatMap_map]
  apply congrArg List.sum
  apply List.map_congr_left
  intro j _
  rw [insAt_getElem? js axis j hlen]
  simp only [Option.getD_some, setAt_insAt js axis j _ hlen]

/-- **Conservation for the array primitive.**  If every old position `k` of the axis occurs in
    exactly one `src j` (`j < newN`), exactly once, the total is unchanged.  (Entries of `src j`
    beyond the old axis length read as `0` and are harmless.) -/
theorem Arr.total_gather (a : Arr) (hw : a.WellShaped) (axis newN : Nat) (src : Nat → List Nat)
    (hax : axis < a.shape.length)
    (hsrc : ∀ k, k < a.shape[axis]?.getD 0 → ((List.range newN).flatMap src).count k = 1) :
    (a.gather axis newN src).total = a.total := by
  rw [Arr.total_gather_eq a axis newN src hax, Arr.total_eq_sum_get a hw, sum_allIdx_split a.shape axis hax]
  apply congrArg List.sum
  apply List.map_congr_left
  intro js _
  exact sum_map_of_count_one _ _ _ (fun k hk => Arr.get_insAt_of_ge a js axis k hax hk) hsrc

/-- the other axes keep their lengths: only entry `axis` of the shape changes -/
theorem Arr.shape_gather (a : Arr) (axis newN : Nat) (src : Nat → List Nat) :
    (a.gather axis newN src).shape = Arr.setAt a.shape axis newN := rfl

theorem Arr.wellShaped_gather (a : Arr) (axis newN : Nat) (src : Nat → List Nat) :
    (a.gather axis newN src).WellShaped := Arr.wellShaped_ofFn _ _

/-- dropping an axis of length 1 keeps the total -/
theorem Arr.total_squeeze (b : Arr) (hw : b.WellShaped) (axis : Nat) (hax : axis < b.shape.length)
    (h1 : b.shape[axis]? = some 1) : (b.squeeze axis).total = b.total := by
  rw [Arr.total_eq_sum_get b hw, sum_allIdx_split b.shape axis hax, h1]
  unfold Arr.squeeze
  rw [Arr.total_ofFn]
  simp [insAt]

theorem Arr.shape_sumAxis (a : Arr) (axis : Nat) : (a.sumAxis axis).shape = Arr.removeAt a.shape axis := by
  unfold Arr.sumAxis Arr.squeeze
  simp only [Arr.ofFn, Arr.shape_gather, removeAt_setAt]

theorem Arr.wellShaped_sumAxis (a : Arr) (axis : Nat) : (a.sumAxis axis).WellShaped := Arr.wellShaped_ofFn _ _

/-- **Summing over an axis keeps the total.** -/
theorem Arr.total_sumAxis (a : Arr) (hw : a.WellShaped) (axis : Nat) (hax : axis < a.shape.length) :
    (a.sumAxis axis).total = a.total := by
  unfold Arr.sumAxis
  rw [Arr.total_squeeze _ (Arr.wellShaped_gather _ _ _ _) axis (by simpa [Arr.shape_gather, Arr.setAt] using hax)
    (by simp [Arr.shape_gather, Arr.setAt, hax])]
  apply Arr.total_gather a hw axis 1 _ hax
  intro k hk
  simp [List.count_range, hk]

theorem Arr.wellShaped_sumAxes (a : Arr) (hw : a.WellShaped) (l : List Nat) : (a.sumAxes l).WellShaped := by
  unfold Arr.sumAxes
  induction l generalizing a with
  | nil => exact hw
  | cons x xs ih => exact ih _ (Arr.wellShaped_sumAxis a x)

/-- **Summing over several axes keeps the total** (axes in strictly decreasing order, all valid). -/
theorem Arr.total_sumAxes (a : Arr) (hw : a.WellShaped) (l : List Nat) (hd : l.Pairwise (· > ·))
    (hl : ∀ x ∈ l, x < a.shape.length) : (a.sumAxes l).total = a.total := by
  unfold Arr.sumAxes
  induction l generalizing a with
  | nil => rfl
  | cons x xs ih =>
    have hx := hl x (List.mem_cons_self ..)
    rw [List.foldl_cons, ih (a.sumAxis x) (Arr.wellShaped_sumAxis a x) (List.pairwise_cons.mp hd).2]
    · exact Arr.total_sumAxis a hw x hx
    · intro y hy
      have := (List.pairwise_cons.mp hd).1 y hy
      rw [Arr.shape_sumAxis, length_removeAt _ _ hx]
      omega

/-! ## instances: `mergeAxis` (merge_bins, C10 in N dimensions) and `shiftAxis` (adaptive growth) -/

theorem sum_range_zero (N : Nat) (f : Nat → Nat) (h : ∀ j, j < N → f j = 0) : ((List.range N).map f).sum = 0 := by
  induction N with
  | zero => rfl
  | succ N ih =>
    rw [List.range_succ, List.map_append, List.sum_append, ih (fun j hj => h j (by omega))]
    simp [h N (by omega)]

theorem sum_range_single (N j0 : Nat) (f : Nat → Nat) (hj : j0 < N) (h : ∀ j, j < N → j ≠ j0 → f j = 0) :
    ((List.range N).map f).sum = f j0 := by
  induction N with
  | zero => omega
  | succ N ih =>
    rw [List.range_succ, List.map_append, List.sum_append]
    by_cases e : j0 = N
    · subst e
      rw [sum_range_zero j0 f (fun j hj' => h j (by omega) (by omega))]
      simp
    · rw [ih (by omega) (fun j hj' hne => h j (by omega) hne)]
      simp [h N (by omega) (fun e' => e e'.symm)]

/-- **merge_bins keeps the total, on any axis of an array with any number of axes**: the bin map
    sends every old bin of the axis to one of the `newN` new bins. -/
theorem Arr.total_mergeAxis (a : Arr) (hw : a.WellShaped) (axis : Nat) (map : List Nat) (newN : Nat)
    (hax : axis < a.shape.length) (hl : a.shape[axis]?.getD 0 ≤ map.length)
    (hm : ∀ k j, k < a.shape[axis]?.getD 0 → map[k]? = some j → j < newN) :
    (a.mergeAxis axis map newN).total = a.total := by
  unfold Arr.mergeAxis
  apply Arr.total_gather a hw axis newN _ hax
  intro k hk
  have hkl : k < map.length := by omega
  have hmk : map[k]? = some map[k] := List.getElem?_eq_getElem hkl
  rw [List.count_flatMap, sum_range_single newN map[k] _ (hm k _ hk hmk)]
  · simp only [Function.comp]
    rw [List.count_filter (by simp [hmk]), List.count_range, if_pos hkl]
  · intro j _ hne
    simp only [Function.comp]
    rw [List.count_eq_zero]
    intro hmem
    have := (List.mem_filter.mp hmem).2
    rw [hmk] at this
    simp at this
    exact hne this.symm

/-- the form used by `merge_bins`: the map has one entry per old bin, each below `newN` -/
theorem Arr.total_mergeAxis' (a : Arr) (hw : a.WellShaped) (axis : Nat) (map : List Nat) (newN : Nat)
    (hax : axis < a.shape.length) (hl : map.length = a.shape[axis]?.getD 0) (hm : ∀ j ∈ map, j < newN) :
    (a.mergeAxis axis map newN).total = a.total :=
  Arr.total_mergeAxis a hw axis map newN hax (by omega) (fun _ _ _ h => hm _ (List.mem_of_getElem? h))

/-- the other axes are unchanged by a merge: only entry `axis` of the shape changes -/
theorem Arr.shape_mergeAxis (a : Arr) (axis : Nat) (map : List Nat) (newN : Nat) :
    (a.mergeAxis axis map newN).shape = Arr.setAt a.shape axis newN := rfl

/-- **adaptive growth keeps the total**: shifting the old contents `k` cells up along an axis that
    grows to `newN ≥ k + old` cells. -/
theorem Arr.total_shiftAxis (a : Arr) (hw : a.WellShaped) (axis k newN : Nat) (hax : axis < a.shape.length)
    (hn : k + a.shape[axis]?.getD 0 ≤ newN) : (a.shiftAxis axis k newN).total = a.total := by
  unfold Arr.shiftAxis
  apply Arr.total_gather a hw axis newN _ hax
  intro k' hk'
  rw [List.count_flatMap, sum_range_single newN (k' + k) _ (by omega)]
  · simp [Function.comp, hk']
  · intro j _ hne
    simp only [Function.comp]
    split
    · rename_i hc
      have : ¬ k' = j - k := by omega
      rw [List.count_eq_zero]
      simpa using this
    · exact List.count_nil

theorem Arr.shape_shiftAxis (a : Arr) (axis k newN : Nat) :
    (a.shiftAxis axis k newN).shape = Arr.setAt a.shape axis newN := rfl

/-! ## `HN.projection` keeps the totals -/

/-- the axes `projection` sums over: those below `n` that are not kept, in decreasing order -/
def dropList (n : Nat) (keep : Nat → Bool) : List Nat := ((List.range n).filter fun i => !keep i).reverse

theorem dropList_desc (n : Nat) (keep : Nat → Bool) : (dropList n keep).Pairwise (· > ·) := by
  unfold dropList
  rw [List.pairwise_reverse]
  exact filter_range_sorted _ _

theorem dropList_lt (n : Nat) (keep : Nat → Bool) : ∀ x ∈ dropList n keep, x < n := by
  intro x hx
  unfold dropList at hx
  exact List.mem_range.mp (List.mem_filter.mp (List.mem_reverse.mp hx)).1

/-- what `projection` does to the arrays: it sums over the axes that are not selected -/
theorem HN.projection_arrays (h r : HN) (axes : List (Sum Int String)) (hr : h.projection axes = .ok r) :
    ∃ ax, axes.mapM h.getAxis = .ok ax ∧
      r.freq = h.freq.sumAxes (dropList h.axes.length fun i => ax.contains i) ∧
      r.err2 = h.err2.sumAxes (dropList h.axes.length fun i => ax.contains i) ∧
      r.axes = ((List.range h.axes.length).filter fun i => ax.contains i).filterMap (h.axes[·]?) := by
  unfold HN.projection at hr
  simp only [bind, Except.bind, pure, Except.pure, throw, throwThe, MonadExceptOf.throw] at hr
  cases hm : axes.mapM h.getAxis with
  | error e => rw [hm] at hr; cases hr
  | ok ax =>
    rw [hm] at hr
    simp only at hr
    by_cases h1 : ax.isEmpty = true
    · simp [h1] at hr
    · by_cases h2 : (ax.eraseDups.length != ax.length) = true
      · simp [h1, h2] at hr
      · simp only [h1, h2, if_false, Bool.false_eq_true] at hr
        cases hr
        exact ⟨ax, rfl, rfl, rfl, rfl⟩

/-- **The projection has the parent's total** (contents and squared errors), for a histogram whose
    arrays are well-shaped with one array axis per binning. -/
theorem HN.projection_total (h r : HN) (axes : List (Sum Int String))
    (hf : h.freq.WellShaped) (he : h.err2.WellShaped)
    (hfs : h.freq.shape.length = h.axes.length) (hes : h.err2.shape.length = h.axes.length)
    (hr : h.projection axes = .ok r) :
    r.freq.total = h.freq.total ∧ r.err2.total = h.err2.total := by
  obtain ⟨ax, _, e1, e2, _⟩ := HN.projection_arrays h r axes hr
  rw [e1, e2]
  exact ⟨Arr.total_sumAxes _ hf _ (dropList_desc _ _) (by rw [hfs]; exact dropList_lt _ _),
    Arr.total_sumAxes _ he _ (dropList_desc _ _) (by rw [hes]; exact dropList_lt _ _)⟩

/-! ## summing two axes commutes -/

/-- **Marginal, entry by entry**: entry `idx` of `a.sum(axis)` is the sum over all `k` of the
    parent entries with `k` inserted at `axis` (a restatement of `C09_marginal` with its two index
    side conditions discharged). -/
theorem Arr.get_sumAxis (a : Arr) (axis : Nat) (idx : List Nat) (hax : axis < a.shape.length)
    (hv : validIdx (Arr.removeAt a.shape axis) idx = true) :
    (a.sumAxis axis).get idx
      = ((List.range (a.shape[axis]?.getD 0)).map fun k => a.get (insAt idx axis k)).sum := by
  have hlen := length_le_of_valid_removeAt a.shape idx axis hax hv
  have hax1 : axis < (Arr.setAt a.shape axis 1).length := by simpa [Arr.setAt] using hax
  have h2 : validIdx (Arr.setAt a.shape axis 1) (idx.take axis ++ [0] ++ idx.drop axis) = true := by
    show validIdx (Arr.setAt a.shape axis 1) (insAt idx axis 0) = true
    rw [validIdx_insAt _ _ _ _ hax1, removeAt_setAt]
    exact ⟨hv, by simp [Arr.setAt, hax]⟩
  rw [C09_marginal a axis idx (by rw [removeAt_setAt]; exact hv) h2]
  apply congrArg List.sum
  apply List.map_congr_left
  intro k _
  show a.get (Arr.setAt (insAt idx axis 0) axis k) = _
  rw [setAt_insAt idx axis 0 k hlen]

theorem eraseIdx_eraseIdx_of_le {α} (l : List α) (i j : Nat) (h : i ≤ j) :
    (l.eraseIdx (j + 1)).eraseIdx i = (l.eraseIdx i).eraseIdx j := by
  induction i generalizing l j with
  | zero => cases l <;> simp
  | succ i ih =>
    cases l with
    | nil => simp
    | cons x xs =>
      cases j with
      | zero => omega
      | succ j => simp [ih xs j (by omega)]

theorem insAt_comm (idx : List Nat) (i j k l : Nat) (hij : i ≤ j) (hj : j ≤ idx.length) :
    insAt (insAt idx i k) (j + 1) l = insAt (insAt idx j l) i k := by
  rw [insAt_eq_insertIdx idx i k (by omega), insAt_eq_insertIdx idx j l hj,
    insAt_eq_insertIdx _ (j + 1) l (by rw [List.length_insertIdx_of_le_length (by omega)]; omega),
    insAt_eq_insertIdx _ i k (by rw [List.length_insertIdx_of_le_length hj]; omega)]
  exact List.insertIdx_comm k l hij hj

/-- **Summing over two axes does not depend on the order** (`i ≤ j`: after axis `i` is gone, the
    old axis `j + 1` sits at position `j`).  Full equality of arrays; `a` need not be well-shaped. -/
theorem Arr.sumAxis_comm (a : Arr) (i j : Nat) (hij : i ≤ j) (hj : j + 1 < a.shape.length) :
    (a.sumAxis (j + 1)).sumAxis i = (a.sumAxis i).sumAxis j := by
  have hs : ((a.sumAxis (j + 1)).sumAxis i).shape = ((a.sumAxis i).sumAxis j).shape := by
    simp only [Arr.shape_sumAxis, Arr.removeAt]
    exact eraseIdx_eraseIdx_of_le _ _ _ hij
  apply Arr.ext_get _ _ (Arr.wellShaped_sumAxis _ _) (Arr.wellShaped_sumAxis _ _) hs
  intro idx hv
  have hv1 : validIdx (Arr.removeAt (Arr.removeAt a.shape (j + 1)) i) idx = true := by
    simpa only [Arr.shape_sumAxis] using hv
  have hv2 : validIdx (Arr.removeAt (Arr.removeAt a.shape i) j) idx = true := by
    rw [hs] at hv; simpa only [Arr.shape_sumAxis] using hv
  have hl1 : (Arr.removeAt a.shape (j + 1)).length = a.shape.length - 1 := length_removeAt _ _ hj
  have hl2 : (Arr.removeAt a.shape i).length = a.shape.length - 1 := length_removeAt _ _ (by omega)
  have hi1 : i < (Arr.removeAt a.shape (j + 1)).length := by omega
  have hj2 : j < (Arr.removeAt a.shape i).length := by omega
  have hlen : idx.length = a.shape.length - 1 - 1 := by
    rw [validIdx_length _ _ hv1, length_removeAt _ _ hi1, hl1]
  have e1 : (Arr.removeAt a.shape (j + 1))[i]? = a.shape[i]? := by
    simp only [Arr.removeAt]; exact List.getElem?_eraseIdx_of_lt (by omega)
  have e2 : (Arr.removeAt a.shape i)[j]? = a.shape[j + 1]? := by
    simp only [Arr.removeAt]; exact List.getElem?_eraseIdx_of_ge hij
  rw [Arr.get_sumAxis _ i idx (by rw [Arr.shape_sumAxis]; exact hi1) (by rw [Arr.shape_sumAxis]; exact hv1),
    Arr.get_sumAxis _ j idx (by rw [Arr.shape_sumAxis]; exact hj2) (by rw [Arr.shape_sumAxis]; exact hv2)]
  simp only [Arr.shape_sumAxis, e1, e2]
  have hL : ((List.range (a.shape[i]?.getD 0)).map fun k => (a.sumAxis (j + 1)).get (insAt idx i k))
      = (List.range (a.shape[i]?.getD 0)).map fun k =>
          ((List.range (a.shape[j + 1]?.getD 0)).map fun l => a.get (insAt (insAt idx i k) (j + 1) l)).sum := by
    apply List.map_congr_left
    intro k hk
    apply Arr.get_sumAxis a (j + 1) _ hj
    rw [← validIdx_insAt _ idx i k hi1 |>.mpr ⟨hv1, by rw [e1]; exact List.mem_range.mp hk⟩]
  have hR : ((List.range (a.shape[j + 1]?.getD 0)).map fun l => (a.sumAxis i).get (insAt idx j l))
      = (List.range (a.shape[j + 1]?.getD 0)).map fun l =>
          ((List.range (a.shape[i]?.getD 0)).map fun k => a.get (insAt (insAt idx j l) i k)).sum := by
    apply List.map_congr_left
    intro l hl
    apply Arr.get_sumAxis a i _ (by omega)
    rw [← validIdx_insAt _ idx j l hj2 |>.mpr ⟨hv2, by rw [e2]; exact List.mem_range.mp hl⟩]
  rw [hL, hR, sum_map_comm]
  apply congrArg List.sum
  apply List.map_congr_left
  intro l _
  apply congrArg List.sum
  apply List.map_congr_left
  intro k _
  rw [insAt_comm idx i j k l hij (by omega)]

/-- the same, in the form "for `i < j`, `sum(j)` then `sum(i)` = `sum(i)` then `sum(j - 1)`" -/
theorem Arr.sumAxis_comm' (a : Arr) (i j : Nat) (hij : i < j) (hj : j < a.shape.length) :
    (a.sumAxis j).sumAxis i = (a.sumAxis i).sumAxis (j - 1) := by
  obtain ⟨j', rfl⟩ : ∃ j', j = j' + 1 := ⟨j - 1, by omega⟩
  exact Arr.sumAxis_comm a i j' (by omega) hj

/-! ## projecting in steps = projecting once -/

theorem Arr.sumAxes_cons (a : Arr) (x : Nat) (xs : List Nat) : a.sumAxes (x :: xs) = (a.sumAxis x).sumAxes xs := rfl

theorem Arr.sumAxes_append (a : Arr) (l1 l2 : List Nat) : a.sumAxes (l1 ++ l2) = (a.sumAxes l1).sumAxes l2 := by
  simp [Arr.sumAxes, List.foldl_append]

theorem Arr.shape_length_sumAxis (a : Arr) (axis : Nat) (hax : axis < a.shape.length) :
    (a.sumAxis axis).shape.length = a.shape.length - 1 := by
  rw [Arr.shape_sumAxis, length_removeAt _ _ hax]

/-- summing a later axis `j` commutes with summing a decreasing list of earlier axes: afterwards
    the old axis `j` sits `l.length` places further left -/
theorem Arr.sumAxes_sumAxis_comm (a : Arr) (l : List Nat) (j : Nat) (hd : l.Pairwise (· > ·))
    (hl : ∀ x ∈ l, x < j) (hj : j < a.shape.length) :
    (a.sumAxes l).sumAxis (j - l.length) = (a.sumAxis j).sumAxes l := by
  induction l generalizing a j with
  | nil => rfl
  | cons x xs ih =>
    have hx : x < j := hl x (List.mem_cons_self ..)
    have hp := List.pairwise_cons.mp hd
    rw [Arr.sumAxes_cons, Arr.sumAxes_cons, Arr.sumAxis_comm' a x j hx hj]
    have := ih (a.sumAxis x) (j - 1) hp.2 (fun y hy => by have := hp.1 y hy; omega)
      (by rw [Arr.shape_length_sumAxis a x (by omega)]; omega)
    rw [← this]
    congr 1
    simp only [List.length_cons]
    omega

/-- number of kept axes among the first `m` -/
def keptBelow (keep : Nat → Bool) (m : Nat) : Nat := ((List.range m).filter keep).length

/-- keeping `k1` of the parent's axes and then `k2` of the result's axes keeps parent axis `i` iff
    `k1` keeps it and `k2` keeps the position it has in the intermediate result -/
def composeKeep (k1 k2 : Nat → Bool) : Nat → Bool := fun i => k1 i && k2 (keptBelow k1 i)

theorem dropList_succ (m : Nat) (keep : Nat → Bool) :
    dropList (m + 1) keep = (if keep m then [] else [m]) ++ dropList m keep := by
  unfold dropList
  rw [List.range_succ, List.filter_append, List.reverse_append]
  cases h : keep m <;> simp [h]

theorem keptBelow_succ (keep : Nat → Bool) (m : Nat) :
    keptBelow keep (m + 1) = keptBelow keep m + (if keep m then 1 else 0) := by
  unfold keptBelow
  rw [List.range_succ, List.filter_append, List.length_append]
  cases h : keep m <;> simp [h]

theorem length_filter_add_not {α} (l : List α) (p : α → Bool) :
    (l.filter p).length + (l.filter fun x => !p x).length = l.length := by
  induction l with
  | nil => rfl
  | cons x xs ih => cases h : p x <;> simp [h] <;> omega

theorem keptBelow_eq (keep : Nat → Bool) (m : Nat) : keptBelow keep m = m - (dropList m keep).length := by
  have := length_filter_add_not (List.range m) keep
  simp only [List.length_range] at this
  simp only [keptBelow, dropList, List.length_reverse]
  omega

/-- **Projecting in steps = projecting once** (array level, any number of axes).  Summing away
    the axes below `m` not kept by `k1`, and then, of the result, the axes not kept by `k2`, is
    summing away once the axes not kept by the composition. -/
theorem Arr.sumAxes_steps (a : Arr) (k1 k2 : Nat → Bool) (m : Nat) (hm : m ≤ a.shape.length) :
    (a.sumAxes (dropList m k1)).sumAxes (dropList (keptBelow k1 m) k2)
      = a.sumAxes (dropList m (composeKeep k1 k2)) := by
  induction m generalizing a with
  | zero => rfl
  | succ m ih =>
    rw [dropList_succ m k1, dropList_succ m (composeKeep k1 k2), keptBelow_succ]
    have hlen : (a.sumAxis m).shape.length = a.shape.length - 1 := Arr.shape_length_sumAxis a m (by omega)
    cases h1 : k1 m with
    | false =>
      simp only [composeKeep, h1, Bool.false_and, Bool.false_eq_true, if_false, Nat.add_zero, List.singleton_append,
        Arr.sumAxes_cons]
      exact ih (a.sumAxis m) (by omega)
    | true =>
      cases h2 : k2 (keptBelow k1 m) with
      | true =>
        simp only [composeKeep, h1, h2, Bool.and_self, if_true, List.nil_append, dropList_succ]
        exact ih a (by omega)
      | false =>
        simp only [composeKeep, h1, h2, Bool.and_false, Bool.false_eq_true, if_true, if_false, List.nil_append,
          dropList_succ, List.singleton_append, Arr.sumAxes_cons]
        rw [keptBelow_eq k1 m, Arr.sumAxes_sumAxis_comm a (dropList m k1) m (dropList_desc _ _) (dropList_lt _ _)
          (by omega), ← keptBelow_eq]
        exact ih (a.sumAxis m) (by omega)

theorem dropList_congr (n : Nat) (k k' : Nat → Bool) (h : ∀ i, i < n → k i = k' i) : dropList n k = dropList n k' := by
  unfold dropList
  congr 1
  apply List.filter_congr
  intro i hi
  rw [h i (List.mem_range.mp hi)]

theorem length_filterMap_getElem? {α} (l : List α) (is : List Nat) (h : ∀ i ∈ is, i < l.length) :
    (is.filterMap (l[·]?)).length = is.length := by
  induction is with
  | nil => rfl
  | cons i is ih =>
    have hi := h i (List.mem_cons_self ..)
    simp [List.getElem?_eq_getElem hi, ih (fun j hj => h j (List.mem_cons_of_mem _ hj))]

/-- **Projecting in steps equals projecting once onto the final axes** (`HN.projection`).  If `h`
    is projected onto `axes1` (resolved to positions `ax1`) and the result onto `axes2` (positions
    `ax2` *in the result*), then the projection of `h` onto any axis list whose positions `ax` are
    exactly the composition — parent axis `i` is in `ax` iff it is in `ax1` and its position among
    the kept axes is in `ax2` — has the same contents and squared errors. -/
theorem HN.projection_steps (h r1 r2 r : HN) (axes1 axes2 axes : List (Sum Int String))
    (hfs : h.axes.length ≤ h.freq.shape.length) (hes : h.axes.length ≤ h.err2.shape.length)
    (h1 : h.projection axes1 = .ok r1) (h2 : r1.projection axes2 = .ok r2) (h3 : h.projection axes = .ok r) :
    ∃ ax1 ax2 ax, axes1.mapM h.getAxis = .ok ax1 ∧ axes2.mapM r1.getAxis = .ok ax2 ∧
      axes.mapM h.getAxis = .ok ax ∧
      ((∀ i, i < h.axes.length →
          ax.contains i = composeKeep (fun i => ax1.contains i) (fun i => ax2.contains i) i) →
        r.freq = r2.freq ∧ r.err2 = r2.err2) := by
  obtain ⟨ax1, m1, f1, e1, a1⟩ := HN.projection_arrays h r1 axes1 h1
  obtain ⟨ax2, m2, f2, e2, _⟩ := HN.projection_arrays r1 r2 axes2 h2
  obtain ⟨ax, m3, f3, e3, _⟩ := HN.projection_arrays h r axes h3
  refine ⟨ax1, ax2, ax, m1, m2, m3, ?_⟩
  intro hc
  have hn : r1.axes.length = keptBelow (fun i => ax1.contains i) h.axes.length := by
    rw [a1, length_filterMap_getElem?]
    · rfl
    · intro i hi
      exact List.mem_range.mp (List.mem_filter.mp hi).1
  rw [f3, e3, f2, e2, f1, e1, hn, dropList_congr _ _ _ hc, Arr.sumAxes_steps _ _ _ _ hfs,
    Arr.sumAxes_steps _ _ _ _ hes]
  exact ⟨rfl, rfl⟩

/-! ## selection along one axis of an N-d array (C11, ND part) -/

theorem Arr.shape_squeeze (b : Arr) (axis : Nat) : (b.squeeze axis).shape = Arr.removeAt b.shape axis := rfl

/-- an integer index removes its axis from the shape -/
theorem Arr.shape_selectInt (a : Arr) (axis i : Nat) : (a.selectInt axis i).shape = Arr.removeAt a.shape axis := by
  unfold Arr.selectInt
  rw [Arr.shape_squeeze, Arr.shape_gather, removeAt_setAt]

/-- **`a[..., i, ...]`**: the entries are the parent entries with `i` inserted at `axis`. -/
theorem Arr.get_selectInt (a : Arr) (axis i : Nat) (idx : List Nat) (hax : axis < a.shape.length)
    (hv : validIdx (Arr.removeAt a.shape axis) idx = true) :
    (a.selectInt axis i).get idx = a.get (idx.take axis ++ [i] ++ idx.drop axis) := by
  have hlen := length_le_of_valid_removeAt a.shape idx axis hax hv
  have hax1 : axis < (Arr.setAt a.shape axis 1).length := by simpa [Arr.setAt] using hax
  have h2 : validIdx (Arr.setAt a.shape axis 1) (insAt idx axis 0) = true := by
    rw [validIdx_insAt _ _ _ _ hax1, removeAt_setAt]
    exact ⟨hv, by simp [Arr.setAt, hax]⟩
  unfold Arr.selectInt Arr.squeeze
  rw [Arr.get_ofFn _ _ _ (by rw [Arr.shape_gather, removeAt_setAt]; exact hv)]
  show (a.gather axis 1 fun _ => [i]).get (insAt idx axis 0) = a.get (insAt idx axis i)
  rw [C09_gather _ _ _ _ _ h2]
  simp [setAt_insAt idx axis 0 i hlen]

/-- a slice sets the length of its axis to `hi - lo`; the other axes are unchanged -/
theorem Arr.shape_selectSlice (a : Arr) (axis lo hi : Nat) :
    (a.selectSlice axis lo hi).shape = Arr.setAt a.shape axis (hi - lo) := rfl

/-- **`a[..., lo:hi, ...]`**: entry `j` along `axis` is parent entry `lo + j`. -/
theorem Arr.get_selectSlice (a : Arr) (axis lo hi : Nat) (idx : List Nat)
    (hv : validIdx (Arr.setAt a.shape axis (hi - lo)) idx = true) :
    (a.selectSlice axis lo hi).get idx = a.get (Arr.setAt idx axis (lo + idx[axis]?.getD 0)) := by
  unfold Arr.selectSlice
  rw [C09_gather _ _ _ _ _ hv]
  simp

/-- in terms of the tuple of the other axes -/
theorem Arr.get_selectSlice_insAt (a : Arr) (axis lo hi j : Nat) (js : List Nat) (hax : axis < a.shape.length)
    (hv : validIdx (Arr.removeAt a.shape axis) js = true) (hj : j < hi - lo) :
    (a.selectSlice axis lo hi).get (insAt js axis j) = a.get (insAt js axis (lo + j)) := by
  have hlen := length_le_of_valid_removeAt a.shape js axis hax hv
  have hax1 : axis < (Arr.setAt a.shape axis (hi - lo)).length := by simpa [Arr.setAt] using hax
  rw [Arr.get_selectSlice a axis lo hi _ (by
    rw [validIdx_insAt _ _ _ _ hax1, removeAt_setAt]
    exact ⟨hv, by simpa [Arr.setAt, hax] using hj⟩)]
  rw [insAt_getElem? js axis j hlen, Option.getD_some, setAt_insAt js axis j _ hlen]

/-- **slicing then summing = partial sums**: the marginal of the slice `lo:hi` over its own axis is
    the sum of the parent entries `lo ≤ k < hi` -/
theorem Arr.get_sumAxis_selectSlice (a : Arr) (axis lo hi : Nat) (js : List Nat) (hax : axis < a.shape.length)
    (hv : validIdx (Arr.removeAt a.shape axis) js = true) :
    ((a.selectSlice axis lo hi).sumAxis axis).get js
      = ((List.range (hi - lo)).map fun k => a.get (insAt js axis (lo + k))).sum := by
  have hax1 : axis < (a.selectSlice axis lo hi).shape.length := by
    simpa [Arr.shape_selectSlice, Arr.setAt] using hax
  rw [Arr.get_sumAxis _ axis js hax1 (by rw [Arr.shape_selectSlice, removeAt_setAt]; exact hv)]
  have hN : (a.selectSlice axis lo hi).shape[axis]?.getD 0 = hi - lo := by
    simp [Arr.shape_selectSlice, Arr.setAt, hax]
  rw [hN]
  apply congrArg List.sum
  apply List.map_congr_left
  intro k hk
  exact Arr.get_selectSlice_insAt a axis lo hi k js hax hv (List.mem_range.mp hk)

/-! ## `cumsum` along one axis ends at the marginal (C09 accumulate, C16) -/

theorem setAt_getD_self (l : List Nat) (i : Nat) : Arr.setAt l i (l[i]?.getD 0) = l := by
  unfold Arr.setAt
  apply List.ext_getElem?
  intro j
  rw [List.getElem?_set]
  by_cases hij : i = j
  · subst hij
    by_cases hi : i < l.length
    · simp [hi]
    · simp [hi]
  · simp [hij]

/-- `cumsum` keeps the shape -/
theorem Arr.shape_cumsum (a : Arr) (axis : Nat) : (a.cumsum axis).shape = a.shape := by
  unfold Arr.cumsum
  rw [Arr.shape_gather, setAt_getD_self]

/-- entry `j` of the cumulative sum along `axis` is the sum of the parent entries `0..j` -/
theorem Arr.get_cumsum_insAt (a : Arr) (axis j : Nat) (js : List Nat) (hax : axis < a.shape.length)
    (hv : validIdx (Arr.removeAt a.shape axis) js = true) (hj : j < a.shape[axis]?.getD 0) :
    (a.cumsum axis).get (insAt js axis j)
      = ((List.range (j + 1)).map fun k => a.get (insAt js axis k)).sum := by
  have hlen := length_le_of_valid_removeAt a.shape js axis hax hv
  rw [C09_accumulate a axis _ (by
    rw [setAt_getD_self, validIdx_insAt _ _ _ _ hax]
    exact ⟨hv, hj⟩)]
  rw [insAt_getElem? js axis j hlen, Option.getD_some]
  apply congrArg List.sum
  apply List.map_congr_left
  intro k _
  rw [setAt_insAt js axis j k hlen]

/-- **The cumulative sum ends at the marginal**: the last entry (`n - 1`) of `cumsum` along `axis`
    is the entry of `sum(axis)` (also for an axis of length 0, where both sides are 0). -/
theorem Arr.cumsum_last (a : Arr) (axis : Nat) (js : List Nat) (hax : axis < a.shape.length)
    (hv : validIdx (Arr.removeAt a.shape axis) js = true) :
    (a.cumsum axis).get (insAt js axis (a.shape[axis]?.getD 0 - 1)) = (a.sumAxis axis).get js := by
  rw [Arr.get_sumAxis a axis js hax hv]
  by_cases hn : a.shape[axis]?.getD 0 = 0
  · rw [hn]
    apply Arr.get_invalid
    cases hc : validIdx (a.cumsum axis).shape (insAt js axis (0 - 1)) with
    | false => rfl
    | true =>
      rw [Arr.shape_cumsum] at hc
      have := ((validIdx_insAt a.shape js axis _ hax).mp hc).2
      omega
  · rw [Arr.get_cumsum_insAt a axis _ js hax hv (by omega)]
    congr 3
    omega

/-! ## merged bins reach from the run's first left edge to its last right edge (C10) -/

/-- bin `k` of a list of bins (`(0, 0)` beyond the end; never read there below) -/
def binAt (bins : Bins) (k : Nat) : Bin := bins[k]?.getD (0, 0)

/-- what `merge_bins(amount)` must produce: `⌈n / amount⌉` bins, the `j`-th reaching from the left
    edge of old bin `j * amount` to the right edge of old bin `min ((j + 1) * amount) n - 1` -/
def mergedBins (bins : Bins) (amount : Nat) : Bins :=
  (List.range ((bins.length + amount - 1) / amount)).map fun j =>
    ((binAt bins (j * amount)).1, (binAt bins (min ((j + 1) * amount) bins.length - 1)).2)

/-- adjacent bins of one run of `amount` bins meet (no gap inside a run) -/
def RunsMeet (bins : Bins) (amount : Nat) : Prop :=
  ∀ k, k + 1 < bins.length → k / amount = (k + 1) / amount → (binAt bins k).2 = (binAt bins (k + 1)).1

theorem binAt_eq (bins : Bins) (k : Nat) (h : k < bins.length) : binAt bins k = bins[k] := by
  simp [binAt, List.getElem?_eq_getElem h]

theorem mergedBins_length (bins : Bins) (amount : Nat) :
    (mergedBins bins amount).length = (bins.length + amount - 1) / amount := by
  simp [mergedBins]

theorem ceilDiv_eq (n a : Nat) (hn : 0 < n) (ha : 0 < a) : (n + a - 1) / a = (n - 1) / a + 1 := by
  have : n + a - 1 = (n - 1) + a := by omega
  rw [this, Nat.add_div_right _ ha]

theorem mergeBinsAux_amount_aux (bins : Bins) (amount : Nat) (ha : 0 < amount) (hc : RunsMeet bins amount) :
    ∀ d p, 0 < p → p + d = bins.length →
      H1.mergeBinsAux ((bins.zip (H1.amountMap bins.length amount)).drop p)
        (some (((binAt bins ((p - 1) / amount * amount)).1, (binAt bins (p - 1)).2), (p - 1) / amount))
      = .ok ((mergedBins bins amount).drop ((p - 1) / amount)) := by
  have hZ : (bins.zip (H1.amountMap bins.length amount)).length = bins.length := by
    simp [H1.amountMap]
  intro d
  induction d with
  | zero =>
    intro p hp hpd
    have hpn : p = bins.length := by omega
    subst hpn
    rw [List.drop_eq_nil_of_le (by omega), H1.mergeBinsAux]
    have hN := ceilDiv_eq bins.length amount hp ha
    have hlt := Nat.lt_mul_div_succ (bins.length - 1) ha
    have hmin : min (((bins.length - 1) / amount + 1) * amount) bins.length = bins.length := by
      rw [Nat.mul_comm]; omega
    unfold mergedBins
    rw [hN, List.range_succ, List.map_append, List.drop_left' (by simp)]
    simp [hmin, pure, Except.pure]
  | succ d ih =>
    intro p hp hpd
    have hpn : p < bins.length := by omega
    rw [List.drop_eq_getElem_cons (by omega)]
    have hz : (bins.zip (H1.amountMap bins.length amount))[p]'(by omega) = (binAt bins p, p / amount) := by
      rw [List.getElem_zip, binAt_eq bins p hpn]
      simp [H1.amountMap]
    rw [hz, H1.mergeBinsAux]
    obtain ⟨q, rfl⟩ : ∃ q, p = q + 1 := ⟨p - 1, by omega⟩
    have ih' := ih (q + 1 + 1) (by omega) (by omega)
    simp only [Nat.add_sub_cancel] at ih' ⊢
    have hdiv := @Nat.succ_div q amount
    by_cases hd : amount ∣ q + 1
    · -- a new run starts at `q + 1`
      rw [if_pos hd] at hdiv
      have hne : ¬ (q + 1) / amount = q / amount := by omega
      have hmul : (q + 1) / amount * amount = q + 1 := Nat.div_mul_cancel hd
      rw [if_neg hne]
      rw [hmul] at ih'
      rw [show (binAt bins (q + 1)) = ((binAt bins (q + 1)).1, (binAt bins (q + 1)).2) from rfl, ih']
      have hqN : q / amount < (mergedBins bins amount).length := by
        rw [mergedBins_length, ceilDiv_eq bins.length amount (by omega) ha]
        have : (q + 1) / amount ≤ (bins.length - 1) / amount := Nat.div_le_div_right (by omega)
        omega
      rw [List.drop_eq_getElem_cons hqN, hdiv]
      have hmin : min ((q / amount + 1) * amount) bins.length - 1 = q := by
        rw [← hdiv, hmul]; omega
      simp [mergedBins, hmin, bind, Except.bind, pure, Except.pure]
    · -- the run continues
      rw [if_neg hd] at hdiv
      simp only [Nat.add_zero] at hdiv
      rw [if_pos hdiv, if_pos (hc q hpn hdiv.symm)]
      rw [hdiv] at ih'
      exact ih'

/-- **merge_bins(amount) on the bins.**  If the bins of each run of `amount` adjacent bins meet,
    the merge is accepted and produces exactly `mergedBins`: `⌈n / amount⌉` bins, new bin `j` reaching
    from the left edge of old bin `j * amount` to the right edge of old bin
    `min ((j + 1) * amount) n - 1`. -/
theorem mergeBinsAux_amount (bins : Bins) (amount : Nat) (ha : 0 < amount) (hc : RunsMeet bins amount) :
    H1.mergeBinsAux (bins.zip (H1.amountMap bins.length amount)) none = .ok (mergedBins bins amount) := by
  by_cases hn : bins.length = 0
  · have : bins = [] := List.eq_nil_of_length_eq_zero hn
    subst this
    simp [H1.mergeBinsAux, mergedBins, pure, Except.pure]
    exact Or.inr ha
  · have hZ : (bins.zip (H1.amountMap bins.length amount)).length = bins.length := by
      simp [H1.amountMap]
    have h0 := mergeBinsAux_amount_aux bins amount ha hc (bins.length - 1) 1 (by omega) (by omega)
    simp only [Nat.sub_self, Nat.zero_div, Nat.zero_mul, List.drop_zero] at h0
    have hcons := List.drop_eq_getElem_cons (l := bins.zip (H1.amountMap bins.length amount)) (i := 0) (by omega)
    rw [List.drop_zero] at hcons
    rw [hcons]
    have hz : (bins.zip (H1.amountMap bins.length amount))[0]'(by omega) = (binAt bins 0, 0) := by
      rw [List.getElem_zip, binAt_eq bins 0 (by omega)]
      simp [H1.amountMap]
    rw [hz, H1.mergeBinsAux]
    exact h0

theorem mergedBins_getElem? (bins : Bins) (amount j : Nat) (hj : j < (bins.length + amount - 1) / amount) :
    (mergedBins bins amount)[j]?
      = some ((binAt bins (j * amount)).1, (binAt bins (min ((j + 1) * amount) bins.length - 1)).2) := by
  simp [mergedBins, List.getElem?_map, List.getElem?_range hj]

theorem amountMap_lt (n amount : Nat) (ha : 0 < amount) : ∀ j ∈ H1.amountMap n amount, j < (n + amount - 1) / amount := by
  intro j hj
  simp only [H1.amountMap, List.mem_map, List.mem_range] at hj
  obtain ⟨k, hk, rfl⟩ := hj
  rw [ceilDiv_eq n amount (by omega) ha]
  have : k / amount ≤ (n - 1) / amount := Nat.div_le_div_right (by omega)
  omega

/-- **`merge_bins(amount)` of a 1-D histogram** whose runs have no inner gaps: accepted; the new
    bins are `mergedBins`; contents and squared errors are the run sums (`mergeVals`, see
    `C10_run_content`) and keep their totals. -/
theorem H1.mergeAmount_spec (fo : FloatOps) (h : H1) (amount : Nat) (ha : 0 < amount) (hpos : 0 < h.freq.length)
    (hlen : h.freq.length = (h.bins fo).length) (hc : RunsMeet (h.bins fo) amount) :
    ∃ r, h.mergeAmount fo amount = .ok r ∧
      r.bins fo = mergedBins (h.bins fo) amount ∧
      (r.bins fo).length = (h.freq.length + amount - 1) / amount ∧
      r.freq = H1.mergeVals h.freq (H1.amountMap h.freq.length amount) ((h.freq.length + amount - 1) / amount) ∧
      r.err2 = H1.mergeVals h.err2 (H1.amountMap h.freq.length amount) ((h.freq.length + amount - 1) / amount) ∧
      r.freq.sum = h.freq.sum ∧ (h.err2.length = h.freq.length → r.err2.sum = h.err2.sum) := by
  have hne : ¬ amount = 0 := by omega
  have hm := mergeBinsAux_amount (h.bins fo) amount ha hc
  rw [← hlen] at hm
  have hL : (mergedBins (h.bins fo) amount).length = (h.freq.length + amount - 1) / amount := by
    rw [mergedBins_length, hlen]
  have hrun : h.mergeAmount fo amount = .ok
      { h with
        binning := .static (mergedBins (h.bins fo) amount)
          (h.binning.ire && ((mergedBins (h.bins fo) amount).getLast?.map (·.2) == (h.bins fo).getLast?.map (·.2))),
        freq := H1.mergeVals h.freq (H1.amountMap h.freq.length amount) (mergedBins (h.bins fo) amount).length,
        err2 := H1.mergeVals h.err2 (H1.amountMap h.freq.length amount) (mergedBins (h.bins fo) amount).length } := by
    have hemp : (H1.amountMap h.freq.length amount).isEmpty = false := by
      cases hl : h.freq.length with
      | zero => omega
      | succ k => simp [H1.amountMap, List.range_succ_eq_map]
    unfold H1.mergeAmount H1.mergeWithMap
    simp only [bind, Except.bind, pure, Except.pure, hne, if_false, hm, hemp, Bool.false_eq_true]
  refine ⟨_, hrun, rfl, hL, ?_, ?_, ?_, ?_⟩
  · simp only [hL]
  · simp only [hL]
  · simp only [hL]
    exact C10_conserve _ _ _ (by simp [H1.amountMap]) (amountMap_lt _ _ ha)
  · intro he
    simp only [hL]
    exact C10_conserve _ _ _ (by simp [H1.amountMap, he]) (amountMap_lt _ _ ha)

/-- **`merge_bins(amount, axis=…)` of an N-d histogram**: on the chosen axis the new bins are
    `mergedBins`; the other axes, their shape entries and the missed count are unchanged; contents
    and squared errors are gathered by `Arr.mergeAxis` (entry by entry the run sums, `C09_gather`)
    and keep their totals. -/
theorem HN.mergeAxis_amount (fo : FloatOps) (h : HN) (axis amount : Nat) (thr : Option Rat) (bn : Binning)
    (ha : 0 < amount) (hbn : h.axes[axis]? = some bn) (hpos : 0 < (bn.bins fo).length)
    (hn : h.freq.shape[axis]?.getD 0 = (bn.bins fo).length) (hc : RunsMeet (bn.bins fo) amount) :
    ∃ r ire, h.mergeAxis fo axis (some amount) thr = .ok r ∧
      r.axes = h.axes.set axis (.static (mergedBins (bn.bins fo) amount) ire) ∧
      r.freq = h.freq.mergeAxis axis (H1.amountMap (bn.bins fo).length amount)
        (((bn.bins fo).length + amount - 1) / amount) ∧
      r.err2 = h.err2.mergeAxis axis (H1.amountMap (bn.bins fo).length amount)
        (((bn.bins fo).length + amount - 1) / amount) ∧
      r.freq.shape = Arr.setAt h.freq.shape axis (((bn.bins fo).length + amount - 1) / amount) ∧
      r.missed = h.missed ∧ r.names = h.names ∧
      (h.freq.WellShaped → axis < h.freq.shape.length → r.freq.total = h.freq.total) ∧
      (h.err2.WellShaped → h.err2.shape = h.freq.shape → axis < h.freq.shape.length →
        r.err2.total = h.err2.total) := by
  have hne : ¬ amount = 0 := by omega
  have hm := mergeBinsAux_amount (bn.bins fo) amount ha hc
  have hL := mergedBins_length (bn.bins fo) amount
  have hrun : h.mergeAxis fo axis (some amount) thr = .ok
      { h with
        axes := h.axes.set axis (.static (mergedBins (bn.bins fo) amount)
          (bn.ire && ((mergedBins (bn.bins fo) amount).getLast?.map (·.2) == (bn.bins fo).getLast?.map (·.2)))),
        freq := h.freq.mergeAxis axis (H1.amountMap (bn.bins fo).length amount) (mergedBins (bn.bins fo) amount).length,
        err2 := h.err2.mergeAxis axis (H1.amountMap (bn.bins fo).length amount) (mergedBins (bn.bins fo) amount).length } := by
    have hemp : (H1.amountMap (bn.bins fo).length amount).isEmpty = false := by
      cases hl : (bn.bins fo).length with
      | zero => omega
      | succ k => simp [H1.amountMap, List.range_succ_eq_map]
    unfold HN.mergeAxis HN.mergeAxisWithMap
    simp only [bind, Except.bind, pure, Except.pure, hne, if_false, hbn, hn, hm, hemp, Bool.false_eq_true]
  refine ⟨_, _, hrun, rfl, ?_, ?_, ?_, rfl, rfl, ?_, ?_⟩
  · simp only [hL]
  · simp only [hL]
  · simp only [hL]; rfl
  · intro hw hax
    simp only [hL]
    exact Arr.total_mergeAxis' _ hw axis _ _ hax (by simp [H1.amountMap, hn]) (amountMap_lt _ _ ha)
  · intro hw hs hax
    simp only [hL]
    exact Arr.total_mergeAxis' _ hw axis _ _ (by rw [hs]; exact hax) (by simp [H1.amountMap, hn, hs])
      (amountMap_lt _ _ ha)

/-! ## projecting in steps = projecting once: the whole histogram (bins, names, dtype, arrays) -/

/-- the entries of `A` at the kept positions below `m` -/
def keptOf {α} (A : List α) (keep : Nat → Bool) (m : Nat) : List α :=
  ((List.range m).filter keep).filterMap (A[·]?)

theorem keptOf_succ {α} (A : List α) (keep : Nat → Bool) (m : Nat) (hm : m < A.length) :
    keptOf A keep (m + 1) = keptOf A keep m ++ (if keep m then [A[m]] else []) := by
  unfold keptOf
  rw [List.range_succ, List.filter_append, List.filterMap_append]
  cases h : keep m <;> simp [h, List.getElem?_eq_getElem hm]

theorem keptOf_length {α} (A : List α) (keep : Nat → Bool) (m : Nat) (hm : m ≤ A.length) :
    (keptOf A keep m).length = keptBelow keep m := by
  unfold keptOf keptBelow
  apply length_filterMap_getElem?
  intro i hi
  have := List.mem_range.mp (List.mem_filter.mp hi).1
  omega

/-- selecting `k2` of the entries selected by `k1` = selecting by the composition -/
theorem keptOf_steps {α} (A : List α) (k1 k2 : Nat → Bool) (m : Nat) (hm : m ≤ A.length) :
    keptOf (keptOf A k1 m) k2 (keptBelow k1 m) = keptOf A (composeKeep k1 k2) m := by
  induction m with
  | zero => rfl
  | succ m ih =>
    have hm' : m < A.length := by omega
    have ih' := ih (by omega)
    have hBl := keptOf_length A k1 m (by omega)
    rw [keptOf_succ A (composeKeep k1 k2) m hm', keptBelow_succ, keptOf_succ A k1 m hm']
    cases h1 : k1 m with
    | false =>
      simp only [composeKeep, h1, Bool.false_and, Bool.false_eq_true, if_false, Nat.add_zero, List.append_nil]
      exact ih'
    | true =>
      simp only [if_true]
      have hlt : keptBelow k1 m < (keptOf A k1 m ++ [A[m]]).length := by simp [hBl]
      rw [keptOf_succ _ k2 _ hlt]
      have hfirst : keptOf (keptOf A k1 m ++ [A[m]]) k2 (keptBelow k1 m)
          = keptOf (keptOf A k1 m) k2 (keptBelow k1 m) := by
        unfold keptOf
        apply List.filterMap_congr
        intro p hp
        have hp' : p < keptBelow k1 m := List.mem_range.mp (List.mem_filter.mp hp).1
        rw [List.getElem?_append_left (by have := hBl; unfold keptOf at this; omega)]
      have hlast : (keptOf A k1 m ++ [A[m]])[keptBelow k1 m]'hlt = A[m] := by
        rw [List.getElem_append_right (by omega)]
        simp [hBl]
      rw [hfirst, ih', hlast]
      simp only [composeKeep, h1, Bool.true_and]

/-- `projection`, written out: the result in terms of the resolved axis positions -/
theorem HN.projection_eq (h r : HN) (axes : List (Sum Int String)) (hr : h.projection axes = .ok r) :
    ∃ ax, axes.mapM h.getAxis = .ok ax ∧
      r = { h with
        axes := keptOf h.axes (fun i => ax.contains i) h.axes.length,
        names := keptOf h.names (fun i => ax.contains i) h.axes.length,
        freq := h.freq.sumAxes (dropList h.axes.length fun i => ax.contains i),
        err2 := h.err2.sumAxes (dropList h.axes.length fun i => ax.contains i),
        missed := some 0, keep := true,
        dtype := if h.dtype.isInt then .i64 else h.dtype } := by
  unfold HN.projection at hr
  simp only [bind, Except.bind, pure, Except.pure, throw, throwThe, MonadExceptOf.throw] at hr
  cases hm : axes.mapM h.getAxis with
  | error e => rw [hm] at hr; cases hr
  | ok ax =>
    rw [hm] at hr
    simp only at hr
    by_cases h1 : ax.isEmpty = true
    · simp [h1] at hr
    · by_cases h2 : (ax.eraseDups.length != ax.length) = true
      · simp [h1, h2] at hr
      · simp only [h1, h2, if_false, Bool.false_eq_true] at hr
        cases hr
        exact ⟨ax, rfl, rfl⟩

theorem keptOf_congr {α} (A : List α) (k k' : Nat → Bool) (m : Nat) (h : ∀ i, i < m → k i = k' i) :
    keptOf A k m = keptOf A k' m := by
  unfold keptOf
  congr 1
  apply List.filter_congr
  intro i hi
  exact h i (List.mem_range.mp hi)

/-- **Projecting in steps equals projecting once onto the final axes — the whole histogram.**
    With `ax1`, `ax2`, `ax` the resolved positions of the three axis lists (`ax2` are positions in
    the intermediate result), if `ax` is exactly the composition then the two results are equal as
    histograms: same bins and names in the same order, same contents and squared errors, same
    missed count, dtype and flags. -/
theorem HN.projection_steps_eq (h r1 r2 r : HN) (axes1 axes2 axes : List (Sum Int String))
    (hfs : h.axes.length ≤ h.freq.shape.length) (hes : h.axes.length ≤ h.err2.shape.length)
    (hns : h.axes.length ≤ h.names.length)
    (h1 : h.projection axes1 = .ok r1) (h2 : r1.projection axes2 = .ok r2) (h3 : h.projection axes = .ok r) :
    ∃ ax1 ax2 ax, axes1.mapM h.getAxis = .ok ax1 ∧ axes2.mapM r1.getAxis = .ok ax2 ∧
      axes.mapM h.getAxis = .ok ax ∧
      ((∀ i, i < h.axes.length →
          ax.contains i = composeKeep (fun i => ax1.contains i) (fun i => ax2.contains i) i) → r = r2) := by
  obtain ⟨ax1, m1, e1⟩ := HN.projection_eq h r1 axes1 h1
  obtain ⟨ax2, m2, e2⟩ := HN.projection_eq r1 r2 axes2 h2
  obtain ⟨ax, m3, e3⟩ := HN.projection_eq h r axes h3
  refine ⟨ax1, ax2, ax, m1, m2, m3, ?_⟩
  intro hc
  have hn : r1.axes.length = keptBelow (fun i => ax1.contains i) h.axes.length := by
    rw [e1]; exact keptOf_length _ _ _ (Nat.le_refl _)
  have hd : r1.dtype = if h.dtype.isInt then .i64 else h.dtype := by rw [e1]
  have hdt : (if r1.dtype.isInt then DType.i64 else r1.dtype) = if h.dtype.isInt then .i64 else h.dtype := by
    rw [hd]
    cases hh : h.dtype.isInt
    · simp [hh]
    · simp [DType.isInt]
  rw [e3, e2, hdt, hn]
  have ea : r1.axes = keptOf h.axes (fun i => ax1.contains i) h.axes.length := by rw [e1]
  have en : r1.names = keptOf h.names (fun i => ax1.contains i) h.axes.length := by rw [e1]
  have ef : r1.freq = h.freq.sumAxes (dropList h.axes.length fun i => ax1.contains i) := by rw [e1]
  have ee : r1.err2 = h.err2.sumAxes (dropList h.axes.length fun i => ax1.contains i) := by rw [e1]
  rw [ea, en, ef, ee, keptOf_steps _ _ _ _ (Nat.le_refl _), keptOf_steps _ _ _ _ hns,
    Arr.sumAxes_steps _ _ _ _ hfs, Arr.sumAxes_steps _ _ _ _ hes, dropList_congr _ _ _ hc,
    keptOf_congr h.axes _ _ _ hc, keptOf_congr h.names _ _ _ hc]

/-! ## Non-vacuity and the side conditions (a 2×3 array, a 2×2×2 array) -/

namespace ArrayLawsExamples

def a23 : Arr := { shape := [2, 3], data := [1, 2, 3, 4, 5, 6] }
def a222 : Arr := { shape := [2, 2, 2], data := [1, 2, 3, 4, 5, 6, 7, 8] }

example : a23.WellShaped := by decide +kernel

/-- totals of the marginals, of a merge, of a shift -/
example : (a23.sumAxis 0).total = 21 ∧ (a23.sumAxis 1).total = 21 ∧ a23.total = 21 ∧
    (a23.sumAxes [1, 0]).data = [21] ∧
    (a23.mergeAxis 1 [0, 0, 1] 2).data = [3, 3, 9, 6] ∧ (a23.mergeAxis 1 [0, 0, 1] 2).shape = [2, 2] ∧
    (a23.mergeAxis 0 [0, 0] 1).data = [5, 7, 9] ∧
    (a23.shiftAxis 1 1 5).data = [0, 1, 2, 3, 0, 0, 4, 5, 6, 0] ∧ (a23.shiftAxis 1 1 5).total = 21 := by
  decide +kernel

/-- summing two axes in either order; projecting in steps = once (keep axes {0, 2}, then of those
    keep position 1: the composition keeps parent axis 2) -/
example : (a23.sumAxis 1).sumAxis 0 = (a23.sumAxis 0).sumAxis 0 ∧
    (a222.sumAxis 2).sumAxis 0 = (a222.sumAxis 0).sumAxis 1 ∧
    (a222.sumAxes (dropList 3 fun i => [0, 2].contains i)).sumAxes (dropList 2 fun i => [1].contains i)
      = a222.sumAxes (dropList 3 fun i => [2].contains i) ∧
    (∀ i, i < 3 → [2].contains i = composeKeep (fun i => [0, 2].contains i) (fun i => [1].contains i) i) ∧
    (a222.sumAxes (dropList 3 fun i => [2].contains i)).data = [16, 20] := by
  decide +kernel

/-- selection and cumulative sums -/
example : (a23.selectInt 1 2).data = [3, 6] ∧ (a23.selectInt 1 2).shape = [2] ∧
    (a23.selectInt 0 1).data = [4, 5, 6] ∧
    (a23.selectSlice 1 1 3).data = [2, 3, 5, 6] ∧ (a23.selectSlice 1 1 3).shape = [2, 2] ∧
    ((a23.selectSlice 1 1 3).sumAxis 1).data = [5, 11] ∧
    (a23.cumsum 1).get [1, 2] = (a23.sumAxis 1).get [1] ∧ (a23.cumsum 0).get [1, 1] = (a23.sumAxis 0).get [1] := by
  decide +kernel

/-- merged bins: 5 bins in runs of 2 (the gap between the runs, `(1, 2)` / `(5/2, 3)`, is allowed) -/
example : mergedBins [(0, 1), (1, 2), (5 / 2, 3), (3, 4), (4, 5)] 2 = [(0, 2), (5 / 2, 4), (4, 5)] ∧
    (H1.mergeBinsAux ([(0, 1), (1, 2), (5 / 2, 3), (3, 4), (4, 5)].zip (H1.amountMap 5 2)) none).toOption
      = some [(0, 2), (5 / 2, 4), (4, 5)] := by
  decide +kernel

/-- … and a gap *inside* a run is refused (`RunsMeet` is needed) -/
example : (H1.mergeBinsAux ([(0, 1), (3 / 2, 2), (2, 3)].zip (H1.amountMap 3 2)) none).toOption = none := by
  decide +kernel

/-- **Side condition `axis < ndim` is needed**: summing over an axis that does not exist gives
    zeros (not an error) in the model, so the total is lost. -/
example : (a23.sumAxis 2).data = [0, 0, 0, 0, 0, 0] ∧ (a23.sumAxis 2).total ≠ a23.total := by decide +kernel

/-- **"decreasing" is needed for `sumAxes`**: in increasing order the second position is stale -/
example : (a23.sumAxes [0, 1]).total = 0 ∧ (a23.sumAxes [1, 0]).total = 21 := by decide +kernel

/-- **Well-shapedness is needed**: surplus stored entries are counted by `total` but unreachable
    by index -/
example : ({ shape := [1], data := [1, 2] } : Arr).total = 3 ∧
    (({ shape := [1], data := [1, 2] } : Arr).sumAxis 0).total = 1 := by decide +kernel

/-- **the conservation hypothesis of `total_gather` is needed**: a map with a value `≥ newN`
    drops that bin; a shift that does not fit drops the top cells -/
example : (a23.mergeAxis 1 [0, 0, 2] 2).total = 12 ∧ (a23.shiftAxis 1 1 3).total = 12 := by decide +kernel

/-- a 3-D histogram projected in steps and at once (`HN.projection_steps_eq` instantiated) -/
def h3 : HN :=
  { axes := [.static [(0, 1), (1, 2)] true, .static [(0, 2), (2, 4)] true, .static [(0, 3), (3, 6)] false],
    freq := a222, err2 := a222, names := ["x", "y", "z"] }

example : ((h3.projection [.inl 2, .inr "x"]).bind fun r1 => r1.projection [.inl 1]).toOption
      = (h3.projection [.inr "z"]).toOption ∧
    ((h3.projection [.inr "z"]).toOption.map fun r => (r.freq.data, r.names)) = some ([16, 20], ["z"]) := by
  decide +kernel

end ArrayLawsExamples

end Physt

import Physt.Proofs.History1D
import Physt.Proofs.ScaleND
/-!
# Well-formedness over arbitrary histories of an N-dimensional histogram (C18, ND part)

The N-dimensional analogue of `Physt/Proofs/History1D.lean`: the invariant `WFN`, the operation
language `OpN'`, one call `stepN'`, what the caller keeps after a refusal `keptN` (mirroring
`Physt/DriverND.lean`), a history `runN`, and

* `wfn_step` / `wfn_history` — the invariant holds after every call / every history, for every
  kind of axis (static bins of any shape; fixed-width grids, adaptive or not, **growth included**
  in `fill`, `fill_n` and `+=` / `-=`), every `FloatOps`, every fuel;
* `refused_changes_nothing_nd` — a refused call leaves axes, contents, squared errors, missed,
  `keep_missed` and names exactly as they were; the dtype is the old one or a lossless promotion.
  No `…_partial` exception is needed in N dimensions: `HN.fillN` validates its arguments *before*
  it grows adaptive axes (`fillN_refused_reason`; the 1-D `fill_n` adapts first), and
  `merge_bins(axis=None)` (`HN.mergeAll`, a `foldlM`) is all-or-nothing.

Deviations / side conditions (each with a kernel-checked example in `DemoND`):

* `T`: `HN.transpose` reverses the axes of any histogram but transposes the arrays of 2-D ones only,
  so it breaks the shape equation for ≥ 3 axes of different lengths.  physt has `T` on
  `Histogram2D` only; `stepN'` refuses it unless there are exactly two axes, `wfn_transpose` needs
  `h.axes.length ≤ 2`.
* axes are referred to as in physt (position or name) and resolved by `HN.getAxis`; an unknown axis
  is a refusal.  (The bare model functions are total on a non-existent axis: `selectSlice` returns
  its argument, `accumulate` / `partialNormalize` leave the contents — `WFN` is kept anyway, the
  per-operation lemmas `wfn_selectSlice`, `wfn_accumulate`, … have no range hypothesis.)
* `fill` of a value with the wrong number of coordinates is refused (`Physt/DriverND.lean`); the
  kept state is `h.coerce wk.dtype` (the driver's `fill_wrong_dim`: `h.coerce .i64`).  `wfn_fill`
  itself has no hypothesis on the number of coordinates.
* the missed count is *not* part of `WFN`: `-=`, `*= -1`, `/= -1` can make it negative by accepted
  calls (the guards look at the bin contents only), exactly as in one dimension.
* `accumulate`, `partial_normalize`, `-=` cannot produce a negative content from a well-formed
  histogram (running sums / quotients by sums of non-negative contents; `-=` is guarded).
-/
namespace Physt
open H1

/-! ## The invariant -/

/-- shapes of contents, squared errors and bins match (one array axis per binning, as many stored
    numbers as cells), axis names match the axes, no squared error and no content is negative -/
structure WFN (fo : FloatOps) (h : HN) : Prop where
  fshape : h.freq.shape = h.shape fo
  eshape : h.err2.shape = h.shape fo
  fws : h.freq.WellShaped
  ews : h.err2.WellShaped
  epos : ∀ x ∈ h.err2.data, 0 ≤ x
  fpos : ∀ x ∈ h.freq.data, 0 ≤ x
  nlen : h.names.length = h.axes.length

/-- all stored numbers are non-negative -/
def Arr.NonNeg (a : Arr) : Prop := ∀ x ∈ a.data, 0 ≤ x

/-! ## Array helpers: non-negativity -/

theorem Arr.get_nonneg (a : Arr) (h : a.NonNeg) (idx : List Nat) : 0 ≤ a.get idx := by
  unfold Arr.get
  split
  · cases hd : a.data[ravel a.shape idx]? with
    | none => simp
    | some x => simpa using h x (List.mem_of_getElem? hd)
  · exact le_refl _

theorem Arr.nonneg_ofFn (shape : List Nat) (g : List Nat → Rat) (hg : ∀ idx, 0 ≤ g idx) :
    (Arr.ofFn shape g).NonNeg := by
  intro x hx
  simp only [Arr.ofFn, List.mem_map] at hx
  obtain ⟨idx, _, rfl⟩ := hx
  exact hg idx

theorem Arr.nonneg_zeros (shape : List Nat) : (Arr.zeros shape).NonNeg :=
  Arr.nonneg_ofFn _ _ fun _ => le_refl _

theorem Arr.nonneg_gather (a : Arr) (h : a.NonNeg) (axis newN : Nat) (src : Nat → List Nat) :
    (a.gather axis newN src).NonNeg := by
  apply Arr.nonneg_ofFn
  intro idx
  apply List.sum_nonneg
  intro y hy
  obtain ⟨k, _, rfl⟩ := List.mem_map.mp hy
  exact Arr.get_nonneg a h _

theorem Arr.nonneg_squeeze (a : Arr) (h : a.NonNeg) (axis : Nat) : (a.squeeze axis).NonNeg :=
  Arr.nonneg_ofFn _ _ fun _ => Arr.get_nonneg a h _

theorem Arr.nonneg_sumAxis (a : Arr) (h : a.NonNeg) (axis : Nat) : (a.sumAxis axis).NonNeg :=
  Arr.nonneg_squeeze _ (Arr.nonneg_gather a h _ _ _) _

theorem Arr.nonneg_sumAxes (a : Arr) (h : a.NonNeg) (l : List Nat) : (a.sumAxes l).NonNeg := by
  unfold Arr.sumAxes
  induction l generalizing a with
  | nil => exact h
  | cons x xs ih => exact ih _ (Arr.nonneg_sumAxis a h x)

theorem Arr.nonneg_selectInt (a : Arr) (h : a.NonNeg) (axis i : Nat) : (a.selectInt axis i).NonNeg :=
  Arr.nonneg_squeeze _ (Arr.nonneg_gather a h _ _ _) _

theorem Arr.wellShaped_selectInt (a : Arr) (axis i : Nat) : (a.selectInt axis i).WellShaped :=
  Arr.wellShaped_ofFn _ _

theorem Arr.nonneg_zipWith_add (a b : Arr) (ha : a.NonNeg) (hb : b.NonNeg) : (Arr.zipWith (· + ·) a b).NonNeg :=
  zipAdd_nonneg a.data b.data ha hb

theorem Arr.nonneg_transpose (a : Arr) (h : a.NonNeg) : a.transpose.NonNeg := by
  unfold Arr.transpose
  split
  · apply Arr.nonneg_ofFn
    intro idx
    split
    · exact Arr.get_nonneg a h _
    · exact le_refl _
  · exact h

theorem Arr.wellShaped_zeros (shape : List Nat) : (Arr.zeros shape).WellShaped := Arr.wellShaped_ofFn _ _

theorem Arr.wellShaped_zipWith (f : Rat → Rat → Rat) (a b : Arr) (ha : a.WellShaped) (hb : b.WellShaped)
    (hs : b.shape = a.shape) : (Arr.zipWith f a b).WellShaped := by
  unfold Arr.WellShaped at *
  simp [Arr.zipWith, ha, hb, hs]

theorem Arr.shape_zipWith (f : Rat → Rat → Rat) (a b : Arr) : (Arr.zipWith f a b).shape = a.shape := rfl

/-! ## `WFN` from its parts; fields that do not matter -/

theorem wfn_of_eq (fo : FloatOps) {h h' : HN} (ha : h'.axes = h.axes) (hf : h'.freq = h.freq)
    (he : h'.err2 = h.err2) (hn : h'.names = h.names) (w : WFN fo h) : WFN fo h' := by
  have hs : h'.shape fo = h.shape fo := by simp only [HN.shape, ha]
  exact ⟨by rw [hf, hs]; exact w.fshape, by rw [he, hs]; exact w.eshape, by rw [hf]; exact w.fws,
    by rw [he]; exact w.ews, by rw [he]; exact w.epos, by rw [hf]; exact w.fpos, by rw [hn, ha]; exact w.nlen⟩

theorem wfn_coerce (fo : FloatOps) (h : HN) (d : DType) (w : WFN fo h) : WFN fo (h.coerce d) :=
  wfn_of_eq fo (h := h) (h' := h.coerce d) rfl rfl rfl rfl w

theorem wfn_empty (fo : FloatOps) (axes : List Binning) (keep : Bool) (dt : Option DType) :
    WFN fo (HN.empty fo axes keep dt none) :=
  ⟨rfl, rfl, Arr.wellShaped_zeros _, Arr.wellShaped_zeros _, Arr.nonneg_zeros _, Arr.nonneg_zeros _,
    by simp [HN.empty, HN.defaultNames]⟩

theorem HN.shape_set (fo : FloatOps) (axes : List Binning) (i : Nat) (b : Binning) :
    (axes.set i b).map (fun b => (b.bins fo).length) = Arr.setAt (axes.map fun b => (b.bins fo).length) i (b.bins fo).length := by
  simp [Arr.setAt, List.map_set]

/-! ## Growing adaptive axes (`_reshape_data` along one axis) -/

theorem setAt_of_getElem? {α} (l : List α) (i : Nat) (x : α) (h : l[i]? = some x) : Arr.setAt l i x = l := by
  obtain ⟨hi, rfl⟩ := List.getElem?_eq_some_iff.mp h
  exact List.set_getElem_self hi

theorem reshapeAxis_spec (a : Arr) (axis n : Nat) (r : Grid.Reshape) (hw : a.WellShaped) (hp : a.NonNeg)
    (hn : r = .noChange → Arr.setAt a.shape axis n = a.shape) :
    (HN.reshapeAxis a axis n r).shape = Arr.setAt a.shape axis n ∧ (HN.reshapeAxis a axis n r).WellShaped ∧
    (HN.reshapeAxis a axis n r).NonNeg := by
  cases r with
  | noChange => exact ⟨(hn rfl).symm, hw, hp⟩
  | fresh => exact ⟨rfl, Arr.wellShaped_zeros _, Arr.nonneg_zeros _⟩
  | shift k => exact ⟨rfl, Arr.wellShaped_gather _ _ _ _, Arr.nonneg_gather a hp _ _ _⟩

/-- one round of the loop of `HN.adaptAxes` -/
def adaptStep (fo : FloatOps) (fuel : Nat) (cols : List (List Rat)) (single : Bool) (h : HN) (i : Nat) : HN :=
  match h.axes[i]?, cols[i]? with
  | some (Binning.fixed g), some vs =>
    if g.adaptive then
      { h with axes := h.axes.set i (.fixed (adaptGrid fo fuel g vs single).1),
               freq := HN.reshapeAxis h.freq i (adaptGrid fo fuel g vs single).1.count (adaptGrid fo fuel g vs single).2,
               err2 := HN.reshapeAxis h.err2 i (adaptGrid fo fuel g vs single).1.count (adaptGrid fo fuel g vs single).2 }
    else h
  | _, _ => h

theorem adaptAxes_eq (fo : FloatOps) (fuel : Nat) (h : HN) (cols : List (List Rat)) (single : Bool) :
    h.adaptAxes fo fuel cols single = (List.range h.axes.length).foldl (adaptStep fo fuel cols single) h := rfl

theorem foldl_invariant {α β} (P : α → Prop) (f : α → β → α) (hf : ∀ a b, P a → P (f a b)) (l : List β) (a : α)
    (ha : P a) : P (l.foldl f a) := by
  induction l generalizing a with
  | nil => exact ha
  | cons b bs ih => exact ih _ (hf a b ha)

theorem shape_getElem? (fo : FloatOps) (h : HN) (i : Nat) (b : Binning) (hb : h.axes[i]? = some b) :
    (h.shape fo)[i]? = some (b.bins fo).length := by
  simp [HN.shape, hb]

theorem wfn_adaptStep (fo : FloatOps) (fuel : Nat) (cols : List (List Rat)) (single : Bool) (h : HN) (i : Nat)
    (w : WFN fo h) : WFN fo (adaptStep fo fuel cols single h i) := by
  unfold adaptStep
  split
  · rename_i g vs hg hc
    split
    · have hcount : (h.shape fo)[i]? = some g.count := by
        rw [shape_getElem? fo h i _ hg]; simp [Binning.bins, grid_bins_length]
      have hn : (adaptGrid fo fuel g vs single).2 = .noChange →
          Arr.setAt (h.shape fo) i (adaptGrid fo fuel g vs single).1.count = h.shape fo := by
        intro hh
        rw [adaptGrid_noChange _ _ _ _ _ hh]
        exact setAt_of_getElem? _ _ _ hcount
      obtain ⟨f1, f2, f3⟩ := reshapeAxis_spec h.freq i (adaptGrid fo fuel g vs single).1.count
        (adaptGrid fo fuel g vs single).2 w.fws w.fpos (by rw [w.fshape]; exact hn)
      obtain ⟨e1, e2, e3⟩ := reshapeAxis_spec h.err2 i (adaptGrid fo fuel g vs single).1.count
        (adaptGrid fo fuel g vs single).2 w.ews w.epos (by rw [w.eshape]; exact hn)
      have hs : ∀ x : HN, x.axes = h.axes.set i (.fixed (adaptGrid fo fuel g vs single).1) →
          x.shape fo = Arr.setAt (h.shape fo) i (adaptGrid fo fuel g vs single).1.count := by
        intro x hx
        have hc' : ((Binning.fixed (adaptGrid fo fuel g vs single).1).bins fo).length
            = (adaptGrid fo fuel g vs single).1.count := grid_bins_length fo _
        simp only [HN.shape, hx]
        rw [HN.shape_set, hc']
      refine ⟨?_, ?_, f2, e2, e3, f3, ?_⟩
      · rw [f1, w.fshape]; exact (hs _ rfl).symm
      · rw [e1, w.eshape]; exact (hs _ rfl).symm
      · simpa using w.nlen
    · exact w
  · exact w

/-- growing the adaptive axes keeps the histogram well-formed (any `FloatOps`, any fuel) -/
theorem wfn_adaptAxes (fo : FloatOps) (fuel : Nat) (h : HN) (cols : List (List Rat)) (single : Bool)
    (w : WFN fo h) : WFN fo (h.adaptAxes fo fuel cols single) := by
  rw [adaptAxes_eq]
  exact foldl_invariant (WFN fo) _ (fun a b wa => wfn_adaptStep fo fuel cols single a b wa) _ _ w

/-- growing the axes touches bins and the two arrays only -/
theorem adaptAxes_fields (fo : FloatOps) (fuel : Nat) (h : HN) (cols : List (List Rat)) (single : Bool) :
    (h.adaptAxes fo fuel cols single).names = h.names ∧ (h.adaptAxes fo fuel cols single).missed = h.missed ∧
    (h.adaptAxes fo fuel cols single).keep = h.keep ∧ (h.adaptAxes fo fuel cols single).dtype = h.dtype := by
  rw [adaptAxes_eq]
  apply foldl_invariant (fun x : HN => x.names = h.names ∧ x.missed = h.missed ∧ x.keep = h.keep ∧ x.dtype = h.dtype)
  · intro a i ha
    unfold adaptStep
    split
    · split
      · exact ha
      · exact ha
    · exact ha
  · exact ⟨rfl, rfl, rfl, rfl⟩

/-! ## `fill` and `fill_n` -/

theorem wfn_addAtIdx (a : Arr) (idx : List Nat) (x : Rat) (hx : 0 ≤ x) (hw : a.WellShaped) (hp : a.NonNeg) :
    (HN.addAtIdx a idx x).shape = a.shape ∧ (HN.addAtIdx a idx x).WellShaped ∧ (HN.addAtIdx a idx x).NonNeg := by
  refine ⟨rfl, ?_, ?_⟩
  · unfold Arr.WellShaped at *
    simpa [HN.addAtIdx] using hw
  · exact addAt_nonneg a.data _ x hx hp

/-- a single `fill` with a non-negative weight, on any axes (adaptive growth included; the value
    may even have the wrong number of coordinates) -/
theorem wfn_fill (fo : FloatOps) (fuel : Nat) (h : HN) (value : List (Option Rat)) (x : Rat) (wk : NumKind)
    (hx : 0 ≤ x) (w : WFN fo h) : WFN fo (h.fill fo fuel value x wk).1 := by
  unfold HN.fill
  split
  · exact w
  · have w2 := wfn_adaptAxes fo fuel _ ((value.filterMap id).map fun x => [x]) true (wfn_coerce fo h wk.dtype w)
    simp only []
    generalize (h.coerce wk.dtype).adaptAxes fo fuel ((value.filterMap id).map fun x => [x]) true = h2 at w2
    split
    · split
      · exact wfn_of_eq fo (h := h2) rfl rfl rfl rfl w2
      · exact w2
    · rename_i idx _
      obtain ⟨f1, f2, f3⟩ := wfn_addAtIdx h2.freq idx x hx w2.fws w2.fpos
      obtain ⟨e1, e2, e3⟩ := wfn_addAtIdx h2.err2 idx (x * x) (mul_self_nonneg x) w2.ews w2.epos
      exact ⟨by rw [f1]; exact w2.fshape, by rw [e1]; exact w2.eshape, f2, e2, e3, f3, w2.nlen⟩

theorem calcND_freq_nonneg (axes : AxesB) (rows : List Row) (hw : ∀ r ∈ rows, 0 ≤ r.2) :
    (calcND axes rows).freq.NonNeg := by
  apply Arr.nonneg_ofFn
  intro idx
  apply List.sum_nonneg
  intro y hy
  obtain ⟨c, hc, rfl⟩ := List.mem_map.mp hy
  obtain ⟨r, hr, rfl⟩ := List.mem_map.mp (List.mem_filter.mp hc).1
  exact hw r hr

theorem calcND_err2_nonneg (axes : AxesB) (rows : List Row) : (calcND axes rows).err2.NonNeg := by
  apply Arr.nonneg_ofFn
  intro idx
  apply List.sum_nonneg
  intro y hy
  obtain ⟨c, _, rfl⟩ := List.mem_map.mp hy
  exact mul_self_nonneg _

theorem maskRows_nonneg (rows : List (List (Option Rat))) (ws : Option (List Rat))
    (hw : ∀ l, ws = some l → ∀ x ∈ l, 0 ≤ x) : ∀ r ∈ maskRows rows ws, 0 ≤ r.2 := by
  induction rows generalizing ws with
  | nil => intro r hr; simp [maskRows] at hr
  | cons v vs ih =>
    cases ws with
    | none =>
      simp only [maskRows]
      split
      · intro r hr
        rcases List.mem_cons.mp hr with rfl | hr
        · norm_num
        · exact ih none (by simp) r hr
      · exact ih none (by simp)
    | some l =>
      cases l with
      | nil => intro r hr; simp [maskRows] at hr
      | cons a l =>
        have hl : ∀ l', some l = some l' → ∀ x ∈ l', 0 ≤ x := by
          intro l' h' x hx
          cases h'
          exact hw (a :: l) rfl x (List.mem_cons_of_mem _ hx)
        simp only [maskRows]
        split
        · intro r hr
          rcases List.mem_cons.mp hr with rfl | hr
          · exact hw (a :: l) rfl a (List.mem_cons_self ..)
          · exact ih (some l) hl r hr
        · exact ih (some l) hl

/-- adding the batch histogram of non-negatively weighted rows over the current axes -/
theorem wfn_fillCore (fo : FloatOps) (h2 : HN) (w2 : WFN fo h2) (data : List Row) (hd : ∀ r ∈ data, 0 ≤ r.2)
    (m : NRat) :
    WFN fo { h2 with freq := Arr.zipWith (· + ·) h2.freq (calcND (h2.axesBins fo) data).freq,
                     err2 := Arr.zipWith (· + ·) h2.err2 (calcND (h2.axesBins fo) data).err2, missed := m } := by
  have cf := calcND_freq_hasShape (h2.axesBins fo) data
  have ce := calcND_err2_hasShape (h2.axesBins fo) data
  rw [HN.axesBins_shape] at cf ce
  refine ⟨w2.fshape, w2.eshape, ?_, ?_, ?_, ?_, w2.nlen⟩
  · exact Arr.wellShaped_zipWith _ _ _ w2.fws cf.wellShaped (by rw [cf.1, w2.fshape])
  · exact Arr.wellShaped_zipWith _ _ _ w2.ews ce.wellShaped (by rw [ce.1, w2.eshape])
  · exact Arr.nonneg_zipWith_add _ _ w2.epos (calcND_err2_nonneg _ _)
  · exact Arr.nonneg_zipWith_add _ _ w2.fpos (calcND_freq_nonneg _ _ hd)

/-- `fill_n` with non-negative weights, on any axes (adaptive growth included) -/
theorem wfn_fillN (fo : FloatOps) (fuel : Nat) (h r : HN) (rows : List (List (Option Rat))) (ws : Option (List Rat))
    (wk : DType) (hw : ∀ l, ws = some l → ∀ x ∈ l, 0 ≤ x) (w : WFN fo h)
    (hr : h.fillN fo fuel rows ws wk = .ok r) : WFN fo r := by
  unfold HN.fillN at hr
  simp only [bind, Except.bind, pure, Except.pure, throw, throwThe, MonadExceptOf.throw] at hr
  have hd := maskRows_nonneg rows ws hw
  cases ws with
  | none =>
    simp only [Option.isSome_none, Bool.false_eq_true, if_false] at hr
    split at hr
    · cases hr
    cases hr
    exact wfn_fillCore fo _ (wfn_adaptAxes fo fuel _ _ false w) _ hd _
  | some l =>
    simp only [Option.isSome_some, if_true] at hr
    split at hr
    · cases hr
    split at hr
    · cases hr
    cases hr
    exact wfn_fillCore fo _ (wfn_adaptAxes fo fuel _ _ false (wfn_coerce fo h wk w)) _ hd _

/-! ## `+=` and `-=` with another histogram, adaptive growth included -/

abbrev Plan := Grid × Grid.Reshape × Grid.Reshape

def planOf (fo : FloatOps) (ab : Binning × Binning) : R Plan :=
  match ab.1, ab.2 with
  | .fixed g, .fixed og =>
    if g.bins fo == og.bins fo then pure (g, Grid.Reshape.noChange, Grid.Reshape.noChange)
    else H1.adaptGrids g og
  | _, _ => throw "cannot adapt"

def planStep (which : Bool) (acc : Arr × Arr × Nat) (p : Plan) : Arr × Arr × Nat :=
  (HN.reshapeAxis acc.1 acc.2.2 p.1.count (if which then p.2.1 else p.2.2),
   HN.reshapeAxis acc.2.1 acc.2.2 p.1.count (if which then p.2.1 else p.2.2), acc.2.2 + 1)

theorem iaddN_adaptive_ok (fo : FloatOps) (h o r : HN) (hs : h.sameBins fo o = false) (hr : h.iadd fo o = .ok r) :
    h.axes.length = o.axes.length ∧
    ∃ plans, (h.axes.zip o.axes).mapM (planOf fo) = .ok plans ∧
      r.axes = plans.map (fun p => Binning.fixed p.1) ∧ r.names = h.names ∧
      r.freq = Arr.zipWith (· + ·) (plans.foldl (planStep true) (h.freq, h.err2, 0)).1
                                   (plans.foldl (planStep false) (o.freq, o.err2, 0)).1 ∧
      r.err2 = Arr.zipWith (· + ·) (plans.foldl (planStep true) (h.freq, h.err2, 0)).2.1
                                   (plans.foldl (planStep false) (o.freq, o.err2, 0)).2.1 := by
  unfold HN.iadd at hr
  simp only [bind, Except.bind, pure, Except.pure, throw, throwThe, MonadExceptOf.throw, hs] at hr
  split at hr
  · cases hr
  rename_i hlen
  refine ⟨by simpa using hlen, ?_⟩
  simp only [Bool.false_eq_true, if_false] at hr
  split at hr
  swap
  · cases hr
  split at hr
  · split at hr
    · cases hr
    split at hr
    · cases hr
    split at hr
    · cases hr
    rename_i v hm
    cases hr
    exact ⟨v, hm, rfl, rfl, rfl, rfl⟩
  · split at hr
    · cases hr
    split at hr
    · cases hr
    rename_i v hm
    cases hr
    exact ⟨v, hm, rfl, rfl, rfl, rfl⟩

theorem iaddN_same_ok (fo : FloatOps) (h o r : HN) (hs : h.sameBins fo o = true) (hr : h.iadd fo o = .ok r) :
    h.axes.length = o.axes.length ∧ r.axes = h.axes ∧ r.names = h.names ∧
    r.freq = Arr.zipWith (· + ·) h.freq o.freq ∧ r.err2 = Arr.zipWith (· + ·) h.err2 o.err2 := by
  unfold HN.iadd at hr
  simp only [bind, Except.bind, pure, Except.pure, throw, throwThe, MonadExceptOf.throw, hs, if_true] at hr
  split at hr
  · cases hr
  rename_i hlen
  cases hr
  exact ⟨by simpa using hlen, rfl, rfl, rfl, rfl⟩

theorem mapM_ok_forall₂ {α β} (f : α → R β) (l : List α) (out : List β) (h : l.mapM f = .ok out) :
    List.Forall₂ (fun x y => f x = .ok y) l out := by
  induction l generalizing out with
  | nil =>
    simp only [List.mapM_nil, pure, Except.pure, Except.ok.injEq] at h
    subst h; exact .nil
  | cons a l ih =>
    rw [List.mapM_cons] at h
    simp only [bind, Except.bind, pure, Except.pure] at h
    cases ha : f a with
    | error e => simp [ha] at h
    | ok b =>
      cases hl : l.mapM f with
      | error e => simp [ha, hl] at h
      | ok bs =>
        simp only [ha, hl, Except.ok.injEq] at h
        subst h
        exact .cons ha (ih bs hl)

theorem planOf_counts (fo : FloatOps) (a b : Binning) (p : Plan) (h : planOf fo (a, b) = .ok p) :
    (p.2.1 = .noChange → (a.bins fo).length = p.1.count) ∧ (p.2.2 = .noChange → (b.bins fo).length = p.1.count) := by
  cases a with
  | static _ _ => simp [planOf, throw, throwThe, MonadExceptOf.throw] at h
  | fixed g =>
    cases b with
    | static _ _ => simp [planOf, throw, throwThe, MonadExceptOf.throw] at h
    | fixed og =>
      simp only [planOf, pure, Except.pure] at h
      split at h
      · rename_i hb
        cases h
        have hb' : g.bins fo = og.bins fo := by simpa using hb
        have : og.count = g.count := by rw [← grid_bins_length fo og, ← hb', grid_bins_length]
        exact ⟨fun _ => grid_bins_length fo g, fun _ => by simp only [Binning.bins]; rw [grid_bins_length, this]⟩
      · obtain ⟨g', r1, r2⟩ := p
        obtain ⟨c1, c2⟩ := adaptGrids_counts g og g' r1 r2 h
        exact ⟨fun hh => by simp only [Binning.bins]; rw [grid_bins_length]; exact c1 hh,
          fun hh => by simp only [Binning.bins]; rw [grid_bins_length]; exact c2 hh⟩

theorem plans_counts (fo : FloatOps) (A B : List Binning) (plans : List Plan) (hl : A.length = B.length)
    (h : List.Forall₂ (fun x y => planOf fo x = .ok y) (A.zip B) plans) :
    List.Forall₂ (fun (a : Binning) (p : Plan) => p.2.1 = .noChange → (a.bins fo).length = p.1.count) A plans ∧
    List.Forall₂ (fun (b : Binning) (p : Plan) => p.2.2 = .noChange → (b.bins fo).length = p.1.count) B plans := by
  induction A generalizing B plans with
  | nil =>
    cases B with
    | nil => cases h; exact ⟨.nil, .nil⟩
    | cons _ _ => simp at hl
  | cons a A ih =>
    cases B with
    | nil => simp at hl
    | cons b B =>
      rw [List.zip_cons_cons] at h
      cases h with
      | cons h1 h2 =>
        obtain ⟨i1, i2⟩ := ih B _ (by simpa using hl) h2
        obtain ⟨c1, c2⟩ := planOf_counts fo a b _ h1
        exact ⟨.cons c1 i1, .cons c2 i2⟩

/-- the reshaping loop of an adaptive `+=`: afterwards the array has the counts of the common grids -/
theorem planFold_spec (which : Bool) (ps : List Plan) (rest : List Nat)
    (hn : List.Forall₂ (fun (c : Nat) (p : Plan) => (if which then p.2.1 else p.2.2) = .noChange → c = p.1.count) rest ps) :
    ∀ (pre : List Nat) (f e : Arr), f.shape = pre ++ rest → e.shape = pre ++ rest → f.WellShaped → e.WellShaped →
      f.NonNeg → e.NonNeg →
      (ps.foldl (planStep which) (f, e, pre.length)).1.shape = pre ++ ps.map (·.1.count) ∧
      (ps.foldl (planStep which) (f, e, pre.length)).2.1.shape = pre ++ ps.map (·.1.count) ∧
      (ps.foldl (planStep which) (f, e, pre.length)).1.WellShaped ∧
      (ps.foldl (planStep which) (f, e, pre.length)).2.1.WellShaped ∧
      (ps.foldl (planStep which) (f, e, pre.length)).1.NonNeg ∧
      (ps.foldl (planStep which) (f, e, pre.length)).2.1.NonNeg := by
  induction hn with
  | nil =>
    intro pre f e hf he wf we pf pe
    simp only [List.append_nil] at hf he
    exact ⟨by simpa using hf, by simpa using he, wf, we, pf, pe⟩
  | @cons c p rest ps hcp _ ih =>
    intro pre f e hf he wf we pf pe
    have hset : Arr.setAt (pre ++ c :: rest) pre.length p.1.count = pre ++ p.1.count :: rest := by
      simp [Arr.setAt]
    have hno : (if which then p.2.1 else p.2.2) = .noChange →
        Arr.setAt (pre ++ c :: rest) pre.length p.1.count = pre ++ c :: rest := by
      intro hh; rw [hset, hcp hh]
    obtain ⟨f1, f2, f3⟩ := reshapeAxis_spec f pre.length p.1.count (if which then p.2.1 else p.2.2) wf pf
      (by rw [hf]; exact hno)
    obtain ⟨e1, e2, e3⟩ := reshapeAxis_spec e pre.length p.1.count (if which then p.2.1 else p.2.2) we pe
      (by rw [he]; exact hno)
    rw [hf, hset] at f1
    rw [he, hset] at e1
    have := ih (pre ++ [p.1.count]) _ _ (by rw [f1]; simp) (by rw [e1]; simp) f2 e2 f3 e3
    simp only [List.length_append, List.length_cons, List.length_nil, Nat.zero_add] at this
    simpa [List.foldl_cons, planStep] using this

theorem shape_eq_of_axes (fo : FloatOps) {h h' : HN} (ha : h'.axes = h.axes) : h'.shape fo = h.shape fo := by
  simp only [HN.shape, ha]

/-- `+=` with a well-formed histogram: same bins, or adaptive axes that grow to the common grids -/
theorem wfn_iadd (fo : FloatOps) (h o r : HN) (wh : WFN fo h) (wo : WFN fo o) (hr : h.iadd fo o = .ok r) :
    WFN fo r := by
  by_cases hs : h.sameBins fo o = true
  · obtain ⟨_, ra, rn, rf, re⟩ := iaddN_same_ok fo h o r hs hr
    have hshape : o.shape fo = h.shape fo := by
      have hb : h.axes.map (·.bins fo) = o.axes.map (·.bins fo) := by simpa [HN.sameBins] using hs
      have e : ∀ x : HN, x.shape fo = (x.axes.map (·.bins fo)).map List.length := by
        intro x; simp [HN.shape]
      rw [e, e, hb]
    have rs := shape_eq_of_axes fo ra
    refine ⟨by rw [rf, rs]; exact wh.fshape, by rw [re, rs]; exact wh.eshape, ?_, ?_, ?_, ?_, by rw [rn, ra]; exact wh.nlen⟩
    · rw [rf]; exact Arr.wellShaped_zipWith _ _ _ wh.fws wo.fws (by rw [wo.fshape, wh.fshape, hshape])
    · rw [re]; exact Arr.wellShaped_zipWith _ _ _ wh.ews wo.ews (by rw [wo.eshape, wh.eshape, hshape])
    · rw [re]; exact Arr.nonneg_zipWith_add _ _ wh.epos wo.epos
    · rw [rf]; exact Arr.nonneg_zipWith_add _ _ wh.fpos wo.fpos
  · have hs' : h.sameBins fo o = false := by simpa using hs
    obtain ⟨hl, plans, hm, ra, rn, rf, re⟩ := iaddN_adaptive_ok fo h o r hs' hr
    obtain ⟨c1, c2⟩ := plans_counts fo _ _ _ hl (mapM_ok_forall₂ _ _ _ hm)
    have s1 := planFold_spec true plans (h.shape fo) (List.forall₂_map_left_iff.mpr c1) [] h.freq h.err2
      (by simpa using wh.fshape) (by simpa using wh.eshape) wh.fws wh.ews wh.fpos wh.epos
    have s2 := planFold_spec false plans (o.shape fo) (List.forall₂_map_left_iff.mpr c2) [] o.freq o.err2
      (by simpa using wo.fshape) (by simpa using wo.eshape) wo.fws wo.ews wo.fpos wo.epos
    simp only [List.length_nil, List.nil_append] at s1 s2
    obtain ⟨a1, a2, a3, a4, a5, a6⟩ := s1
    obtain ⟨b1, b2, b3, b4, b5, b6⟩ := s2
    have rs : r.shape fo = plans.map (·.1.count) := by
      simp only [HN.shape, ra, List.map_map]
      apply List.map_congr_left
      intro p _
      exact grid_bins_length fo p.1
    refine ⟨by rw [rf, rs]; exact a1, by rw [re, rs]; exact a2, ?_, ?_, ?_, ?_, ?_⟩
    · rw [rf]; exact Arr.wellShaped_zipWith _ _ _ a3 b3 (by rw [a1, b1])
    · rw [re]; exact Arr.wellShaped_zipWith _ _ _ a4 b4 (by rw [a2, b2])
    · rw [re]; exact Arr.nonneg_zipWith_add _ _ a6 b6
    · rw [rf]; exact Arr.nonneg_zipWith_add _ _ a5 b5
    · rw [rn, ra, List.length_map, ← (mapM_ok_forall₂ _ _ _ hm).length_eq, List.length_zip, ← hl, Nat.min_self]
      exact wh.nlen

/-- the axes of an accepted `+=` depend on the two lists of axes only -/
theorem iaddN_axes_congr (fo : FloatOps) (h o r h' o' r' : HN) (ha : h'.axes = h.axes) (oa : o'.axes = o.axes)
    (hr : h.iadd fo o = .ok r) (hr' : h'.iadd fo o' = .ok r') : r'.axes = r.axes := by
  have hsame : h'.sameBins fo o' = h.sameBins fo o := by simp [HN.sameBins, ha, oa]
  by_cases hs : h.sameBins fo o = true
  · rw [(iaddN_same_ok fo h o r hs hr).2.1, (iaddN_same_ok fo h' o' r' (hsame.trans hs) hr').2.1, ha]
  · have hs1 : h.sameBins fo o = false := by simpa using hs
    obtain ⟨_, plans, hm, ra, _⟩ := iaddN_adaptive_ok fo h o r hs1 hr
    obtain ⟨_, plans', hm', ra', _⟩ := iaddN_adaptive_ok fo h' o' r' (hsame.trans hs1) hr'
    rw [ha, oa, hm] at hm'
    cases hm'
    rw [ra, ra']

theorem wfn_imul (fo : FloatOps) (h r : HN) (c : Rat) (k : NumKind) (w : WFN fo h) (hr : h.imul c k = .ok r) :
    WFN fo r := by
  obtain ⟨f, e, _, ax, _, nm, _, hn⟩ := HN.imul_ok h r c k hr
  have rs := shape_eq_of_axes fo ax
  refine ⟨by rw [f, rs]; exact w.fshape, by rw [e, rs]; exact w.eshape, by rw [f]; exact Arr.wellShaped_map _ _ w.fws,
    by rw [e]; exact Arr.wellShaped_map _ _ w.ews, ?_, by rw [f]; exact any_lt_false hn, by rw [nm, ax]; exact w.nlen⟩
  intro x hx
  rw [e] at hx
  obtain ⟨y, hy, rfl⟩ := List.mem_map.mp hx
  exact mul_nonneg (w.epos y hy) (mul_self_nonneg c)

theorem wfn_idiv (fo : FloatOps) (h r : HN) (c : Rat) (w : WFN fo h) (hr : h.idiv c = .ok r) : WFN fo r := by
  obtain ⟨_, f, e, _, ax, _, nm, _, hn⟩ := HN.idiv_ok h r c hr
  have rs := shape_eq_of_axes fo ax
  refine ⟨by rw [f, rs]; exact w.fshape, by rw [e, rs]; exact w.eshape, by rw [f]; exact Arr.wellShaped_map _ _ w.fws,
    by rw [e]; exact Arr.wellShaped_map _ _ w.ews, ?_, by rw [f]; exact any_lt_false hn, by rw [nm, ax]; exact w.nlen⟩
  intro x hx
  rw [e] at hx
  obtain ⟨y, hy, rfl⟩ := List.mem_map.mp hx
  exact div_nonneg (w.epos y hy) (mul_self_nonneg c)

theorem wfn_normalize (fo : FloatOps) (h r : HN) (inplace percent : Bool) (w : WFN fo h)
    (hr : h.normalize inplace percent = .ok r) : WFN fo r := by
  unfold HN.normalize at hr
  cases inplace with
  | true => exact wfn_idiv fo h r _ w hr
  | false =>
    simp only [Bool.false_eq_true, if_false, bind, Except.bind] at hr
    cases hd : h.idiv h.total with
    | error e => simp [hd] at hr
    | ok d =>
      simp only [hd] at hr
      exact wfn_imul fo d r _ _ (wfn_idiv fo h d _ w hd) hr

/-- the parts of an accepted `-=` -/
theorem isubN_parts (fo : FloatOps) (h o r : HN) (hr : h.isub fo o = .ok r) :
    ∃ o0 h0 aS aO, o.imul 0 .pyInt = .ok o0 ∧ h.imul 0 .pyInt = .ok h0 ∧ h.iadd fo o0 = .ok aS ∧
      h0.iadd fo o = .ok aO ∧ aS.freq.shape = h.freq.shape ∧ r.axes = h.axes ∧ r.names = h.names ∧
      r.freq = Arr.zipWith (· - ·) aS.freq aO.freq ∧ r.err2 = Arr.zipWith (· + ·) aS.err2 aO.err2 ∧
      (r.freq.data.any (· < 0)) = false := by
  unfold HN.isub at hr
  simp only [bind, Except.bind, pure, Except.pure, throw, throwThe, MonadExceptOf.throw, HN.coerce] at hr
  cases h1 : o.imul 0 .pyInt with
  | error e => simp [h1] at hr
  | ok o0 =>
    cases h2 : h.imul 0 .pyInt with
    | error e => simp [h1, h2] at hr
    | ok h0 =>
      cases h3 : h.iadd fo o0 with
      | error e => simp [h1, h2, h3] at hr
      | ok aS =>
        cases h4 : h0.iadd fo o with
        | error e => simp [h1, h2, h3, h4] at hr
        | ok aO =>
          simp only [h1, h2, h3, h4] at hr
          by_cases hlen : (aS.freq.shape != h.freq.shape) = true
          · simp [hlen] at hr
          · by_cases hneg : ((Arr.zipWith (· - ·) aS.freq aO.freq).data.any (· < 0)) = true
            · simp [hlen, hneg] at hr
            · simp only [hlen, hneg] at hr
              cases hr
              exact ⟨o0, h0, aS, aO, rfl, rfl, h3, h4, by simpa using hlen, rfl, rfl, rfl, rfl, by simpa using hneg⟩

/-- `-=` with a well-formed histogram (free arithmetics off) -/
theorem wfn_isub (fo : FloatOps) (h o r : HN) (wh : WFN fo h) (wo : WFN fo o) (hr : h.isub fo o = .ok r) :
    WFN fo r := by
  obtain ⟨o0, h0, aS, aO, e1, e2, e3, e4, hsh, ra, rn, rf, re, hn⟩ := isubN_parts fo h o r hr
  have wo0 : WFN fo o0 := wfn_imul fo o o0 0 .pyInt wo e1
  have wh0 : WFN fo h0 := wfn_imul fo h h0 0 .pyInt wh e2
  have wS : WFN fo aS := wfn_iadd fo h o0 aS wh wo0 e3
  have wO : WFN fo aO := wfn_iadd fo h0 o aO wh0 wo e4
  have haa : aO.axes = aS.axes :=
    iaddN_axes_congr fo h o0 aS h0 o aO (HN.imul_ok h h0 0 .pyInt e2).2.2.2.1
      (HN.imul_ok o o0 0 .pyInt e1).2.2.2.1.symm e3 e4
  have hOS : aO.shape fo = aS.shape fo := shape_eq_of_axes fo haa
  have rs := shape_eq_of_axes fo ra
  have hS : aS.shape fo = h.shape fo := by rw [← wS.fshape, hsh, wh.fshape]
  refine ⟨?_, ?_, ?_, ?_, ?_, ?_, by rw [rn, ra]; exact wh.nlen⟩
  · rw [rf, rs]; show aS.freq.shape = _; rw [hsh, wh.fshape]
  · rw [re, rs]; show aS.err2.shape = _; rw [wS.eshape, hS]
  · rw [rf]; exact Arr.wellShaped_zipWith _ _ _ wS.fws wO.fws (by rw [wO.fshape, wS.fshape, hOS])
  · rw [re]; exact Arr.wellShaped_zipWith _ _ _ wS.ews wO.ews (by rw [wO.eshape, wS.eshape, hOS])
  · rw [re]; exact Arr.nonneg_zipWith_add _ _ wS.epos wO.epos
  · exact any_lt_false hn


/-! ## `projection`, `select`, `T`, `accumulate` -/

theorem keptOf_map {α β} (f : α → β) (A : List α) (keep : Nat → Bool) (m : Nat) :
    (keptOf A keep m).map f = keptOf (A.map f) keep m := by
  unfold keptOf
  rw [List.map_filterMap]
  apply List.filterMap_congr
  intro i _
  simp

theorem keptOf_eraseIdx {α} (A : List α) (keep : Nat → Bool) (m : Nat) :
    keptOf (A.eraseIdx m) keep m = keptOf A keep m := by
  unfold keptOf
  apply List.filterMap_congr
  intro i hi
  exact List.getElem?_eraseIdx_of_lt (List.mem_range.mp (List.mem_filter.mp hi).1)

/-- the shape after summing away the axes below `m` that are not kept -/
theorem Arr.shape_sumAxes_dropList (a : Arr) (keep : Nat → Bool) (m : Nat) (hm : m ≤ a.shape.length) :
    (a.sumAxes (dropList m keep)).shape = keptOf a.shape keep m ++ a.shape.drop m := by
  induction m generalizing a with
  | zero => simp [dropList, Arr.sumAxes, keptOf]
  | succ m ih =>
    have hm' : m < a.shape.length := by omega
    rw [dropList_succ, keptOf_succ _ _ _ hm']
    cases hk : keep m with
    | true =>
      simp only [if_true, List.nil_append]
      rw [ih a (by omega), List.drop_eq_getElem_cons hm', List.append_assoc]
      rfl
    | false =>
      simp only [Bool.false_eq_true, if_false, List.singleton_append, List.append_nil]
      rw [Arr.sumAxes_cons, ih (a.sumAxis m) (by rw [Arr.shape_length_sumAxis a m hm']; omega), Arr.shape_sumAxis]
      simp only [Arr.removeAt]
      rw [keptOf_eraseIdx, List.eraseIdx_eq_take_drop_succ]
      congr 1
      rw [List.drop_append_of_le_length (by simp; omega)]
      simp

theorem wfn_projection (fo : FloatOps) (h r : HN) (axes : List (Sum Int String)) (w : WFN fo h)
    (hr : h.projection axes = .ok r) : WFN fo r := by
  obtain ⟨ax, _, rfl⟩ := HN.projection_eq h r axes hr
  have hlen : (h.shape fo).length = h.axes.length := by simp [HN.shape]
  have hsh : ∀ a : Arr, a.shape = h.shape fo →
      (a.sumAxes (dropList h.axes.length fun i => ax.contains i)).shape
        = (keptOf h.axes (fun i => ax.contains i) h.axes.length).map fun b => (b.bins fo).length := by
    intro a ha
    rw [Arr.shape_sumAxes_dropList a _ _ (by rw [ha, hlen]), keptOf_map, ha]
    rw [List.drop_of_length_le (by rw [hlen]), List.append_nil]
    rfl
  refine ⟨hsh _ w.fshape, hsh _ w.eshape, Arr.wellShaped_sumAxes _ w.fws _, Arr.wellShaped_sumAxes _ w.ews _,
    Arr.nonneg_sumAxes _ w.epos _, Arr.nonneg_sumAxes _ w.fpos _, ?_⟩
  show (keptOf h.names _ _).length = (keptOf h.axes _ _).length
  rw [keptOf_length _ _ _ (by rw [w.nlen]), keptOf_length _ _ _ (Nat.le_refl _)]

theorem selectInt_ok (h r : HN) (axis : Nat) (i : Int) (hr : h.selectInt axis i = .ok r) :
    ∃ k : Nat, r = { axes := h.axes.eraseIdx axis, names := h.names.eraseIdx axis, freq := h.freq.selectInt axis k,
                     err2 := h.err2.selectInt axis k, missed := some 0, keep := true, dtype := h.dtype } := by
  unfold HN.selectInt at hr
  simp only [bind, Except.bind, pure, Except.pure, throw, throwThe, MonadExceptOf.throw] at hr
  split at hr <;> split at hr <;> first | (cases hr; exact ⟨_, rfl⟩) | cases hr

theorem wfn_selectInt (fo : FloatOps) (h r : HN) (axis : Nat) (i : Int) (w : WFN fo h)
    (hr : h.selectInt axis i = .ok r) : WFN fo r := by
  obtain ⟨k, rfl⟩ := selectInt_ok h r axis i hr
  have hs : ∀ a : Arr, a.shape = h.shape fo →
      Arr.removeAt a.shape axis = (h.axes.eraseIdx axis).map fun b => (b.bins fo).length := by
    intro a ha
    rw [ha, ← List.eraseIdx_map]; rfl
  refine ⟨?_, ?_, Arr.wellShaped_selectInt _ _ _, Arr.wellShaped_selectInt _ _ _,
    Arr.nonneg_selectInt _ w.epos _ _, Arr.nonneg_selectInt _ w.fpos _ _, ?_⟩
  · show (h.freq.selectInt axis _).shape = _
    rw [Arr.shape_selectInt]; exact hs _ w.fshape
  · show (h.err2.selectInt axis _).shape = _
    rw [Arr.shape_selectInt]; exact hs _ w.eshape
  · show (h.names.eraseIdx axis).length = (h.axes.eraseIdx axis).length
    simp [List.length_eraseIdx, w.nlen]

theorem normIdx_le (n : Nat) (i : Int) : normIdx n i ≤ n := by
  unfold normIdx
  split
  · omega
  · exact Nat.min_le_right _ _

theorem sliceBounds_le (n : Nat) (start stop : Option Int) :
    (sliceBounds n start stop).1 ≤ n ∧ (sliceBounds n start stop).2 ≤ n := by
  unfold sliceBounds
  constructor
  · cases start with
    | none => exact Nat.zero_le _
    | some s => exact normIdx_le n s
  · cases stop with
    | none => exact Nat.le_refl _
    | some s => exact normIdx_le n s

theorem wfn_selectSlice (fo : FloatOps) (h : HN) (axis : Nat) (start stop : Option Int) (w : WFN fo h) :
    WFN fo (h.selectSlice fo axis start stop) := by
  unfold HN.selectSlice
  simp only []
  split
  · exact w
  · rename_i bn hbn
    have hn : h.freq.shape[axis]?.getD 0 = (bn.bins fo).length := by
      rw [w.fshape, shape_getElem? fo h axis bn hbn]; rfl
    rw [hn]
    obtain ⟨la, lb⟩ := sliceBounds_le (bn.bins fo).length start stop
    generalize (sliceBounds (bn.bins fo).length start stop).1 = a at la
    generalize (sliceBounds (bn.bins fo).length start stop).2 = b at lb
    have hlen : (pySlice (bn.bins fo) a (if b < a then a else b)).length = (if b < a then a else b) - a := by
      simp only [pySlice, List.length_take, List.length_drop]
      split <;> omega
    have hs : ∀ s : List Nat, s = h.shape fo →
        Arr.setAt s axis ((if b < a then a else b) - a)
          = (h.axes.set axis (.static (pySlice (bn.bins fo) a (if b < a then a else b)) bn.ire)).map
              fun b => (b.bins fo).length := by
      intro s hs
      rw [HN.shape_set, hs]
      show _ = Arr.setAt _ axis (pySlice (bn.bins fo) a (if b < a then a else b)).length
      rw [hlen]; rfl
    refine ⟨?_, ?_, Arr.wellShaped_gather _ _ _ _, Arr.wellShaped_gather _ _ _ _,
      Arr.nonneg_gather _ w.epos _ _ _, Arr.nonneg_gather _ w.fpos _ _ _, ?_⟩
    · exact hs _ w.fshape
    · exact hs _ w.eshape
    · simpa using w.nlen

theorem Arr.transpose_shape2 (a : Arr) (n m : Nat) (hs : a.shape = [n, m]) :
    a.transpose.shape = [m, n] ∧ a.transpose.WellShaped := by
  unfold Arr.transpose
  split
  · rename_i n' m' hs'
    rw [hs] at hs'
    cases hs'
    exact ⟨rfl, Arr.wellShaped_ofFn _ _⟩
  · rename_i hno
    exact absurd hs (hno n m)

theorem Arr.transpose_not2 (a : Arr) (hs : ∀ n m, a.shape ≠ [n, m]) : a.transpose = a := by
  unfold Arr.transpose
  split
  · rename_i n m h2
    exact absurd h2 (hs n m)
  · rfl

/-- `Histogram2D.T` (also harmless with fewer than two axes) -/
theorem wfn_transpose (fo : FloatOps) (h : HN) (h2 : h.axes.length ≤ 2) (w : WFN fo h) : WFN fo h.transpose := by
  have hax : (h.axes = [] ∨ ∃ b, h.axes = [b]) ∨ ∃ b1 b2, h.axes = [b1, b2] := by
    match hh : h.axes with
    | [] => exact Or.inl (Or.inl rfl)
    | [b] => exact Or.inl (Or.inr ⟨b, rfl⟩)
    | [b1, b2] => exact Or.inr ⟨b1, b2, rfl⟩
    | _ :: _ :: _ :: _ => rw [hh] at h2; simp at h2
  rcases hax with hax | ⟨b1, b2, hax⟩
  · have hrev : h.axes.reverse = h.axes := by
      rcases hax with e | ⟨b, e⟩ <;> rw [e] <;> rfl
    have hno : ∀ a : Arr, a.shape = h.shape fo → ∀ n m, a.shape ≠ [n, m] := by
      intro a ha n m hc
      have : (h.shape fo).length = 2 := by rw [← ha, hc]; rfl
      rcases hax with e | ⟨b, e⟩ <;> simp [HN.shape, e] at this
    have hrs : h.transpose.shape fo = h.shape fo := by
      simp only [HN.shape, HN.transpose, hrev]
    refine ⟨?_, ?_, ?_, ?_, ?_, ?_, ?_⟩
    · show h.freq.transpose.shape = _
      rw [Arr.transpose_not2 _ (hno _ w.fshape), hrs]; exact w.fshape
    · show h.err2.transpose.shape = _
      rw [Arr.transpose_not2 _ (hno _ w.eshape), hrs]; exact w.eshape
    · show h.freq.transpose.WellShaped
      rw [Arr.transpose_not2 _ (hno _ w.fshape)]; exact w.fws
    · show h.err2.transpose.WellShaped
      rw [Arr.transpose_not2 _ (hno _ w.eshape)]; exact w.ews
    · exact Arr.nonneg_transpose _ w.epos
    · exact Arr.nonneg_transpose _ w.fpos
    · show h.names.reverse.length = h.axes.reverse.length
      simpa using w.nlen
  · have hsh : h.shape fo = [(b1.bins fo).length, (b2.bins fo).length] := by simp [HN.shape, hax]
    have hrs : h.transpose.shape fo = [(b2.bins fo).length, (b1.bins fo).length] := by
      simp [HN.shape, HN.transpose, hax]
    obtain ⟨f1, f2⟩ := Arr.transpose_shape2 h.freq _ _ (w.fshape.trans hsh)
    obtain ⟨e1, e2⟩ := Arr.transpose_shape2 h.err2 _ _ (w.eshape.trans hsh)
    refine ⟨by rw [hrs]; exact f1, by rw [hrs]; exact e1, f2, e2, Arr.nonneg_transpose _ w.epos,
      Arr.nonneg_transpose _ w.fpos, ?_⟩
    show h.names.reverse.length = h.axes.reverse.length
    simpa using w.nlen

/-- `accumulate(axis)`: running sums of non-negative contents are non-negative -/
theorem wfn_accumulate (fo : FloatOps) (h : HN) (axis : Nat) (w : WFN fo h) : WFN fo (h.accumulate axis) :=
  ⟨by show (h.freq.cumsum axis).shape = _; rw [Arr.shape_cumsum]; exact w.fshape, w.eshape,
    Arr.wellShaped_gather _ _ _ _, w.ews, w.epos, Arr.nonneg_gather _ w.fpos _ _ _, w.nlen⟩

/-! ## `merge_bins`, `partial_normalize`, `set_dtype`, `copy` -/

theorem wfn_mergeAxisWithMap (fo : FloatOps) (h r : HN) (axis : Nat) (map : List Nat) (w : WFN fo h)
    (hr : h.mergeAxisWithMap fo axis map = .ok r) : WFN fo r := by
  unfold HN.mergeAxisWithMap at hr
  simp only [bind, Except.bind, pure, Except.pure, throw, throwThe, MonadExceptOf.throw] at hr
  split at hr
  · cases hr
  split at hr
  · cases hr
  rename_i bn hbn
  split at hr
  · cases hr
  rename_i newBins _
  cases hr
  have hs : ∀ s : List Nat, s = h.shape fo → ∀ ire,
      Arr.setAt s axis newBins.length = (h.axes.set axis (.static newBins ire)).map fun b => (b.bins fo).length := by
    intro s hs ire
    rw [HN.shape_set, hs]; rfl
  exact ⟨hs _ w.fshape _, hs _ w.eshape _, Arr.wellShaped_gather _ _ _ _, Arr.wellShaped_gather _ _ _ _,
    Arr.nonneg_gather _ w.epos _ _ _, Arr.nonneg_gather _ w.fpos _ _ _, by simpa using w.nlen⟩

theorem wfn_mergeAxis (fo : FloatOps) (h r : HN) (axis : Nat) (amount : Option Nat) (thr : Option Rat)
    (w : WFN fo h) (hr : h.mergeAxis fo axis amount thr = .ok r) : WFN fo r := by
  unfold HN.mergeAxis at hr
  simp only [throw, throwThe, MonadExceptOf.throw] at hr
  split at hr
  · split at hr
    · cases hr
    · exact wfn_mergeAxisWithMap fo h r axis _ w hr
  · exact wfn_mergeAxisWithMap fo h r axis _ w hr
  · cases hr

theorem foldlM_invariant {α β} (P : α → Prop) (f : α → β → R α) (hf : ∀ a b a', P a → f a b = .ok a' → P a')
    (l : List β) (a r : α) (ha : P a) (hr : l.foldlM f a = .ok r) : P r := by
  induction l generalizing a with
  | nil => simp only [List.foldlM_nil, pure, Except.pure, Except.ok.injEq] at hr; subst hr; exact ha
  | cons b bs ih =>
    simp only [List.foldlM_cons, bind, Except.bind] at hr
    cases hb : f a b with
    | error e => simp [hb] at hr
    | ok a' =>
      simp only [hb] at hr
      exact ih a' (hf a b a' ha hb) hr

theorem wfn_mergeAll (fo : FloatOps) (h r : HN) (amount : Option Nat) (thr : Option Rat)
    (w : WFN fo h) (hr : h.mergeAll fo amount thr = .ok r) : WFN fo r :=
  foldlM_invariant (WFN fo) _ (fun a i a' wa ha => wfn_mergeAxis fo a a' i amount thr wa ha) _ h r w hr

theorem pnDiv_nonneg (sums : Arr) (axis : Nat) (a : Arr) (sq : Bool) (hs : sums.NonNeg) (ha : a.NonNeg) :
    (pnDiv sums axis a sq).NonNeg := by
  apply Arr.nonneg_ofFn
  intro idx
  apply div_nonneg (Arr.get_nonneg a ha idx)
  have h1 : 0 ≤ (if sums.get [idx[1 - axis]?.getD 0] = 0 then 1 else sums.get [idx[1 - axis]?.getD 0]) := by
    split
    · norm_num
    · exact Arr.get_nonneg sums hs _
  cases sq with
  | true => exact mul_self_nonneg _
  | false => exact h1

/-- `partial_normalize(axis)`: the divisors are sums of non-negative contents -/
theorem wfn_partialNormalize (fo : FloatOps) (h : HN) (axis : Nat) (w : WFN fo h) : WFN fo (h.partialNormalize axis) := by
  by_cases h2 : ∃ n m, h.freq.shape = [n, m]
  · obtain ⟨n, m, hs⟩ := h2
    rw [HN.partialNormalize_eq h axis n m hs]
    have hsum := Arr.nonneg_sumAxis h.freq w.fpos axis
    exact ⟨w.fshape, w.eshape, Arr.wellShaped_ofFn _ _, Arr.wellShaped_ofFn _ _,
      pnDiv_nonneg _ _ _ _ hsum w.epos, pnDiv_nonneg _ _ _ _ hsum w.fpos, w.nlen⟩
  · have : h.partialNormalize axis = h.coerce .f64 := by
      unfold HN.partialNormalize
      simp only []
      split
      · rename_i n m hs
        exact absurd ⟨n, m, hs⟩ h2
      · rfl
    rw [this]
    exact wfn_coerce fo h _ w

theorem setDTypeN_ok (h r : HN) (d : DType) (hr : h.setDType d = .ok r) :
    r.axes = h.axes ∧ r.freq = h.freq ∧ r.err2 = h.err2 ∧ r.names = h.names ∧ r.missed = h.missed ∧ r.keep = h.keep := by
  unfold HN.setDType at hr
  simp only [bind, Except.bind, pure, Except.pure] at hr
  split at hr
  · cases hr
  · cases hr
    exact ⟨rfl, rfl, rfl, rfl, rfl, rfl⟩

theorem wfn_setDType (fo : FloatOps) (h r : HN) (d : DType) (w : WFN fo h) (hr : h.setDType d = .ok r) : WFN fo r := by
  obtain ⟨a, f, e, n, _⟩ := setDTypeN_ok h r d hr
  exact wfn_of_eq fo a f e n w

theorem wfn_copy (fo : FloatOps) (h : HN) (b : Bool) (w : WFN fo h) : WFN fo (h.copy b) := by
  cases b with
  | true => exact w
  | false =>
    exact ⟨w.fshape, w.eshape, Arr.wellShaped_zeros _, Arr.wellShaped_zeros _, Arr.nonneg_zeros _, Arr.nonneg_zeros _,
      w.nlen⟩


/-! ## The operation language -/

/-- the public mutating / deriving operations of `HistogramND` / `Histogram2D` (free arithmetics
    off).  Axes are referred to as in physt: by position or by name. -/
inductive OpN'
  | fill (v : List (Option Rat)) (w : Rat) (wk : H1.NumKind)
  | fillN (rows : List (List (Option Rat))) (ws : Option (List Rat)) (wk : DType)
  | iadd (o : HN)
  | isub (o : HN)
  | imul (c : Rat) (k : H1.NumKind)
  | idiv (c : Rat)
  | normalize (inplace percent : Bool)
  | projection (axes : List (Sum Int String))
  | selectInt (ax : Sum Int String) (i : Int)
  | selectSlice (ax : Sum Int String) (start stop : Option Int)
  | transpose
  | accumulate (ax : Sum Int String)
  | mergeAxis (ax : Sum Int String) (amount : Option Nat) (thr : Option Rat)
  | mergeAll (amount : Option Nat) (thr : Option Rat)
  | partialNormalize (ax : Sum Int String)
  | setDType (d : DType)
  | copy (withFreq : Bool)

/-- one public call: the new state, or the refusal.  As in `Physt/DriverND.lean` (`stepN`): a
    `fill` whose value has the wrong number of coordinates is refused; an axis reference is resolved
    by `_get_axis` first (an unknown axis is a refusal).  `T` exists for `Histogram2D` only. -/
def stepN' (fo : FloatOps) (fuel : Nat) (h : HN) : OpN' → Except String HN
  | .fill v w wk => if v.length != h.axes.length then .error "wrong dimension" else .ok (h.fill fo fuel v w wk).1
  | .fillN rows ws wk => h.fillN fo fuel rows ws wk
  | .iadd o => h.iadd fo o
  | .isub o => h.isub fo o
  | .imul c k => h.imul c k
  | .idiv c => h.idiv c
  | .normalize i p => h.normalize i p
  | .projection axes => h.projection axes
  | .selectInt ax i => (h.getAxis ax).bind fun axis => h.selectInt axis i
  | .selectSlice ax a b => (h.getAxis ax).bind fun axis => .ok (h.selectSlice fo axis a b)
  | .transpose => if h.axes.length = 2 then .ok h.transpose else .error "T is defined for Histogram2D only"
  | .accumulate ax => (h.getAxis ax).bind fun axis => .ok (h.accumulate axis)
  | .mergeAxis ax amount thr => (h.getAxis ax).bind fun axis => h.mergeAxis fo axis amount thr
  | .mergeAll amount thr => h.mergeAll fo amount thr
  | .partialNormalize ax => (h.getAxis ax).bind fun axis => .ok (h.partialNormalize axis)
  | .setDType d => h.setDType d
  | .copy b => .ok (h.copy b)

/-- What the caller holds after the call was refused with message `e` — what `Physt/DriverND.lean`
    (`stepN`) keeps in the register: the state as it was, except for the dtype promotion the
    implementation performs before it validates (`fill` of a value with the wrong number of
    coordinates — the driver's `fill_wrong_dim`, where the weight is the default python int and the
    kept state is `h.coerce .i64` —, `*=`, `/=`, in-place `normalize`, `-=`, adaptive `+=`).
    `fill_n` validates before it adapts, `merge_bins(axis=None)` is all-or-nothing. -/
def keptN (h : HN) (op : OpN') (e : String) : HN :=
  match op with
  | .fill _ _ wk => h.coerce wk.dtype
  | .iadd o => if e == "different widths" || e == "different shifts" then h.coerce o.dtype else h
  | .isub o => if e == "negative frequencies" || e == "shape changed" then h.coerce o.dtype else h
  | .imul _ k => h.coerce k.dtype
  | .idiv c => if c != 0 then h.coerce .f64 else h
  | .normalize inplace _ => if inplace && h.total != 0 then h.coerce .f64 else h
  | _ => h

/-- the state after one call, accepted or refused -/
def nextN (fo : FloatOps) (fuel : Nat) (h : HN) (op : OpN') : HN :=
  match stepN' fo fuel h op with
  | .ok h' => h'
  | .error e => keptN h op e

/-- a history: a refused call is caught by the caller and the object is used further -/
def runN (fo : FloatOps) (fuel : Nat) (h : HN) : List OpN' → HN
  | [] => h
  | op :: ops => runN fo fuel (nextN fo fuel h op) ops

/-- The premises of the property, per operation: weights are non-negative, the other operand of
    `+=` / `-=` is itself a well-formed histogram.  (Free arithmetics off: `isub` / `imul` are the
    guarded versions.)  Nothing is asked of the bins and nothing depends on the current state. -/
def OpOKN (fo : FloatOps) : OpN' → Prop
  | .fill _ w _ => 0 ≤ w
  | .fillN _ ws _ => ∀ l, ws = some l → ∀ x ∈ l, 0 ≤ x
  | .iadd o => WFN fo o
  | .isub o => WFN fo o
  | _ => True

/-! ## One step, then every history -/

theorem bind_ok {α β} (x : Except String α) (f : α → Except String β) (r : β) (h : x.bind f = .ok r) :
    ∃ a, x = .ok a ∧ f a = .ok r := by
  cases x with
  | error e => cases h
  | ok a => exact ⟨a, rfl, h⟩

/-- **One public call keeps a well-formed N-d histogram well-formed**, for every operation of
    `OpN'`, every kind of axis (static bins of any shape; fixed-width grids, adaptive or not, growth
    included), every `FloatOps` and every fuel. -/
theorem wfn_step (fo : FloatOps) (fuel : Nat) (h h' : HN) (op : OpN') (w : WFN fo h) (ok : OpOKN fo op)
    (hs : stepN' fo fuel h op = .ok h') : WFN fo h' := by
  cases op with
  | fill v x wk =>
    simp only [stepN'] at hs
    split at hs
    · cases hs
    · cases hs; exact wfn_fill fo fuel h v x wk ok w
  | fillN rows ws wk => exact wfn_fillN fo fuel h h' rows ws wk ok w hs
  | iadd o => exact wfn_iadd fo h o h' w ok hs
  | isub o => exact wfn_isub fo h o h' w ok hs
  | imul c k => exact wfn_imul fo h h' c k w hs
  | idiv c => exact wfn_idiv fo h h' c w hs
  | normalize i p => exact wfn_normalize fo h h' i p w hs
  | projection axes => exact wfn_projection fo h h' axes w hs
  | selectInt ax i =>
    obtain ⟨axis, _, h2⟩ := bind_ok _ _ _ hs
    exact wfn_selectInt fo h h' axis i w h2
  | selectSlice ax a b =>
    obtain ⟨axis, _, h2⟩ := bind_ok _ _ _ hs
    cases h2; exact wfn_selectSlice fo h axis a b w
  | transpose =>
    simp only [stepN'] at hs
    split at hs
    · rename_i h2
      cases hs; exact wfn_transpose fo h (by omega) w
    · cases hs
  | accumulate ax =>
    obtain ⟨axis, _, h2⟩ := bind_ok _ _ _ hs
    cases h2; exact wfn_accumulate fo h axis w
  | mergeAxis ax amount thr =>
    obtain ⟨axis, _, h2⟩ := bind_ok _ _ _ hs
    exact wfn_mergeAxis fo h h' axis amount thr w h2
  | mergeAll amount thr => exact wfn_mergeAll fo h h' amount thr w hs
  | partialNormalize ax =>
    obtain ⟨axis, _, h2⟩ := bind_ok _ _ _ hs
    cases h2; exact wfn_partialNormalize fo h axis w
  | setDType d => exact wfn_setDType fo h h' d w hs
  | copy b => simp only [stepN', Except.ok.injEq] at hs; subst hs; exact wfn_copy fo h b w

/-- what the caller keeps after a refused call is well-formed, too -/
theorem wfn_kept (fo : FloatOps) (h : HN) (op : OpN') (e : String) (w : WFN fo h) : WFN fo (keptN h op e) := by
  cases op <;> simp only [keptN] <;> first
    | exact w
    | exact wfn_coerce fo _ _ w
    | (split <;> first | exact w | exact wfn_coerce fo _ _ w)

theorem wfn_next (fo : FloatOps) (fuel : Nat) (h : HN) (op : OpN') (w : WFN fo h) (ok : OpOKN fo op) :
    WFN fo (nextN fo fuel h op) := by
  unfold nextN
  cases hs : stepN' fo fuel h op with
  | ok h' => exact wfn_step fo fuel h h' op w ok hs
  | error e => exact wfn_kept fo h op e w

/-- **C18 in N dimensions, the invariant over arbitrary histories.**  Start from a well-formed
    histogram and apply any sequence of public operations whose premises hold (non-negative weights,
    well-formed operands); calls that are refused are caught and the object is used further.  The
    result is well-formed. -/
theorem wfn_history (fo : FloatOps) (fuel : Nat) (h : HN) (ops : List OpN') (w : WFN fo h)
    (ok : ∀ op ∈ ops, OpOKN fo op) : WFN fo (runN fo fuel h ops) := by
  induction ops generalizing h with
  | nil => exact w
  | cons op ops ih =>
    exact ih _ (wfn_next fo fuel h op w (ok op (List.mem_cons_self ..))) fun q hq => ok q (List.mem_cons_of_mem _ hq)

/-- **No content is ever negative, shapes always match**: after any history (non-negative weights,
    free arithmetics off, well-formed operands) every content and every squared error is `≥ 0`, the
    two arrays have exactly the shape given by the bins of the axes — one array axis per binning,
    `prodL shape` stored numbers — and there is one name per axis. -/
theorem no_negative_content_nd (fo : FloatOps) (fuel : Nat) (h : HN) (ops : List OpN') (w : WFN fo h)
    (ok : ∀ op ∈ ops, OpOKN fo op) :
    (∀ x ∈ (runN fo fuel h ops).freq.data, 0 ≤ x) ∧ (∀ x ∈ (runN fo fuel h ops).err2.data, 0 ≤ x) ∧
    (runN fo fuel h ops).freq.shape = (runN fo fuel h ops).axes.map (fun b => (b.bins fo).length) ∧
    (runN fo fuel h ops).err2.shape = (runN fo fuel h ops).axes.map (fun b => (b.bins fo).length) ∧
    (runN fo fuel h ops).freq.data.length = prodL ((runN fo fuel h ops).axes.map fun b => (b.bins fo).length) ∧
    (runN fo fuel h ops).err2.data.length = prodL ((runN fo fuel h ops).axes.map fun b => (b.bins fo).length) ∧
    (runN fo fuel h ops).names.length = (runN fo fuel h ops).axes.length := by
  have r := wfn_history fo fuel h ops w ok
  refine ⟨r.fpos, r.epos, r.fshape, r.eshape, ?_, ?_, r.nlen⟩
  · have := r.fws; unfold Arr.WellShaped at this; rw [this, r.fshape]; rfl
  · have := r.ews; unfold Arr.WellShaped at this; rw [this, r.eshape]; rfl

/-! ## A refused call changes nothing -/

/-- everything an N-d histogram records, the dtype aside -/
def SameRecordN (k h : HN) : Prop :=
  k.axes = h.axes ∧ k.freq = h.freq ∧ k.err2 = h.err2 ∧ k.missed = h.missed ∧ k.keep = h.keep ∧ k.names = h.names

/-- the dtype is what it was or a lossless promotion of it -/
def DTypeKeptN (k h : HN) : Prop :=
  (k.dtype = h.dtype ∨ ∃ d, k.dtype = h.dtype.promote d) ∧ DType.canCast h.dtype k.dtype = true

theorem sameN_self (h : HN) : SameRecordN h h ∧ DTypeKeptN h h :=
  ⟨⟨rfl, rfl, rfl, rfl, rfl, rfl⟩, Or.inl rfl, canCast_self _⟩

theorem sameN_coerce (h : HN) (d : DType) : SameRecordN (h.coerce d) h ∧ DTypeKeptN (h.coerce d) h :=
  ⟨⟨rfl, rfl, rfl, rfl, rfl, rfl⟩, Or.inr ⟨d, rfl⟩, (C13_lossless h.dtype d).1⟩

theorem nextN_of_error (fo : FloatOps) (fuel : Nat) (h : HN) (op : OpN') (e : String)
    (hs : stepN' fo fuel h op = .error e) : nextN fo fuel h op = keptN h op e := by
  simp only [nextN, hs]

/-- **An operation that raises leaves every recorded content, squared error and the missed count
    at exactly the value it had** — also the bins of every axis, the `keep_missed` flag and the axis
    names; at most the dtype has been promoted, losslessly.  For every operation of `OpN'`, every
    kind of axis, with no exception: the N-d `fill_n` validates its arguments before it grows
    adaptive axes, and `merge_bins(axis=None)` is all-or-nothing. -/
theorem refused_changes_nothing_nd (fo : FloatOps) (fuel : Nat) (h : HN) (op : OpN') (e : String)
    (hs : stepN' fo fuel h op = .error e) :
    SameRecordN (nextN fo fuel h op) h ∧ DTypeKeptN (nextN fo fuel h op) h := by
  rw [nextN_of_error fo fuel h op e hs]
  cases op <;> simp only [keptN] <;> first
    | exact sameN_self h
    | exact sameN_coerce h _
    | (split <;> first | exact sameN_self h | exact sameN_coerce h _)

theorem runN_cons (fo : FloatOps) (fuel : Nat) (h : HN) (op : OpN') (ops : List OpN') :
    runN fo fuel h (op :: ops) = runN fo fuel (nextN fo fuel h op) ops := rfl

/-- in a history, a refused call is skipped: the history goes on from what the caller kept -/
theorem runN_refused (fo : FloatOps) (fuel : Nat) (h : HN) (op : OpN') (ops : List OpN') (e : String)
    (hs : stepN' fo fuel h op = .error e) :
    runN fo fuel h (op :: ops) = runN fo fuel (keptN h op e) ops := by
  rw [runN_cons, nextN_of_error fo fuel h op e hs]


/-! ## Refusals that do happen; constructors -/

/-- **Subtracting more than is there is refused** (same bins, free arithmetics off): if some cell of
    `o` holds more than the same cell of `h`, `h -= o` raises. -/
theorem isubN_refused_of_larger (fo : FloatOps) (h o : HN) (hs : h.sameBins fo o = true) (i : Nat)
    (hi : i < h.freq.data.length) (hi' : i < o.freq.data.length) (hlt : h.freq.data[i] < o.freq.data[i]) :
    ∃ e, h.isub fo o = .error e := by
  cases hr : h.isub fo o with
  | error e => exact ⟨e, rfl⟩
  | ok r =>
    exfalso
    obtain ⟨o0, h0, aS, aO, e1, e2, e3, e4, _, _, _, rf, _, hn⟩ := isubN_parts fo h o r hr
    have po := HN.imul_ok o o0 0 .pyInt e1
    have ph := HN.imul_ok h h0 0 .pyInt e2
    have hb : h.axes.map (·.bins fo) = o.axes.map (·.bins fo) := by simpa [HN.sameBins] using hs
    have s1 : h.sameBins fo o0 = true := by
      simp only [HN.sameBins, po.2.2.2.1, beq_iff_eq]; exact hb
    have s2 : h0.sameBins fo o = true := by
      simp only [HN.sameBins, ph.2.2.2.1, beq_iff_eq]; exact hb
    have fS : aS.freq = Arr.zipWith (· + ·) h.freq (o.freq.map (· * 0)) := by
      rw [(iaddN_same_ok fo h o0 aS s1 e3).2.2.2.1, po.1]
    have fO : aO.freq = Arr.zipWith (· + ·) (h.freq.map (· * 0)) o.freq := by
      rw [(iaddN_same_ok fo h0 o aO s2 e4).2.2.2.1, ph.1]
    have hir : i < r.freq.data.length := by
      rw [rf, fS, fO]
      simp only [Arr.zipWith, Arr.map, List.length_zipWith, List.length_map]
      omega
    have hval : r.freq.data[i] = h.freq.data[i] - o.freq.data[i] := by
      simp only [rf, fS, fO, Arr.zipWith, Arr.map, List.getElem_zipWith, List.getElem_map]
      ring
    have := any_lt_false hn _ (List.getElem_mem hir)
    rw [hval] at this
    linarith

/-- **A negative factor is refused** as soon as one content is positive -/
theorem imulN_refused_of_negative (h : HN) (c : Rat) (k : NumKind) (x : Rat) (hx : x ∈ h.freq.data) (hneg : x * c < 0) :
    ∃ e, h.imul c k = .error e := by
  cases hr : h.imul c k with
  | error e => exact ⟨e, rfl⟩
  | ok r =>
    exfalso
    have hn := (HN.imul_ok h r c k hr).2.2.2.2.2.2.2
    have := any_lt_false hn (x * c) (by simp only [Arr.map]; exact List.mem_map.mpr ⟨x, hx, rfl⟩)
    linarith

/-- `fill_n` validates before it adapts: a refusal is decided by the arguments and the number of
    axes alone (so nothing — in particular no adaptive axis — has been touched) -/
theorem fillN_refused_reason (fo : FloatOps) (fuel : Nat) (h : HN) (rows : List (List (Option Rat)))
    (ws : Option (List Rat)) (wk : DType) (e : String) (hr : h.fillN fo fuel rows ws wk = .error e) :
    ((rows.any fun r => r.length != h.axes.length) = true ∧ e = "wrong number of columns") ∨
    (∃ w, ws = some w ∧ w.length ≠ rows.length ∧ e = "weights shape") := by
  unfold HN.fillN at hr
  simp only [bind, Except.bind, pure, Except.pure, throw, throwThe, MonadExceptOf.throw] at hr
  split at hr
  · rename_i hc
    cases hr
    exact Or.inl ⟨hc, rfl⟩
  · cases ws with
    | none => cases hr
    | some w =>
      simp only at hr
      split at hr
      · rename_i hw
        cases hr
        exact Or.inr ⟨w, rfl, by simpa using hw, rfl⟩
      · cases hr

theorem wfn_empty_names (fo : FloatOps) (axes : List Binning) (keep : Bool) (dt : Option DType)
    (names : Option (List String)) (hn : ∀ ns, names = some ns → ns.length = axes.length) :
    WFN fo (HN.empty fo axes keep dt names) := by
  refine ⟨rfl, rfl, Arr.wellShaped_zeros _, Arr.wellShaped_zeros _, Arr.nonneg_zeros _, Arr.nonneg_zeros _, ?_⟩
  cases names with
  | none => simp [HN.empty, HN.defaultNames]
  | some ns => simpa [HN.empty] using hn ns rfl

/-- construction from data with non-negative weights gives a well-formed histogram -/
theorem wfn_construct (fo : FloatOps) (axes : List Binning) (rows : List (List (Option Rat)))
    (ws : Option (List Rat)) (wkind : DType) (dropna : Bool) (names : Option (List String)) (c : HN)
    (hw : ∀ l, ws = some l → ∀ x ∈ l, 0 ≤ x) (hn : ∀ ns, names = some ns → ns.length = axes.length)
    (hc : HN.construct fo axes rows ws wkind dropna names = .ok c) : WFN fo c := by
  have hnames : c.names = names.getD (HN.defaultNames axes.length) := by
    unfold HN.construct at hc
    simp only [bind, Except.bind, pure, Except.pure, throw, throwThe, MonadExceptOf.throw] at hc
    repeat' split at hc
    all_goals first | (cases hc; rfl) | cases hc
  obtain ⟨_, ca, _, cf, ce, _⟩ := construct_ok fo axes rows ws wkind dropna names c hc
  have sf := calcND_freq_hasShape (axesOf fo axes) (maskRows rows ws)
  have se := calcND_err2_hasShape (axesOf fo axes) (maskRows rows ws)
  rw [axesOf_shape] at sf se
  have cs : c.shape fo = axes.map fun b => (b.bins fo).length := by simp only [HN.shape, ca]
  refine ⟨by rw [cf, cs]; exact sf.1, by rw [ce, cs]; exact se.1, by rw [cf]; exact sf.wellShaped,
    by rw [ce]; exact se.wellShaped, by rw [ce]; exact calcND_err2_nonneg _ _,
    by rw [cf]; exact calcND_freq_nonneg _ _ (maskRows_nonneg rows ws hw), ?_⟩
  rw [hnames, ca]
  cases names with
  | none => simp [HN.defaultNames]
  | some ns => simpa using hn ns rfl

/-! ## Checking the premises by evaluation -/

def wfnB (fo : FloatOps) (h : HN) : Bool :=
  decide (h.freq.shape = h.shape fo) && decide (h.err2.shape = h.shape fo) &&
  decide h.freq.WellShaped && decide h.err2.WellShaped &&
  h.err2.data.all (fun x => decide (0 ≤ x)) && h.freq.data.all (fun x => decide (0 ≤ x)) &&
  decide (h.names.length = h.axes.length)

theorem wfn_of_wfnB (fo : FloatOps) (h : HN) (c : wfnB fo h = true) : WFN fo h := by
  simp only [wfnB, Bool.and_eq_true, decide_eq_true_eq, List.all_eq_true] at c
  exact ⟨c.1.1.1.1.1.1, c.1.1.1.1.1.2, c.1.1.1.1.2, c.1.1.1.2, c.1.1.2, c.1.2, c.2⟩

def opOKNB (fo : FloatOps) : OpN' → Bool
  | .fill _ w _ => decide (0 ≤ w)
  | .fillN _ ws _ => match ws with
    | none => true
    | some l => l.all fun x => decide (0 ≤ x)
  | .iadd o => wfnB fo o
  | .isub o => wfnB fo o
  | _ => true

theorem opOKN_of_opOKNB (fo : FloatOps) (op : OpN') (c : opOKNB fo op = true) : OpOKN fo op := by
  cases op with
  | fill v w k => simpa [opOKNB, OpOKN] using c
  | fillN vs ws k =>
    cases ws with
    | none => intro l hl; cases hl
    | some l0 =>
      intro l hl x hx
      cases hl
      simp only [opOKNB, List.all_eq_true, decide_eq_true_eq] at c
      exact c x hx
  | iadd o => exact wfn_of_wfnB fo o c
  | isub o => exact wfn_of_wfnB fo o c
  | _ => trivial

theorem allOKN_of_check (fo : FloatOps) (ops : List OpN') (c : ops.all (opOKNB fo) = true) :
    ∀ op ∈ ops, OpOKN fo op :=
  fun op hop => opOKN_of_opOKNB fo op (List.all_eq_true.mp c op hop)

namespace DemoND

def refusalN (r : Except String HN) : Option String :=
  match r with
  | .ok _ => none
  | .error e => some e

/-- two bins on the first axis; three bins with a gap between the second and the third on the
    second axis (right-open) -/
def axes : List Binning := [.static [(0, 1), (1, 2)] true, .static [(0, 2), (2, 4), (5, 6)] false]
def start : HN := HN.empty FloatOps.exact axes true none (some ["x", "y"])

def ops : List OpN' :=
  [ .fill [some (1/2), some 1] 2 .pyInt,
    .fillN [[some (3/2), some 3], [none, some 1], [some 5, some 1], [some (1/2), some (11/2)]] (some [1, 7, 3, 4]) .f64,
    .imul (-1) .pyInt,                 -- refused: contents would become negative
    .mergeAll (some 3) none,           -- refused: axis 0 merges, axis 1 would merge across the gap (4, 5)
    .fill [some 1] 1 .pyInt,           -- refused: one coordinate for two axes
    .fill [some (3/2), some (11/2)] (1/2) .pyFloat,
    .projection [.inl 1] ]


/-- the start is well-formed, the premises of `wfn_history` hold for this history … -/
theorem start_wf : WFN FloatOps.exact start := wfn_of_wfnB _ _ (by decide +kernel)

theorem ops_ok : ∀ op ∈ ops, OpOKN FloatOps.exact op := allOKN_of_check _ _ (by decide +kernel)

/-- … so the result is well-formed … -/
theorem result_wf : WFN FloatOps.exact (runN FloatOps.exact 8 start ops) :=
  wfn_history _ _ _ _ start_wf ops_ok

/-- … and this is what it is (the projection onto the gapped axis `y`) -/
example : (runN FloatOps.exact 8 start ops).freq = { shape := [3], data := [2, 1, 9/2] } ∧
    (runN FloatOps.exact 8 start ops).err2 = { shape := [3], data := [4, 1, 65/4] } ∧
    (runN FloatOps.exact 8 start ops).axes = [.static [(0, 2), (2, 4), (5, 6)] false] ∧
    (runN FloatOps.exact 8 start ops).names = ["y"] ∧
    (runN FloatOps.exact 8 start ops).dtype = .f64 := by decide +kernel

/-- the state after the two fills: a 2 × 3 array; the row `(5, 1)` fell outside (missed = 3) -/
example : (runN FloatOps.exact 8 start (ops.take 2)).freq = { shape := [2, 3], data := [2, 0, 4, 0, 1, 0] } ∧
    (runN FloatOps.exact 8 start (ops.take 2)).err2 = { shape := [2, 3], data := [4, 0, 16, 0, 1, 0] } ∧
    (runN FloatOps.exact 8 start (ops.take 2)).missed = some 3 := by decide +kernel

/-- `*= -1` really is refused there … -/
example : refusalN (stepN' FloatOps.exact 8 (runN FloatOps.exact 8 start (ops.take 2)) (.imul (-1) .pyInt))
    = some "negative frequencies" := by decide +kernel

/-- … and so is `merge_bins(3)` over all axes: on the first axis alone it is accepted, on the second
    it would merge `(2, 4)` with `(5, 6)` across the gap — the whole call is refused … -/
example : refusalN (stepN' FloatOps.exact 8 (runN FloatOps.exact 8 start (ops.take 3)) (.mergeAll (some 3) none))
      = some "merging non-consecutive bins" ∧
    refusalN (stepN' FloatOps.exact 8 (runN FloatOps.exact 8 start (ops.take 3)) (.mergeAxis (.inl 0) (some 3) none))
      = none ∧
    refusalN (stepN' FloatOps.exact 8 (runN FloatOps.exact 8 start (ops.take 3)) (.mergeAxis (.inr "y") (some 3) none))
      = some "merging non-consecutive bins" := by decide +kernel

/-- … and the `fill` of a value with one coordinate -/
example : refusalN (stepN' FloatOps.exact 8 (runN FloatOps.exact 8 start (ops.take 4)) (.fill [some 1] 1 .pyInt))
    = some "wrong dimension" := by decide +kernel

/-- the three refused calls left the object exactly as it was — bins (the first axis is *not*
    merged), contents, squared errors, missed, names, and here even the dtype -/
example : runN FloatOps.exact 8 start (ops.take 5) = runN FloatOps.exact 8 start (ops.take 2) := by
  decide +kernel

/-- `refused_changes_nothing_nd` instantiated at the refused `merge_bins` -/
example : SameRecordN (nextN FloatOps.exact 8 (runN FloatOps.exact 8 start (ops.take 3)) (.mergeAll (some 3) none))
    (runN FloatOps.exact 8 start (ops.take 3)) :=
  (refused_changes_nothing_nd _ _ _ _ "merging non-consecutive bins" (by decide +kernel)).1

/-! An adaptive 2-D histogram: both axes grow in `fill`, in `+=` of a histogram on another part of
    the grid, and in `fill_n`; a refused `fill_n` does **not** grow them. -/

def aStart : HN := HN.empty FloatOps.exact [.fixed { w := 1, adaptive := true }, .fixed { w := 2, adaptive := true }] true none
  (some ["x", "y"])
def aOther : HN :=
  { axes := [.fixed { w := 1, tmin := -2, count := 2, adaptive := true }, .fixed { w := 2, tmin := 0, count := 1, adaptive := true }],
    freq := { shape := [2, 1], data := [1, 2] }, err2 := { shape := [2, 1], data := [1, 2] }, names := ["x", "y"] }

def aOps : List OpN' :=
  [ .fill [some (5/2), some 1] 1 .pyInt,
    .fill [some (1/2), some 5] 2 .pyInt,
    .iadd aOther,
    .fillN [[some 7, some (-4)]] (some [1, 2]) .i64,   -- weights of the wrong shape: refused
    .imul (-2) .pyInt,                                  -- refused
    .isub aOther,                                       -- accepted
    .isub aOther,                                       -- refused: nothing left to subtract
    .fillN [[some 4, some (-3)]] none .i64 ]

theorem aOps_ok : ∀ op ∈ aOps, OpOKN FloatOps.exact op := allOKN_of_check _ _ (by decide +kernel)

theorem aResult_wf : WFN FloatOps.exact (runN FloatOps.exact 8 aStart aOps) :=
  wfn_history _ _ _ _ (wfn_of_wfnB _ _ (by decide +kernel)) aOps_ok

/-- two fills grow both axes; `+=` of a histogram on another part of the grid grows the first -/
example : (runN FloatOps.exact 8 aStart (aOps.take 2)).freq = { shape := [3, 3], data := [0, 0, 2, 0, 0, 0, 1, 0, 0] } ∧
    (runN FloatOps.exact 8 aStart (aOps.take 3)).freq
      = { shape := [5, 3], data := [1, 0, 0, 2, 0, 0, 0, 0, 2, 0, 0, 0, 1, 0, 0] } ∧
    (runN FloatOps.exact 8 aStart (aOps.take 3)).axes
      = [.fixed { w := 1, tmin := -2, count := 5, adaptive := true },
         .fixed { w := 2, tmin := 0, count := 3, adaptive := true }] := by
  decide +kernel

/-- **Unlike the 1-D `fill_n`**, the N-d `fill_n` validates its arguments before it grows the axes:
    the refused call leaves the adaptive bins where they were (the whole object is unchanged) -/
example : refusalN (stepN' FloatOps.exact 8 (runN FloatOps.exact 8 aStart (aOps.take 3))
      (.fillN [[some 7, some (-4)]] (some [1, 2]) .i64)) = some "weights shape" ∧
    runN FloatOps.exact 8 aStart (aOps.take 4) = runN FloatOps.exact 8 aStart (aOps.take 3) := by decide +kernel

example : refusalN (stepN' FloatOps.exact 8 (runN FloatOps.exact 8 aStart (aOps.take 4)) (.imul (-2) .pyInt))
      = some "negative frequencies" ∧
    refusalN (stepN' FloatOps.exact 8 (runN FloatOps.exact 8 aStart (aOps.take 5)) (.isub aOther)) = none ∧
    refusalN (stepN' FloatOps.exact 8 (runN FloatOps.exact 8 aStart (aOps.take 6)) (.isub aOther))
      = some "negative frequencies" := by decide +kernel

/-- after the accepted `-=`, the refused one, and a `fill_n` that grows both axes downwards -/
example : (runN FloatOps.exact 8 aStart (aOps.take 7)).freq
      = { shape := [5, 3], data := [0, 0, 0, 0, 0, 0, 0, 0, 2, 0, 0, 0, 1, 0, 0] } ∧
    (runN FloatOps.exact 8 aStart aOps).freq.shape = [7, 5] ∧
    (runN FloatOps.exact 8 aStart aOps).freq.get [6, 0] = 1 ∧ (runN FloatOps.exact 8 aStart aOps).freq.get [2, 4] = 2 ∧
    (runN FloatOps.exact 8 aStart aOps).freq.total = 4 ∧ (runN FloatOps.exact 8 aStart aOps).err2.total = 12 := by
  decide +kernel


/-! ### Findings: side conditions that are needed, and what is *not* an invariant -/

def b2 : Binning := .static [(0, 1), (1, 2)] true
def b1 : Binning := .static [(0, 1)] true

/-- a well-formed 1 × 1 × 2 histogram -/
def h3 : HN :=
  { axes := [b1, b1, b2], freq := { shape := [1, 1, 2], data := [1, 2] }, err2 := { shape := [1, 1, 2], data := [1, 2] },
    names := ["a", "b", "c"] }

/-- **`T` needs two axes.**  The model's `HN.transpose` reverses the axes of any histogram but
    transposes the arrays of 2-D ones only: on a 1 × 1 × 2 histogram the bins then say `[2, 1, 1]`
    and the arrays `[1, 1, 2]`.  (physt has `T` on `Histogram2D` only; `stepN'` refuses it elsewhere
    and `wfn_transpose` asks for at most two axes.) -/
example : wfnB FloatOps.exact h3 = true ∧ wfnB FloatOps.exact h3.transpose = false ∧
    h3.transpose.freq.shape = [1, 1, 2] ∧ h3.transpose.shape FloatOps.exact = [2, 1, 1] ∧
    refusalN (stepN' FloatOps.exact 8 h3 .transpose) = some "T is defined for Histogram2D only" := by decide +kernel

def mH : HN :=
  { axes := [b2, b2], freq := { shape := [2, 2], data := [1, 1, 1, 1] }, err2 := { shape := [2, 2], data := [1, 1, 1, 1] },
    names := ["x", "y"] }
def mO : HN :=
  { axes := [b2, b2], freq := { shape := [2, 2], data := [0, 0, 0, 0] }, err2 := { shape := [2, 2], data := [0, 0, 0, 0] },
    missed := some 5, names := ["x", "y"] }

/-- **The missed count is not covered by the guards** (as in one dimension): `h -= o` is accepted
    when `o` has more missed weight than `h`, `h *= -1` and `h /= -1` when every bin is empty — the
    missed count becomes `-5`.  `WFN` speaks about contents and squared errors only. -/
example : ((stepN' FloatOps.exact 8 mH (.isub mO)).toOption.map (·.missed)) = some (some (-5)) ∧
    ((stepN' FloatOps.exact 8 mO (.imul (-1) .pyInt)).toOption.map (·.missed)) = some (some (-5)) ∧
    ((stepN' FloatOps.exact 8 mO (.idiv (-1))).toOption.map (·.missed)) = some (some (-5)) ∧
    wfnB FloatOps.exact mH = true ∧ wfnB FloatOps.exact mO = true := by decide +kernel

/-- **The operand of `+=` must itself be well-formed** (the premise `OpOKN`): an operand over the
    same bins whose arrays are too short is accepted, and `zipWith` truncates -/
example : ((stepN' FloatOps.exact 8 mH (.iadd { mO with freq := { shape := [2, 2], data := [0] } })).toOption.map
    fun r => (r.freq.data, wfnB FloatOps.exact r)) = some ([1], false) := by decide +kernel

/-- an axis that does not exist: the public call is refused by `_get_axis`; the bare model function
    `HN.selectSlice` returns its argument, `HN.accumulate` and `HN.partialNormalize` (axis ≥ 2)
    leave the contents as they are -/
example : refusalN (stepN' FloatOps.exact 8 mH (.selectSlice (.inl 2) (some 0) (some 1))) = some "no such axis" ∧
    refusalN (stepN' FloatOps.exact 8 mH (.accumulate (.inr "z"))) = some "no such axis name" ∧
    mH.selectSlice FloatOps.exact 2 (some 0) (some 1) = mH ∧ (mH.accumulate 2).freq = mH.freq ∧
    (mH.partialNormalize 2).freq = mH.freq := by decide +kernel

/-- `accumulate` gives running sums (never negative); the squared errors are left as they are -/
example : ((stepN' FloatOps.exact 8 mH (.accumulate (.inl 1))).toOption.map fun r => (r.freq.data, r.err2.data))
    = some ([1, 2, 1, 2], [1, 1, 1, 1]) := by decide +kernel

/-- `set_dtype(int)` of the N-d model changes the dtype only: a fractional missed count is kept
    (the 1-D model truncates it, `truncN`).  An accepted call, so no violation of C18. -/
example : ((stepN' FloatOps.exact 8 { mH with missed := some (1/2), dtype := .f64 } (.setDType .i64)).toOption.map
    fun r => (r.missed, r.dtype)) = some (some (1/2), .i64) := by decide +kernel

/-- a refused `fill` (wrong number of coordinates) has promoted the dtype — losslessly — and nothing
    else; a refused `*=` likewise -/
example : nextN FloatOps.exact 8 { mH with dtype := .i32 } (.fill [some 1] 1 .pyInt) = { mH with dtype := .i64 } ∧
    nextN FloatOps.exact 8 mH (.imul (-1) .pyFloat) = { mH with dtype := .f64 } ∧
    DType.canCast .i32 .i64 = true ∧ DType.canCast .i64 .f64 = true := by decide +kernel

end DemoND
end Physt

import Physt.Proofs.ArrayLaws
import Physt.Theorems.C06
import Mathlib.Tactic.FieldSimp
/-!
# C06 beyond one dimension: scaling / normalising N-d histograms, `partial_normalize`,
# `HistogramCollection.normalize_bins`

* §4 `H1.normalizeBins` — in every bin whose members' sum is non-zero the new shares sum to 1;
* §3 `HN.partialNormalize` — every column (`axis = 0`) / row (`axis = 1`) with a non-zero sum
  sums to 1, the others are unchanged;
* §1 `HN.imul`, `HN.idiv` — exact linearity for every shape, refusals, `(h * c) / c = h`;
* §2 `HN.normalize` — total 1 (100 with `percent`), unchanged shares, zero total refused.

All statements are about the exact rational model; nothing here needs the arrays to hold
non-negative numbers.
-/
namespace Physt
open H1

/-! ## generic list facts -/

theorem sum_map_div_fn {α} (l : List α) (f : α → Rat) (c : Rat) :
    (l.map fun x => f x / c).sum = (l.map f).sum / c := by
  rw [← sum_map_div, List.map_map]; rfl

theorem sum_map_mul_fn {α} (l : List α) (f : α → Rat) (c : Rat) :
    (l.map fun x => f x * c).sum = (l.map f).sum * c := by
  rw [← sum_map_mul, List.map_map]; rfl

/-- entry `i` of an element-wise quotient (out-of-range reads are `0`, and `0 / x = x / 0 = 0`) -/
theorem getD_zipWith_div (l s : List Rat) (i : Nat) :
    (List.zipWith (· / ·) l s)[i]?.getD 0 = l[i]?.getD 0 / s[i]?.getD 0 := by
  rw [List.getElem?_zipWith]
  cases l[i]? <;> cases s[i]? <;> simp

theorem getD_zipWith_divsq (l s : List Rat) (i : Nat) :
    (List.zipWith (fun e x => e / (x * x)) l s)[i]?.getD 0 = l[i]?.getD 0 / (s[i]?.getD 0 * s[i]?.getD 0) := by
  rw [List.getElem?_zipWith]
  cases l[i]? <;> cases s[i]? <;> simp

/-! ## 4. `HistogramCollection.normalize_bins` -/

/-- what `normalize_bins` does to one member, given the list `s` of per-bin sums -/
def H1.divBins (s : List Rat) (h : H1) : H1 :=
  { h with dtype := .f64,
           freq := List.zipWith (· / ·) h.freq s,
           err2 := List.zipWith (fun e x => e / (x * x)) h.err2 s }

theorem H1.normalizeBins_eq (hs : List H1) : H1.normalizeBins hs = hs.map (H1.divBins (H1.binSums hs)) := rfl

/-- the number of members is unchanged -/
theorem H1.normalizeBins_length (hs : List H1) : (H1.normalizeBins hs).length = hs.length := by
  simp [H1.normalizeBins_eq]

/-- member `k` of the result is member `k` of the collection, divided bin-wise -/
theorem H1.normalizeBins_getElem? (hs : List H1) (k : Nat) :
    (H1.normalizeBins hs)[k]? = hs[k]?.map (H1.divBins (H1.binSums hs)) := by
  simp [H1.normalizeBins_eq]

/-- `binSums` has one entry per bin of the first member -/
theorem H1.binSums_length (h : H1) (t : List H1) : (H1.binSums (h :: t)).length = h.freq.length := by
  simp [H1.binSums]

/-- entry `i` of `binSums` is the sum over the members of their content of bin `i` (for a bin of
    the first member; beyond it the list is over and reads as `0`) -/
theorem H1.binSums_getElem? (h : H1) (t : List H1) (i : Nat) (hi : i < h.freq.length) :
    (H1.binSums (h :: t))[i]? = some (((h :: t).map fun m => m.freq[i]?.getD 0).sum) := by
  simp [H1.binSums, hi]

/-- a non-zero entry of `binSums` is the members' sum of that bin -/
theorem H1.binSums_getD_of_ne (hs : List H1) (i : Nat) (hne : (H1.binSums hs)[i]?.getD 0 ≠ 0) :
    (H1.binSums hs)[i]?.getD 0 = (hs.map fun m => m.freq[i]?.getD 0).sum := by
  cases hs with
  | nil => simp [H1.binSums] at hne
  | cons h t =>
    by_cases hi : i < h.freq.length
    · rw [H1.binSums_getElem? h t i hi]; rfl
    · exfalso; apply hne
      rw [List.getElem?_eq_none (by rw [H1.binSums_length]; omega)]; rfl

/-- for members of equal length `n`: `binSums` has `n` entries (non-empty collection), entry `i`
    is the members' sum of bin `i` -/
theorem H1.binSums_getD (hs : List H1) (n : Nat) (hf : ∀ m ∈ hs, m.freq.length = n) (i : Nat) :
    (H1.binSums hs)[i]?.getD 0 = (hs.map fun m => m.freq[i]?.getD 0).sum := by
  by_cases hne : (H1.binSums hs)[i]?.getD 0 = 0
  · rw [hne]
    cases hs with
    | nil => rfl
    | cons h t =>
      have hn : h.freq.length = n := hf h (List.mem_cons_self ..)
      by_cases hi : i < n
      · rw [H1.binSums_getElem? h t i (by omega)] at hne; exact hne.symm
      · have : ((h :: t).map fun m => m.freq[i]?.getD 0) = (h :: t).map fun _ => (0 : Rat) := by
          apply List.map_congr_left
          intro m hm
          rw [List.getElem?_eq_none (by rw [hf m hm]; omega)]; rfl
        rw [this, sum_map_zero]
  · exact H1.binSums_getD_of_ne hs i hne

/-- **every member's new content of bin `i` is its old content divided by the members' sum `s_i`
    of that bin, its new squared error the old one divided by `s_i²`**; binning, missed slots,
    `keep_missed` and statistics are untouched, the dtype is `float64`.  No hypothesis on the
    lengths is needed (a bin beyond the end of a list reads as `0`, and the model's `x / 0` is `0`:
    for `s_i = 0` the formula says the model stores `0` where numpy stores NaN). -/
theorem H1.divBins_spec (s : List Rat) (m : H1) :
    (∀ i : Nat, (H1.divBins s m).freq[i]?.getD 0 = m.freq[i]?.getD 0 / s[i]?.getD 0) ∧
    (∀ i : Nat, (H1.divBins s m).err2[i]?.getD 0 = m.err2[i]?.getD 0 / (s[i]?.getD 0 * s[i]?.getD 0)) ∧
    (H1.divBins s m).binning = m.binning ∧ (H1.divBins s m).under = m.under ∧
    (H1.divBins s m).over = m.over ∧ (H1.divBins s m).inner = m.inner ∧
    (H1.divBins s m).keep = m.keep ∧ (H1.divBins s m).stats = m.stats ∧
    (H1.divBins s m).dtype = DType.f64 :=
  ⟨fun i => getD_zipWith_div _ _ i, fun i => getD_zipWith_divsq _ _ i, rfl, rfl, rfl, rfl, rfl, rfl, rfl⟩

/-- the members keep their number of bins when all members have `n` bins -/
theorem H1.divBins_length (hs : List H1) (n : Nat) (hne : hs ≠ [])
    (hf : ∀ m ∈ hs, m.freq.length = n) (he : ∀ m ∈ hs, m.err2.length = n) (m : H1) (hm : m ∈ hs) :
    (H1.divBins (H1.binSums hs) m).freq.length = n ∧ (H1.divBins (H1.binSums hs) m).err2.length = n := by
  cases hs with
  | nil => exact absurd rfl hne
  | cons h t =>
    have hl : (H1.binSums (h :: t)).length = n := by
      rw [H1.binSums_length]; exact hf h (List.mem_cons_self ..)
    simp [H1.divBins, hl, hf m hm, he m hm]

/-- **The shares sum to 1.**  In every bin `i` in which the members' sum is not zero, the new
    contents of the members sum to 1.  (No hypothesis on the lengths is needed: `binSums` is read
    with default `0`, so `(binSums hs)[i] ≠ 0` already says that `i` is a bin of the first member.) -/
theorem H1.normalizeBins_sum_one (hs : List H1) (i : Nat) (hne : (H1.binSums hs)[i]?.getD 0 ≠ 0) :
    ((H1.normalizeBins hs).map fun m => m.freq[i]?.getD 0).sum = 1 := by
  rw [H1.normalizeBins_eq, List.map_map]
  have : ((fun m : H1 => m.freq[i]?.getD 0) ∘ H1.divBins (H1.binSums hs))
      = fun m => m.freq[i]?.getD 0 / (H1.binSums hs)[i]?.getD 0 := by
    funext m
    exact getD_zipWith_div _ _ i
  rw [this, sum_map_div_fn, ← H1.binSums_getD_of_ne hs i hne, div_self hne]

/-- **C06, `normalize_bins`.**  For a collection whose members all have `n` contents and `n` squared
    errors, with `s_i` the members' sum of bin `i`:
    * the member count is unchanged, and member `k` of the result is obtained from member `k`;
    * its binning, missed slots, `keep_missed` and statistics are unchanged, its dtype is `float64`,
      it still has `n` contents and `n` squared errors;
    * for every bin `i < n` with `s_i ≠ 0`: the new content is `old / s_i`, the new squared error
      `old / s_i²`, and the new contents of all members sum to 1. -/
theorem C06_normalizeBins (hs : List H1) (n : Nat)
    (hf : ∀ m ∈ hs, m.freq.length = n) (he : ∀ m ∈ hs, m.err2.length = n) :
    (H1.normalizeBins hs).length = hs.length ∧
    (∀ (k : Nat) (m : H1), hs[k]? = some m → ∃ m' : H1, (H1.normalizeBins hs)[k]? = some m' ∧
        m'.binning = m.binning ∧ m'.under = m.under ∧ m'.over = m.over ∧ m'.inner = m.inner ∧
        m'.keep = m.keep ∧ m'.stats = m.stats ∧ m'.dtype = DType.f64 ∧
        m'.freq.length = n ∧ m'.err2.length = n ∧
        ∀ i : Nat, i < n → (H1.binSums hs)[i]?.getD 0 ≠ 0 →
          m'.freq[i]?.getD 0 = m.freq[i]?.getD 0 / (H1.binSums hs)[i]?.getD 0 ∧
          m'.err2[i]?.getD 0
            = m.err2[i]?.getD 0 / ((H1.binSums hs)[i]?.getD 0 * (H1.binSums hs)[i]?.getD 0)) ∧
    (∀ i : Nat, i < n → (H1.binSums hs)[i]?.getD 0 = (hs.map fun m => m.freq[i]?.getD 0).sum) ∧
    (∀ i : Nat, i < n → (H1.binSums hs)[i]?.getD 0 ≠ 0 →
        ((H1.normalizeBins hs).map fun m => m.freq[i]?.getD 0).sum = 1) := by
  refine ⟨H1.normalizeBins_length hs, ?_, fun i _ => H1.binSums_getD hs n hf i,
    fun i _ hne => H1.normalizeBins_sum_one hs i hne⟩
  intro k m hk
  have hm : m ∈ hs := List.mem_of_getElem? hk
  have hne : hs ≠ [] := by intro e; rw [e] at hm; cases hm
  obtain ⟨a, b, c1, c2, c3, c4, c5, c6, c7⟩ := H1.divBins_spec (H1.binSums hs) m
  obtain ⟨l1, l2⟩ := H1.divBins_length hs n hne hf he m hm
  exact ⟨H1.divBins (H1.binSums hs) m, by rw [H1.normalizeBins_getElem?, hk]; rfl,
    c1, c2, c3, c4, c5, c6, c7, l1, l2, fun i _ _ => ⟨a i, b i⟩⟩

/-! ## 3. `partial_normalize` (2-D) -/

/-- the element-wise division `partial_normalize` performs on one of the two arrays: entry `idx`
    is divided by the marginal sum at `idx[1 - axis]` (or `1` where that sum is `0`), squared for
    the squared errors -/
def pnDiv (sums : Arr) (axis : Nat) (a : Arr) (sq : Bool) : Arr :=
  Arr.ofFn a.shape fun idx =>
    let other := idx[1 - axis]?.getD 0
    let s := sums.get [other]
    let s := if s = 0 then 1 else s
    a.get idx / (if sq then s * s else s)

/-- `partial_normalize` of a histogram with a 2-D content array, unfolded -/
theorem HN.partialNormalize_eq (h : HN) (axis n m : Nat) (hs : h.freq.shape = [n, m]) :
    h.partialNormalize axis =
      { h with dtype := h.dtype.promote .f64,
               freq := pnDiv (h.freq.sumAxis axis) axis h.freq false,
               err2 := pnDiv (h.freq.sumAxis axis) axis h.err2 true } := by
  unfold HN.partialNormalize
  dsimp only
  split
  · rfl
  · rename_i hno
    exact absurd hs (hno n m)

/-- sum of column `j` of a 2-D array with `n` rows -/
def Arr.colSum (a : Arr) (n j : Nat) : Rat := ((List.range n).map fun i => a.get [i, j]).sum
/-- sum of row `i` of a 2-D array with `m` columns -/
def Arr.rowSum (a : Arr) (m i : Nat) : Rat := ((List.range m).map fun j => a.get [i, j]).sum

/-- `a.sum(axis=0)[j]` is the sum of column `j` -/
theorem Arr.get_sumAxis0 (a : Arr) (n m j : Nat) (hs : a.shape = [n, m]) (hj : j < m) :
    (a.sumAxis 0).get [j] = a.colSum n j := by
  rw [Arr.get_sumAxis a 0 [j] (by rw [hs]; simp) (by rw [hs]; simp [Arr.removeAt, validIdx, hj])]
  simp [hs, Arr.colSum]

/-- `a.sum(axis=1)[i]` is the sum of row `i` -/
theorem Arr.get_sumAxis1 (a : Arr) (n m i : Nat) (hs : a.shape = [n, m]) (hi : i < n) :
    (a.sumAxis 1).get [i] = a.rowSum m i := by
  rw [Arr.get_sumAxis a 1 [i] (by rw [hs]; simp) (by rw [hs]; simp [Arr.removeAt, validIdx, hi])]
  simp [hs, Arr.rowSum, insAt]

/-- reading an entry of `pnDiv` — at every index tuple: outside the shape both sides are `0` -/
theorem pnDiv_get (sums : Arr) (axis : Nat) (a : Arr) (sq : Bool) (idx : List Nat) :
    (pnDiv sums axis a sq).get idx
      = a.get idx / (if sq then (if sums.get [idx[1 - axis]?.getD 0] = 0 then 1 else sums.get [idx[1 - axis]?.getD 0])
                                  * (if sums.get [idx[1 - axis]?.getD 0] = 0 then 1 else sums.get [idx[1 - axis]?.getD 0])
                        else (if sums.get [idx[1 - axis]?.getD 0] = 0 then 1 else sums.get [idx[1 - axis]?.getD 0])) := by
  cases hv : validIdx a.shape idx with
  | true =>
    unfold pnDiv
    rw [Arr.get_ofFn _ _ _ hv]
  | false =>
    have h1 : (pnDiv sums axis a sq).get idx = 0 := Arr.get_invalid _ _ hv
    rw [h1, Arr.get_invalid a idx hv, zero_div]

/-- what is untouched by `partial_normalize` (any `axis`): bins, names, missed, `keep_missed`,
    the shapes; the dtype is promoted with `float64` -/
theorem HN.partialNormalize_frame (h : HN) (axis n m : Nat) (hs : h.freq.shape = [n, m]) :
    (h.partialNormalize axis).axes = h.axes ∧ (h.partialNormalize axis).names = h.names ∧
    (h.partialNormalize axis).missed = h.missed ∧ (h.partialNormalize axis).keep = h.keep ∧
    (h.partialNormalize axis).dtype = h.dtype.promote .f64 ∧
    (h.partialNormalize axis).freq.shape = h.freq.shape ∧
    (h.partialNormalize axis).err2.shape = h.err2.shape ∧
    (h.partialNormalize axis).freq.WellShaped ∧ (h.partialNormalize axis).err2.WellShaped := by
  rw [HN.partialNormalize_eq h axis n m hs]
  exact ⟨rfl, rfl, rfl, rfl, rfl, rfl, rfl, Arr.wellShaped_ofFn _ _, Arr.wellShaped_ofFn _ _⟩

/-- **`partial_normalize(axis=0)`** — numpy's convention, "the axis along which to sum":
    `frequencies.sum(axis=0)` runs over the first index, so the divisor of entry `[i, j]` is the sum
    `s_j` of **column** `j` (the model reads it at `idx[1 - 0] = idx[1] = j`).  For every column
    `j < m`:
    * if `s_j ≠ 0` the column of the result sums to 1, every content is `old / s_j` and every
      squared error `old / s_j²`;
    * if `s_j = 0` the column is unchanged (the divisor is replaced by 1).
    Needs only the shape of the content array (the match in the model); the arrays need not be
    well-shaped or non-negative, and the squared-error array may have any shape (an index outside
    it reads as `0` on both sides). -/
theorem C06_partialNormalize_axis0 (h : HN) (n m j : Nat) (hs : h.freq.shape = [n, m])
    (hj : j < m) :
    (h.freq.colSum n j ≠ 0 →
      (h.partialNormalize 0).freq.colSum n j = 1 ∧
      ∀ i, i < n →
        (h.partialNormalize 0).freq.get [i, j] = h.freq.get [i, j] / h.freq.colSum n j ∧
        (h.partialNormalize 0).err2.get [i, j]
          = h.err2.get [i, j] / (h.freq.colSum n j * h.freq.colSum n j)) ∧
    (h.freq.colSum n j = 0 →
      ∀ i, i < n → (h.partialNormalize 0).freq.get [i, j] = h.freq.get [i, j] ∧
        (h.partialNormalize 0).err2.get [i, j] = h.err2.get [i, j]) := by
  rw [HN.partialNormalize_eq h 0 n m hs]
  simp only
  have hf : ∀ i, i < n → (pnDiv (h.freq.sumAxis 0) 0 h.freq false).get [i, j]
      = h.freq.get [i, j] / (if h.freq.colSum n j = 0 then 1 else h.freq.colSum n j) := by
    intro i hi
    rw [pnDiv_get]
    simp [Arr.get_sumAxis0 h.freq n m j hs hj]
  have hE : ∀ i, i < n → (pnDiv (h.freq.sumAxis 0) 0 h.err2 true).get [i, j]
      = h.err2.get [i, j] / ((if h.freq.colSum n j = 0 then 1 else h.freq.colSum n j)
          * (if h.freq.colSum n j = 0 then 1 else h.freq.colSum n j)) := by
    intro i hi
    rw [pnDiv_get]
    simp [Arr.get_sumAxis0 h.freq n m j hs hj]
  constructor
  · intro hne
    refine ⟨?_, fun i hi => ⟨by rw [hf i hi, if_neg hne], by rw [hE i hi, if_neg hne]⟩⟩
    have : ((List.range n).map fun i => (pnDiv (h.freq.sumAxis 0) 0 h.freq false).get [i, j])
        = (List.range n).map fun i => h.freq.get [i, j] / h.freq.colSum n j := by
      apply List.map_congr_left
      intro i hi
      rw [hf i (List.mem_range.mp hi), if_neg hne]
    show ((List.range n).map fun i => (pnDiv (h.freq.sumAxis 0) 0 h.freq false).get [i, j]).sum = 1
    rw [this, sum_map_div_fn]
    exact div_self hne
  · intro hz i hi
    rw [hf i hi, hE i hi, if_pos hz]
    simp

/-- **`partial_normalize(axis=1)`**: `frequencies.sum(axis=1)` runs over the second index, so the
    divisor of entry `[i, j]` is the sum `s_i` of **row** `i` (read at `idx[1 - 1] = idx[0] = i`).
    For every row `i < n`: if `s_i ≠ 0` the row of the result sums to 1, contents are `old / s_i`,
    squared errors `old / s_i²`; if `s_i = 0` the row is unchanged. -/
theorem C06_partialNormalize_axis1 (h : HN) (n m i : Nat) (hs : h.freq.shape = [n, m])
    (hi : i < n) :
    (h.freq.rowSum m i ≠ 0 →
      (h.partialNormalize 1).freq.rowSum m i = 1 ∧
      ∀ j, j < m →
        (h.partialNormalize 1).freq.get [i, j] = h.freq.get [i, j] / h.freq.rowSum m i ∧
        (h.partialNormalize 1).err2.get [i, j]
          = h.err2.get [i, j] / (h.freq.rowSum m i * h.freq.rowSum m i)) ∧
    (h.freq.rowSum m i = 0 →
      ∀ j, j < m → (h.partialNormalize 1).freq.get [i, j] = h.freq.get [i, j] ∧
        (h.partialNormalize 1).err2.get [i, j] = h.err2.get [i, j]) := by
  rw [HN.partialNormalize_eq h 1 n m hs]
  simp only
  have hf : ∀ j, j < m → (pnDiv (h.freq.sumAxis 1) 1 h.freq false).get [i, j]
      = h.freq.get [i, j] / (if h.freq.rowSum m i = 0 then 1 else h.freq.rowSum m i) := by
    intro j hj
    rw [pnDiv_get]
    simp [Arr.get_sumAxis1 h.freq n m i hs hi]
  have hE : ∀ j, j < m → (pnDiv (h.freq.sumAxis 1) 1 h.err2 true).get [i, j]
      = h.err2.get [i, j] / ((if h.freq.rowSum m i = 0 then 1 else h.freq.rowSum m i)
          * (if h.freq.rowSum m i = 0 then 1 else h.freq.rowSum m i)) := by
    intro j hj
    rw [pnDiv_get]
    simp [Arr.get_sumAxis1 h.freq n m i hs hi]
  constructor
  · intro hne
    refine ⟨?_, fun j hj => ⟨by rw [hf j hj, if_neg hne], by rw [hE j hj, if_neg hne]⟩⟩
    have : ((List.range m).map fun j => (pnDiv (h.freq.sumAxis 1) 1 h.freq false).get [i, j])
        = (List.range m).map fun j => h.freq.get [i, j] / h.freq.rowSum m i := by
      apply List.map_congr_left
      intro j hj
      rw [hf j (List.mem_range.mp hj), if_neg hne]
    show ((List.range m).map fun j => (pnDiv (h.freq.sumAxis 1) 1 h.freq false).get [i, j]).sum = 1
    rw [this, sum_map_div_fn]
    exact div_self hne
  · intro hz j hj
    rw [hf j hj, hE j hj, if_pos hz]
    simp

/-- **`axis ≥ 2` (outside the claim).**  The model is total: `1 - axis` is `0` in `Nat`, and
    `sumAxis` of a 2-D array over a non-existent axis is a 2-D array, whose entry at the 1-tuple
    `[idx[0]]` reads as `0`, so every divisor is replaced by 1: the contents are returned unchanged
    (physt raises for such an axis).  This is why the two theorems above are stated for `axis = 0`
    and `axis = 1` only. -/
theorem HN.partialNormalize_axis_ge2 (h : HN) (axis n m i j : Nat) (hax : 2 ≤ axis)
    (hs : h.freq.shape = [n, m]) :
    (h.partialNormalize axis).freq.get [i, j] = h.freq.get [i, j] ∧
    (h.partialNormalize axis).err2.get [i, j] = h.err2.get [i, j] := by
  rw [HN.partialNormalize_eq h axis n m hs]
  simp only
  have h0 : ∀ x, (h.freq.sumAxis axis).get [x] = 0 := by
    intro x
    apply Arr.get_invalid
    rw [Arr.shape_sumAxis, hs]
    have : Arr.removeAt [n, m] axis = [n, m] := by
      unfold Arr.removeAt
      exact List.eraseIdx_of_length_le (by simpa using hax)
    rw [this]; simp [validIdx]
  rw [pnDiv_get, pnDiv_get]
  simp [h0]

/-! ## 1. scaling an N-d histogram -/

/-- reading an entry of a mapped array, for a map that fixes `0` (all scalings do); holds for
    every index tuple, valid or not, and every array, well-shaped or not -/
theorem Arr.get_map (a : Arr) (f : Rat → Rat) (hf : f 0 = 0) (idx : List Nat) :
    (a.map f).get idx = f (a.get idx) := by
  unfold Arr.get Arr.map
  simp only
  by_cases hv : validIdx a.shape idx = true
  · simp only [hv, if_true, List.getElem?_map]
    cases a.data[ravel a.shape idx]? <;> simp [hf]
  · simp [hv, hf]

theorem Arr.shape_map (a : Arr) (f : Rat → Rat) : (a.map f).shape = a.shape := rfl

theorem Arr.wellShaped_map (a : Arr) (f : Rat → Rat) (hw : a.WellShaped) : (a.map f).WellShaped := by
  unfold Arr.WellShaped at hw ⊢
  simpa [Arr.map] using hw

theorem Arr.total_map_mul (a : Arr) (c : Rat) : (a.map (· * c)).total = a.total * c := by
  unfold Arr.total Arr.map
  exact sum_map_mul a.data c

theorem Arr.total_map_div (a : Arr) (c : Rat) : (a.map (· / c)).total = a.total / c := by
  unfold Arr.total Arr.map
  exact sum_map_div a.data c

theorem Arr.map_map (a : Arr) (f g : Rat → Rat) : (a.map f).map g = a.map (g ∘ f) := by
  simp [Arr.map]

theorem Arr.map_id' (a : Arr) (f : Rat → Rat) (hf : ∀ x, f x = x) : a.map f = a := by
  obtain ⟨sh, d⟩ := a
  simp only [Arr.map, Arr.mk.injEq, true_and]
  conv_rhs => rw [← List.map_id d]
  exact List.map_congr_left fun x _ => hf x

/-- a negative entry (read by index) is a negative stored number -/
theorem Arr.any_neg_of_get (a : Arr) (idx : List Nat) (h : a.get idx < 0) : a.data.any (· < 0) = true := by
  unfold Arr.get at h
  split at h
  · cases hd : a.data[ravel a.shape idx]? with
    | none => simp [hd] at h
    | some x =>
      simp only [hd, Option.getD_some] at h
      rw [List.any_eq_true]
      exact ⟨x, List.mem_of_getElem? hd, by simpa using h⟩
  · simp at h

/-- what an accepted `h *= c` returns -/
theorem HN.imul_ok (h r : HN) (c : Rat) (k : H1.NumKind) (hr : h.imul c k = .ok r) :
    r.freq = h.freq.map (· * c) ∧ r.err2 = h.err2.map (· * (c * c)) ∧ r.missed = nscale h.missed c ∧
    r.axes = h.axes ∧ r.keep = h.keep ∧ r.names = h.names ∧ r.dtype = h.dtype.promote k.dtype ∧
    ((h.freq.map (· * c)).data.any (· < 0)) = false := by
  unfold HN.imul at hr
  simp only [bind, Except.bind, pure, Except.pure, throw, throwThe, MonadExceptOf.throw, HN.coerce] at hr
  by_cases hneg : ((h.freq.map (· * c)).data.any (· < 0)) = true
  · simp [hneg] at hr
  · simp only [hneg] at hr
    cases hr
    exact ⟨rfl, rfl, rfl, rfl, rfl, rfl, rfl, by simpa using hneg⟩

/-- what an accepted `h /= c` returns -/
theorem HN.idiv_ok (h r : HN) (c : Rat) (hr : h.idiv c = .ok r) :
    c ≠ 0 ∧ r.freq = h.freq.map (· / c) ∧ r.err2 = h.err2.map (· / (c * c)) ∧
    r.missed = nscale h.missed (1 / c) ∧
    r.axes = h.axes ∧ r.keep = h.keep ∧ r.names = h.names ∧ r.dtype = h.dtype.promote DType.f64 ∧
    ((h.freq.map (· / c)).data.any (· < 0)) = false := by
  unfold HN.idiv at hr
  simp only [bind, Except.bind, pure, Except.pure, throw, throwThe, MonadExceptOf.throw, HN.coerce] at hr
  by_cases hc : c = 0
  · simp [hc] at hr
  · by_cases hneg : ((h.freq.map (· / c)).data.any (· < 0)) = true
    · simp [hc, hneg] at hr
    · simp only [hc, hneg, if_false] at hr
      cases hr
      exact ⟨hc, rfl, rfl, rfl, rfl, rfl, rfl, rfl, by simpa using hneg⟩

/-- **Multiplication, any number of axes.**  If `h * c` is accepted, every content is multiplied
    by `c` and every squared error by `c²` — as arrays, entry by entry at every index tuple, and in
    total —, `missed` is multiplied by `c`, and bins, `keep_missed` and names are untouched; the
    dtype is promoted with the factor's. -/
theorem C06_ND_mul (h r : HN) (c : Rat) (k : H1.NumKind) (hr : h.imul c k = .ok r) :
    r.freq = h.freq.map (· * c) ∧ r.err2 = h.err2.map (· * (c * c)) ∧ r.missed = nscale h.missed c ∧
    r.axes = h.axes ∧ r.keep = h.keep ∧ r.names = h.names ∧ r.dtype = h.dtype.promote k.dtype ∧
    r.freq.shape = h.freq.shape ∧ r.err2.shape = h.err2.shape ∧
    (∀ idx, r.freq.get idx = h.freq.get idx * c) ∧
    (∀ idx, r.err2.get idx = h.err2.get idx * (c * c)) ∧
    r.freq.total = h.freq.total * c ∧ r.err2.total = h.err2.total * (c * c) := by
  obtain ⟨f, e, mi, ax, kp, nm, dt, _⟩ := HN.imul_ok h r c k hr
  refine ⟨f, e, mi, ax, kp, nm, dt, by rw [f]; rfl, by rw [e]; rfl, ?_, ?_, ?_, ?_⟩
  · intro idx; rw [f]; exact Arr.get_map _ _ (by simp) idx
  · intro idx; rw [e]; exact Arr.get_map _ _ (by simp) idx
  · rw [f]; exact Arr.total_map_mul _ _
  · rw [e]; exact Arr.total_map_mul _ _

/-- **Division, any number of axes**: likewise with `1 / c` and `1 / c²` (`c ≠ 0` follows from the
    acceptance); the dtype is promoted with `float64`. -/
theorem C06_ND_div (h r : HN) (c : Rat) (hr : h.idiv c = .ok r) :
    c ≠ 0 ∧ r.freq = h.freq.map (· / c) ∧ r.err2 = h.err2.map (· / (c * c)) ∧
    r.missed = nscale h.missed (1 / c) ∧
    r.axes = h.axes ∧ r.keep = h.keep ∧ r.names = h.names ∧ r.dtype = h.dtype.promote DType.f64 ∧
    r.freq.shape = h.freq.shape ∧ r.err2.shape = h.err2.shape ∧
    (∀ idx, r.freq.get idx = h.freq.get idx / c) ∧
    (∀ idx, r.err2.get idx = h.err2.get idx / (c * c)) ∧
    r.freq.total = h.freq.total / c ∧ r.err2.total = h.err2.total / (c * c) := by
  obtain ⟨hc, f, e, mi, ax, kp, nm, dt, _⟩ := HN.idiv_ok h r c hr
  refine ⟨hc, f, e, mi, ax, kp, nm, dt, by rw [f]; rfl, by rw [e]; rfl, ?_, ?_, ?_, ?_⟩
  · intro idx; rw [f]; exact Arr.get_map _ _ (by simp) idx
  · intro idx; rw [e]; exact Arr.get_map _ _ (by simp) idx
  · rw [f]; exact Arr.total_map_div _ _
  · rw [e]; exact Arr.total_map_div _ _

/-- scaling keeps arrays well-shaped -/
theorem C06_ND_wellShaped (h r : HN) (c : Rat) (k : H1.NumKind) (hf : h.freq.WellShaped) (he : h.err2.WellShaped) :
    (h.imul c k = .ok r → r.freq.WellShaped ∧ r.err2.WellShaped) ∧
    (h.idiv c = .ok r → r.freq.WellShaped ∧ r.err2.WellShaped) := by
  constructor
  · intro hr
    obtain ⟨f, e, _⟩ := HN.imul_ok h r c k hr
    rw [f, e]; exact ⟨Arr.wellShaped_map _ _ hf, Arr.wellShaped_map _ _ he⟩
  · intro hr
    obtain ⟨_, f, e, _⟩ := HN.idiv_ok h r c hr
    rw [f, e]; exact ⟨Arr.wellShaped_map _ _ hf, Arr.wellShaped_map _ _ he⟩

/-- **Refusals.**  Division by zero is refused; a factor (divisor) that would make the content at
    some index tuple negative is refused; and these are the only refusals: if no stored content
    becomes negative the call is accepted. -/
theorem C06_ND_refuse (h : HN) (c : Rat) (k : H1.NumKind) :
    (∃ e, h.idiv 0 = .error e) ∧
    (∀ idx, h.freq.get idx * c < 0 → ∃ e, h.imul c k = .error e) ∧
    (∀ idx, h.freq.get idx / c < 0 → ∃ e, h.idiv c = .error e) ∧
    (((h.freq.map (· * c)).data.any (· < 0)) = false → ∃ r, h.imul c k = .ok r) ∧
    (c ≠ 0 → ((h.freq.map (· / c)).data.any (· < 0)) = false → ∃ r, h.idiv c = .ok r) := by
  refine ⟨?_, ?_, ?_, ?_, ?_⟩
  · unfold HN.idiv
    simp [bind, Except.bind, throw, throwThe, MonadExceptOf.throw]
  · intro idx hneg
    have : ((h.freq.map (· * c)).data.any (· < 0)) = true := by
      apply Arr.any_neg_of_get _ idx
      rw [Arr.get_map _ _ (by simp) idx]; exact hneg
    unfold HN.imul
    simp only [bind, Except.bind, pure, Except.pure, throw, throwThe, MonadExceptOf.throw, HN.coerce, this, if_true]
    exact ⟨_, rfl⟩
  · intro idx hneg
    have : ((h.freq.map (· / c)).data.any (· < 0)) = true := by
      apply Arr.any_neg_of_get _ idx
      rw [Arr.get_map _ _ (by simp) idx]; exact hneg
    unfold HN.idiv
    simp only [bind, Except.bind, pure, Except.pure, throw, throwThe, MonadExceptOf.throw, HN.coerce, this, if_true]
    by_cases hc : c = 0
    · simp only [hc, if_true]; exact ⟨_, rfl⟩
    · simp only [hc, if_false]; exact ⟨_, rfl⟩
  · intro hok
    unfold HN.imul
    simp only [bind, Except.bind, pure, Except.pure, throw, throwThe, MonadExceptOf.throw, HN.coerce, hok]
    exact ⟨_, rfl⟩
  · intro hc hok
    unfold HN.idiv
    simp only [bind, Except.bind, pure, Except.pure, throw, throwThe, MonadExceptOf.throw, HN.coerce, hok, hc]
    exact ⟨_, rfl⟩

/-- **`(h * c) / c = h`** (`c ≠ 0`, both calls accepted): the content array, the squared-error
    array and `missed` come back exactly; bins, names and `keep_missed` were never touched. -/
theorem C06_ND_mul_div (h m r : HN) (c : Rat) (k : H1.NumKind) (hc : c ≠ 0) (hm : h.imul c k = .ok m)
    (hr : m.idiv c = .ok r) :
    r.freq = h.freq ∧ r.err2 = h.err2 ∧ r.missed = h.missed ∧ r.axes = h.axes ∧ r.keep = h.keep ∧
    r.names = h.names := by
  obtain ⟨f1, e1, m1, a1, k1, n1, _⟩ := HN.imul_ok h m c k hm
  obtain ⟨_, f2, e2, m2, a2, k2, n2, _⟩ := HN.idiv_ok m r c hr
  refine ⟨?_, ?_, ?_, by rw [a2, a1], by rw [k2, k1], by rw [n2, n1]⟩
  · rw [f2, f1, Arr.map_map]
    apply Arr.map_id'
    intro x; simp only [Function.comp]; field_simp
  · rw [e2, e1, Arr.map_map]
    apply Arr.map_id'
    intro x; simp only [Function.comp]; field_simp
  · rw [m2, m1]; exact nscale_nscale _ _ hc

/-! ## 2. `normalize` of an N-d histogram -/

/-- **Normalisation, any number of axes.**  An accepted `normalize(percent=…)` had a non-zero
    total, gives total 1 (100 with `percent`), and every entry keeps its share of the total:
    `new[idx] · old_total = old[idx] · (1 | 100)`, i.e. `new[idx] = old[idx] / old_total · (1 | 100)`.
    Squared errors are scaled by the square of the same factor; bins, names, `keep_missed` are
    untouched. -/
theorem C06_ND_normalize (h r : HN) (percent : Bool) (hr : h.normalize false percent = .ok r) :
    h.freq.total ≠ 0 ∧
    r.freq.total = (if percent then 100 else 1) ∧
    (∀ idx, r.freq.get idx * h.freq.total = h.freq.get idx * (if percent then 100 else 1)) ∧
    (∀ idx, r.freq.get idx = h.freq.get idx / h.freq.total * (if percent then 100 else 1)) ∧
    (∀ idx, r.err2.get idx = h.err2.get idx / (h.freq.total * h.freq.total)
        * ((if percent then 100 else 1) * (if percent then 100 else 1))) ∧
    r.axes = h.axes ∧ r.keep = h.keep ∧ r.names = h.names ∧ r.freq.shape = h.freq.shape := by
  unfold HN.normalize at hr
  simp only [Bool.false_eq_true, if_false, bind, Except.bind] at hr
  cases hd : h.idiv h.total with
  | error e => simp [hd] at hr
  | ok d =>
    simp only [hd] at hr
    obtain ⟨hne, _, _, _, a1, k1, n1, _, s1, _, g1, ge1, t1, _⟩ := C06_ND_div h d h.total hd
    obtain ⟨_, _, _, a2, k2, n2, _, s2, _, g2, ge2, t2, _⟩ := C06_ND_mul d r _ _ hr
    have hne' : h.freq.total ≠ 0 := hne
    have hT : h.total = h.freq.total := rfl
    rw [hT] at g1 ge1 t1
    have hget : ∀ idx, r.freq.get idx = h.freq.get idx / h.freq.total * (if percent then 100 else 1) := by
      intro idx
      rw [g2 idx, g1 idx]
    refine ⟨hne', ?_, ?_, hget, ?_, by rw [a2, a1], by rw [k2, k1], by rw [n2, n1], by rw [s2, s1]⟩
    · rw [t2, t1, div_self hne', one_mul]
    · intro idx
      rw [hget idx]
      field_simp
    · intro idx
      rw [ge2 idx, ge1 idx]

/-- a zero total cannot be normalised: the call is refused -/
theorem C06_ND_normalize_zero (h : HN) (p : Bool) (hz : h.freq.total = 0) :
    ∃ e, h.normalize false p = .error e := by
  have hz' : h.total = 0 := hz
  unfold HN.normalize HN.idiv
  simp [hz', bind, Except.bind, throw, throwThe, MonadExceptOf.throw]

/-! ## Non-vacuity: concrete instances checked by the kernel -/
namespace ScaleNDExamples

/-- a 2 × 3 histogram: rows `[1 2 3]` and `[4 5 6]` -/
def h23 : HN :=
  { axes := [.static [(0, 1), (1, 2)] true, .static [(0, 1), (1, 2), (2, 3)] true],
    freq := { shape := [2, 3], data := [1, 2, 3, 4, 5, 6] },
    err2 := { shape := [2, 3], data := [1, 2, 3, 4, 5, 6] }, names := ["x", "y"] }

/-- `axis = 0`: every column is divided by its sum (5, 7, 9) … -/
example : (h23.partialNormalize 0).freq.data = [1 / 5, 2 / 7, 1 / 3, 4 / 5, 5 / 7, 2 / 3] ∧
    (h23.partialNormalize 0).err2.data = [1 / 25, 2 / 49, 1 / 27, 4 / 25, 5 / 49, 2 / 27] := by decide +kernel
/-- … so that every column sums to 1 (and the rows do not) -/
example : ((List.range 3).map fun j => (h23.partialNormalize 0).freq.colSum 2 j) = [1, 1, 1] ∧
    ((List.range 2).map fun i => (h23.partialNormalize 0).freq.rowSum 3 i) = [86 / 105, 229 / 105] := by
  decide +kernel
/-- `axis = 1`: every row is divided by its sum (6, 15) … -/
example : (h23.partialNormalize 1).freq.data = [1 / 6, 1 / 3, 1 / 2, 4 / 15, 1 / 3, 2 / 5] ∧
    (h23.partialNormalize 1).err2.data = [1 / 36, 1 / 18, 1 / 12, 4 / 225, 1 / 45, 2 / 75] := by decide +kernel
/-- … so that every row sums to 1 -/
example : ((List.range 2).map fun i => (h23.partialNormalize 1).freq.rowSum 3 i) = [1, 1] := by decide +kernel
/-- bins, names, missed are untouched, the dtype becomes float64 -/
example : (h23.partialNormalize 0).axes = h23.axes ∧ (h23.partialNormalize 1).names = ["x", "y"] ∧
    (h23.partialNormalize 0).missed = some 0 ∧ (h23.partialNormalize 1).dtype = .f64 := by decide +kernel

/-- columns with sum zero (column 1: all empty; column 2: `3 + (-3)`) are returned unchanged -/
example : (({ h23 with freq := { shape := [2, 3], data := [1, 0, 3, 4, 0, -3] } } : HN).partialNormalize 0).freq.data
    = [1 / 5, 0, 3, 4 / 5, 0, -3] := by decide +kernel

/-- **outside the claim**: for `axis = 2` the model (Nat subtraction `1 - 2 = 0`, sum over a
    non-existent axis) returns the contents unchanged, so no row or column sums to 1 -/
example : (h23.partialNormalize 2).freq = h23.freq ∧ (h23.partialNormalize 2).freq.colSum 2 0 = 5 := by
  decide +kernel

def b3 : Binning := .static [(0, 1), (1, 2), (2, 3)] true

/-- a collection of three members over the same three bins; the last bin is empty in all of them -/
def coll : List H1 :=
  [{ binning := b3, freq := [1, 2, 0], err2 := [1, 2, 0] },
   { binning := b3, freq := [3, 2, 0], err2 := [3, 2, 0], under := some 5 },
   { binning := b3, freq := [0, 4, 0], err2 := [0, 4, 0] }]

example : H1.binSums coll = [4, 8, 0] := by decide +kernel
example : (H1.normalizeBins coll).map (·.freq) = [[1 / 4, 1 / 4, 0], [3 / 4, 1 / 4, 0], [0, 1 / 2, 0]] ∧
    (H1.normalizeBins coll).map (·.err2) = [[1 / 16, 1 / 32, 0], [3 / 16, 1 / 32, 0], [0, 1 / 16, 0]] := by
  decide +kernel
/-- the shares sum to 1 in the two bins with a non-zero sum; in the all-empty bin the model stores
    `0 / 0 = 0` (numpy: NaN), the sum there is 0 — which is why `s_i ≠ 0` is a hypothesis -/
example : ((List.range 3).map fun i => ((H1.normalizeBins coll).map fun m => m.freq[i]?.getD 0).sum) = [1, 1, 0] := by
  decide +kernel
example : (H1.normalizeBins coll).map (·.dtype) = [.f64, .f64, .f64] ∧
    (H1.normalizeBins coll).map (·.under) = [some 0, some 5, some 0] ∧
    (H1.normalizeBins coll).map (·.binning) = [b3, b3, b3] := by decide +kernel

/-- why equal lengths are assumed for "the members keep their bins": `binSums` has as many entries
    as the *first* member, and `zipWith` truncates a longer member -/
example : (H1.normalizeBins [{ binning := b3, freq := [1], err2 := [1] },
    { binning := b3, freq := [1, 2], err2 := [1, 2] }]).map (·.freq) = [[1 / 2], [1 / 2]] := by decide +kernel

/-- why `(h * c) / c = h` assumes that *both* calls are accepted: the model does not require stored
    contents to be non-negative, and `[-1] * (-1) = [1]` is accepted while `[1] / (-1)` is refused -/
example : ((({ h23 with freq := { shape := [1], data := [-1] } } : HN).imul (-1) .pyInt).toOption.map
    fun m => (m.freq.data, (m.idiv (-1)).toOption.isSome)) = some ([1], false) := by decide +kernel

/-- ND scaling and normalisation on the 2 × 3 histogram -/
example : ((h23.imul (1 / 2) .pyFloat).toOption.map fun r => (r.freq.data, r.err2.data, r.dtype))
    = some ([1 / 2, 1, 3 / 2, 2, 5 / 2, 3], [1 / 4, 1 / 2, 3 / 4, 1, 5 / 4, 3 / 2], .f64) := by decide +kernel
example : ((h23.normalize false true).toOption.map fun r => (r.freq.total, r.freq.get [1, 2]))
    = some (100, 600 / 21) := by decide +kernel
example : (h23.imul (-1) .pyInt).toOption = none ∧ (h23.idiv 0).toOption = none := by decide +kernel

end ScaleNDExamples

end Physt

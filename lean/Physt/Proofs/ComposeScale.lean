import Physt.Proofs.ScaleND
import Mathlib.Tactic.Ring
import Mathlib.Tactic.Linarith
import Mathlib.Tactic.FieldSimp
/-!
# Composition of scalings with one another and with the linear operations (C06)

1-D part: chains of `*= c` / `/= c` (`H1.scaleChain`) equal ONE scaling by the product of the factors;
scalings commute with one another (any permutation of a chain), with `+=` over equal bins, with
`merge_bins` (explicit bin map / `amount`) and with slicing; `normalize` is idempotent.
The N-d part is in the second half.
-/
namespace Physt
open H1

/-! ## dtypes, missed slots, statistics -/

theorem DType.promote_comm (a b : DType) : a.promote b = b.promote a := by cases a <;> cases b <;> rfl
theorem DType.promote_assoc (a b c : DType) : (a.promote b).promote c = a.promote (b.promote c) := by
  cases a <;> cases b <;> cases c <;> rfl
theorem DType.promote_idem (a : DType) : a.promote a = a := by cases a <;> rfl
theorem DType.promote_right_comm (d a b : DType) : (d.promote a).promote b = (d.promote b).promote a := by
  rw [DType.promote_assoc, DType.promote_comm a b, ← DType.promote_assoc]
theorem DType.promote_distrib (a b k : DType) :
    (a.promote b).promote k = (a.promote k).promote (b.promote k) := by
  cases a <;> cases b <;> cases k <;> rfl

theorem nscale_mul (a : NRat) (c d : Rat) : nscale (nscale a c) d = nscale a (c * d) := by
  cases a with
  | none => rfl
  | some x => simp only [nscale, Option.map_some, mul_assoc]

theorem nscale_one (a : NRat) : nscale a 1 = a := by
  cases a with
  | none => rfl
  | some x => simp [nscale]

theorem nscale_nadd (a b : NRat) (c : Rat) : nscale (nadd a b) c = nadd (nscale a c) (nscale b c) := by
  cases a <;> cases b <;> simp [nscale, nadd, bind, Option.bind, add_mul]

@[ext] theorem Stats.ext' {a b : Stats} (h1 : a.valid = b.valid) (h2 : a.sum = b.sum) (h3 : a.sum2 = b.sum2)
    (h4 : a.min = b.min) (h5 : a.max = b.max) (h6 : a.weight = b.weight) (h7 : a.median = b.median) : a = b := by
  cases a; cases b; simp_all

theorem Stats.scale_scale (a : Stats) (c d : Rat) : (a.scale c).scale d = a.scale (c * d) := by
  cases hv : a.valid with
  | false => simp [Stats.scale, hv, Stats.invalid]
  | true => simp [Stats.scale, hv, mul_assoc]

theorem Stats.scale_add (a b : Stats) (c : Rat) : (a.add b).scale c = (a.scale c).add (b.scale c) := by
  cases ha : a.valid <;> cases hb : b.valid <;>
    simp [Stats.scale, Stats.add, ha, hb, Stats.invalid, add_mul]

/-- a statistics record that is valid, or is exactly `INVALID_STATISTICS` -/
def Stats.Normal (a : Stats) : Prop := a.valid = true ∨ a = Stats.invalid

theorem Stats.scale_normal (a : Stats) (c : Rat) : (a.scale c).Normal := by
  cases hv : a.valid with
  | false => right; simp [Stats.scale, hv]
  | true => left; simp [Stats.scale, hv]

theorem Stats.scale_one (a : Stats) (h : a.Normal) : a.scale 1 = a := by
  rcases h with h | h
  · apply Stats.ext' <;> simp [Stats.scale, h]
  · rw [h]; rfl

/-! ## 1-D records -/

theorem H1.ext' {a b : H1} (h1 : a.binning = b.binning) (h2 : a.freq = b.freq) (h3 : a.err2 = b.err2)
    (h4 : a.under = b.under) (h5 : a.over = b.over) (h6 : a.inner = b.inner) (h7 : a.keep = b.keep)
    (h8 : a.dtype = b.dtype) (h9 : a.stats = b.stats) : a = b := by
  cases a; cases b; simp_all

/-- `r` is `h` with contents and missed counts × p, squared errors × p² (bins and `keep_missed` untouched) -/
structure ScaledBy (h r : H1) (p : Rat) : Prop where
  freq : r.freq = h.freq.map (· * p)
  err2 : r.err2 = h.err2.map (· * (p * p))
  under : r.under = nscale h.under p
  over : r.over = nscale h.over p
  inner : r.inner = nscale h.inner p
  binning : r.binning = h.binning
  keep : r.keep = h.keep

theorem map_mul_one (l : List Rat) : l.map (· * (1 : Rat)) = l := by
  conv_rhs => rw [← List.map_id l]
  apply List.map_congr_left; intro x _; simp

theorem ScaledBy.refl (h : H1) : ScaledBy h h 1 :=
  ⟨(map_mul_one _).symm, by rw [one_mul]; exact (map_mul_one _).symm, (nscale_one _).symm, (nscale_one _).symm,
    (nscale_one _).symm, rfl, rfl⟩

theorem ScaledBy.trans {h m r : H1} {p q : Rat} (a : ScaledBy h m p) (b : ScaledBy m r q) :
    ScaledBy h r (p * q) := by
  refine ⟨?_, ?_, ?_, ?_, ?_, b.binning.trans a.binning, b.keep.trans a.keep⟩
  · rw [b.freq, a.freq, List.map_map]
    apply List.map_congr_left; intro x _; simp only [Function.comp]; ring
  · rw [b.err2, a.err2, List.map_map]
    apply List.map_congr_left; intro x _; simp only [Function.comp]; ring
  · rw [b.under, a.under, nscale_mul]
  · rw [b.over, a.over, nscale_mul]
  · rw [b.inner, a.inner, nscale_mul]

theorem ScaledBy.congr {h r : H1} {p q : Rat} (a : ScaledBy h r p) (e : p = q) : ScaledBy h r q := e ▸ a

/-- scaled by 1: nothing changed -/
theorem ScaledBy.one {h r : H1} (a : ScaledBy h r 1) :
    r.freq = h.freq ∧ r.err2 = h.err2 ∧ r.under = h.under ∧ r.over = h.over ∧ r.inner = h.inner ∧
    r.binning = h.binning ∧ r.keep = h.keep :=
  ⟨a.freq.trans (map_mul_one _), a.err2.trans (by rw [one_mul]; exact map_mul_one _),
    a.under.trans (nscale_one _), a.over.trans (nscale_one _), a.inner.trans (nscale_one _), a.binning, a.keep⟩

theorem imul_scaledBy (h r : H1) (c : Rat) (k : NumKind) (hr : h.imul c k = .ok r) : ScaledBy h r c := by
  obtain ⟨_, a, b, c1, d, e, _, f, g, _⟩ := imul_ok h r c k hr
  exact ⟨a, b, c1, d, e, f, g⟩

theorem idiv_scaledBy (h r : H1) (c : Rat) (hr : h.idiv c = .ok r) : ScaledBy h r (1 / c) := by
  obtain ⟨_, _, a, b, c1, d, e, _, f, g, _⟩ := idiv_ok h r c hr
  refine ⟨?_, ?_, c1, d, e, f, g⟩
  · rw [a]; apply List.map_congr_left; intro x _; simp only [div_eq_mul_one_div x c]
  · rw [b]; apply List.map_congr_left; intro x _
    rw [div_eq_mul_one_div x (c * c)]; congr 1; simp only [one_div, mul_inv]

/-- what an accepted multiplication returns, as a record -/
theorem imul_eq_ok (h : H1) (c : Rat) (k : NumKind) (hneg : ((h.freq.map (· * c)).any (· < 0)) = false) :
    h.imul c k = .ok
      { h with
        dtype := h.dtype.promote k.dtype
        freq := h.freq.map (· * c)
        err2 := h.err2.map (· * (c * c))
        under := nscale h.under c
        over := nscale h.over c
        inner := nscale h.inner c
        stats := h.stats.scale c } := by
  unfold H1.imul
  simp only [bind, Except.bind, pure, Except.pure, H1.coerce, hneg, Bool.false_eq_true, if_false]

theorem idiv_eq_ok (h : H1) (c : Rat) (hc : c ≠ 0) (hneg : ((h.freq.map (· / c)).any (· < 0)) = false) :
    h.idiv c = .ok
      { h with
        dtype := h.dtype.promote .f64
        freq := h.freq.map (· / c)
        err2 := h.err2.map (· / (c * c))
        under := nscale h.under (1 / c)
        over := nscale h.over (1 / c)
        inner := nscale h.inner (1 / c)
        stats := h.stats.scale (1 / c) } := by
  unfold H1.idiv
  simp only [bind, Except.bind, pure, Except.pure, H1.coerce, hneg, hc, Bool.false_eq_true, if_false]

/-! ## Chains of scalings -/

/-- one step of a chain: `h *= c` (with the kind of the scalar) or `h /= c` -/
inductive ScaleOp
  | mul (c : Rat) (k : NumKind)
  | div (c : Rat)

namespace ScaleOp
/-- the factor the step multiplies contents by -/
def factor : ScaleOp → Rat
  | mul c _ => c
  | div c => 1 / c
/-- the dtype the step promotes the contents with -/
def dtype : ScaleOp → DType
  | mul _ k => k.dtype
  | div _ => .f64
/-- a division by zero is never accepted -/
def defined : ScaleOp → Prop
  | mul _ _ => True
  | div c => c ≠ 0
end ScaleOp

def H1.scaleOp (h : H1) : ScaleOp → R H1
  | .mul c k => h.imul c k
  | .div c => h.idiv c

/-- `((h op₁) op₂) … opₙ`, in place or copying (the model's operations are values) -/
def H1.scaleChain (h : H1) : List ScaleOp → R H1
  | [] => pure h
  | op :: ops => do let h' ← h.scaleOp op; h'.scaleChain ops

/-- the product of the factors -/
def chainFactor : List ScaleOp → Rat
  | [] => 1
  | op :: ops => op.factor * chainFactor ops

/-- the dtype a chain starting from `d` ends in -/
def chainDType (d : DType) : List ScaleOp → DType
  | [] => d
  | op :: ops => chainDType (d.promote op.dtype) ops

theorem scaleOp_ok (h r : H1) (op : ScaleOp) (hr : h.scaleOp op = .ok r) :
    ScaledBy h r op.factor ∧ r.dtype = h.dtype.promote op.dtype ∧ r.stats = h.stats.scale op.factor ∧
    op.defined ∧ r.freq.any (· < 0) = false := by
  cases op with
  | mul c k =>
    have := imul_ok h r c k hr
    exact ⟨imul_scaledBy h r c k hr, this.1, this.2.2.2.2.2.2.1, trivial, by rw [this.2.1]; exact this.2.2.2.2.2.2.2.2.2⟩
  | div c =>
    have := idiv_ok h r c hr
    exact ⟨idiv_scaledBy h r c hr, this.2.1, this.2.2.2.2.2.2.2.1, this.1,
      by rw [this.2.2.1]; exact this.2.2.2.2.2.2.2.2.2.2⟩

theorem scaleChain_cons (h : H1) (op : ScaleOp) (ops : List ScaleOp) (r : H1)
    (hr : h.scaleChain (op :: ops) = .ok r) : ∃ m, h.scaleOp op = .ok m ∧ m.scaleChain ops = .ok r := by
  simp only [H1.scaleChain, bind, Except.bind] at hr
  cases hm : h.scaleOp op with
  | error e => rw [hm] at hr; cases hr
  | ok m => rw [hm] at hr; exact ⟨m, rfl, hr⟩

/-- **A chain of scalings is one scaling by the product.** -/
theorem scaleChain_ok (ops : List ScaleOp) : ∀ (h r : H1), h.scaleChain ops = .ok r →
    ScaledBy h r (chainFactor ops) ∧ r.dtype = chainDType h.dtype ops ∧
    (ops = [] → r = h) ∧
    (ops ≠ [] → r.stats = h.stats.scale (chainFactor ops) ∧ r.freq.any (· < 0) = false) ∧
    (∀ op ∈ ops, op.defined) := by
  induction ops with
  | nil =>
    intro h r hr
    have : r = h := by simp only [H1.scaleChain, pure, Except.pure] at hr; cases hr; rfl
    subst this
    exact ⟨ScaledBy.refl _, rfl, fun _ => rfl, fun h => (h rfl).elim, fun _ h => by cases h⟩
  | cons op ops ih =>
    intro h r hr
    obtain ⟨m, hm, hrest⟩ := scaleChain_cons h op ops r hr
    obtain ⟨s1, d1, st1, def1, neg1⟩ := scaleOp_ok h m op hm
    obtain ⟨s2, d2, e2, st2, def2⟩ := ih m r hrest
    refine ⟨s1.trans s2, by rw [d2, d1]; rfl, (fun h => absurd h (List.cons_ne_nil _ _)), fun _ => ?_, ?_⟩
    · by_cases hops : ops = []
      · have := e2 hops
        subst this
        subst hops
        exact ⟨by rw [st1]; simp [chainFactor], neg1⟩
      · obtain ⟨a, b⟩ := st2 hops
        exact ⟨by rw [a, st1, Stats.scale_scale]; rfl, b⟩
    · intro o ho
      rcases List.mem_cons.mp ho with rfl | ho
      · exact def1
      · exact def2 o ho

/-- … and one scaling by the product is accepted and gives the same histogram (up to the dtype, which
    a chain promotes with every scalar's). -/
theorem scaleChain_eq_single (ops : List ScaleOp) (hne : ops ≠ []) (h r : H1) (hr : h.scaleChain ops = .ok r)
    (k : NumKind) :
    ∃ r', h.imul (chainFactor ops) k = .ok r' ∧ r = { r' with dtype := chainDType h.dtype ops } := by
  obtain ⟨s, d, _, st, _⟩ := scaleChain_ok ops h r hr
  obtain ⟨hst, hneg⟩ := st hne
  rw [s.freq] at hneg
  refine ⟨_, imul_eq_ok h _ k hneg, ?_⟩
  apply H1.ext'
  · exact s.binning
  · exact s.freq
  · dsimp only; exact s.err2
  · dsimp only; exact s.under
  · dsimp only; exact s.over
  · dsimp only; exact s.inner
  · exact s.keep
  · exact d
  · dsimp only; exact hst

/-- a chain of non-negative factors on non-negative contents is accepted -/
theorem scaleChain_accepted (ops : List ScaleOp) : ∀ (h : H1), (∀ x ∈ h.freq, 0 ≤ x) →
    (∀ op ∈ ops, op.defined ∧ 0 ≤ op.factor) → ∃ r, h.scaleChain ops = .ok r := by
  induction ops with
  | nil => intro h _ _; exact ⟨h, rfl⟩
  | cons op ops ih =>
    intro h hpos hops
    obtain ⟨hdef, hf⟩ := hops op (List.mem_cons_self ..)
    have hstep : ∃ m, h.scaleOp op = .ok m ∧ m.freq = h.freq.map (· * op.factor) := by
      cases op with
      | mul c k =>
        have hneg : ((h.freq.map (· * c)).any (· < 0)) = false := by
          rw [List.any_eq_false]
          intro y hy
          obtain ⟨x, hx, rfl⟩ := List.mem_map.mp hy
          simp only [decide_eq_true_eq, not_lt]
          exact mul_nonneg (hpos x hx) hf
        exact ⟨_, imul_eq_ok h c k hneg, rfl⟩
      | div c =>
        have hc : c ≠ 0 := hdef
        have hf' : 0 ≤ 1 / c := hf
        have hneg : ((h.freq.map (· / c)).any (· < 0)) = false := by
          rw [List.any_eq_false]
          intro y hy
          obtain ⟨x, hx, rfl⟩ := List.mem_map.mp hy
          simp only [decide_eq_true_eq, not_lt]
          rw [div_eq_mul_one_div]
          exact mul_nonneg (hpos x hx) hf'
        refine ⟨_, idiv_eq_ok h c hc hneg, ?_⟩
        show h.freq.map (· / c) = h.freq.map (· * (1 / c))
        apply List.map_congr_left; intro x _; simp only [div_eq_mul_one_div x c]
    obtain ⟨m, hm, hmf⟩ := hstep
    obtain ⟨r, hr⟩ := ih m (by
      intro y hy
      rw [hmf] at hy
      obtain ⟨x, hx, rfl⟩ := List.mem_map.mp hy
      exact mul_nonneg (hpos x hx) hf) (fun o ho => hops o (List.mem_cons_of_mem _ ho))
    exact ⟨r, by simp only [H1.scaleChain, bind, Except.bind, hm]; exact hr⟩

theorem chainFactor_perm {a b : List ScaleOp} (h : a.Perm b) : chainFactor a = chainFactor b := by
  induction h with
  | nil => rfl
  | cons x _ ih => simp only [chainFactor, ih]
  | swap x y l => simp only [chainFactor]; ring
  | trans _ _ ih1 ih2 => exact ih1.trans ih2

theorem chainDType_perm {a b : List ScaleOp} (h : a.Perm b) : ∀ d, chainDType d a = chainDType d b := by
  induction h with
  | nil => intro d; rfl
  | cons x _ ih => intro d; simp only [chainDType, ih]
  | swap x y l => intro d; simp only [chainDType, DType.promote_right_comm]
  | trans _ _ ih1 ih2 => intro d; exact (ih1 d).trans (ih2 d)

/-- **Scalings commute**: two accepted chains made of the same steps in any order give the same histogram. -/
theorem scaleChain_perm (a b : List ScaleOp) (hp : a.Perm b) (h r₁ r₂ : H1) (h1 : h.scaleChain a = .ok r₁)
    (h2 : h.scaleChain b = .ok r₂) : r₁ = r₂ := by
  obtain ⟨s1, d1, e1, st1, _⟩ := scaleChain_ok a h r₁ h1
  obtain ⟨s2, d2, e2, st2, _⟩ := scaleChain_ok b h r₂ h2
  by_cases ha : a = []
  · have hb : b = [] := by subst ha; exact List.perm_nil.mp hp.symm ▸ rfl
    rw [e1 ha, e2 hb]
  · have hb : b ≠ [] := by
      intro hb; subst hb; exact ha (List.perm_nil.mp hp)
    have hf := chainFactor_perm hp
    apply H1.ext'
    · rw [s1.binning, s2.binning]
    · rw [s1.freq, s2.freq, hf]
    · rw [s1.err2, s2.err2, hf]
    · rw [s1.under, s2.under, hf]
    · rw [s1.over, s2.over, hf]
    · rw [s1.inner, s2.inner, hf]
    · rw [s1.keep, s2.keep]
    · rw [d1, d2, chainDType_perm hp]
    · rw [(st1 ha).1, (st2 hb).1, hf]

/-! ## Scaling commutes with `+=` over equal bins -/

theorem zipAdd_map_mul (a b : List Rat) (q : Rat) :
    zipAdd (a.map (· * q)) (b.map (· * q)) = (zipAdd a b).map (· * q) := by
  induction a generalizing b with
  | nil => simp [zipAdd]
  | cons x xs ih =>
    cases b with
    | nil => simp [zipAdd]
    | cons y ys =>
      have := ih ys
      simp only [zipAdd, List.map_cons, List.zipWith_cons_cons, List.cons.injEq] at this ⊢
      exact ⟨by ring, this⟩

/-- **`(a + b) * c = a * c + b * c`** for histograms over equal bins: when all five operations are accepted the
    two results are the same histogram (contents, squared errors × c², missed slots, dtype, statistics). -/
theorem iadd_imul_distrib (fo : FloatOps) (a b s r a' b' r' : H1) (c : Rat) (k : NumKind)
    (hs : a.sameBins fo b = true) (h1 : a.iadd fo b = .ok s) (h2 : s.imul c k = .ok r)
    (h3 : a.imul c k = .ok a') (h4 : b.imul c k = .ok b') (h5 : a'.iadd fo b' = .ok r') : r = r' := by
  obtain ⟨sd, sf, se, su, so, si, sst, sb, sk⟩ := iadd_same_ok fo a b s hs h1
  obtain ⟨rd, rf, re, ru, ro, ri, rst, rb, rk, _⟩ := imul_ok s r c k h2
  obtain ⟨ad, af, ae, au, ao, ai, ast, ab, ak, _⟩ := imul_ok a a' c k h3
  obtain ⟨bd, bf, be, bu, bo, bi, bst, bb, bk, _⟩ := imul_ok b b' c k h4
  have hs' : a'.sameBins fo b' = true := by
    simp only [H1.sameBins, H1.bins, ab, bb] at hs ⊢; exact hs
  obtain ⟨td, tf, te, tu, tov, ti, tst, tb, tk⟩ := iadd_same_ok fo a' b' r' hs' h5
  apply H1.ext'
  · rw [rb, sb, tb, ab]
  · rw [rf, sf, tf, af, bf, zipAdd_map_mul]
  · rw [re, se, te, ae, be, zipAdd_map_mul]
  · rw [ru, su, tu, au, bu, nscale_nadd]
  · rw [ro, so, tov, ao, bo, nscale_nadd]
  · rw [ri, si, ti, ai, bi, nscale_nadd]
  · rw [rk, sk, tk, ak]
  · rw [rd, sd, td, ad, bd, DType.promote_distrib]
  · rw [rst, sst, tst, ast, bst, Stats.scale_add]

/-! ## Scaling commutes with `merge_bins` -/

theorem mergeVals_map_mul (vals : List Rat) (map : List Nat) (n : Nat) (q : Rat) :
    mergeVals (vals.map (· * q)) map n = (mergeVals vals map n).map (· * q) := by
  unfold mergeVals
  rw [List.map_map]
  apply List.map_congr_left
  intro j _
  simp only [Function.comp]
  rw [← sum_map_mul]
  congr 1
  rw [List.zip_map_left, List.filter_map, List.map_map, List.map_map]
  rfl

theorem mergeWithMap_ok (fo : FloatOps) (h m : H1) (map : List Nat) (hm : mergeWithMap fo h map = .ok m) :
    ∃ newBins, mergeBinsAux ((h.bins fo).zip map) none = .ok newBins ∧ map ≠ [] ∧
      m = { h with
            binning := .static newBins
              (h.binning.ire && (newBins.getLast?.map (·.2) == (h.bins fo).getLast?.map (·.2)))
            freq := mergeVals h.freq map newBins.length
            err2 := mergeVals h.err2 map newBins.length } := by
  unfold mergeWithMap at hm
  simp only [bind, Except.bind, pure, Except.pure, throw, throwThe, MonadExceptOf.throw] at hm
  cases hmap : map.isEmpty with
  | true => simp [hmap] at hm
  | false =>
    simp only [hmap, Bool.false_eq_true, if_false] at hm
    cases hb : mergeBinsAux ((h.bins fo).zip map) none with
    | error e => rw [hb] at hm; cases hm
    | ok nb =>
      rw [hb] at hm
      cases hm
      refine ⟨nb, rfl, ?_, rfl⟩
      intro h0; subst h0; simp at hmap

/-- **`merge_bins(h) * c = merge_bins(h * c)`** for an explicit bin map (in particular `amount=…`, whose map
    depends on the number of bins only): the two orders give the same histogram. -/
theorem mergeWithMap_imul_comm (fo : FloatOps) (h m r h' r' : H1) (map : List Nat) (c : Rat) (k : NumKind)
    (h1 : mergeWithMap fo h map = .ok m) (h2 : m.imul c k = .ok r)
    (h3 : h.imul c k = .ok h') (h4 : mergeWithMap fo h' map = .ok r') : r = r' := by
  obtain ⟨nb, hnb, _, hm⟩ := mergeWithMap_ok fo h m map h1
  obtain ⟨rd, rf, re, ru, ro, ri, rst, rb, rk, _⟩ := imul_ok m r c k h2
  obtain ⟨hd, hf, he, hu, ho, hi, hst, hb, hk, _⟩ := imul_ok h h' c k h3
  obtain ⟨nb', hnb', _, hr'⟩ := mergeWithMap_ok fo h' r' map h4
  have hbins : h'.bins fo = h.bins fo := by simp only [H1.bins, hb]
  rw [hbins, hnb] at hnb'
  cases hnb'
  subst hm
  subst hr'
  apply H1.ext'
  · rw [rb]; simp only [hb, hbins]
  · rw [rf]; simp only [hf, mergeVals_map_mul]
  · rw [re]; simp only [he, mergeVals_map_mul]
  · rw [ru]; exact hu.symm
  · rw [ro]; exact ho.symm
  · rw [ri]; exact hi.symm
  · rw [rk]; exact hk.symm
  · rw [rd]; exact hd.symm
  · rw [rst]; exact hst.symm

theorem mergeAmount_imul_comm (fo : FloatOps) (h m r h' r' : H1) (amount : Nat) (c : Rat) (k : NumKind)
    (h1 : mergeAmount fo h amount = .ok m) (h2 : m.imul c k = .ok r)
    (h3 : h.imul c k = .ok h') (h4 : mergeAmount fo h' amount = .ok r') : r = r' := by
  have hlen : h'.freq.length = h.freq.length := by rw [(imul_ok h h' c k h3).2.1, List.length_map]
  unfold mergeAmount at h1 h4
  simp only [bind, Except.bind, throw, throwThe, MonadExceptOf.throw] at h1 h4
  by_cases ha : amount = 0
  · simp [ha] at h1
  · simp only [ha, if_false] at h1 h4
    rw [hlen] at h4
    exact mergeWithMap_imul_comm fo h m r h' r' _ c k h1 h2 h3 h4

/-! ## Scaling commutes with slicing -/

theorem sliceList_map {α β} (f : α → β) (l : List α) (start stop : Option Int) :
    sliceList (l.map f) start stop = (sliceList l start stop).map f := by
  simp only [sliceList, List.length_map, pySlice, List.map_take, List.map_drop]

theorem nscale_nadd_some (a : NRat) (x c : Rat) : nscale (nadd a (some x)) c = nadd (nscale a c) (some (x * c)) := by
  rw [nscale_nadd]; rfl

/-- **`h[a:b] * c = (h * c)[a:b]`**: the two orders give the same histogram (the weight cut off on either side
    is added to underflow / overflow before or after scaling alike). -/
theorem getSlice_imul_comm (fo : FloatOps) (h r h' : H1) (start stop : Option Int) (c : Rat) (k : NumKind)
    (h2 : (getSlice fo h start stop).imul c k = .ok r) (h3 : h.imul c k = .ok h') :
    r = getSlice fo h' start stop := by
  obtain ⟨rd, rf, re, ru, ro, ri, rst, rb, rk, _⟩ := imul_ok _ r c k h2
  obtain ⟨hd, hf, he, hu, ho, hi, hst, hb, hk, _⟩ := imul_ok h h' c k h3
  have hbins : h'.bins fo = h.bins fo := by simp only [H1.bins, hb]
  apply H1.ext'
  · rw [rb]; simp only [getSlice, hbins, hb]
  · rw [rf]; simp only [getSlice, hf, sliceList_map]
  · rw [re]; simp only [getSlice, he, sliceList_map]
  · rw [ru]
    simp only [getSlice, hk]
    cases hkeep : h.keep with
    | false => simp [nscale]
    | true =>
      simp only [if_true]
      have hu' : h'.underflow = nscale h.underflow c := by simp only [H1.underflow, hk, hkeep, if_true, hu]
      rw [nscale_nadd_some, hu']
      congr 2
      cases start with
      | none => simp
      | some s =>
        by_cases hs0 : s = 0
        · simp [hs0]
        · simp only [hs0, if_false, hf, sliceList_map, sum_map_mul]
  · rw [ro]
    simp only [getSlice, hk]
    cases hkeep : h.keep with
    | false => simp [nscale]
    | true =>
      simp only [if_true]
      have ho' : h'.overflow = nscale h.overflow c := by simp only [H1.overflow, hk, hkeep, if_true, ho]
      rw [nscale_nadd_some, ho']
      congr 2
      cases stop with
      | none => simp
      | some s =>
        by_cases hs0 : s = 0
        · simp [hs0]
        · simp only [hs0, if_false, hf, sliceList_map, sum_map_mul]
  · rw [ri]; simp [getSlice, nscale]
  · rw [rk]; simp only [getSlice, hk]
  · rw [rd]; simp only [getSlice, hd]
  · rw [rst]; simp [getSlice, Stats.scale, Stats.invalid]

/-! ## `normalize` is idempotent -/

theorem map_div_one (l : List Rat) : l.map (· / (1 : Rat)) = l := by
  conv_rhs => rw [← List.map_id l]
  apply List.map_congr_left; intro x _; simp

theorem DType.promote_f64_idem (d : DType) : (d.promote .f64).promote .f64 = d.promote .f64 := by
  cases d <;> rfl

theorem DType.promote_f64_i64 (d : DType) :
    (((d.promote .f64).promote .i64).promote .f64).promote .i64 = (d.promote .f64).promote .i64 := by
  cases d <;> rfl

/-- dividing a histogram that came out of a scaling by `1` changes nothing -/
theorem idiv_one_self (r : H1) (hneg : r.freq.any (· < 0) = false) (hd : r.dtype.promote .f64 = r.dtype)
    (hst : r.stats.Normal) : r.idiv 1 = .ok r := by
  rw [idiv_eq_ok r 1 one_ne_zero (by rw [map_div_one]; exact hneg)]
  congr 1
  apply H1.ext' <;> dsimp only
  · exact map_div_one _
  · rw [one_mul]; exact map_div_one _
  · rw [div_one]; exact nscale_one _
  · rw [div_one]; exact nscale_one _
  · rw [div_one]; exact nscale_one _
  · exact hd
  · rw [div_one]; exact Stats.scale_one _ hst

/-- **`normalize` is idempotent** (in place or copying, with or without `percent`): normalising an accepted
    normalisation is accepted and returns the same histogram — contents, squared errors, missed slots,
    dtype and statistics.  (A zero total is refused by the first call already: `C06_normalize_zero`.) -/
theorem normalize_idem (h r : H1) (inplace percent : Bool) (hr : h.normalize inplace percent = .ok r) :
    r.normalize inplace percent = .ok r := by
  cases inplace with
  | true =>
    simp only [H1.normalize, if_true] at hr ⊢
    obtain ⟨hne, rd, rf, re, ru, ro, ri, rst, rb, rk, rneg⟩ := idiv_ok h r _ hr
    have hk : (if percent = true then centiDouble else 1) ≠ 0 := fun h0 => hne (by rw [h0, mul_zero])
    have hT : h.total ≠ 0 := fun h0 => hne (by rw [h0, zero_mul])
    have htot : r.total * (if percent = true then centiDouble else 1) = 1 := by
      have hTe : h.freq.sum = h.total := rfl
      show r.freq.sum * (if percent = true then centiDouble else 1) = 1
      rw [rf, sum_map_div, hTe]
      field_simp
    rw [htot]
    exact idiv_one_self r (by rw [rf]; exact rneg) (by rw [rd]; exact DType.promote_f64_idem _)
      (by rw [rst]; exact Stats.scale_normal _ _)
  | false =>
    simp only [H1.normalize, Bool.false_eq_true, if_false, bind, Except.bind] at hr ⊢
    cases hd : h.idiv h.total with
    | error e => rw [hd] at hr; cases hr
    | ok d =>
      rw [hd] at hr
      simp only at hr
      obtain ⟨hT, dd, df, de, du, dov, di, dst, db, dk, dneg⟩ := idiv_ok h d _ hd
      obtain ⟨rd, rf, re, ru, ro, ri, rst, rb, rk, rneg⟩ := imul_ok d r _ _ hr
      have hm : ((if percent = true then 100 else 1 : Rat)) ≠ 0 := by cases percent <;> norm_num
      have htot : r.total = (if percent = true then 100 else 1) := by
        have hTe : h.freq.sum = h.total := rfl
        show r.freq.sum = (if percent = true then 100 else 1)
        rw [rf, df, sum_map_mul, sum_map_div, hTe, div_self hT, one_mul]
      rw [htot]
      -- the second division undoes the multiplication: it returns `d` with the dtype promoted once more
      have hback : ∀ l : List Rat, (l.map (· * (if percent = true then 100 else 1 : Rat))).map
          (· / (if percent = true then 100 else 1)) = l := by
        intro l
        rw [List.map_map]
        conv_rhs => rw [← List.map_id l]
        apply List.map_congr_left; intro x _; simp only [Function.comp, id]; field_simp
      have hneg2 : ((r.freq.map (· / (if percent = true then 100 else 1 : Rat))).any (· < 0)) = false := by
        rw [rf, hback, df]; exact dneg
      rw [idiv_eq_ok r _ hm hneg2]
      simp only
      have hneg3 : (((r.freq.map (· / (if percent = true then 100 else 1 : Rat))).map
          (· * (if percent = true then 100 else 1 : Rat))).any (· < 0)) = false := by
        rw [rf, hback]; exact rneg
      rw [imul_eq_ok _ _ _ hneg3]
      congr 1
      have hfwd : ∀ l : List Rat, (l.map (· / (if percent = true then 100 else 1 : Rat))).map
          (· * (if percent = true then 100 else 1)) = l := by
        intro l
        rw [List.map_map]
        conv_rhs => rw [← List.map_id l]
        apply List.map_congr_left; intro x _; simp only [Function.comp, id]; field_simp
      have hns : ∀ a : NRat, nscale (nscale a (1 / (if percent = true then 100 else 1 : Rat)))
          (if percent = true then 100 else 1) = a := by
        intro a; rw [nscale_mul, one_div, inv_mul_cancel₀ hm, nscale_one]
      apply H1.ext' <;> dsimp only
      · exact hfwd _
      · rw [List.map_map]
        conv_rhs => rw [← List.map_id r.err2]
        apply List.map_congr_left; intro x _; simp only [Function.comp, id]; field_simp
      · exact hns _
      · exact hns _
      · exact hns _
      · rw [rd, dd]; exact DType.promote_f64_i64 _
      · rw [Stats.scale_scale, one_div, inv_mul_cancel₀ hm]
        exact Stats.scale_one _ (by rw [rst]; exact Stats.scale_normal _ _)

/-! # N dimensions -/

theorem HN.ext' {a b : HN} (h1 : a.axes = b.axes) (h2 : a.freq = b.freq) (h3 : a.err2 = b.err2)
    (h4 : a.missed = b.missed) (h5 : a.keep = b.keep) (h6 : a.dtype = b.dtype) (h7 : a.names = b.names) :
    a = b := by
  cases a; cases b; simp_all

/-- `r` is `h` with contents and the missed count × p, squared errors × p² (bins, names, `keep_missed` untouched) -/
structure ScaledByN (h r : HN) (p : Rat) : Prop where
  freq : r.freq = h.freq.map (· * p)
  err2 : r.err2 = h.err2.map (· * (p * p))
  missed : r.missed = nscale h.missed p
  axes : r.axes = h.axes
  keep : r.keep = h.keep
  names : r.names = h.names

theorem ScaledByN.refl (h : HN) : ScaledByN h h 1 :=
  ⟨(Arr.map_id' _ _ fun x => mul_one x).symm, (Arr.map_id' _ _ fun x => by rw [one_mul, mul_one]).symm,
    (nscale_one _).symm, rfl, rfl, rfl⟩

theorem Arr.map_congr (a : Arr) (f g : Rat → Rat) (h : ∀ x, f x = g x) : a.map f = a.map g := by
  have : f = g := funext h
  rw [this]

theorem ScaledByN.trans {h m r : HN} {p q : Rat} (a : ScaledByN h m p) (b : ScaledByN m r q) :
    ScaledByN h r (p * q) := by
  refine ⟨?_, ?_, ?_, b.axes.trans a.axes, b.keep.trans a.keep, b.names.trans a.names⟩
  · rw [b.freq, a.freq, Arr.map_map]
    apply Arr.map_congr; intro x; simp only [Function.comp]; ring
  · rw [b.err2, a.err2, Arr.map_map]
    apply Arr.map_congr; intro x; simp only [Function.comp]; ring
  · rw [b.missed, a.missed, nscale_mul]

theorem HN.imul_scaledBy (h r : HN) (c : Rat) (k : NumKind) (hr : h.imul c k = .ok r) : ScaledByN h r c := by
  obtain ⟨a, b, c1, d, e, f, _, _⟩ := HN.imul_ok h r c k hr
  exact ⟨a, b, c1, d, e, f⟩

theorem HN.idiv_scaledBy (h r : HN) (c : Rat) (hr : h.idiv c = .ok r) : ScaledByN h r (1 / c) := by
  obtain ⟨_, a, b, c1, d, e, f, _, _⟩ := HN.idiv_ok h r c hr
  refine ⟨?_, ?_, c1, d, e, f⟩
  · rw [a]; apply Arr.map_congr; intro x; exact div_eq_mul_one_div x c
  · rw [b]; apply Arr.map_congr; intro x
    rw [div_eq_mul_one_div x (c * c)]; congr 1; simp only [one_div, mul_inv]

theorem HN.imul_eq_ok (h : HN) (c : Rat) (k : NumKind) (hneg : ((h.freq.map (· * c)).data.any (· < 0)) = false) :
    h.imul c k = .ok
      { h with
        dtype := h.dtype.promote k.dtype
        freq := h.freq.map (· * c)
        err2 := h.err2.map (· * (c * c))
        missed := nscale h.missed c } := by
  unfold HN.imul
  simp only [bind, Except.bind, pure, Except.pure, HN.coerce, hneg, Bool.false_eq_true, if_false]

theorem HN.idiv_eq_ok (h : HN) (c : Rat) (hc : c ≠ 0) (hneg : ((h.freq.map (· / c)).data.any (· < 0)) = false) :
    h.idiv c = .ok
      { h with
        dtype := h.dtype.promote .f64
        freq := h.freq.map (· / c)
        err2 := h.err2.map (· / (c * c))
        missed := nscale h.missed (1 / c) } := by
  unfold HN.idiv
  simp only [bind, Except.bind, pure, Except.pure, HN.coerce, hneg, hc, Bool.false_eq_true, if_false]

def HN.scaleOp (h : HN) : ScaleOp → R HN
  | .mul c k => h.imul c k
  | .div c => h.idiv c

def HN.scaleChain (h : HN) : List ScaleOp → R HN
  | [] => pure h
  | op :: ops => do let h' ← h.scaleOp op; h'.scaleChain ops

theorem HN.scaleOp_ok (h r : HN) (op : ScaleOp) (hr : h.scaleOp op = .ok r) :
    ScaledByN h r op.factor ∧ r.dtype = h.dtype.promote op.dtype ∧ op.defined ∧
    r.freq.data.any (· < 0) = false := by
  cases op with
  | mul c k =>
    have := HN.imul_ok h r c k hr
    exact ⟨HN.imul_scaledBy h r c k hr, this.2.2.2.2.2.2.1, trivial, by rw [this.1]; exact this.2.2.2.2.2.2.2⟩
  | div c =>
    have := HN.idiv_ok h r c hr
    exact ⟨HN.idiv_scaledBy h r c hr, this.2.2.2.2.2.2.2.1, this.1, by rw [this.2.1]; exact this.2.2.2.2.2.2.2.2⟩

theorem HN.scaleChain_cons (h : HN) (op : ScaleOp) (ops : List ScaleOp) (r : HN)
    (hr : h.scaleChain (op :: ops) = .ok r) : ∃ m, h.scaleOp op = .ok m ∧ m.scaleChain ops = .ok r := by
  simp only [HN.scaleChain, bind, Except.bind] at hr
  cases hm : h.scaleOp op with
  | error e => rw [hm] at hr; cases hr
  | ok m => rw [hm] at hr; exact ⟨m, rfl, hr⟩

/-- **A chain of scalings of an N-d histogram is one scaling by the product.** -/
theorem HN.scaleChain_ok (ops : List ScaleOp) : ∀ (h r : HN), h.scaleChain ops = .ok r →
    ScaledByN h r (chainFactor ops) ∧ r.dtype = chainDType h.dtype ops ∧
    (ops = [] → r = h) ∧ (ops ≠ [] → r.freq.data.any (· < 0) = false) ∧ (∀ op ∈ ops, op.defined) := by
  induction ops with
  | nil =>
    intro h r hr
    have : r = h := by simp only [HN.scaleChain, pure, Except.pure] at hr; cases hr; rfl
    subst this
    exact ⟨ScaledByN.refl _, rfl, fun _ => rfl, fun h => (h rfl).elim, fun _ h => by cases h⟩
  | cons op ops ih =>
    intro h r hr
    obtain ⟨m, hm, hrest⟩ := HN.scaleChain_cons h op ops r hr
    obtain ⟨s1, d1, def1, neg1⟩ := HN.scaleOp_ok h m op hm
    obtain ⟨s2, d2, e2, st2, def2⟩ := ih m r hrest
    refine ⟨s1.trans s2, by rw [d2, d1]; rfl, (fun h => absurd h (List.cons_ne_nil _ _)), fun _ => ?_, ?_⟩
    · by_cases hops : ops = []
      · have := e2 hops
        subst this
        exact neg1
      · exact st2 hops
    · intro o ho
      rcases List.mem_cons.mp ho with rfl | ho
      · exact def1
      · exact def2 o ho

theorem HN.scaleChain_eq_single (ops : List ScaleOp) (hne : ops ≠ []) (h r : HN) (hr : h.scaleChain ops = .ok r)
    (k : NumKind) :
    ∃ r', h.imul (chainFactor ops) k = .ok r' ∧ r = { r' with dtype := chainDType h.dtype ops } := by
  obtain ⟨s, d, _, st, _⟩ := HN.scaleChain_ok ops h r hr
  have hneg := st hne
  rw [s.freq] at hneg
  refine ⟨_, HN.imul_eq_ok h _ k hneg, ?_⟩
  apply HN.ext' <;> dsimp only
  · exact s.axes
  · exact s.freq
  · exact s.err2
  · exact s.missed
  · exact s.keep
  · exact d
  · exact s.names

/-- **N-d scalings commute**: two accepted chains made of the same steps in any order give the same histogram. -/
theorem HN.scaleChain_perm (a b : List ScaleOp) (hp : a.Perm b) (h r₁ r₂ : HN) (h1 : h.scaleChain a = .ok r₁)
    (h2 : h.scaleChain b = .ok r₂) : r₁ = r₂ := by
  obtain ⟨s1, d1, _, _, _⟩ := HN.scaleChain_ok a h r₁ h1
  obtain ⟨s2, d2, _, _, _⟩ := HN.scaleChain_ok b h r₂ h2
  have hf := chainFactor_perm hp
  apply HN.ext'
  · rw [s1.axes, s2.axes]
  · rw [s1.freq, s2.freq, hf]
  · rw [s1.err2, s2.err2, hf]
  · rw [s1.missed, s2.missed, hf]
  · rw [s1.keep, s2.keep]
  · rw [d1, d2, chainDType_perm hp]
  · rw [s1.names, s2.names]

/-! ## N-d: `+=` over equal bins -/

theorem HN.iadd_same_ok (fo : FloatOps) (h o r : HN) (hs : h.sameBins fo o = true) (hr : h.iadd fo o = .ok r) :
    r.dtype = h.dtype.promote o.dtype ∧ r.freq = Arr.zipWith (· + ·) h.freq o.freq ∧
    r.err2 = Arr.zipWith (· + ·) h.err2 o.err2 ∧ r.missed = nadd h.missed o.missed ∧
    r.axes = h.axes ∧ r.keep = h.keep ∧ r.names = h.names := by
  unfold HN.iadd at hr
  simp only [bind, Except.bind, pure, Except.pure, throw, throwThe, MonadExceptOf.throw, HN.coerce] at hr
  by_cases hl : (h.axes.length != o.axes.length) = true
  · simp [hl] at hr
  · simp only [hl, hs, if_true, Bool.false_eq_true, if_false] at hr
    cases hr
    exact ⟨rfl, rfl, rfl, rfl, rfl, rfl, rfl⟩

theorem Arr.zipWith_map_mul (a b : Arr) (q : Rat) :
    Arr.zipWith (· + ·) (a.map (· * q)) (b.map (· * q)) = (Arr.zipWith (· + ·) a b).map (· * q) := by
  unfold Arr.zipWith Arr.map
  simp only [Arr.mk.injEq, true_and]
  exact zipAdd_map_mul a.data b.data q

/-- **`(a + b) * c = a * c + b * c`** for N-d histograms over equal bins. -/
theorem HN.iadd_imul_distrib (fo : FloatOps) (a b s r a' b' r' : HN) (c : Rat) (k : NumKind)
    (hs : a.sameBins fo b = true) (h1 : a.iadd fo b = .ok s) (h2 : s.imul c k = .ok r)
    (h3 : a.imul c k = .ok a') (h4 : b.imul c k = .ok b') (h5 : a'.iadd fo b' = .ok r') : r = r' := by
  obtain ⟨sd, sf, se, sm, sa, sk, sn⟩ := HN.iadd_same_ok fo a b s hs h1
  obtain ⟨rf, re, rm, ra, rk, rn, rd, _⟩ := HN.imul_ok s r c k h2
  obtain ⟨af, ae, am, aa, ak, an, ad, _⟩ := HN.imul_ok a a' c k h3
  obtain ⟨bf, be, bm, ba, bk, bn, bd, _⟩ := HN.imul_ok b b' c k h4
  have hs' : a'.sameBins fo b' = true := by
    simp only [HN.sameBins, aa, ba] at hs ⊢; exact hs
  obtain ⟨td, tf, te, tm, ta, tk, tn⟩ := HN.iadd_same_ok fo a' b' r' hs' h5
  apply HN.ext'
  · rw [ra, sa, ta, aa]
  · rw [rf, sf, tf, af, bf, Arr.zipWith_map_mul]
  · rw [re, se, te, ae, be, Arr.zipWith_map_mul]
  · rw [rm, sm, tm, am, bm, nscale_nadd]
  · rw [rk, sk, tk, ak]
  · rw [rd, sd, td, ad, bd, DType.promote_distrib]
  · rw [rn, sn, tn, an]

/-! ## N-d: the array operations behind projection, selection and merging are linear -/

theorem Arr.ofFn_map (shape : List Nat) (g : List Nat → Rat) (f : Rat → Rat) :
    (Arr.ofFn shape g).map f = Arr.ofFn shape (fun i => f (g i)) := by
  simp [Arr.ofFn, Arr.map, List.map_map, Function.comp_def]

theorem Arr.gather_map_mul (a : Arr) (axis newN : Nat) (src : Nat → List Nat) (q : Rat) :
    (a.map (· * q)).gather axis newN src = (a.gather axis newN src).map (· * q) := by
  unfold Arr.gather
  rw [Arr.ofFn_map]
  show Arr.ofFn (Arr.setAt a.shape axis newN) _ = _
  congr 1
  funext idx
  rw [← sum_map_mul_fn]
  congr 1
  apply List.map_congr_left
  intro k _
  exact Arr.get_map a (· * q) (zero_mul q) _

theorem Arr.squeeze_map_mul (a : Arr) (axis : Nat) (q : Rat) :
    (a.map (· * q)).squeeze axis = (a.squeeze axis).map (· * q) := by
  unfold Arr.squeeze
  rw [Arr.ofFn_map]
  show Arr.ofFn (Arr.removeAt a.shape axis) _ = _
  congr 1
  funext idx
  exact Arr.get_map a (· * q) (zero_mul q) _

theorem Arr.sumAxis_map_mul (a : Arr) (axis : Nat) (q : Rat) :
    (a.map (· * q)).sumAxis axis = (a.sumAxis axis).map (· * q) := by
  unfold Arr.sumAxis
  rw [show (a.map (· * q)).shape = a.shape from rfl, Arr.gather_map_mul, Arr.squeeze_map_mul]

theorem Arr.sumAxes_map_mul (l : List Nat) : ∀ (a : Arr) (q : Rat),
    (a.map (· * q)).sumAxes l = (a.sumAxes l).map (· * q) := by
  induction l with
  | nil => intro a q; rfl
  | cons x xs ih =>
    intro a q
    rw [Arr.sumAxes_cons, Arr.sumAxes_cons, Arr.sumAxis_map_mul, ih]

theorem Arr.selectSlice_map_mul (a : Arr) (axis lo hi : Nat) (q : Rat) :
    (a.map (· * q)).selectSlice axis lo hi = (a.selectSlice axis lo hi).map (· * q) :=
  Arr.gather_map_mul a axis (hi - lo) _ q

theorem Arr.selectInt_map_mul (a : Arr) (axis i : Nat) (q : Rat) :
    (a.map (· * q)).selectInt axis i = (a.selectInt axis i).map (· * q) := by
  unfold Arr.selectInt
  rw [Arr.gather_map_mul, Arr.squeeze_map_mul]

theorem Arr.mergeAxis_map_mul (a : Arr) (axis : Nat) (map : List Nat) (newN : Nat) (q : Rat) :
    (a.map (· * q)).mergeAxis axis map newN = (a.mergeAxis axis map newN).map (· * q) :=
  Arr.gather_map_mul a axis newN _ q

/-! ## N-d: projection, slicing and merging commute with scaling -/

theorem HN.getAxis_congr (h h' : HN) (ha : h'.axes = h.axes) (hn : h'.names = h.names) :
    h'.getAxis = h.getAxis := by
  funext ax
  unfold HN.getAxis
  rw [ha, hn]

/-- the dtype of `projection(h) * c` and of `projection(h * c)` agree unless an `int16` histogram meets a
    `float16` / `float32` scalar (see the counter-example in `Theorems/C06_Commute.lean`) -/
theorem DType.projection_promote (d kd : DType) (hok : d = .i16 → kd ≠ .f16 ∧ kd ≠ .f32) :
    (if d.isInt then DType.i64 else d).promote kd
      = if (d.promote kd).isInt then DType.i64 else d.promote kd := by
  cases d <;> cases kd <;> first | rfl | (exfalso; have := hok rfl; simp at this)

/-- **`projection(h) * c` and `projection(h * c)`** have the same bins, names, contents, squared errors and
    missed count; they are the same histogram unless the dtypes differ (`int16` contents with a
    `float16` / `float32` scalar: the projection sums narrow integers in `int64` first). -/
theorem HN.projection_imul_comm (h p r h' r' : HN) (axes : List (Sum Int String)) (c : Rat) (k : NumKind)
    (h1 : h.projection axes = .ok p) (h2 : p.imul c k = .ok r) (h3 : h.imul c k = .ok h')
    (h4 : h'.projection axes = .ok r') :
    r.axes = r'.axes ∧ r.names = r'.names ∧ r.freq = r'.freq ∧ r.err2 = r'.err2 ∧ r.missed = r'.missed ∧
    r.keep = r'.keep ∧ ((h.dtype = .i16 → k.dtype ≠ .f16 ∧ k.dtype ≠ .f32) → r = r') := by
  obtain ⟨ax, hax, hp⟩ := HN.projection_eq h p axes h1
  obtain ⟨rf, re, rm, ra, rk, rn, rd, _⟩ := HN.imul_ok p r c k h2
  obtain ⟨hf, he, hm, ha, hk, hn, hd, _⟩ := HN.imul_ok h h' c k h3
  obtain ⟨ax', hax', hr'⟩ := HN.projection_eq h' r' axes h4
  rw [HN.getAxis_congr h h' ha hn, hax] at hax'
  cases hax'
  subst hp
  subst hr'
  have e1 : r.axes = keptOf h.axes (fun i => ax.contains i) h.axes.length := ra
  have e2 : r.names = keptOf h.names (fun i => ax.contains i) h.axes.length := rn
  have e3 : r.freq = (h.freq.sumAxes (dropList h.axes.length fun i => ax.contains i)).map (· * c) := rf
  have e4 : r.err2 = (h.err2.sumAxes (dropList h.axes.length fun i => ax.contains i)).map (· * (c * c)) := re
  have e5 : r.missed = some 0 := by rw [rm]; simp [nscale]
  have e6 : r.keep = true := rk
  have e7 : r.dtype = (if h.dtype.isInt then DType.i64 else h.dtype).promote k.dtype := rd
  have g1 : r.axes = keptOf h'.axes (fun i => ax.contains i) h'.axes.length := by rw [e1, ha]
  have g2 : r.names = keptOf h'.names (fun i => ax.contains i) h'.axes.length := by rw [e2, hn, ha]
  have g3 : r.freq = h'.freq.sumAxes (dropList h'.axes.length fun i => ax.contains i) := by
    rw [e3, hf, ha, Arr.sumAxes_map_mul]
  have g4 : r.err2 = h'.err2.sumAxes (dropList h'.axes.length fun i => ax.contains i) := by
    rw [e4, he, ha, Arr.sumAxes_map_mul]
  refine ⟨g1, g2, g3, g4, e5, e6, fun hok => ?_⟩
  apply HN.ext' <;> dsimp only
  · exact g1
  · exact g3
  · exact g4
  · exact e5
  · exact e6
  · rw [e7, hd]; exact DType.projection_promote _ _ hok
  · exact g2

/-- **`select(axis, slice)` commutes with scaling**: the two orders give the same histogram. -/
theorem HN.selectSlice_imul_comm (fo : FloatOps) (h r h' : HN) (axis : Nat) (start stop : Option Int) (c : Rat)
    (k : NumKind) (h2 : (h.selectSlice fo axis start stop).imul c k = .ok r) (h3 : h.imul c k = .ok h') :
    r = h'.selectSlice fo axis start stop := by
  obtain ⟨rf, re, rm, ra, rk, rn, rd, _⟩ := HN.imul_ok _ r c k h2
  obtain ⟨hf, he, hm, ha, hk, hn, hd, _⟩ := HN.imul_ok h h' c k h3
  have hshape : h'.freq.shape = h.freq.shape := by rw [hf]; rfl
  unfold HN.selectSlice at rf re rm ra rk rn rd ⊢
  rw [hshape, ha]
  cases hax : h.axes[axis]? with
  | none =>
    simp only [hax] at rf re rm ra rk rn rd ⊢
    apply HN.ext'
    · rw [ra, ha]
    · rw [rf, hf]
    · rw [re, he]
    · rw [rm, hm]
    · rw [rk, hk]
    · rw [rd, hd]
    · rw [rn, hn]
  | some bn =>
    simp only [hax] at rf re rm ra rk rn rd ⊢
    apply HN.ext' <;> dsimp only
    · rw [ra]
    · rw [rf, hf, Arr.selectSlice_map_mul]
    · rw [re, he, Arr.selectSlice_map_mul]
    · rw [rm, hm]
    · rw [rk, hk]
    · rw [rd, hd]
    · rw [rn, hn]

theorem HN.mergeAxisWithMap_ok_cs (fo : FloatOps) (h m : HN) (axis : Nat) (map : List Nat)
    (hm : h.mergeAxisWithMap fo axis map = .ok m) :
    ∃ bn newBins, h.axes[axis]? = some bn ∧ mergeBinsAux ((bn.bins fo).zip map) none = .ok newBins ∧
      m = { h with
            axes := h.axes.set axis (.static newBins
              (bn.ire && (newBins.getLast?.map (·.2) == (bn.bins fo).getLast?.map (·.2))))
            freq := h.freq.mergeAxis axis map newBins.length
            err2 := h.err2.mergeAxis axis map newBins.length } := by
  unfold HN.mergeAxisWithMap at hm
  simp only [bind, Except.bind, pure, Except.pure, throw, throwThe, MonadExceptOf.throw] at hm
  cases hmap : map.isEmpty with
  | true => simp [hmap] at hm
  | false =>
    simp only [hmap, Bool.false_eq_true, if_false] at hm
    cases hax : h.axes[axis]? with
    | none => simp [hax] at hm
    | some bn =>
      simp only [hax] at hm
      cases hb : mergeBinsAux ((bn.bins fo).zip map) none with
      | error e => rw [hb] at hm; cases hm
      | ok nb =>
        rw [hb] at hm
        cases hm
        exact ⟨bn, nb, rfl, hb, rfl⟩

/-- **`merge_bins(axis)` with an explicit bin map commutes with scaling.** -/
theorem HN.mergeAxisWithMap_imul_comm (fo : FloatOps) (h m r h' r' : HN) (axis : Nat) (map : List Nat) (c : Rat)
    (k : NumKind) (h1 : h.mergeAxisWithMap fo axis map = .ok m) (h2 : m.imul c k = .ok r)
    (h3 : h.imul c k = .ok h') (h4 : h'.mergeAxisWithMap fo axis map = .ok r') : r = r' := by
  obtain ⟨bn, nb, hbn, hnb, hm⟩ := HN.mergeAxisWithMap_ok_cs fo h m axis map h1
  obtain ⟨rf, re, rm, ra, rk, rn, rd, _⟩ := HN.imul_ok m r c k h2
  obtain ⟨hf, he, hmi, ha, hk, hn, hd, _⟩ := HN.imul_ok h h' c k h3
  obtain ⟨bn', nb', hbn', hnb', hr'⟩ := HN.mergeAxisWithMap_ok_cs fo h' r' axis map h4
  rw [ha, hbn] at hbn'
  cases hbn'
  rw [hnb] at hnb'
  cases hnb'
  subst hm
  subst hr'
  apply HN.ext' <;> dsimp only
  · rw [ra, ha]
  · rw [rf, hf, Arr.mergeAxis_map_mul]
  · rw [re, he, Arr.mergeAxis_map_mul]
  · rw [rm, hmi]
  · rw [rk, hk]
  · rw [rd, hd]
  · rw [rn, hn]

/-! ## N-d: `normalize` is idempotent -/

theorem HN.idiv_one_self (r : HN) (hneg : r.freq.data.any (· < 0) = false)
    (hd : r.dtype.promote .f64 = r.dtype) : r.idiv 1 = .ok r := by
  have hid : r.freq.map (· / (1 : Rat)) = r.freq := Arr.map_id' _ _ fun x => div_one x
  rw [HN.idiv_eq_ok r 1 one_ne_zero (by rw [hid]; exact hneg)]
  congr 1
  apply HN.ext' <;> dsimp only
  · exact hid
  · exact Arr.map_id' _ _ fun x => by rw [one_mul, div_one]
  · rw [div_one]; exact nscale_one _
  · exact hd

/-- **N-d `normalize` is idempotent** (in place or copying, with or without `percent`). -/
theorem HN.normalize_idem (h r : HN) (inplace percent : Bool) (hr : h.normalize inplace percent = .ok r) :
    r.normalize inplace percent = .ok r := by
  cases inplace with
  | true =>
    simp only [HN.normalize, if_true] at hr ⊢
    obtain ⟨hne, rf, re, rm, ra, rk, rn, rd, rneg⟩ := HN.idiv_ok h r _ hr
    have hk : (if percent = true then centiDouble else 1) ≠ 0 := fun h0 => hne (by rw [h0, mul_zero])
    have hT : h.total ≠ 0 := fun h0 => hne (by rw [h0, zero_mul])
    have htot : r.total * (if percent = true then centiDouble else 1) = 1 := by
      have hTe : h.freq.total = h.total := rfl
      show r.freq.total * (if percent = true then centiDouble else 1) = 1
      rw [rf, Arr.total_map_div, hTe]
      field_simp
    rw [htot]
    exact HN.idiv_one_self r (by rw [rf]; exact rneg) (by rw [rd]; exact DType.promote_f64_idem _)
  | false =>
    simp only [HN.normalize, Bool.false_eq_true, if_false, bind, Except.bind] at hr ⊢
    cases hd : h.idiv h.total with
    | error e => rw [hd] at hr; cases hr
    | ok d =>
      rw [hd] at hr
      simp only at hr
      obtain ⟨hT, df, de, dm, da, dk, dn, dd, dneg⟩ := HN.idiv_ok h d _ hd
      obtain ⟨rf, re, rm, ra, rk, rn, rd, rneg⟩ := HN.imul_ok d r _ _ hr
      have hm : ((if percent = true then 100 else 1 : Rat)) ≠ 0 := by cases percent <;> norm_num
      have htot : r.total = (if percent = true then 100 else 1) := by
        have hTe : h.freq.total = h.total := rfl
        show r.freq.total = (if percent = true then 100 else 1)
        rw [rf, df, Arr.total_map_mul, Arr.total_map_div, hTe, div_self hT, one_mul]
      rw [htot]
      have hback : ∀ a : Arr, (a.map (· * (if percent = true then 100 else 1 : Rat))).map
          (· / (if percent = true then 100 else 1)) = a := by
        intro a
        rw [Arr.map_map]
        apply Arr.map_id'; intro x; simp only [Function.comp]; field_simp
      have hfwd : ∀ a : Arr, (a.map (· / (if percent = true then 100 else 1 : Rat))).map
          (· * (if percent = true then 100 else 1)) = a := by
        intro a
        rw [Arr.map_map]
        apply Arr.map_id'; intro x; simp only [Function.comp]; field_simp
      have hneg2 : ((r.freq.map (· / (if percent = true then 100 else 1 : Rat))).data.any (· < 0)) = false := by
        rw [rf, hback, df]; exact dneg
      rw [HN.idiv_eq_ok r _ hm hneg2]
      simp only
      have hneg3 : (((r.freq.map (· / (if percent = true then 100 else 1 : Rat))).map
          (· * (if percent = true then 100 else 1 : Rat))).data.any (· < 0)) = false := by
        rw [hfwd, rf]; exact rneg
      rw [HN.imul_eq_ok _ _ _ hneg3]
      congr 1
      apply HN.ext' <;> dsimp only
      · exact hfwd _
      · rw [Arr.map_map]
        apply Arr.map_id'; intro x; simp only [Function.comp]; field_simp
      · rw [nscale_mul, one_div, inv_mul_cancel₀ hm, nscale_one]
      · rw [rd, dd]; exact DType.promote_f64_i64 _

end Physt

import Physt.Proofs.Calc1D
/-! Telescoping of the per-bin slices for consecutive bins (no sortedness needed). -/
namespace Physt

theorem wsum_append (a b : List Pt) : wsum (a ++ b) = wsum a + wsum b := by
  unfold wsum; simp

theorem w2sum_append (a b : List Pt) : w2sum (a ++ b) = w2sum a + w2sum b := by
  unfold w2sum; simp

theorem wsum_pySlice (s : List Pt) (a b : Nat) (hab : a ≤ b) :
    wsum (pySlice s a b) = wsum (s.take b) - wsum (s.take a) := by
  unfold pySlice
  have hb : b = a + (b - a) := by omega
  have : s.take b = s.take a ++ (s.drop a).take (b - a) := by
    conv_lhs => rw [hb]
    exact List.take_add
  rw [this, wsum_append]; ring

theorem takeWhile_length_mono (p1 p2 : Pt → Bool) (h : ∀ x, p1 x = true → p2 x = true)
    (s : List Pt) : (s.takeWhile p1).length ≤ (s.takeWhile p2).length := by
  induction s with
  | nil => simp
  | cons a t ih =>
    by_cases h1 : p1 a = true
    · simp [List.takeWhile_cons, h1, h a h1, ih]
    · have h1' : p1 a = false := by simpa using h1
      simp [List.takeWhile_cons, h1']

theorem ssLeft_le_ssLeft (s : List Pt) {x y : Rat} (h : x ≤ y) : ssLeft s x ≤ ssLeft s y := by
  unfold ssLeft
  apply takeWhile_length_mono
  intro p hp; simp only [decide_eq_true_eq] at hp ⊢; linarith

theorem ssLeft_le_ssRight (s : List Pt) {x y : Rat} (h : x ≤ y) : ssLeft s x ≤ ssRight s y := by
  unfold ssLeft ssRight
  apply takeWhile_length_mono
  intro p hp; simp only [decide_eq_true_eq] at hp ⊢; linarith

/-- Propositional consecutiveness. -/
def Consecutive : Bins → Prop
  | [] => True
  | [_] => True
  | (_, r) :: (l', r') :: rest => r = l' ∧ Consecutive ((l', r') :: rest)

theorem consecutiveB_iff (bins : Bins) : consecutiveB bins = true ↔ Consecutive bins := by
  induction bins with
  | nil => simp [consecutiveB, Consecutive]
  | cons c cs ih =>
    cases cs with
    | nil => simp [consecutiveB, Consecutive]
    | cons d ds =>
      obtain ⟨l, r⟩ := c; obtain ⟨l', r'⟩ := d
      simp only [consecutiveB, Consecutive, Bool.and_eq_true, decide_eq_true_eq]
      rw [ih]

/-- Sum of the contents of a run of consecutive bins that ends with the histogram's last bin:
    the slices telescope. -/
theorem sweep_sum_consecutive (s : List Pt) (n : Nat) (b : Bin) (bs : Bins) (k : Nat)
    (hk : k + (b :: bs).length = n) (hr : Rising (b :: bs)) (hc : Consecutive (b :: bs)) :
    ((sweepAux s n k (b :: bs)).map wsum).sum
      = wsum (s.take (ssRight s ((b :: bs).getLast (by simp)).2)) - wsum (s.take (ssLeft s b.1)) := by
  induction bs generalizing b k with
  | nil =>
    simp only [List.length_singleton] at hk
    simp only [sweepAux, binSlice, hk, if_true, List.map_cons, List.map_nil, List.sum_cons,
      List.sum_nil, add_zero, List.getLast_singleton]
    exact wsum_pySlice s _ _ (ssLeft_le_ssRight s (le_of_lt hr.head_lt))
  | cons c cs ih =>
    have hne : ¬ k + 1 = n := by simp only [List.length_cons] at hk; omega
    obtain ⟨l, r⟩ := b; obtain ⟨l', r'⟩ := c
    have hrl : r = l' := hc.1
    have hk' : (k + 1) + ((l', r') :: cs).length = n := by
      simp only [List.length_cons] at hk ⊢; omega
    have ih' := ih (l', r') (k + 1) hk' hr.tail hc.2
    have hlr : l < r := hr.head_lt
    rw [sweepAux, List.map_cons, List.sum_cons, ih']
    simp only [binSlice, hne, if_false]
    rw [wsum_pySlice s _ _ (ssLeft_le_ssLeft s (le_of_lt hlr))]
    simp only [List.getLast_cons_cons]
    subst hrl
    ring

end Physt

import Physt.Proofs.AdaptiveHistory
import Physt.Theorems.C05
/-!
# Adding adaptive fixed-width histograms (C05, adaptive clause)

"For adaptive fixed-width histograms the bins are first extended to the union of both ranges on the
common grid and nothing is lost."  With the invariant `GridTracks fo h g pts` of
`Proofs/AdaptiveHistory.lean` (the state `h` on the adaptive grid `g` holds the batch histogram of
`pts` over its own bins, nothing missed, every point in a cell of the grid):

* `gridTracks_iadd` — `a.iadd fo b` is accepted (both branches of `__iadd__`: equal bins, and the
  adapting branch via `adaptGrids`) and the result tracks `A ++ B` on the union grid (`SpanUnion`);
  `gridTracks_iadd_nothing_lost` — totals add, underflow = overflow = 0, every point is found in a bin;
* `gridTracks_iadd_comm` — `a + b` and `b + a` have the same bins, contents, errors, missed, total,
  statistics and dtype;
* `gridTracks_iadd_assoc` — `(a + b) + c` and `a + (b + c)` likewise;
* `gridTracks_sum` — folding `iadd` over any list of adaptive chunk histograms gives the histogram
  of the concatenated data on the hull of all ranges (`SpanList`) — the adaptive `C05_chunks`.

Side condition found: `__iadd__` (adapting branch only) refuses an operand whose
`missed = underflow + overflow + inner_missed` is positive.  `GridTracks` pins underflow and overflow
to `0` but says nothing about the inner-missed slot, so the right operand needs `InnerOK`
(`inner` is NaN or `≤ 0`; in particular `inner = some 0`).  Kernel-checked examples at the end.
-/
namespace Physt
open Grid H1

/-! ## The side condition on the right operand -/

/-- the inner-missed slot of the right operand does not make `missed` positive: it is NaN or `≤ 0`
    (every histogram built by `h1` / `fill` / `fill_n` has `inner = some 0`) -/
def InnerOK (h : H1) : Prop := ∀ m, h.inner = some m → m ≤ 0

theorem innerOK_of_zero {h : H1} (hz : h.inner = some 0) : InnerOK h := by
  intro m hm
  rw [hz] at hm
  cases hm
  exact le_refl _

theorem innerOK_nadd {x y : NRat} (hx : ∀ m, x = some m → m ≤ 0) (hy : ∀ m, y = some m → m ≤ 0) :
    ∀ m, nadd x y = some m → m ≤ 0 := by
  intro m hm
  cases x with
  | none => simp [nadd] at hm
  | some u =>
    cases y with
    | none => simp [nadd] at hm
    | some v =>
      have h1 := hx u rfl
      have h2 := hy v rfl
      have : u + v = m := by simpa [nadd] using hm
      linarith

/-- `other.missed` is not positive: what `__iadd__` checks before it adapts -/
theorem missed_not_pos {fo : FloatOps} {b : H1} {gb : Grid} {B : List Pt} (tb : GridTracks fo b gb B)
    (hin : InnerOK b) : ∀ m, b.missed = some m → ¬ 0 < m := by
  intro m hm
  unfold H1.missed at hm
  rw [tb.under, tb.over] at hm
  cases hi : b.inner with
  | none => rw [hi] at hm; simp [nadd] at hm
  | some x =>
    rw [hi] at hm
    have h1 := hin x hi
    have : 0 + 0 + x = m := by simpa [nadd] using hm
    linarith

/-! ## What `__iadd__` returns in the adapting branch -/

theorem iadd_adapt_eq (fo : FloatOps) (h o : H1) (g og g' : Grid) (r1 r2 : Reshape)
    (hs : h.sameBins fo o = false) (hb : h.binning = .fixed g) (ha : g.adaptive = true)
    (hob : o.binning = .fixed og) (hmiss : ∀ m, o.missed = some m → ¬ 0 < m)
    (hag : adaptGrids g og = .ok (g', r1, r2)) :
    h.iadd fo o = .ok { h with dtype := h.dtype.promote o.dtype, binning := .fixed g',
                               freq := zipAdd (reshape1 h.freq g'.count r1) (reshape1 o.freq g'.count r2),
                               err2 := zipAdd (reshape1 h.err2 g'.count r1) (reshape1 o.err2 g'.count r2),
                               stats := h.stats.add o.stats } := by
  unfold H1.iadd
  simp only [hs, Bool.false_eq_true, if_false, hb, Binning.isAdaptive, ha, if_true, hob, asFixedWidth,
    H1.coerce, hag, bind, Except.bind, pure, Except.pure]
  cases hm : o.missed with
  | none => rfl
  | some m =>
    have := hmiss m hm
    simp only [this, if_false]

theorem iadd_same_eq (fo : FloatOps) (h o : H1) (hs : h.sameBins fo o = true) :
    h.iadd fo o = .ok { h with dtype := h.dtype.promote o.dtype, freq := zipAdd h.freq o.freq,
                               err2 := zipAdd h.err2 o.err2, under := nadd h.under o.under,
                               over := nadd h.over o.over, inner := nadd h.inner o.inner,
                               stats := h.stats.add o.stats } := by
  unfold H1.iadd
  simp only [hs, if_true, H1.coerce, pure, Except.pure]

/-! ## The union of two ranges -/

/-- **The range after the addition is the union of both ranges on the common grid**: both non-empty —
    from the lower first cell to the higher last cell; the right one empty — the left range; the left
    one empty — the right range. -/
structure SpanUnion (ga gb g' : Grid) : Prop where
  both : 0 < ga.count → 0 < gb.count →
    g'.tmin = min ga.tmin gb.tmin ∧ g'.tmin + g'.count = max (ga.tmin + ga.count) (gb.tmin + gb.count)
  rightEmpty : gb.count = 0 → g'.tmin = ga.tmin ∧ g'.count = ga.count
  leftEmpty : ga.count = 0 → 0 < gb.count → g'.tmin = gb.tmin ∧ g'.count = gb.count

/-- `FixedWidthBinning._adapt` for two grids of the same width and origin: accepted; the common grid is
    the union of the ranges; both reshape instructions are the right ones. -/
theorem adaptGrids_spec (ga gb : Grid) (hw : ga.w = gb.w) (hs : ga.shift = gb.shift) :
    ∃ g' r1 r2, adaptGrids ga gb = .ok (g', r1, r2) ∧ g'.w = ga.w ∧ g'.shift = ga.shift ∧
      g'.align = ga.align ∧ g'.adaptive = ga.adaptive ∧ g'.ire = ga.ire ∧
      ReshapeOK ga g' r1 ∧ ReshapeOK gb g' r2 ∧ SpanUnion ga gb g' := by
  have hbw : (ga.w != gb.w) = false := by simp [hw]
  have hbs : (ga.shift != gb.shift) = false := by simp [hs]
  by_cases h2 : gb.count = 0
  · refine ⟨ga, .noChange, .fresh, ?_, rfl, rfl, rfl, rfl, rfl, Or.inr (Or.inl ⟨rfl, rfl, rfl⟩),
      Or.inl ⟨h2, rfl⟩, ⟨fun _ hp => by omega, fun _ => ⟨rfl, rfl⟩, fun _ hp => by omega⟩⟩
    unfold adaptGrids
    simp only [hbw, hbs, Bool.false_eq_true, if_false, h2, if_true, bind, Except.bind, pure, Except.pure]
  · by_cases h1 : ga.count = 0
    · refine ⟨{ ga with tmin := gb.tmin, count := gb.count }, .fresh, .noChange, ?_, rfl, rfl, rfl, rfl, rfl,
        Or.inl ⟨h1, rfl⟩, Or.inr (Or.inl ⟨rfl, rfl, rfl⟩),
        ⟨fun hp _ => by omega, fun h0 => by omega, fun _ _ => ⟨rfl, rfl⟩⟩⟩
      unfold adaptGrids
      simp only [hbw, hbs, Bool.false_eq_true, if_false, h2, h1, if_true, bind, Except.bind, pure, Except.pure]
    · have hpa : 0 < ga.count := Nat.pos_of_ne_zero h1
      have hpb : 0 < gb.count := Nat.pos_of_ne_zero h2
      refine ⟨{ ga with tmin := min ga.tmin gb.tmin,
                        count := (max (ga.tmin + ga.count) (gb.tmin + gb.count) - min ga.tmin gb.tmin).toNat },
        (if min ga.tmin gb.tmin < ga.tmin ∨ ga.tmin + ga.count < max (ga.tmin + ga.count) (gb.tmin + gb.count)
          then Reshape.shift (ga.tmin - min ga.tmin gb.tmin).toNat else .noChange),
        (if min ga.tmin gb.tmin < gb.tmin ∨ gb.tmin + gb.count < max (ga.tmin + ga.count) (gb.tmin + gb.count)
          then Reshape.shift (gb.tmin - min ga.tmin gb.tmin).toNat else .noChange),
        ?_, rfl, rfl, rfl, rfl, rfl, ?_, ?_, ⟨fun _ _ => ⟨rfl, ?_⟩, fun h0 => by omega, fun h0 => by omega⟩⟩
      · unfold adaptGrids
        simp only [hbw, hbs, Bool.false_eq_true, if_false, h2, h1, bind, Except.bind, pure, Except.pure]
      · by_cases hc : min ga.tmin gb.tmin < ga.tmin ∨
            ga.tmin + ga.count < max (ga.tmin + ga.count) (gb.tmin + gb.count)
        · rw [if_pos hc]
          right; right
          refine ⟨hpa, rfl, ?_, ?_⟩
          · show min ga.tmin gb.tmin ≤ ga.tmin
            omega
          · show ga.tmin + ga.count ≤ min ga.tmin gb.tmin +
              ((max (ga.tmin + ga.count) (gb.tmin + gb.count) - min ga.tmin gb.tmin).toNat : Int)
            omega
        · rw [if_neg hc]
          right; left
          refine ⟨rfl, ?_, ?_⟩
          · show min ga.tmin gb.tmin = ga.tmin
            omega
          · show (max (ga.tmin + ga.count) (gb.tmin + gb.count) - min ga.tmin gb.tmin).toNat = ga.count
            omega
      · by_cases hc : min ga.tmin gb.tmin < gb.tmin ∨
            gb.tmin + gb.count < max (ga.tmin + ga.count) (gb.tmin + gb.count)
        · rw [if_pos hc]
          right; right
          refine ⟨hpb, rfl, ?_, ?_⟩
          · show min ga.tmin gb.tmin ≤ gb.tmin
            omega
          · show gb.tmin + gb.count ≤ min ga.tmin gb.tmin +
              ((max (ga.tmin + ga.count) (gb.tmin + gb.count) - min ga.tmin gb.tmin).toNat : Int)
            omega
        · rw [if_neg hc]
          right; left
          refine ⟨rfl, ?_, ?_⟩
          · show min ga.tmin gb.tmin = gb.tmin
            omega
          · show (max (ga.tmin + ga.count) (gb.tmin + gb.count) - min ga.tmin gb.tmin).toNat = gb.count
            omega
      · show min ga.tmin gb.tmin +
            ((max (ga.tmin + ga.count) (gb.tmin + gb.count) - min ga.tmin gb.tmin).toNat : Int)
          = max (ga.tmin + ga.count) (gb.tmin + gb.count)
        omega

/-! ## Equal bins of two grids on the same lattice -/

theorem edge_inj {edge : Int → Rat} (hm : ∀ a b : Int, a < b → edge a < edge b) {a b : Int}
    (h : edge a = edge b) : a = b := by
  rcases lt_trichotomy a b with h1 | h1 | h1
  · have := hm a b h1; rw [h] at this; exact (lt_irrefl _ this).elim
  · exact h1
  · have := hm b a h1; rw [h] at this; exact (lt_irrefl _ this).elim

/-- two grids on the same lattice with the same bins: the same number of cells, and — unless they are
    empty — the same first cell -/
theorem grids_of_same_bins {fo : FloatOps} {ga gb : Grid} (hm : EdgeMono fo ga.w ga.shift) (hw : ga.w = gb.w)
    (hs : ga.shift = gb.shift) (hb : ga.bins fo = gb.bins fo) :
    ga.count = gb.count ∧ (0 < ga.count → ga.tmin = gb.tmin) := by
  have hedge : gb.edgeAt fo = ga.edgeAt fo := by funext c; simp only [edgeAt, hw, hs]
  have hc : ga.count = gb.count := by
    have := congrArg List.length hb
    rw [bins_eq_binsFrom, bins_eq_binsFrom, binsFrom_length, binsFrom_length] at this
    exact this
  refine ⟨hc, ?_⟩
  intro hp
  have h0 : (ga.bins fo)[0]? = (gb.bins fo)[0]? := by rw [hb]
  rw [bins_eq_binsFrom, bins_eq_binsFrom, binsFrom_getElem? _ _ _ 0 hp,
    binsFrom_getElem? _ _ _ 0 (by omega), hedge] at h0
  have h1 : ga.edgeAt fo (ga.tmin + ((0 : Nat) : Int)) = ga.edgeAt fo (gb.tmin + ((0 : Nat) : Int)) := by
    have := Option.some.inj h0
    exact congrArg Prod.fst this
  have := edge_inj (edge := ga.edgeAt fo) hm h1
  omega

/-- grids on the same lattice with the same range (or both empty) have the same bins -/
theorem bins_eq_of_range (fo : FloatOps) {g h : Grid} (hw : g.w = h.w) (hs : g.shift = h.shift)
    (hr : (g.count = 0 ∧ h.count = 0) ∨ (g.tmin = h.tmin ∧ g.count = h.count)) : g.bins fo = h.bins fo := by
  have hedge : g.edgeAt fo = h.edgeAt fo := by funext c; simp only [edgeAt, hw, hs]
  rw [bins_eq_binsFrom, bins_eq_binsFrom, hedge]
  rcases hr with ⟨h1, h2⟩ | ⟨h1, h2⟩
  · rw [h1, h2]; rfl
  · rw [h1, h2]

/-! ## The merge step -/

/-- a state whose contents are the two operands' contents, each moved onto the common grid `g'` as
    instructed, and added, tracks the concatenated data on `g'` -/
theorem gridTracks_merge (fo : FloatOps) (a b r : H1) (ga gb g' : Grid) (A B : List Pt) (r1 r2 : Reshape)
    (ta : GridTracks fo a ga A) (tb : GridTracks fo b gb B) (hm : EdgeMono fo ga.w ga.shift)
    (hwab : ga.w = gb.w) (hsab : ga.shift = gb.shift)
    (hw : g'.w = ga.w) (hs : g'.shift = ga.shift) (hal : g'.align = ga.align)
    (had : g'.adaptive = ga.adaptive) (hire : g'.ire = ga.ire)
    (ok1 : ReshapeOK ga g' r1) (ok2 : ReshapeOK gb g' r2)
    (hbin : r.binning = .fixed g') (hkeep : r.keep = true)
    (hf : r.freq = zipAdd (reshape1 a.freq g'.count r1) (reshape1 b.freq g'.count r2))
    (he : r.err2 = zipAdd (reshape1 a.err2 g'.count r1) (reshape1 b.err2 g'.count r2))
    (hu : r.under = some 0) (ho : r.over = some 0) :
    GridTracks fo r g' (A ++ B) := by
  have hmb : EdgeMono fo gb.w gb.shift := by rw [← hwab, ← hsab]; exact hm
  have t1 := gridTracks_regrid fo a ga A ta hm g' r1 hw hs hal had hire ok1
  have t2 := gridTracks_regrid fo b gb B tb hmb g' r2 (hw.trans hwab) (hs.trans hsab)
    (by rw [hal, ta.state.align, tb.state.align]) (by rw [had, ta.state.adaptive, tb.state.adaptive])
    (by rw [hire, ta.state.ire, tb.state.ire]) ok2
  have hm' : EdgeMono fo g'.w g'.shift := by rw [hw, hs]; exact hm
  have hrise : Rising (g'.bins fo) := by rw [bins_eq_binsFrom]; exact binsFrom_rising _ hm' _ _
  have hlen : (g'.bins fo).length = g'.count := by rw [bins_eq_binsFrom, binsFrom_length]
  have f1 : reshape1 a.freq g'.count r1 = (calc1d (g'.bins fo) A).freq := t1.freq
  have f2 : reshape1 b.freq g'.count r2 = (calc1d (g'.bins fo) B).freq := t2.freq
  have e1 : reshape1 a.err2 g'.count r1 = (calc1d (g'.bins fo) A).err2 := t1.err2
  have e2 : reshape1 b.err2 g'.count r2 = (calc1d (g'.bins fo) B).err2 := t2.err2
  have hfreq : r.freq = (calc1d (g'.bins fo) (A ++ B)).freq := by
    rw [hf, f1, f2, calc1d_append_freq _ hrise]
  have herr : r.err2 = (calc1d (g'.bins fo) (A ++ B)).err2 := by
    rw [he, e1, e2, calc1d_append_err2 _ hrise]
  refine ⟨⟨hbin, by rw [had]; exact ta.state.adaptive, by rw [hal]; exact ta.state.align,
    by rw [hire]; exact ta.state.ire, hkeep, ?_, ?_⟩, hfreq, herr, hu, ho, t1.inside.append t2.inside⟩
  · rw [hfreq, calc1d_freq_length, hlen]
  · rw [herr, calc1d_err2_length, hlen]

/-! ## 1. `a + b` for adaptive operands -/

/-- **h(A) + h(B) = h(A and B together), adaptive operands** (all fields).  Both branches of
    `__iadd__`: equal bins (pointwise sums) and different bins (extend both to the union range on the
    common grid, then add). -/
theorem gridTracks_iadd_full (fo : FloatOps) (a b : H1) (ga gb : Grid) (A B : List Pt)
    (ta : GridTracks fo a ga A) (tb : GridTracks fo b gb B) (hw : ga.w = gb.w) (hs : ga.shift = gb.shift)
    (hm : EdgeMono fo ga.w ga.shift) (hin : InnerOK b) :
    ∃ (r : H1) (g' : Grid), a.iadd fo b = .ok r ∧ GridTracks fo r g' (A ++ B) ∧
      g'.w = ga.w ∧ g'.shift = ga.shift ∧ SpanUnion ga gb g' ∧
      r.stats = a.stats.add b.stats ∧ r.dtype = a.dtype.promote b.dtype ∧
      (r.inner = a.inner ∨ r.inner = nadd a.inner b.inner) := by
  have sa := ta.state
  have sb := tb.state
  cases hsb : a.sameBins fo b with
  | true =>
    have hb : ga.bins fo = gb.bins fo := by
      have : a.bins fo = b.bins fo := by simpa [sameBins] using hsb
      simpa [H1.bins, sa.binning, sb.binning, Binning.bins] using this
    obtain ⟨hc, ht⟩ := grids_of_same_bins hm hw hs hb
    refine ⟨_, ga, iadd_same_eq fo a b hsb, ?_, rfl, rfl, ?_, rfl, rfl, Or.inr rfl⟩
    · by_cases h0 : ga.count = 0
      · -- both empty
        have hbe : b.freq = [] := List.length_eq_zero_iff.mp (by rw [sb.flen]; omega)
        have hbe2 : b.err2 = [] := List.length_eq_zero_iff.mp (by rw [sb.elen]; omega)
        refine gridTracks_merge fo a b _ ga gb ga A B .noChange .fresh ta tb hm hw hs rfl rfl rfl rfl rfl
          (Or.inr (Or.inl ⟨rfl, rfl, rfl⟩)) (Or.inl ⟨by omega, rfl⟩) sa.binning sa.keep ?_ ?_ ?_ ?_
        · show zipAdd a.freq b.freq = zipAdd (reshape1 a.freq ga.count .noChange) (reshape1 b.freq ga.count .fresh)
          rw [hbe, h0]; rfl
        · show zipAdd a.err2 b.err2 = zipAdd (reshape1 a.err2 ga.count .noChange) (reshape1 b.err2 ga.count .fresh)
          rw [hbe2, h0]; rfl
        · show nadd a.under b.under = some 0
          rw [ta.under, tb.under]; exact nadd_zero _
        · show nadd a.over b.over = some 0
          rw [ta.over, tb.over]; exact nadd_zero _
      · have hp : 0 < ga.count := Nat.pos_of_ne_zero h0
        have htm := ht hp
        refine gridTracks_merge fo a b _ ga gb ga A B .noChange .noChange ta tb hm hw hs rfl rfl rfl rfl rfl
          (Or.inr (Or.inl ⟨rfl, rfl, rfl⟩)) (Or.inr (Or.inl ⟨rfl, htm, hc⟩)) sa.binning sa.keep rfl rfl ?_ ?_
        · show nadd a.under b.under = some 0
          rw [ta.under, tb.under]; exact nadd_zero _
        · show nadd a.over b.over = some 0
          rw [ta.over, tb.over]; exact nadd_zero _
    · refine ⟨fun hp _ => ?_, fun _ => ⟨rfl, rfl⟩, fun h0 hp => by omega⟩
      have := ht hp
      omega
  | false =>
    obtain ⟨g', r1, r2, hag, hw', hs', hal, had, hire, ok1, ok2, sp⟩ := adaptGrids_spec ga gb hw hs
    refine ⟨_, g', iadd_adapt_eq fo a b ga gb g' r1 r2 hsb sa.binning sa.adaptive sb.binning
      (missed_not_pos tb hin) hag, ?_, hw', hs', sp, rfl, rfl, Or.inl rfl⟩
    exact gridTracks_merge fo a b _ ga gb g' A B r1 r2 ta tb hm hw hs hw' hs' hal had hire ok1 ok2 rfl sa.keep
      rfl rfl ta.under ta.over

/-- **1. Adding adaptive fixed-width histograms.**  `a` holds the histogram of `A` on its grid, `b`
    that of `B` on a grid of the same width and origin: `a += b` is accepted, and the result holds the
    histogram of `A ++ B` over the union of both ranges on the common grid. -/
theorem gridTracks_iadd (fo : FloatOps) (a b : H1) (ga gb : Grid) (A B : List Pt)
    (ta : GridTracks fo a ga A) (tb : GridTracks fo b gb B) (hw : ga.w = gb.w) (hs : ga.shift = gb.shift)
    (hm : EdgeMono fo ga.w ga.shift) (hin : InnerOK b) :
    ∃ (r : H1) (g' : Grid), a.iadd fo b = .ok r ∧ GridTracks fo r g' (A ++ B) ∧
      g'.w = ga.w ∧ g'.shift = ga.shift ∧
      (0 < ga.count → 0 < gb.count →
        g'.tmin = min ga.tmin gb.tmin ∧ g'.tmin + g'.count = max (ga.tmin + ga.count) (gb.tmin + gb.count)) ∧
      (gb.count = 0 → g'.tmin = ga.tmin ∧ g'.count = ga.count) ∧
      (ga.count = 0 → 0 < gb.count → g'.tmin = gb.tmin ∧ g'.count = gb.count) := by
  obtain ⟨r, g', e, tr, hw', hs', sp, _⟩ := gridTracks_iadd_full fo a b ga gb A B ta tb hw hs hm hin
  exact ⟨r, g', e, tr, hw', hs', sp.both, sp.rightEmpty, sp.leftEmpty⟩

/-- **Nothing is lost.**  The total of the sum is the sum of the totals, underflow and overflow are
    zero, the result equals the fixed-bin histogram of all the data over the final bins, and every
    point of `A ++ B` is found in the bin of its cell. -/
theorem gridTracks_iadd_nothing_lost (fo : FloatOps) (a b : H1) (ga gb : Grid) (A B : List Pt)
    (ta : GridTracks fo a ga A) (tb : GridTracks fo b gb B) (hw : ga.w = gb.w) (hs : ga.shift = gb.shift)
    (hm : EdgeMono fo ga.w ga.shift) (hin : InnerOK b) :
    ∃ (r : H1) (g' : Grid), a.iadd fo b = .ok r ∧ r.binning = .fixed g' ∧
      r.total = a.total + b.total ∧ r.total = wsum (A ++ B) ∧
      r.under = some 0 ∧ r.over = some 0 ∧ r.underflow = some 0 ∧ r.overflow = some 0 ∧
      r.freq = (calc1d (r.bins fo) (A ++ B)).freq ∧ r.err2 = (calc1d (r.bins fo) (A ++ B)).err2 ∧
      r.under = (calc1d (r.bins fo) (A ++ B)).under ∧ r.over = (calc1d (r.bins fo) (A ++ B)).over ∧
      (∀ p ∈ A ++ B, ∃ k : Int, CellOf (fo.edge ga.w ga.shift) p.1 k ∧ g'.tmin ≤ k ∧ k < g'.tmin + g'.count ∧
        r.findBin fo p.1 = .bin (k - g'.tmin).toNat ∧
        (r.bins fo)[(k - g'.tmin).toNat]? = some (fo.edge ga.w ga.shift k, fo.edge ga.w ga.shift (k + 1))) := by
  obtain ⟨r, g', e, tr, hw', hs', _⟩ := gridTracks_iadd_full fo a b ga gb A B ta tb hw hs hm hin
  have hm' : EdgeMono fo g'.w g'.shift := by rw [hw', hs']; exact hm
  have hmb : EdgeMono fo gb.w gb.shift := by rw [← hw, ← hs]; exact hm
  have hb : r.bins fo = g'.bins fo := by simp [H1.bins, tr.state.binning, Binning.bins]
  obtain ⟨e1, e2, e3, e4, e5, e6⟩ := tr.eq_calc1d hm'
  refine ⟨r, g', e, tr.state.binning, ?_, tr.total hm', tr.under, tr.over, e5, e6, by rw [hb]; exact e1,
    by rw [hb]; exact e2, by rw [hb]; exact e3, by rw [hb]; exact e4, ?_⟩
  · rw [tr.total hm', ta.total hm, tb.total hmb, wsum_append]
  · intro p hp
    have := tr.in_bin hm' p hp
    rw [hw', hs'] at this
    unfold H1.findBin
    rw [hb]
    exact this

/-! ## 2. Commutativity -/

/-- the two unions (taken in either order) have the same bins -/
theorem SpanUnion.bins_comm (fo : FloatOps) {ga gb g1 g2 : Grid} (s1 : SpanUnion ga gb g1) (s2 : SpanUnion gb ga g2)
    (hw : g1.w = g2.w) (hs : g1.shift = g2.shift) : g1.bins fo = g2.bins fo := by
  apply bins_eq_of_range fo hw hs
  by_cases ha : ga.count = 0
  · by_cases hb : gb.count = 0
    · left
      have := s1.rightEmpty hb
      have := s2.rightEmpty ha
      omega
    · right
      have := s1.leftEmpty ha (Nat.pos_of_ne_zero hb)
      have := s2.rightEmpty ha
      omega
  · by_cases hb : gb.count = 0
    · right
      have := s1.rightEmpty hb
      have := s2.leftEmpty hb (Nat.pos_of_ne_zero ha)
      omega
    · right
      have := s1.both (Nat.pos_of_ne_zero ha) (Nat.pos_of_ne_zero hb)
      have := s2.both (Nat.pos_of_ne_zero hb) (Nat.pos_of_ne_zero ha)
      omega

/-- two states that track the same data (up to the order of two blocks) over the same bins agree -/
theorem gridTracks_agree_swap {fo : FloatOps} {r1 r2 : H1} {g1 g2 : Grid} {A B : List Pt}
    (t1 : GridTracks fo r1 g1 (A ++ B)) (t2 : GridTracks fo r2 g2 (B ++ A))
    (hm : EdgeMono fo g1.w g1.shift) (hb : g1.bins fo = g2.bins fo) :
    r1.bins fo = r2.bins fo ∧ r1.freq = r2.freq ∧ r1.err2 = r2.err2 ∧ r1.under = r2.under ∧ r1.over = r2.over ∧
      r1.total = r2.total ∧ r1.keep = r2.keep := by
  have hrise : Rising (g1.bins fo) := by rw [bins_eq_binsFrom]; exact binsFrom_rising _ hm _ _
  have hf : r1.freq = r2.freq := by
    rw [t1.freq, t2.freq, ← hb, calc1d_append_freq _ hrise, calc1d_append_freq _ hrise, zipAdd_comm]
  refine ⟨by simp [H1.bins, t1.state.binning, t2.state.binning, Binning.bins, hb], hf, ?_,
    by rw [t1.under, t2.under], by rw [t1.over, t2.over], by unfold H1.total; rw [hf],
    by rw [t1.state.keep, t2.state.keep]⟩
  rw [t1.err2, t2.err2, ← hb, calc1d_append_err2 _ hrise, calc1d_append_err2 _ hrise, zipAdd_comm]

/-- **2. Addition of adaptive histograms is commutative.**  `a + b` and `b + a` are both accepted and
    agree on bins, contents, squared errors, underflow, overflow, total, statistics, dtype (and on the
    inner-missed slot when both operands have `inner = 0`).  The `binning` records themselves may differ
    in the (unobservable) first-cell number when both operands are empty. -/
theorem gridTracks_iadd_comm (fo : FloatOps) (a b : H1) (ga gb : Grid) (A B : List Pt)
    (ta : GridTracks fo a ga A) (tb : GridTracks fo b gb B) (hw : ga.w = gb.w) (hs : ga.shift = gb.shift)
    (hm : EdgeMono fo ga.w ga.shift) (hina : InnerOK a) (hinb : InnerOK b) :
    ∃ r1 r2 : H1, a.iadd fo b = .ok r1 ∧ b.iadd fo a = .ok r2 ∧
      r1.bins fo = r2.bins fo ∧ r1.freq = r2.freq ∧ r1.err2 = r2.err2 ∧
      r1.under = r2.under ∧ r1.over = r2.over ∧ r1.total = r2.total ∧
      r1.stats = r2.stats ∧ r1.dtype = r2.dtype ∧ r1.keep = r2.keep ∧
      (a.inner = some 0 → b.inner = some 0 → r1.inner = r2.inner) := by
  have hmb : EdgeMono fo gb.w gb.shift := by rw [← hw, ← hs]; exact hm
  obtain ⟨r1, g1, e1, t1, w1, s1, sp1, st1, d1, i1⟩ := gridTracks_iadd_full fo a b ga gb A B ta tb hw hs hm hinb
  obtain ⟨r2, g2, e2, t2, w2, s2, sp2, st2, d2, i2⟩ :=
    gridTracks_iadd_full fo b a gb ga B A tb ta hw.symm hs.symm hmb hina
  have hm1 : EdgeMono fo g1.w g1.shift := by rw [w1, s1]; exact hm
  have hb := sp1.bins_comm fo sp2 (by rw [w1, w2, hw]) (by rw [s1, s2, hs])
  obtain ⟨b1, b2, b3, b4, b5, b6, b7⟩ := gridTracks_agree_swap t1 t2 hm1 hb
  refine ⟨r1, r2, e1, e2, b1, b2, b3, b4, b5, b6, by rw [st1, st2, stats_add_comm], ?_, b7, ?_⟩
  · rw [d1, d2]; exact (C13_promote_algebra.1 _ (DType.mem_all _) _ (DType.mem_all _))
  · intro ha hb
    have z1 : r1.inner = some 0 := by
      rcases i1 with h | h
      · rw [h, ha]
      · rw [h, ha, hb]; exact nadd_zero _
    have z2 : r2.inner = some 0 := by
      rcases i2 with h | h
      · rw [h, hb]
      · rw [h, hb, ha]; exact nadd_zero _
    rw [z1, z2]

/-! ## 3. Sums over any list of chunks -/

/-- **The range of a sum is the hull of all non-empty ranges**: every non-empty range is contained,
    and both ends are attained by one of them (so with only empty operands the result is empty). -/
structure SpanList (gs : List Grid) (g' : Grid) : Prop where
  covers : ∀ g ∈ gs, 0 < g.count → g'.tmin ≤ g.tmin ∧ g.tmin + g.count ≤ g'.tmin + g'.count
  loTight : 0 < g'.count → ∃ g ∈ gs, 0 < g.count ∧ g.tmin = g'.tmin
  hiTight : 0 < g'.count → ∃ g ∈ gs, 0 < g.count ∧ g.tmin + g.count = g'.tmin + g'.count

theorem SpanList.single (g : Grid) : SpanList [g] g := by
  refine ⟨?_, fun hp => ⟨g, List.mem_cons_self .., hp, rfl⟩, fun hp => ⟨g, List.mem_cons_self .., hp, rfl⟩⟩
  intro x hx _
  rw [List.mem_singleton.mp hx]
  exact ⟨le_refl _, le_refl _⟩

theorem SpanUnion.pos_iff {ga gb gm : Grid} (su : SpanUnion ga gb gm) :
    0 < gm.count ↔ (0 < ga.count ∨ 0 < gb.count) := by
  by_cases ha : ga.count = 0 <;> by_cases hb : gb.count = 0
  · have := su.rightEmpty hb; omega
  · have := su.leftEmpty ha (Nat.pos_of_ne_zero hb); omega
  · have := su.rightEmpty hb; omega
  · have := su.both (Nat.pos_of_ne_zero ha) (Nat.pos_of_ne_zero hb); omega

/-- one union followed by a hull is a hull -/
theorem SpanList.step {ga gb gm g' : Grid} {gs : List Grid} (su : SpanUnion ga gb gm)
    (sl : SpanList (gm :: gs) g') : SpanList (ga :: gb :: gs) g' := by
  have hcm := sl.covers gm (List.mem_cons_self ..)
  -- where the ends of the union come from
  have hlo : 0 < gm.count → (0 < ga.count ∧ ga.tmin = gm.tmin) ∨ (0 < gb.count ∧ gb.tmin = gm.tmin) := by
    intro hp
    by_cases ha : ga.count = 0 <;> by_cases hb : gb.count = 0
    · have := su.rightEmpty hb; omega
    · have := su.leftEmpty ha (Nat.pos_of_ne_zero hb); right; omega
    · have := su.rightEmpty hb; left; omega
    · have := su.both (Nat.pos_of_ne_zero ha) (Nat.pos_of_ne_zero hb)
      by_cases hle : ga.tmin ≤ gb.tmin
      · left; omega
      · right; omega
  have hhi : 0 < gm.count → (0 < ga.count ∧ ga.tmin + ga.count = gm.tmin + gm.count) ∨
      (0 < gb.count ∧ gb.tmin + gb.count = gm.tmin + gm.count) := by
    intro hp
    by_cases ha : ga.count = 0 <;> by_cases hb : gb.count = 0
    · have := su.rightEmpty hb; omega
    · have := su.leftEmpty ha (Nat.pos_of_ne_zero hb); right; omega
    · have := su.rightEmpty hb; left; omega
    · have := su.both (Nat.pos_of_ne_zero ha) (Nat.pos_of_ne_zero hb)
      by_cases hle : gb.tmin + gb.count ≤ ga.tmin + ga.count
      · left; omega
      · right; omega
  refine ⟨?_, ?_, ?_⟩
  · intro x hx hp
    rcases List.mem_cons.mp hx with rfl | hx
    · have hpm : 0 < gm.count := su.pos_iff.mpr (Or.inl hp)
      have := hcm hpm
      by_cases hb : gb.count = 0
      · have := su.rightEmpty hb; omega
      · have := su.both hp (Nat.pos_of_ne_zero hb); omega
    · rcases List.mem_cons.mp hx with rfl | hx
      · have hpm : 0 < gm.count := su.pos_iff.mpr (Or.inr hp)
        have := hcm hpm
        by_cases ha : ga.count = 0
        · have := su.leftEmpty ha hp; omega
        · have := su.both (Nat.pos_of_ne_zero ha) hp; omega
      · exact sl.covers x (List.mem_cons_of_mem _ hx) hp
  · intro hp
    obtain ⟨x, hx, hpx, hex⟩ := sl.loTight hp
    rcases List.mem_cons.mp hx with rfl | hx
    · rcases hlo hpx with ⟨h1, h2⟩ | ⟨h1, h2⟩
      · exact ⟨ga, List.mem_cons_self .., h1, h2.trans hex⟩
      · exact ⟨gb, List.mem_cons_of_mem _ (List.mem_cons_self ..), h1, h2.trans hex⟩
    · exact ⟨x, List.mem_cons_of_mem _ (List.mem_cons_of_mem _ hx), hpx, hex⟩
  · intro hp
    obtain ⟨x, hx, hpx, hex⟩ := sl.hiTight hp
    rcases List.mem_cons.mp hx with rfl | hx
    · rcases hhi hpx with ⟨h1, h2⟩ | ⟨h1, h2⟩
      · exact ⟨ga, List.mem_cons_self .., h1, h2.trans hex⟩
      · exact ⟨gb, List.mem_cons_of_mem _ (List.mem_cons_self ..), h1, h2.trans hex⟩
    · exact ⟨x, List.mem_cons_of_mem _ (List.mem_cons_of_mem _ hx), hpx, hex⟩

/-- **3. `sum()` over any partition into adaptive chunk histograms** (a list, dask chunks): every
    chunk histogram `p.1` holds the histogram of its own data `p.2.2` on its own grid `p.2.1` (same width
    and origin).  Folding `+=` over the chunks is accepted at every step and gives the histogram of all
    the data, over the hull of all the chunk ranges — the adaptive version of `C05_chunks`. -/
theorem gridTracks_sum (fo : FloatOps) (w s : Rat) (hm : EdgeMono fo w s)
    (rest : List (H1 × Grid × List Pt))
    (hrest : ∀ p ∈ rest, GridTracks fo p.1 p.2.1 p.2.2 ∧ p.2.1.w = w ∧ p.2.1.shift = s ∧ InnerOK p.1)
    (first : H1) (gf : Grid) (F : List Pt) (tf : GridTracks fo first gf F) (hw : gf.w = w) (hs : gf.shift = s) :
    ∃ (r : H1) (g' : Grid), rest.foldlM (fun acc p => acc.iadd fo p.1) first = .ok r ∧
      GridTracks fo r g' (F ++ (rest.map (·.2.2)).flatten) ∧ g'.w = w ∧ g'.shift = s ∧
      SpanList (gf :: rest.map (·.2.1)) g' := by
  induction rest generalizing first gf F with
  | nil =>
    refine ⟨first, gf, rfl, by simpa using tf, hw, hs, ?_⟩
    simpa using SpanList.single gf
  | cons p ps ih =>
    obtain ⟨tp, hwp, hsp, hip⟩ := hrest p (List.mem_cons_self ..)
    have hm0 : EdgeMono fo gf.w gf.shift := by rw [hw, hs]; exact hm
    obtain ⟨m, gm, em, tm, hwm, hsm, su, _⟩ :=
      gridTracks_iadd_full fo first p.1 gf p.2.1 F p.2.2 tf tp (by rw [hw, hwp]) (by rw [hs, hsp]) hm0 hip
    obtain ⟨r, g', er, tr, hwr, hsr, sl⟩ := ih (fun q hq => hrest q (List.mem_cons_of_mem _ hq)) m gm (F ++ p.2.2) tm
      (hwm.trans hw) (hsm.trans hs)
    refine ⟨r, g', ?_, ?_, hwr, hsr, ?_⟩
    · simp only [List.foldlM_cons, bind, Except.bind, em]
      exact er
    · have : F ++ ((p :: ps).map (·.2.2)).flatten = F ++ p.2.2 ++ (ps.map (·.2.2)).flatten := by
        simp [List.append_assoc]
      rw [this]; exact tr
    · simp only [List.map_cons]
      exact SpanList.step su sl

theorem wsum_chunks (fo : FloatOps) (w s : Rat) (hm : EdgeMono fo w s) (rest : List (H1 × Grid × List Pt))
    (hrest : ∀ p ∈ rest, GridTracks fo p.1 p.2.1 p.2.2 ∧ p.2.1.w = w ∧ p.2.1.shift = s ∧ InnerOK p.1) :
    wsum (rest.map (·.2.2)).flatten = (rest.map (·.1.total)).sum := by
  induction rest with
  | nil => rfl
  | cons p ps ih =>
    obtain ⟨tp, hwp, hsp, _⟩ := hrest p (List.mem_cons_self ..)
    simp only [List.map_cons, List.flatten_cons, List.sum_cons, wsum_append]
    rw [ih (fun q hq => hrest q (List.mem_cons_of_mem _ hq)), tp.total (by rw [hwp, hsp]; exact hm)]

/-- the sum over chunks: nothing lost — the total is the sum of all totals, the result is the fixed-bin
    histogram of all the data over the final bins, underflow = overflow = 0 -/
theorem gridTracks_sum_nothing_lost (fo : FloatOps) (w s : Rat) (hm : EdgeMono fo w s)
    (rest : List (H1 × Grid × List Pt))
    (hrest : ∀ p ∈ rest, GridTracks fo p.1 p.2.1 p.2.2 ∧ p.2.1.w = w ∧ p.2.1.shift = s ∧ InnerOK p.1)
    (first : H1) (gf : Grid) (F : List Pt) (tf : GridTracks fo first gf F) (hw : gf.w = w) (hs : gf.shift = s) :
    ∃ r : H1, rest.foldlM (fun acc p => acc.iadd fo p.1) first = .ok r ∧
      r.total = wsum (F ++ (rest.map (·.2.2)).flatten) ∧
      r.total = first.total + (rest.map (·.1.total)).sum ∧
      r.freq = (calc1d (r.bins fo) (F ++ (rest.map (·.2.2)).flatten)).freq ∧
      r.err2 = (calc1d (r.bins fo) (F ++ (rest.map (·.2.2)).flatten)).err2 ∧
      r.underflow = some 0 ∧ r.overflow = some 0 := by
  obtain ⟨r, g', er, tr, hwr, hsr, _⟩ := gridTracks_sum fo w s hm rest hrest first gf F tf hw hs
  have hm' : EdgeMono fo g'.w g'.shift := by rw [hwr, hsr]; exact hm
  have hb : r.bins fo = g'.bins fo := by simp [H1.bins, tr.state.binning, Binning.bins]
  obtain ⟨e1, e2, _, _, e5, e6⟩ := tr.eq_calc1d hm'
  refine ⟨r, er, tr.total hm', ?_, by rw [hb]; exact e1, by rw [hb]; exact e2, e5, e6⟩
  rw [tr.total hm', wsum_append, tf.total (by rw [hw, hs]; exact hm)]
  rw [wsum_chunks fo w s hm rest hrest]

/-! ## Associativity -/

theorem innerOK_iadd {a b r : H1} (ha : InnerOK a) (hb : InnerOK b)
    (hr : r.inner = a.inner ∨ r.inner = nadd a.inner b.inner) : InnerOK r := by
  intro m hm
  rcases hr with h | h
  · rw [h] at hm; exact ha m hm
  · rw [h] at hm; exact innerOK_nadd ha hb m hm

/-- **Addition of adaptive histograms is associative**: `(a + b) + c` and `a + (b + c)` are accepted
    and agree on bins, contents, squared errors, underflow, overflow, total and dtype. -/
theorem gridTracks_iadd_assoc (fo : FloatOps) (a b c : H1) (ga gb gc : Grid) (A B C : List Pt)
    (ta : GridTracks fo a ga A) (tb : GridTracks fo b gb B) (tc : GridTracks fo c gc C)
    (hw : ga.w = gb.w) (hs : ga.shift = gb.shift) (hw2 : gb.w = gc.w) (hs2 : gb.shift = gc.shift)
    (hm : EdgeMono fo ga.w ga.shift) (hinb : InnerOK b) (hinc : InnerOK c) :
    ∃ ab abc bc abc' : H1, a.iadd fo b = .ok ab ∧ ab.iadd fo c = .ok abc ∧
      b.iadd fo c = .ok bc ∧ a.iadd fo bc = .ok abc' ∧
      abc.bins fo = abc'.bins fo ∧ abc.freq = abc'.freq ∧ abc.err2 = abc'.err2 ∧
      abc.under = abc'.under ∧ abc.over = abc'.over ∧ abc.total = abc'.total ∧ abc.dtype = abc'.dtype := by
  have hmb : EdgeMono fo gb.w gb.shift := by rw [← hw, ← hs]; exact hm
  obtain ⟨ab, g1, e1, t1, w1, s1, sp1, _, d1, _⟩ := gridTracks_iadd_full fo a b ga gb A B ta tb hw hs hm hinb
  have hm1 : EdgeMono fo g1.w g1.shift := by rw [w1, s1]; exact hm
  obtain ⟨abc, g2, e2, t2, w2, s2, sp2, _, d2, _⟩ :=
    gridTracks_iadd_full fo ab c g1 gc (A ++ B) C t1 tc (by rw [w1, hw, hw2]) (by rw [s1, hs, hs2]) hm1 hinc
  obtain ⟨bc, g3, e3, t3, w3, s3, sp3, _, d3, i3⟩ := gridTracks_iadd_full fo b c gb gc B C tb tc hw2 hs2 hmb hinc
  obtain ⟨abc', g4, e4, t4, w4, s4, sp4, _, d4, _⟩ :=
    gridTracks_iadd_full fo a bc ga g3 A (B ++ C) ta t3 (by rw [w3, hw]) (by rw [s3, hs]) hm
      (innerOK_iadd hinb hinc i3)
  have hm2 : EdgeMono fo g2.w g2.shift := by rw [w2, w1, s2, s1]; exact hm
  have hb : g2.bins fo = g4.bins fo := by
    apply bins_eq_of_range fo (by rw [w2, w1, w4]) (by rw [s2, s1, s4])
    by_cases ha0 : ga.count = 0 <;> by_cases hb0 : gb.count = 0 <;> by_cases hc0 : gc.count = 0
    · left
      have := sp1.rightEmpty hb0; have := sp2.rightEmpty hc0
      have := sp3.rightEmpty hc0; have := sp4.rightEmpty (by omega)
      omega
    · right
      have hc := Nat.pos_of_ne_zero hc0
      have := sp1.rightEmpty hb0; have := sp2.leftEmpty (by omega) hc
      have := sp3.leftEmpty hb0 hc; have := sp4.leftEmpty ha0 (by omega)
      omega
    · right
      have hbp := Nat.pos_of_ne_zero hb0
      have := sp1.leftEmpty ha0 hbp; have := sp2.rightEmpty hc0
      have := sp3.rightEmpty hc0; have := sp4.leftEmpty ha0 (by omega)
      omega
    · right
      have hbp := Nat.pos_of_ne_zero hb0
      have hc := Nat.pos_of_ne_zero hc0
      have := sp1.leftEmpty ha0 hbp; have := sp2.both (by omega) hc
      have := sp3.both hbp hc; have h3 := sp3.pos_iff.mpr (Or.inl hbp)
      have := sp4.leftEmpty ha0 h3
      omega
    · right
      have := sp1.rightEmpty hb0; have := sp2.rightEmpty hc0
      have := sp3.rightEmpty hc0; have := sp4.rightEmpty (by omega)
      omega
    · right
      have hap := Nat.pos_of_ne_zero ha0
      have hc := Nat.pos_of_ne_zero hc0
      have := sp1.rightEmpty hb0; have := sp2.both (by omega) hc
      have := sp3.leftEmpty hb0 hc; have := sp4.both hap (by omega)
      omega
    · right
      have hap := Nat.pos_of_ne_zero ha0
      have hbp := Nat.pos_of_ne_zero hb0
      have := sp1.both hap hbp; have := sp2.rightEmpty hc0
      have := sp3.rightEmpty hc0; have := sp4.both hap (by omega)
      omega
    · right
      have hap := Nat.pos_of_ne_zero ha0
      have hbp := Nat.pos_of_ne_zero hb0
      have hc := Nat.pos_of_ne_zero hc0
      have h1 := sp1.pos_iff.mpr (Or.inl hap)
      have h3 := sp3.pos_iff.mpr (Or.inl hbp)
      have := sp1.both hap hbp; have := sp2.both h1 hc
      have := sp3.both hbp hc; have := sp4.both hap h3
      omega
  rw [List.append_assoc] at t2
  have hf : abc.freq = abc'.freq := by rw [t2.freq, t4.freq, hb]
  refine ⟨ab, abc, bc, abc', e1, e2, e3, e4, ?_, hf, by rw [t2.err2, t4.err2, hb], by rw [t2.under, t4.under],
    by rw [t2.over, t4.over], by unfold H1.total; rw [hf], ?_⟩
  · simp [H1.bins, t2.state.binning, t4.state.binning, Binning.bins, hb]
  · rw [d2, d1, d4, d3]
    exact (C13_promote_algebra.2.2 _ (DType.mem_all _) _ (DType.mem_all _) _ (DType.mem_all _))

/-! ## Non-vacuity, the model's own computation, and the limits of the statements -/

/-- **The model computes what the theorems say** (exact arithmetic, width 1/2).  One adaptive histogram
    filled with 1/4 and 3 (cells 0 and 6: range `[0, 7)`), another with -2 and 7/4 (cells -4 and 3: range
    `[-4, 4)`).  Added either way: accepted, range `[-4, 7)` = the union, the four weights in the bins of
    cells -4, 0, 3, 6, total 4 = 2 + 2, nothing missed — and both orders give the same record. -/
example :
    let g : Grid := { w := 1 / 2, adaptive := true }
    let e := H1.empty FloatOps.exact (.fixed g) true none
    let a := fillAll FloatOps.exact 4 e [((1 / 4, 1), .pyInt), ((3, 1), .pyInt)]
    let b := fillAll FloatOps.exact 4 e [((-2, 1), .pyInt), ((7 / 4, 1), .pyInt)]
    a.binning = .fixed { w := 1 / 2, tmin := 0, count := 7, adaptive := true } ∧
    b.binning = .fixed { w := 1 / 2, tmin := -4, count := 8, adaptive := true } ∧
    a.sameBins FloatOps.exact b = false ∧
    (a.iadd FloatOps.exact b).map (fun r => (r.binning, r.freq, r.err2))
      = .ok (.fixed { w := 1 / 2, tmin := -4, count := 11, adaptive := true },
             [1, 0, 0, 0, 1, 0, 0, 1, 0, 0, 1], [1, 0, 0, 0, 1, 0, 0, 1, 0, 0, 1]) ∧
    (a.iadd FloatOps.exact b).map (fun r => (r.under, r.over, r.inner, r.total)) = .ok (some 0, some 0, some 0, 4) ∧
    a.iadd FloatOps.exact b = b.iadd FloatOps.exact a ∧
    (a.iadd FloatOps.exact b).map (fun r => r.freq)
      = .ok (calc1d ((Grid.bins FloatOps.exact { w := 1 / 2, tmin := -4, count := 11 }))
          [(1 / 4, 1), (3, 1), (-2, 1), (7 / 4, 1)]).freq := by
  decide +kernel

/-- The hypotheses of `gridTracks_iadd` / `gridTracks_iadd_comm` hold for these two operands. -/
example :
    let g : Grid := { w := 1 / 2, adaptive := true }
    let e := H1.empty FloatOps.exact (.fixed g) true none
    let a := fillAll FloatOps.exact 4 e [((1 / 4, 1), .pyInt), ((3, 1), .pyInt)]
    let b := fillAll FloatOps.exact 4 e [((-2, 1), .pyInt), ((7 / 4, 1), .pyInt)]
    ∃ ga gb : Grid, GridTracks FloatOps.exact a ga [(1 / 4, 1), (3, 1)] ∧
      GridTracks FloatOps.exact b gb [(-2, 1), (7 / 4, 1)] ∧ ga.w = gb.w ∧ ga.shift = gb.shift ∧
      EdgeMono FloatOps.exact ga.w ga.shift ∧ InnerOK a ∧ InnerOK b := by
  intro g e a b
  have hm : EdgeMono FloatOps.exact g.w g.shift := C04_exact_mono _ _ (by norm_num)
  obtain ⟨ga, ta, sa⟩ := gridTracks_history FloatOps.exact 4 g.w g.shift hm
    [((1 / 4, 1), .pyInt), ((3, 1), .pyInt)] (fun x _ => reach_exact _ _ (by norm_num) _ _) e g [] rfl rfl
    (gridTracks_empty _ _ rfl rfl rfl rfl _)
  obtain ⟨gb, tb, sb⟩ := gridTracks_history FloatOps.exact 4 g.w g.shift hm
    [((-2, 1), .pyInt), ((7 / 4, 1), .pyInt)] (fun x _ => reach_exact _ _ (by norm_num) _ _) e g [] rfl rfl
    (gridTracks_empty _ _ rfl rfl rfl rfl _)
  refine ⟨ga, gb, ta, tb, by rw [sa.w, sb.w], by rw [sa.shift, sb.shift], by rw [sa.w, sa.shift]; exact hm,
    innerOK_of_zero (by decide +kernel), innerOK_of_zero (by decide +kernel)⟩

/-- Empty operands: adding an empty adaptive histogram on either side changes nothing (the `.fresh`
    reshape instruction of `adaptGrids`: the empty side is replaced by zeros of the other's length). -/
example :
    let g : Grid := { w := 1 / 2, adaptive := true }
    let e := H1.empty FloatOps.exact (.fixed g) true none
    let b := fillAll FloatOps.exact 4 e [((-2, 1), .pyInt), ((7 / 4, 1), .pyInt)]
    (e.iadd FloatOps.exact b).map (fun r => (r.binning, r.freq, r.err2)) = .ok (b.binning, b.freq, b.err2) ∧
    (b.iadd FloatOps.exact e).map (fun r => (r.binning, r.freq, r.err2)) = .ok (b.binning, b.freq, b.err2) := by
  decide +kernel

/-- **Why commutativity is stated for bins, not for the `binning` record**: two EMPTY adaptive histograms
    whose (unobservable) first-cell numbers differ have equal bins (`[]`), the equal-bins branch keeps the
    left operand's grid, so `a + b` and `b + a` carry different `tmin` — with identical bins, contents,
    errors and missed counts. -/
example :
    let a := H1.empty FloatOps.exact (.fixed { w := 1 / 2, adaptive := true }) true none
    let b := H1.empty FloatOps.exact (.fixed { w := 1 / 2, tmin := 5, adaptive := true }) true none
    (a.iadd FloatOps.exact b).map (·.binning) = .ok (.fixed { w := 1 / 2, tmin := 0, adaptive := true }) ∧
    (b.iadd FloatOps.exact a).map (·.binning) = .ok (.fixed { w := 1 / 2, tmin := 5, adaptive := true }) ∧
    (a.iadd FloatOps.exact b).map (fun r => (r.bins FloatOps.exact, r.freq, r.err2, r.under, r.over))
      = (b.iadd FloatOps.exact a).map (fun r => (r.bins FloatOps.exact, r.freq, r.err2, r.under, r.over)) := by
  decide +kernel

/-- **The side condition `InnerOK` is needed, and only in the adapting branch.**  With a positive
    inner-missed slot on the right operand `__iadd__` refuses when the bins differ ("other has missed
    values"); with equal bins the same operand is accepted and the slot is added. -/
example :
    let g : Grid := { w := 1 / 2, adaptive := true }
    let e := H1.empty FloatOps.exact (.fixed g) true none
    let a := fillAll FloatOps.exact 4 e [((1 / 4, 1), .pyInt), ((3, 1), .pyInt)]
    let b := fillAll FloatOps.exact 4 e [((-2, 1), .pyInt), ((7 / 4, 1), .pyInt)]
    a.iadd FloatOps.exact { b with inner := some 1 } = .error "other has missed values" ∧
    (a.iadd FloatOps.exact { a with inner := some 1 }).map (fun r => (r.freq, r.inner))
      = .ok ([2, 0, 0, 0, 0, 0, 2], some 1) := by
  decide +kernel

/-- **Counterexample for `include_right_edge` grids (`ire = true`, excluded by `GridTracks`; physt refuses
    to build such an adaptive binning).**  Width 1.  `a` filled with 1/2 and 1: the value 1 ON the last
    edge goes into the right-closed last bin `[0, 1]`, contents `[2]`.  `b` filled with 5/2: bin `[2, 3]`.
    `a + b` is accepted with contents `[2, 0, 1]` over `[0,1) [1,2) [2,3]`, but the histogram of the same
    three values over those bins is `[1, 1, 1]`: with `ire = true` "h(A) + h(B) = h(A and B together)"
    fails for adaptive operands. -/
example :
    let g : Grid := { w := 1, adaptive := true, ire := true }
    let e := H1.empty FloatOps.exact (.fixed g) true none
    let a := fillAll FloatOps.exact 4 e [((1 / 2, 1), .pyInt), ((1, 1), .pyInt)]
    let b := fillAll FloatOps.exact 4 e [((5 / 2, 1), .pyInt)]
    a.freq = [2] ∧ b.freq = [1] ∧
    (a.iadd FloatOps.exact b).map (fun r => (r.binning, r.freq))
      = .ok (.fixed { w := 1, tmin := 0, count := 3, adaptive := true, ire := true }, [2, 0, 1]) ∧
    (calc1d (Grid.bins FloatOps.exact { w := 1, tmin := 0, count := 3 }) [(1 / 2, 1), (1, 1), (5 / 2, 1)]).freq
      = [1, 1, 1] := by
  decide +kernel

/-- Different widths (or origins) are refused: the hypotheses `ga.w = gb.w`, `ga.shift = gb.shift` are
    what `FixedWidthBinning._adapt` checks. -/
example :
    let a := fillAll FloatOps.exact 4 (H1.empty FloatOps.exact (.fixed { w := 1 / 2, adaptive := true }) true none)
      [((1 / 4, 1), .pyInt)]
    let b := fillAll FloatOps.exact 4 (H1.empty FloatOps.exact (.fixed { w := 1, adaptive := true }) true none)
      [((7 / 4, 1), .pyInt)]
    let c := fillAll FloatOps.exact 4
      (H1.empty FloatOps.exact (.fixed { w := 1 / 2, shift := 1 / 8, adaptive := true }) true none) [((7 / 4, 1), .pyInt)]
    a.iadd FloatOps.exact b = .error "different widths" ∧ a.iadd FloatOps.exact c = .error "different shifts" := by
  decide +kernel

end Physt

import Lean.Data.Json
import Physt.Model.Hist1D
import Physt.Model.DTypeMachine
import Physt.Model.FloatInst
import Physt.Model.Json
/-!
# Line-protocol driver: one JSON case per line in, one JSON result per line out.
Numbers are exact rationals written as strings `"n/d"` or `"n"`; NaN is `null`.
-/
open Lean (Json)
namespace Physt.Driver

abbrev E := Except String

def parseRat (s : String) : E Rat :=
  match s.splitOn "/" with
  | [n] => match n.toInt? with
    | some k => pure (k : Rat)
    | none => throw s!"bad rational {s}"
  | [n, d] => match n.toInt?, d.toNat? with
    | some k, some m => if m = 0 then throw "zero denominator" else pure ((k : Rat) / (m : Rat))
    | _, _ => throw s!"bad rational {s}"
  | _ => throw s!"bad rational {s}"

def ratStr (q : Rat) : String :=
  if q.den == 1 then toString q.num else s!"{q.num}/{q.den}"

def jRat (q : Rat) : Json := Json.str (ratStr q)
def jNRat : Option Rat → Json
  | none => Json.null
  | some q => jRat q
def jRats (l : List Rat) : Json := Json.arr (l.map jRat).toArray
def jBins (b : Bins) : Json := Json.arr (b.map fun (l, r) => Json.arr #[jRat l, jRat r]).toArray

def getRat (j : Json) : E Rat := do
  match j with
  | Json.str s => parseRat s
  | Json.num _ => match j.getInt? with
    | .ok k => pure (k : Rat)
    | .error e => throw e
  | _ => throw s!"rational expected: {j.compress}"

def getNRat (j : Json) : E (Option Rat) :=
  if j.isNull then pure none else do pure (some (← getRat j))

def getList (f : Json → E α) (j : Json) : E (List α) := do
  let a ← j.getArr?
  a.toList.mapM f

def getOpt (f : Json → E α) (j : Json) : E (Option α) :=
  if j.isNull then pure none else do pure (some (← f j))

def field (j : Json) (k : String) : E Json := j.getObjVal? k
def fieldD (j : Json) (k : String) : Json := (j.getObjVal? k).toOption.getD Json.null

def getBoolD (j : Json) (k : String) (d : Bool) : Bool :=
  match (fieldD j k).getBool? with | .ok b => b | .error _ => d

def getDType (j : Json) : E DType := do
  let s ← j.getStr?
  match DType.ofName? s with
  | some d => pure d
  | none => throw s!"unknown dtype {s}"

def getNumKind (j : Json) : E H1.NumKind := do
  let s ← j.getStr?
  if s == "pyint" then pure .pyInt
  else if s == "pyfloat" then pure .pyFloat
  else do pure (.np (← getDType j))

def getBin (j : Json) : E Bin := do
  match ← getList getRat j with
  | [l, r] => pure (l, r)
  | _ => throw "bin = [l, r] expected"

/-- `FixedWidthBinning(bin_width=w, bin_count=n, min=m)`: the constructor's decomposition of the requested minimum,
    `times_min = int(floor(min / bin_width))` (the estimate with shift 0: `min - 0.0` is `min`) and
    `shift = min - times_min * bin_width` -/
def gridOfMin (fo : FloatOps) (w m : Rat) : Int × Rat :=
  let t := fo.est w 0 m
  (t, fo.shiftOf w t m)

/-- a binning in JSON; a fixed-width one is given by `tmin` and `shift`, or (optional key `min`) by its first edge -/
def getBinningWith (fo : FloatOps) (j : Json) : E Binning := do
  let t ← (← field j "t").getStr?
  if t == "static" then
    pure (.static (← getList getBin (← field j "bins")) (getBoolD j "ire" true))
  else if t == "fixed" then
    let w ← getRat (← field j "w")
    let count ← (← field j "count").getNat?
    let (tmin, shift) ← match ← getOpt getRat (fieldD j "min") with
      | some m => pure (gridOfMin fo w m)
      | none => do
        let shift ← getRat (← field j "shift")
        let tmin ← (← field j "tmin").getInt?
        pure (tmin, shift)
    pure (.fixed { w := w, shift := shift, tmin := tmin, count := count,
                   align := getBoolD j "align" true, adaptive := getBoolD j "adaptive" false,
                   ire := getBoolD j "ire" false })
  else throw s!"unknown binning {t}"

def getBinning (j : Json) : E Binning := getBinningWith FloatOps.ieee j

def jStats (s : Stats) : Json :=
  if s.valid then
    Json.mkObj [("valid", true), ("sum", jRat s.sum), ("sum2", jRat s.sum2), ("min", jNRat s.min),
      ("max", jNRat s.max), ("weight", jRat s.weight), ("median", jNRat s.median),
      ("mean", jNRat s.mean), ("variance", jNRat s.variance)]
  else Json.mkObj [("valid", false)]

def jBinningMeta : Binning → Json
  | .static _ ire => Json.mkObj [("t", "static"), ("ire", ire)]
  | .fixed g => Json.mkObj [("t", "fixed"), ("w", jRat g.w), ("shift", jRat g.shift),
      ("tmin", Json.num g.tmin), ("count", Json.num g.count), ("adaptive", g.adaptive), ("ire", g.ire)]

def snap1 (fo : FloatOps) (h : H1) : Json :=
  Json.mkObj [("bins", jBins (h.bins fo)), ("freq", jRats h.freq), ("err2", jRats h.err2),
    ("under", jNRat h.underflow), ("over", jNRat h.overflow), ("inner", jNRat h.innerMissed),
    ("keep", h.keep), ("dtype", h.dtype.name), ("total", jRat h.total),
    ("adaptive", h.binning.isAdaptive), ("binning", jBinningMeta h.binning), ("stats", jStats h.stats)]

def jFB : H1.FB → Json
  | .under => Json.num (-1 : Int)
  | .over => "over"
  | .gap => Json.null
  | .bin i => Json.num i

structure St where
  regs : Array (Option H1) := #[]

def St.get (s : St) (i : Nat) : E H1 :=
  match s.regs[i]? with
  | some (some h) => pure h
  | _ => throw s!"register {i} empty"

def St.set (s : St) (i : Nat) (h : H1) : St :=
  let regs := if i < s.regs.size then s.regs else s.regs ++ Array.replicate (i + 1 - s.regs.size) none
  { regs := regs.set! i (some h) }

def getIntOpt (j : Json) : E (Option Int) := getOpt (fun x => x.getInt?) j

/-- run one op: returns the new store and the op's return token -/
def step1 (fo : FloatOps) (fuel : Nat) (s : St) (op : Json) : E (St × Json) := do
  let name ← (← field op "op").getStr?
  let reg (k : String) : E Nat := do (← field op k).getNat?
  -- an op that is refused leaves the store untouched
  let refusable (r : R (St × Json)) : E (St × Json) :=
    match r with
    | .ok x => pure x
    | .error _ => pure (s, Json.str "REFUSED")
  match name with
  | "construct" =>
    let b ← getBinningWith fo (← field op "binning")
    let vs ← getList getNRat (← field op "data")
    let ws ← getOpt (getList getRat) (fieldD op "weights")
    let wk ← getOpt getDType (fieldD op "wkind")
    let dt ← getOpt getDType (fieldD op "dtype")
    let out ← reg "out"
    refusable do
      let h ← H1.construct fo b vs ws (wk.getD .i64) dt (getBoolD op "keep" true) (getBoolD op "dropna" true)
      pure (s.set out h, Json.str "ok")
  | "empty" =>
    let b ← getBinningWith fo (← field op "binning")
    let dt ← getOpt getDType (fieldD op "dtype")
    pure (s.set (← reg "out") (H1.empty fo b (getBoolD op "keep" true) dt), Json.str "ok")
  | "of_arrays" =>
    let b ← getBinningWith fo (← field op "binning")
    let f ← getList getRat (← field op "freq")
    let e ← getOpt (getList getRat) (fieldD op "err2")
    let u ← getNRat (fieldD op "under")
    let o ← getNRat (fieldD op "over")
    let i ← getNRat (fieldD op "inner")
    let dt ← getDType (← field op "dtype")
    let out ← reg "out"
    refusable do
      let h ← H1.ofArrays fo b f e u o i (getBoolD op "keep" true) dt
      pure (s.set out h, Json.str "ok")
  | "fill" =>
    let r ← reg "h"
    let h ← s.get r
    let v ← getNRat (fieldD op "v")
    let w ← getRat (← field op "w")
    let wk ← getNumKind (← field op "wk")
    let (h', fb) := h.fill fo fuel v w wk
    pure (s.set r h', match fb with | none => Json.str "nan" | some x => jFB x)
  | "find_bin" =>
    let h ← s.get (← reg "h")
    let v ← getRat (← field op "v")
    pure (s, jFB (h.findBin fo v))
  | "fill_n" =>
    let r ← reg "h"
    let h ← s.get r
    let vs ← getList getNRat (← field op "vs")
    let ws ← getOpt (getList getRat) (fieldD op "ws")
    let wk ← getOpt getDType (fieldD op "wkind")
    match h.fillN fo fuel vs ws (wk.getD .i64) with
    | .ok h' => pure (s.set r h', Json.str "ok")
    | .error _ =>
      -- the bins may already have grown (contents per interval unchanged)
      let h' := h.adapt fo fuel (vs.filterMap id) false
      pure (s.set r h', Json.str "REFUSED")
  | "iadd" =>
    let r ← reg "h"
    let h ← s.get r
    let o ← s.get (← reg "o")
    match h.iadd fo o with
    | .ok h' => pure (s.set r h', Json.str "ok")
    | .error e =>
      pure (if e == "different widths" || e == "different shifts" then s.set r (h.coerce o.dtype) else s,
            Json.str "REFUSED")
  | "add" =>
    let a ← s.get (← reg "a")
    let b ← s.get (← reg "b")
    let out ← reg "out"
    refusable do pure (s.set out (← a.iadd fo b), Json.str "ok")
  | "radd0" =>
    let h ← s.get (← reg "h")
    pure (s.set (← reg "out") h, Json.str "ok")
  | "isub" =>
    let r ← reg "h"
    let h ← s.get r
    let o ← s.get (← reg "o")
    let free := getBoolD op "free" false
    match (if free then h.isubFree fo o else h.isub fo o) with
    | .ok h' => pure (s.set r h', Json.str "ok")
    | .error e =>
      pure (if e == "negative frequencies" || e == "shape changed" then s.set r (h.coerce o.dtype) else s,
            Json.str "REFUSED")
  | "sub" =>
    let a ← s.get (← reg "a")
    let b ← s.get (← reg "b")
    let out ← reg "out"
    let free := getBoolD op "free" false
    refusable do pure (s.set out (← if free then a.isubFree fo b else a.isub fo b), Json.str "ok")
  | "imul" | "mul" =>
    let r ← reg "h"
    let h ← s.get r
    let c ← getRat (← field op "c")
    let k ← getNumKind (← field op "k")
    let out ← if name == "imul" then pure r else reg "out"
    match h.imul c k with
    | .ok h' => pure (s.set out h', Json.str "ok")
    | .error _ =>
      -- in place: the dtype was already promoted (losslessly) when the call was refused
      pure (if name == "imul" then s.set r (h.coerce k.dtype) else s, Json.str "REFUSED")
  | "idiv" | "div" =>
    let r ← reg "h"
    let h ← s.get r
    let c ← getRat (← field op "c")
    let out ← if name == "idiv" then pure r else reg "out"
    match h.idiv c with
    | .ok h' => pure (s.set out h', Json.str "ok")
    | .error _ =>
      pure (if name == "idiv" && c != 0 then s.set r (h.coerce .f64) else s, Json.str "REFUSED")
  | "normalize" =>
    let r ← reg "h"
    let h ← s.get r
    let inplace := getBoolD op "inplace" false
    let out ← if inplace then pure r else reg "out"
    match h.normalize inplace (getBoolD op "percent" false) with
    | .ok h' => pure (s.set out h', Json.str "ok")
    | .error _ => pure (if inplace && h.total != 0 then s.set r (h.coerce .f64) else s, Json.str "REFUSED")
  | "invalid" =>
    -- `h *= 1e200`: the content type is promoted (losslessly) for the python float before the square of the factor
    -- overflows and the call is refused; every other invalid call is refused before anything happens
    if (fieldD op "what").getStr?.toOption == some "imul_overflow" then
      let r ← reg "h"
      let h ← s.get r
      pure (s.set r (h.coerce .f64), Json.str "REFUSED")
    else pure (s, Json.str "REFUSED")
  | "sum" =>
    let hs ← getList (fun x => x.getNat?) (← field op "hs")
    let out ← reg "out"
    match hs with
    | [] => throw "empty sum"
    | i :: rest =>
      let first ← s.get i
      let others ← rest.mapM s.get
      refusable do
        let tot ← others.foldlM (fun acc o => acc.iadd fo o) first
        pure (s.set out tot, Json.str "ok")
  | "normalize_bins" =>
    -- HistogramCollection(hs...).normalize_bins(): the members go to registers `outs`
    let hs ← getList (fun x => x.getNat?) (← field op "hs")
    let outs ← getList (fun x => x.getNat?) (← field op "outs")
    let members ← hs.mapM s.get
    match members with
    | [] => pure (s, Json.str "REFUSED")
    | m0 :: rest =>
      if rest.any fun m => m.bins fo != m0.bins fo then pure (s, Json.str "REFUSED")
      else
        let res := H1.normalizeBins members
        pure ((outs.zip res).foldl (fun st p => st.set p.1 p.2) s, Json.str "ok")
  | "merge" =>
    let r ← reg "h"
    let h ← s.get r
    let amount ← getOpt (fun x => x.getNat?) (fieldD op "amount")
    let thr ← getOpt getRat (fieldD op "min_freq")
    let out ← if getBoolD op "inplace" false then pure r else reg "out"
    refusable do
      let h' ← match amount, thr with
        | some a, _ => h.mergeAmount fo a
        | none, some t => h.mergeMinFreq fo t
        | none, none => throw "not implemented"
      pure (s.set out h', Json.str "ok")
  | "slice" =>
    let h ← s.get (← reg "h")
    let a ← getIntOpt (fieldD op "start")
    let b ← getIntOpt (fieldD op "stop")
    pure (s.set (← reg "out") (h.getSlice fo a b), Json.str "ok")
  | "mask" =>
    let h ← s.get (← reg "h")
    let m ← getList (fun x => x.getBool?) (← field op "mask")
    let out ← reg "out"
    if m.length != h.freq.length then pure (s, Json.str "REFUSED")
    else
      let idx := (List.range m.length).filter fun i => m[i]?.getD false
      pure (s.set out (h.getIndices fo idx), Json.str "ok")
  | "index_array" =>
    let h ← s.get (← reg "h")
    let idx ← getList (fun x => x.getInt?) (← field op "idx")
    let out ← reg "out"
    refusable do
      let l ← H1.normIndexArray h.freq.length idx
      pure (s.set out (h.getIndices fo l), Json.str "ok")
  | "item" =>
    let h ← s.get (← reg "h")
    let i ← (← field op "i").getInt?
    let n := h.freq.length
    let k : Int := if i < 0 then i + n else i
    if k < 0 ∨ k ≥ n then pure (s, Json.str "REFUSED")
    else
      let b := (h.bins fo)[k.toNat]?.getD (0, 0)
      pure (s, Json.mkObj [("bin", Json.arr #[jRat b.1, jRat b.2]), ("value", jRat (h.freq[k.toNat]?.getD 0))])
  | "set_dtype" =>
    let r ← reg "h"
    let h ← s.get r
    let d ← getDType (← field op "dtype")
    refusable do pure (s.set r (← h.setDType d), Json.str "ok")
  | "set_freq" | "set_err2" =>
    let r ← reg "h"
    let h ← s.get r
    let vals ← getList getRat (← field op "vals")
    let k ← getDType (← field op "k")
    refusable do
      let h' ← if name == "set_freq" then h.setFreq vals k else h.setErr2 vals k
      pure (s.set r h', Json.str "ok")
  | "set_meta" | "append_meta" =>
    -- meta-data edits: the model's histograms carry no meta data (values): nothing changes
    let _ ← s.get (← reg "h")
    pure (s, Json.str "ok")
  | "set_adaptive" =>
    -- `h.set_adaptive(v)` / `h.adaptive = v` / `h.binning.set_adaptive(v)`: the flag of the binning, in place; only a
    -- fixed-width binning can become adaptive (the histogram-level call refuses any other binning whatever the value)
    let r ← reg "h"
    let h ← s.get r
    let v := getBoolD op "value" true
    match h.binning with
    | .fixed g => pure (s.set r { h with binning := .fixed { g with adaptive := v } }, Json.str "ok")
    | .static _ _ => pure (s, Json.str (if v || !(getBoolD op "on_binning" false) then "REFUSED" else "ok"))
  | "set_keep" =>
    -- `h.keep_missed = v`: a plain attribute; the stored missed weights stay as they are
    let r ← reg "h"
    let h ← s.get r
    pure (s.set r { h with keep := getBoolD op "value" true }, Json.str "ok")
  | "copy" =>
    let h ← s.get (← reg "h")
    pure (s.set (← reg "out") (h.copy (getBoolD op "with_freq" true)), Json.str "ok")
  | "roundtrip" =>
    -- `parse_json(h.to_json())`: the document written, and the object read back
    let h ← s.get (← reg "h")
    let d := h.toDict fo
    let jb : Json := match d.binning with
      | .static b => Json.mkObj [("t", "static"), ("bins", jBins b)]
      | .fixed a c w sh t => Json.mkObj [("t", "fixed"), ("adaptive", a), ("count", Json.num c), ("w", jRat w),
          ("shift", jRat sh), ("tmin", Json.num t)]
    let doc := Json.mkObj [("histogram_type", d.histogramType), ("binning", jb), ("freq", jRats d.freq),
      ("dtype", d.dtype.name), ("err2", jRats d.err2), ("missed", Json.arr (d.missed.map jNRat).toArray),
      ("missed_keep", d.missedKeep)]
    pure (s.set (← reg "out") (H1.fromDict d), doc)
  | _ => throw s!"unknown op {name}"

def runHist1 (fo : FloatOps) (case : Json) : E Json := do
  let fuel := ((fieldD case "fuel").getNat?).toOption.getD 64
  let ops ← (← field case "ops").getArr?
  let mut s : St := {}
  let mut outs : Array Json := #[]
  for op in ops do
    -- an op on a register whose creation was refused is itself refused (nothing changes)
    let (s', ret) ← match step1 fo fuel s op with
      | .ok x => pure x
      | .error e => if e.startsWith "register" then pure (s, Json.str "REFUSED") else throw e
    s := s'
    let regs := s.regs.map fun r => match r with
      | none => Json.null
      | some h => snap1 fo h
    outs := outs.push (Json.mkObj [("ret", ret), ("regs", Json.arr regs)])
  pure (Json.arr outs)

/-- the model's promotion / castability tables, for the exhaustive comparison with numpy -/
def runTables : Json :=
  let names := DType.all
  let tbl (f : DType → DType → Json) : Json :=
    Json.mkObj (names.map fun a => (a.name, Json.mkObj (names.map fun b => (b.name, f a b))))
  Json.mkObj [("promote", tbl fun a b => Json.str (a.promote b).name),
              ("can_cast", tbl fun a b => Json.bool (a.canCast b))]

def runCase (case : Json) : E Json := do
  let kind ← (← field case "kind").getStr?
  let fo := if getBoolD case "exact" false then FloatOps.exact else FloatOps.ieee
  match kind with
  | "hist1" => runHist1 fo case
  | "tables" => pure runTables
  | "dtm" =>
    -- the dtype machine (`Model/DTypeMachine.lean`): the first line constructs, the others are operations; the answer is
    -- the state (reported, frequencies, errors2, missed element types, NaN flag) after every line
    let lines ← getList (fun j => j.getStr?) (← field case "lines")
    match lines.mapM DOp.parse? with
    | none => throw "dtm: a line does not parse"
    | some ops =>
      let states := DState.trace Cfg.current default ops
      pure (Json.arr (states.map fun st => Json.str st.toString).toArray)
  | _ => throw s!"unknown kind {kind}"

def handleLine (line : String) : String :=
  match Json.parse line with
  | .error e => (Json.mkObj [("error", Json.str s!"parse: {e}")]).compress
  | .ok j =>
    match runCase j with
    | .ok r => (Json.mkObj [("ok", r)]).compress
    | .error e => (Json.mkObj [("error", Json.str e)]).compress

end Physt.Driver

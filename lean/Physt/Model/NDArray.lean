/-!
# N-dimensional arrays (model of the numpy arrays physt stores)

An array is a shape and a flat row-major list (what `ravel().tolist()` gives).  Every operation
is defined *index-wise* (`ofFn shape g` materialises the function `g` on index tuples), so the
theorems about projections, selections and merges are statements about every valid index
(`Arr.get_ofFn` in `Physt/Proofs/NDArray.lean` is the only place where raveling is reasoned about).
-/
namespace Physt

def prodL : List Nat → Nat
  | [] => 1
  | n :: ns => n * prodL ns

/-- all index tuples of a shape in row-major (C) order -/
def allIdx : List Nat → List (List Nat)
  | [] => [[]]
  | n :: rest => (List.range n).flatMap fun i => (allIdx rest).map (i :: ·)

/-- position of an index tuple in the flat row-major list -/
def ravel : List Nat → List Nat → Nat
  | n :: rest, i :: is => i * prodL rest + ravel rest is
  | _, _ => 0

def validIdx : List Nat → List Nat → Bool
  | [], [] => true
  | n :: rest, i :: is => decide (i < n) && validIdx rest is
  | _, _ => false

structure Arr where
  shape : List Nat
  data : List Rat
  deriving DecidableEq, Repr, Inhabited

namespace Arr

def ofFn (shape : List Nat) (g : List Nat → Rat) : Arr :=
  { shape := shape, data := (allIdx shape).map g }

def get (a : Arr) (idx : List Nat) : Rat :=
  if validIdx a.shape idx then a.data[ravel a.shape idx]?.getD 0 else 0

def zeros (shape : List Nat) : Arr := ofFn shape fun _ => 0
def total (a : Arr) : Rat := a.data.sum
def map (f : Rat → Rat) (a : Arr) : Arr := { a with data := a.data.map f }
def zipWith (f : Rat → Rat → Rat) (a b : Arr) : Arr := { a with data := List.zipWith f a.data b.data }
def ndim (a : Arr) : Nat := a.shape.length

def setAt (l : List α) (i : Nat) (x : α) : List α := l.set i x
def removeAt (l : List α) (i : Nat) : List α := l.eraseIdx i

/-- `new[..., j, ...] = Σ_{k ∈ src j} old[..., k, ...]` along `axis`; the axis gets length `newN` -/
def gather (a : Arr) (axis newN : Nat) (src : Nat → List Nat) : Arr :=
  ofFn (setAt a.shape axis newN) fun idx =>
    ((src (idx[axis]?.getD 0)).map fun k => a.get (setAt idx axis k)).sum

/-- drop an axis of length 1 -/
def squeeze (a : Arr) (axis : Nat) : Arr :=
  ofFn (removeAt a.shape axis) fun idx => a.get ((idx.take axis) ++ [0] ++ (idx.drop axis))

/-- `a.sum(axis=axis)` -/
def sumAxis (a : Arr) (axis : Nat) : Arr :=
  (a.gather axis 1 fun _ => List.range (a.shape[axis]?.getD 0)).squeeze axis

/-- sum over several axes (given in decreasing order so positions stay valid) -/
def sumAxes (a : Arr) (axesDesc : List Nat) : Arr := axesDesc.foldl sumAxis a

/-- `a[..., i, ...]` (integer index: the axis disappears) -/
def selectInt (a : Arr) (axis i : Nat) : Arr := (a.gather axis 1 fun _ => [i]).squeeze axis

/-- `a[..., lo:hi, ...]` -/
def selectSlice (a : Arr) (axis lo hi : Nat) : Arr :=
  a.gather axis (hi - lo) fun j => [lo + j]

/-- `np.cumsum(a, axis)` -/
def cumsum (a : Arr) (axis : Nat) : Arr :=
  a.gather axis (a.shape[axis]?.getD 0) fun j => List.range (j + 1)

/-- `_apply_bin_map` with (old, new) pairs: `map[k]` is the new index of old bin `k` -/
def mergeAxis (a : Arr) (axis : Nat) (map : List Nat) (newN : Nat) : Arr :=
  a.gather axis newN fun j => (List.range map.length).filter fun k => map[k]? == some j

/-- `_apply_bin_map` with an integer shift: old contents move `k` cells up along `axis` -/
def shiftAxis (a : Arr) (axis k newN : Nat) : Arr :=
  let old := a.shape[axis]?.getD 0
  a.gather axis newN fun j => if k ≤ j ∧ j - k < old then [j - k] else []

/-- 2-D transpose -/
def transpose (a : Arr) : Arr :=
  match a.shape with
  | [n, m] => ofFn [m, n] fun idx => match idx with
    | [j, i] => a.get [i, j]
    | _ => 0
  | _ => a

end Arr
end Physt

import Physt.Model.Bins
/-!
# Fixed-width grid (model of `FixedWidthBinning`)

The implementation computes grid edges and cell estimates in floating point.  The model takes
those computations as a parameter `FloatOps`; theorems quantify over every instance that
satisfies an explicit hypothesis (strict monotonicity of `edge`), the driver instantiates it
with IEEE doubles (Lean `Float`) and checks the hypothesis on every case.
-/
namespace Physt

/-- The floating-point computations `FixedWidthBinning` performs. -/
structure FloatOps where
  /-- `index * bin_width + shift` (the formula of `numpy_bins` and `_edge`) -/
  edge : Rat → Rat → Int → Rat
  /-- `int(floor((value - shift) / bin_width))` -/
  est : Rat → Rat → Rat → Int
  /-- `value - times_min * bin_width` (new shift when `align=False`) -/
  shiftOf : Rat → Int → Rat → Rat

/-- Exact arithmetic instance. -/
def FloatOps.exact : FloatOps where
  edge w s k := (k : Rat) * w + s
  est w s v := ((v - s) / w).floor
  shiftOf w k v := v - (k : Rat) * w

structure Grid where
  w : Rat
  shift : Rat := 0
  tmin : Int := 0
  count : Nat := 0
  align : Bool := true
  adaptive : Bool := false
  ire : Bool := false
  deriving DecidableEq, Repr, Inhabited

namespace Grid

def edgeAt (fo : FloatOps) (g : Grid) (k : Int) : Rat := fo.edge g.w g.shift k

/-- `numpy_bins` / `bins` of the grid -/
def bins (fo : FloatOps) (g : Grid) : Bins :=
  (List.range g.count).map fun (i : Nat) => (g.edgeAt fo (g.tmin + (i : Int)), g.edgeAt fo (g.tmin + (i : Int) + 1))

def firstEdge (fo : FloatOps) (g : Grid) : Rat := g.edgeAt fo g.tmin
def lastEdge (fo : FloatOps) (g : Grid) : Rat := g.edgeAt fo (g.tmin + g.count)

/-- first loop of `_find_grid_index`: step down while the candidate's left edge is above `v` -/
def walkDown (edge : Int → Rat) (v : Rat) : Nat → Int → Int
  | 0, k => k
  | n + 1, k => if v < edge k ∧ edge (k - 1) < edge k then walkDown edge v n (k - 1) else k

/-- second loop: step up while the candidate's right edge is not above `v` -/
def walkUp (edge : Int → Rat) (v : Rat) : Nat → Int → Int
  | 0, k => k
  | n + 1, k => if edge (k + 1) ≤ v ∧ edge k < edge (k + 1) then walkUp edge v n (k + 1) else k

/-- `_find_grid_index`: the estimate corrected against the edges really produced -/
def locate (edge : Int → Rat) (v : Rat) (fuel : Nat) (est : Int) : Int :=
  walkUp edge v fuel (walkDown edge v fuel est)

def findIndex (fo : FloatOps) (fuel : Nat) (g : Grid) (v : Rat) : Int :=
  locate (g.edgeAt fo) v fuel (fo.est g.w g.shift v)

/-- What `_reshape_data` is told to do. -/
inductive Reshape
  | noChange            -- `None`
  | shift (k : Nat)     -- an `int`: old contents move `k` cells to the right
  | fresh               -- `()`: the binning was empty before
  deriving DecidableEq, Repr

/-- `_force_bin_existence_single` -/
def forceSingle (fo : FloatOps) (fuel : Nat) (g : Grid) (v : Rat) (ire : Bool) : Grid × Reshape :=
  if g.count = 0 then
    let k := g.findIndex fo fuel v
    let g1 : Grid := { g with tmin := k }
    let g2 : Grid :=
      if g.align then g1
      else
        let g' : Grid := { g1 with shift := fo.shiftOf g.w k v }
        { g' with tmin := g'.findIndex fo fuel v }
    ({ g2 with count := 1 }, .fresh)
  else if v < g.firstEdge fo then
    let k := g.findIndex fo fuel v
    let addLeft := (g.tmin - k).toNat
    if addLeft = 0 then (g, .noChange)
    else ({ g with tmin := g.tmin - addLeft, count := g.count + addLeft }, .shift addLeft)
  else if g.lastEdge fo ≤ v then
    let k := g.findIndex fo fuel v
    let newCount : Int := k - g.tmin + 1 - (if g.edgeAt fo k = v ∧ ire then 1 else 0)
    let addRight : Int := newCount - g.count
    if addRight = 0 then (g, .noChange)
    else ({ g with count := (g.count + addRight).toNat }, .shift 0)
  else (g, .noChange)

def listMin : List Rat → Option Rat
  | [] => none
  | x :: xs => some (xs.foldl (fun a b => if b < a then b else a) x)

def listMax : List Rat → Option Rat
  | [] => none
  | x :: xs => some (xs.foldl (fun a b => if a < b then b else a) x)

/-- `_force_bin_existence` for an array of values (empty array: nothing happens) -/
def forceMany (fo : FloatOps) (fuel : Nat) (g : Grid) (vs : List Rat) (ire : Bool) : Grid × Reshape :=
  match listMin vs, listMax vs with
  | some lo, some hi =>
    let (g1, r1) := g.forceSingle fo fuel lo g.ire
    let (g2, r2) := g1.forceSingle fo fuel hi ire
    (g2, if r1 = .noChange then r2 else r1)
  | _, _ => (g, .noChange)

end Grid

/-- `_reshape_data` along a 1-D array -/
def reshape1 (old : List Rat) (newSize : Nat) : Grid.Reshape → List Rat
  | .noChange => old
  | .fresh => List.replicate newSize 0
  | .shift k => (List.replicate k 0 ++ old ++ List.replicate (newSize - k - old.length) 0).take newSize

end Physt

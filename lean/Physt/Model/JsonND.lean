import Physt.Model.Json
import Physt.Model.HistND
/-!
# Dictionary export / import of N-d histograms and of collections

`HistogramBase.to_dict` writes `binnings` (one dictionary per axis), the nested `frequencies` and
`errors2` lists (modelled by shape + flat row-major data), `dtype`, `missed` (a one-item list),
`missed_keep` and the meta data (`axis_names`, `name`, `title`); `HistogramND._kwargs_from_dict`
unpacks the one-item list again.  A collection writes its members' dictionaries, the shared
binning and its own name / title.
-/
namespace Physt

/-- the dictionary an N-d histogram writes -/
structure HistDictN where
  histogramType : String
  binnings : List BinningDict
  shape : List Nat
  freq : List Rat
  err2 : List Rat
  dtype : DType
  missed : List NRat            -- one item
  missedKeep : Bool
  axisNames : List String
  deriving DecidableEq, Repr

namespace HN

def toDict (fo : FloatOps) (h : HN) : HistDictN :=
  { histogramType := if h.axes.length = 2 then "Histogram2D" else "HistogramND",
    binnings := h.axes.map (Binning.toDict fo), shape := h.freq.shape, freq := h.freq.data, err2 := h.err2.data,
    dtype := h.dtype, missed := [h.missed], missedKeep := h.keep, axisNames := h.names }

/-- `from_dict`: the constructor receives the stored missed value whatever `keep_missed` says
    (unlike the 1-D class, `HistogramND.__init__` stores it unconditionally) -/
def fromDict (d : HistDictN) : HN :=
  { axes := d.binnings.map BinningDict.toBinning,
    freq := { shape := d.shape, data := d.freq }, err2 := { shape := d.shape, data := d.err2 },
    missed := (d.missed[0]?).getD (some 0),
    keep := d.missedKeep, dtype := d.dtype, names := d.axisNames }

/-- what a round trip is required to preserve (the right-edge / alignment flags of the binnings are
    not part of the document; both arrays have the shape of the contents) -/
def canon (fo : FloatOps) (h : HN) : HN :=
  { h with axes := h.axes.map fun b => (b.toDict fo).toBinning,
           err2 := { shape := h.freq.shape, data := h.err2.data } }

end HN

/-- the dictionary a collection writes -/
structure CollDict where
  name : Option String
  title : Option String
  binning : BinningDict
  members : List HistDict
  deriving DecidableEq, Repr

/-- a collection of 1-D histograms over one binning -/
structure Coll where
  name : Option String := none
  title : Option String := none
  binning : Binning
  members : List H1
  deriving DecidableEq, Repr

namespace Coll
def toDict (fo : FloatOps) (c : Coll) : CollDict :=
  { name := c.name, title := c.title, binning := c.binning.toDict fo, members := c.members.map (H1.toDict fo) }
def fromDict (d : CollDict) : Coll :=
  { name := d.name, title := d.title, binning := d.binning.toBinning, members := d.members.map H1.fromDict }
def canon (fo : FloatOps) (c : Coll) : Coll :=
  { c with binning := (c.binning.toDict fo).toBinning, members := c.members.map (H1.canon fo) }
end Coll

end Physt

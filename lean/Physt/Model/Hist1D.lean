import Physt.Model.Freq1D
import Physt.Model.Grid
import Physt.Model.DType
import Physt.Model.Stats
/-!
# One-dimensional histogram objects (model of `Histogram1D` + `HistogramBase`)

Every public operation the properties anchor, as a total function on a plain record.
In-place operations return the new state or `Except.error` (a refused call: the state the
caller holds is unchanged — where the implementation mutates before it raises, the model says
so explicitly; see `Physt/Theorems/C18.lean`).  NaN is `none`.
-/
namespace Physt

/-- A binning object, as far as the histogram can observe it. -/
inductive Binning
  | static (bins : Bins) (ire : Bool)   -- StaticBinning / NumpyBinning
  | fixed (g : Grid)                    -- FixedWidthBinning
  deriving DecidableEq, Repr, Inhabited

namespace Binning
def bins (fo : FloatOps) : Binning → Bins
  | static b _ => b
  | fixed g => g.bins fo
def ire : Binning → Bool
  | static _ i => i
  | fixed g => g.ire
def isAdaptive : Binning → Bool
  | static _ _ => false
  | fixed g => g.adaptive
def adaptiveAllowed : Binning → Bool
  | static _ _ => false
  | fixed _ => true
def asStatic (fo : FloatOps) (b : Binning) : Binning := .static (b.bins fo) b.ire
end Binning

/-- NaN-aware numbers for the missed slots -/
abbrev NRat := Option Rat
def nadd (a b : NRat) : NRat := do let x ← a; let y ← b; pure (x + y)
def nsub (a b : NRat) : NRat := do let x ← a; let y ← b; pure (x - y)
def nscale (a : NRat) (c : Rat) : NRat := a.map (· * c)

structure H1 where
  binning : Binning
  freq : List Rat
  err2 : List Rat
  under : NRat := some 0
  over : NRat := some 0
  inner : NRat := some 0
  keep : Bool := true
  dtype : DType := .i64
  stats : Stats := {}
  deriving DecidableEq, Repr, Inhabited

abbrev R := Except String

namespace H1

def bins (fo : FloatOps) (h : H1) : Bins := h.binning.bins fo
def total (h : H1) : Rat := h.freq.sum
/-- the `underflow` / `overflow` / `inner_missed` properties: NaN when tracking is off -/
def underflow (h : H1) : NRat := if h.keep then h.under else none
def overflow (h : H1) : NRat := if h.keep then h.over else none
def innerMissed (h : H1) : NRat := if h.keep then h.inner else none
def missed (h : H1) : NRat := nadd (nadd h.under h.over) h.inner

def zeros (n : Nat) : List Rat := List.replicate n 0

/-- kind of a weight / scalar operand as numpy sees it -/
inductive NumKind
  | pyInt | pyFloat | np (d : DType)
  deriving DecidableEq, Repr
def NumKind.dtype : NumKind → DType
  | .pyInt => .i64
  | .pyFloat => .f64
  | .np d => d

/-- `_coerce_dtype` -/
def coerce (h : H1) (d : DType) : H1 := { h with dtype := h.dtype.promote d }

/-- `Histogram1D(binning, keep_missed=…, dtype=…)` -/
def empty (fo : FloatOps) (b : Binning) (keep : Bool) (dtype : Option DType) : H1 :=
  let n := (b.bins fo).length
  { binning := b, freq := zeros n, err2 := zeros n, keep := keep, dtype := dtype.getD .i64,
    stats := Stats.empty }

/-- statistics block of `calculate_1d_frequencies` -/
def statsOf (data : List Pt) (equalWeights : Bool) (median : Option Rat) : Stats :=
  match data with
  | [] => Stats.empty
  | _ =>
    { valid := true
      sum := (data.map fun p => p.1 * p.2).sum
      sum2 := (data.map fun p => p.1 * p.1 * p.2).sum
      min := Grid.listMin (data.map (·.1))
      max := Grid.listMax (data.map (·.1))
      weight := wsum data
      median := if equalWeights then median else none }

def allEqual : List Rat → Bool
  | [] => true
  | x :: xs => xs.all (· == x)

/-- median of a list (numpy: mean of the two middle order statistics) -/
def medianOf (vs : List Rat) : Option Rat :=
  let s := (sortPts (vs.map fun v => (v, (0 : Rat)))).map (·.1)
  let n := s.length
  if n = 0 then none
  else if n % 2 = 1 then s[n / 2]?
  else do let a ← s[n / 2 - 1]?; let b ← s[n / 2]?; pure ((a + b) / 2)

/-- `h1(data, bins, weights=…, dtype=…, keep_missed=…, dropna=…)` for an explicit binning. -/
def construct (fo : FloatOps) (b : Binning) (vs : List (Option Rat)) (ws : Option (List Rat))
    (wkind : DType) (dtype : Option DType) (keep dropna : Bool) : R H1 := do
  if !dropna && vs.any Option.isNone then throw "NaN with dropna=False"
  if !weightsShapeOk vs ws then throw "weights shape"
  let bins := b.bins fo
  if bins.isEmpty then throw "0 bins"
  if !risingB bins then throw "bins not rising"
  let data := maskPts vs ws
  let wdt : DType := if ws.isSome then wkind else .i64
  let dt := dtype.getD wdt
  if dt.isInt && !wdt.isInt then throw "integer histogram with float weights"
  let c := calc1d bins data
  let st := statsOf data (allEqual (data.map (·.2))) (medianOf (data.map (·.1)))
  pure { binning := b, freq := c.freq, err2 := c.err2,
         under := if keep then c.under else some 0, over := if keep then c.over else some 0,
         inner := some 0, keep := keep, dtype := dt, stats := st }

/-- Result of `find_bin` -/
inductive FB
  | under | over | gap | bin (i : Nat)
  deriving DecidableEq, Repr

/-- `Histogram1D.find_bin` -/
def findBinIn (bins : Bins) (v : Rat) : FB :=
  let n := bins.length
  let ix := (bins.filter fun b => decide (b.1 ≤ v)).length   -- searchsorted(left_edges, v, "right")
  if ix = 0 then .under
  else
    match bins[ix - 1]? with
    | none => .under
    | some (_, r) =>
      if ix = n then (if v ≤ r then .bin (ix - 1) else .over)
      else if v < r then .bin (ix - 1) else .gap

def findBin (fo : FloatOps) (h : H1) (v : Rat) : FB := findBinIn (h.bins fo) v

def addAt (l : List Rat) (i : Nat) (x : Rat) : List Rat := l.modify i (· + x)

/-- grow an adaptive binning so that `vs` fit, and move the contents accordingly -/
def adapt (fo : FloatOps) (fuel : Nat) (h : H1) (vs : List Rat) (single : Bool) : H1 :=
  match h.binning with
  | .fixed g =>
    if g.adaptive then
      let (g', r) := if single then
          match vs with
          | [v] => g.forceSingle fo fuel v g.ire
          | _ => (g, .noChange)
        else g.forceMany fo fuel vs g.ire
      { h with binning := .fixed g', freq := reshape1 h.freq g'.count r,
               err2 := reshape1 h.err2 g'.count r }
    else h
  | _ => h

/-- `Histogram1D.fill(value, weight)`; `value = none` is NaN.  Returns the new state and the
    index reported. -/
def fill (fo : FloatOps) (fuel : Nat) (h : H1) (value : Option Rat) (w : Rat) (wk : NumKind) :
    H1 × Option FB :=
  match value with
  | none => (h, none)
  | some v =>
    let h := h.coerce wk.dtype
    let h := h.adapt fo fuel [v] true
    match h.findBin fo v with
    | .gap => (if h.keep then { h with over := none, under := none } else h, some .gap)
    | .under => (if h.keep then { h with under := nadd h.under (some w) } else h, some .under)
    | .over => (if h.keep then { h with over := nadd h.over (some w) } else h, some .over)
    | .bin i =>
      ({ h with freq := addAt h.freq i w, err2 := addAt h.err2 i (w * w),
                stats := h.stats.addPoint v w }, some (.bin i))

def zipAdd (a b : List Rat) : List Rat := List.zipWith (· + ·) a b

/-- the counting core of `fill_n`: add the batch histogram of `data` over the current bins -/
def fillData (fo : FloatOps) (h : H1) (data : List Pt) : H1 :=
  let c := calc1d (h.bins fo) data
  let st := statsOf data (allEqual (data.map (·.2))) (medianOf (data.map (·.1)))
  { h with freq := zipAdd h.freq c.freq, err2 := zipAdd h.err2 c.err2,
           under := if h.keep then nadd h.under c.under else h.under,
           over := if h.keep then nadd h.over c.over else h.over,
           stats := h.stats.add st }

/-- `Histogram1D.fill_n(values, weights)` with `dropna=True` -/
def fillN (fo : FloatOps) (fuel : Nat) (h : H1) (vs : List (Option Rat)) (ws : Option (List Rat))
    (wkind : DType) : R H1 := do
  -- the binning is adapted before the weights are looked at (a refused call may have grown the
  -- bins; every content per bin interval is still what it was)
  let vals := vs.filterMap id
  let h := h.adapt fo fuel vals false
  if !weightsShapeOk vs ws then throw "weights shape"
  let h := if ws.isSome then h.coerce wkind else h
  pure (h.fillData fo (maskPts vs ws))

/-- `has_same_bins` (exact comparison) -/
def sameBins (fo : FloatOps) (a b : H1) : Bool := a.bins fo == b.bins fo

/-- `FixedWidthBinning._adapt`: the common grid of two grids and the two cell offsets -/
def adaptGrids (g o : Grid) : R (Grid × Grid.Reshape × Grid.Reshape) := do
  if g.w != o.w then throw "different widths"
  if g.shift != o.shift then throw "different shifts"
  if o.count = 0 then pure (g, .noChange, .fresh)
  else if g.count = 0 then pure ({ g with tmin := o.tmin, count := o.count }, .fresh, .noChange)
  else
    let newMin := min g.tmin o.tmin
    let newMax := max (g.tmin + g.count) (o.tmin + o.count)
    let cnt := (newMax - newMin).toNat
    let r1 := if newMin < g.tmin ∨ g.tmin + g.count < newMax then Grid.Reshape.shift (g.tmin - newMin).toNat else .noChange
    let r2 := if newMin < o.tmin ∨ o.tmin + o.count < newMax then Grid.Reshape.shift (o.tmin - newMin).toNat else .noChange
    pure ({ g with tmin := newMin, count := cnt }, r1, r2)

/-- `as_fixed_width()` of the other operand's binning -/
def asFixedWidth (fo : FloatOps) (b : Binning) : R Grid :=
  match b with
  | .fixed g => pure g
  | .static _ _ => throw "static binning cannot be made adaptive"

/-- `__iadd__` with another histogram -/
def iadd (fo : FloatOps) (h o : H1) : R H1 := do
  if h.sameBins fo o then
    let h := h.coerce o.dtype
    pure { h with freq := zipAdd h.freq o.freq, err2 := zipAdd h.err2 o.err2,
                  under := nadd h.under o.under, over := nadd h.over o.over,
                  inner := nadd h.inner o.inner, stats := h.stats.add o.stats }
  else if h.binning.isAdaptive then
    match o.missed with
    | some m => if 0 < m then throw "other has missed values"
    | none => pure ()
    let og ← asFixedWidth fo o.binning
    let h := h.coerce o.dtype
    match h.binning with
    | .fixed g =>
      let (g', r1, r2) ← adaptGrids g og
      let f1 := reshape1 h.freq g'.count r1
      let e1 := reshape1 h.err2 g'.count r1
      let f2 := reshape1 o.freq g'.count r2
      let e2 := reshape1 o.err2 g'.count r2
      pure { h with binning := .fixed g', freq := zipAdd f1 f2, err2 := zipAdd e1 e2,
                    stats := h.stats.add o.stats }
    | _ => throw "unreachable"
  else throw "incompatible binning"

/-- `__imul__` by a scalar -/
def imul (h : H1) (c : Rat) (k : NumKind) : R H1 := do
  let h := h.coerce k.dtype
  let f := h.freq.map (· * c)
  if f.any (· < 0) then throw "negative frequencies"
  pure { h with freq := f, err2 := h.err2.map (· * (c * c)),
                under := nscale h.under c, over := nscale h.over c, inner := nscale h.inner c,
                stats := h.stats.scale c }

/-- `__itruediv__` by a scalar -/
def idiv (h : H1) (c : Rat) : R H1 := do
  if c = 0 then throw "division by zero"
  let h := h.coerce .f64
  let f := h.freq.map (· / c)
  if f.any (· < 0) then throw "negative frequencies"
  pure { h with freq := f, err2 := h.err2.map (· / (c * c)),
                under := nscale h.under (1 / c), over := nscale h.over (1 / c),
                inner := nscale h.inner (1 / c), stats := h.stats.scale (1 / c) }

/-- `__isub__` with another histogram (free arithmetics off) -/
def isub (fo : FloatOps) (h o : H1) : R H1 := do
  let o0 ← imul o 0 .pyInt
  let h0 ← imul h 0 .pyInt
  let aS ← iadd fo h o0
  let aO ← iadd fo h0 o
  let h := h.coerce o.dtype
  if aS.freq.length != h.freq.length then throw "shape changed"
  let f := List.zipWith (· - ·) aS.freq aO.freq
  if f.any (· < 0) then throw "negative frequencies"
  pure { h with freq := f, err2 := zipAdd aS.err2 aO.err2,
                under := nsub h.under o.under, over := nsub h.over o.over,
                inner := nsub h.inner o.inner, stats := Stats.invalid }

/-- the double nearest to 0.01 (`0.01 if percent else 1` in `normalize`) -/
def centiDouble : Rat := 5764607523034235 / 576460752303423488

/-- `normalize(inplace, percent)` -/
def normalize (h : H1) (inplace percent : Bool) : R H1 :=
  if inplace then idiv h (h.total * (if percent then centiDouble else 1))
  else do
    let d ← idiv h h.total
    imul d (if percent then 100 else 1) .pyInt

/-- `__isub__` with another histogram while free arithmetics is enabled: `self += other * (-1)`,
    negative contents are accepted, statistics become invalid -/
def isubFree (fo : FloatOps) (h o : H1) : R H1 := do
  let o' := o.coerce .i64
  let neg : H1 := { o' with freq := o'.freq.map (· * (-1)), under := nscale o'.under (-1),
                            over := nscale o'.over (-1), inner := nscale o'.inner (-1),
                            stats := o'.stats.scale (-1) }
  let r ← iadd fo h neg
  pure { r with stats := Stats.invalid }

/-- bin map of `merge_bins(amount)` -/
def amountMap (n amount : Nat) : List Nat := (List.range n).map (· / amount)

/-- bin map of `merge_bins(min_frequency=…)` -/
def minFreqMapAux (thr : Rat) : List Rat → Nat → Rat → List Nat
  | [], _, _ => []
  | f :: fs, cur, sum =>
    let (cur, sum) := if thr ≤ f ∧ 0 < sum then (cur + 1, (0 : Rat)) else (cur, sum)
    let sum := sum + f
    let (cur', sum') := if thr < sum then (cur + 1, (0 : Rat)) else (cur, sum)
    cur :: minFreqMapAux thr fs cur' sum'

def minFreqMap (thr : Rat) (freq : List Rat) : List Nat := minFreqMapAux thr freq 0 0

/-- `apply_bin_map` on the bins: merge runs; refuse when a run crosses a gap -/
def mergeBinsAux : List (Bin × Nat) → Option (Bin × Nat) → R (List Bin)
  | [], none => pure []
  | [], some (b, _) => pure [b]
  | (b, j) :: rest, none => mergeBinsAux rest (some (b, j))
  | (b, j) :: rest, some (cur, cj) =>
    if j = cj then
      if cur.2 = b.1 then mergeBinsAux rest (some ((cur.1, b.2), cj))
      else throw "merging non-consecutive bins"
    else do
      let tl ← mergeBinsAux rest (some (b, j))
      pure (cur :: tl)

/-- sum the contents of each run -/
def mergeVals (vals : List Rat) (map : List Nat) (newN : Nat) : List Rat :=
  (List.range newN).map fun j => ((vals.zip map).filter (·.2 == j)).map (·.1) |>.sum

/-- `merge_bins` in place, with an explicit bin map (monotone, onto an initial segment) -/
def mergeWithMap (fo : FloatOps) (h : H1) (map : List Nat) : R H1 := do
  if map.isEmpty then throw "empty bin map"      -- `max()` of an empty bin map: a histogram without bins
  let bins := h.bins fo
  let newBins ← mergeBinsAux (bins.zip map) none
  let newN := newBins.length
  let ire := h.binning.ire && (newBins.getLast?.map (·.2) == bins.getLast?.map (·.2))
  pure { h with binning := .static newBins ire, freq := mergeVals h.freq map newN,
                err2 := mergeVals h.err2 map newN }

def mergeAmount (fo : FloatOps) (h : H1) (amount : Nat) : R H1 := do
  if amount = 0 then throw "amount 0"
  mergeWithMap fo h (amountMap h.freq.length amount)

def mergeMinFreq (fo : FloatOps) (h : H1) (thr : Rat) : R H1 :=
  mergeWithMap fo h (minFreqMap thr h.freq)

/-- Python slice normalisation `slice(start, stop, None).indices(n)` -/
def normIdx (n : Nat) (i : Int) : Nat :=
  if i < 0 then (i + n).toNat else min i.toNat n

def sliceBounds (n : Nat) (start stop : Option Int) : Nat × Nat :=
  let a := match start with | none => 0 | some s => normIdx n s
  let b := match stop with | none => n | some s => normIdx n s
  (a, b)

def sliceList (l : List α) (start stop : Option Int) : List α :=
  let (a, b) := sliceBounds l.length start stop
  pySlice l a b

/-- `h[start:stop]` -/
def getSlice (fo : FloatOps) (h : H1) (start stop : Option Int) : H1 :=
  let n := h.freq.length
  -- `if index.start:` / `if index.stop:` — a bound that is `None` *or 0* adds nothing
  let cutL : Rat := match start with
    | none => 0
    | some s => if s = 0 then 0 else (sliceList h.freq none (some s)).sum
  let cutR : Rat := match stop with
    | none => 0
    | some s => if s = 0 then 0 else (sliceList h.freq (some s) none).sum
  let _ := n
  { binning := .static (sliceList (h.bins fo) start stop) h.binning.ire
    freq := sliceList h.freq start stop
    err2 := sliceList h.err2 start stop
    under := if h.keep then nadd h.underflow (some cutL) else some 0
    over := if h.keep then nadd h.overflow (some cutR) else some 0
    inner := some 0
    keep := h.keep, dtype := h.dtype, stats := Stats.invalid }

/-- `h[mask]` / `h[index_array]` given the increasing, duplicate-free list of selected bins -/
def getIndices (fo : FloatOps) (h : H1) (idx : List Nat) : H1 :=
  let pick {α} (l : List α) : List α := idx.filterMap (l[·]?)
  { binning := .static (pick (h.bins fo)) h.binning.ire
    freq := pick h.freq, err2 := pick h.err2
    under := some 0, over := some 0, inner := some 0
    keep := false, dtype := h.dtype, stats := Stats.invalid }

/-- `np.unique(np.arange(n)[index])` for an integer index array; refuse out-of-range entries -/
def normIndexArray (n : Nat) (idx : List Int) : R (List Nat) := do
  let norm ← idx.mapM fun (i : Int) =>
    if 0 ≤ i ∧ i < (n : Int) then (pure i.toNat : R Nat)
    else if i < 0 ∧ -(n : Int) ≤ i then pure (i + (n : Int)).toNat
    else throw "index out of range"
  pure ((List.range n).filter fun j => norm.contains j)

def isIntegral (q : Rat) : Bool := q.den == 1

/-- every value lies in the representable range of the target dtype -/
def fitsRange (vals : List Rat) (d : DType) : Bool :=
  match d.intRange with
  | some (lo, hi) => vals.all fun x => decide ((lo : Rat) ≤ x) && decide (x ≤ (hi : Rat))
  | none =>
    match d.floatMax with
    | some m => vals.all fun x => decide (-m ≤ x) && decide (x ≤ m)
    | none => true

/-- the decision of `set_dtype(value)` (`check=True`): a safe cast, or — for an integer target from
    a float type — all contents and squared errors integral, and in every other case all of them
    inside the target's range -/
def setDTypeOk (h : H1) (d : DType) : Bool :=
  d == h.dtype || h.dtype.canCast d ||
    ((!(d.isInt && !h.dtype.isInt) || (h.freq ++ h.err2).all isIntegral) && fitsRange (h.freq ++ h.err2) d)

/-- `ndarray.astype(int)` on a missed slot: truncation toward zero (NaN stays NaN) -/
def truncN (d : DType) (a : NRat) : NRat := if d.isInt then a.map fun q => ((q.num.tdiv q.den : Int) : Rat) else a

/-- `set_dtype(value)`: validate first, convert afterwards -/
def setDType (h : H1) (d : DType) : R H1 :=
  if setDTypeOk h d then
    pure { h with dtype := d, under := truncN d h.under, over := truncN d h.over, inner := truncN d h.inner }
  else throw "dtype change refused"

/-- `h.frequencies = values` (the public property setter) with an array of element type `k`: shape and sign are
    validated, the content type is promoted to hold the assigned values (`_as_contents`), the values are stored.
    Squared errors, missed counts and statistics are not touched. -/
def setFreq (h : H1) (vals : List Rat) (k : DType) : R H1 := do
  if vals.length != h.freq.length then throw "shape"
  if vals.any (· < 0) then throw "negative frequencies"
  pure { h.coerce k with freq := vals }

/-- `h.errors2 = values` (the public property setter) -/
def setErr2 (h : H1) (vals : List Rat) (k : DType) : R H1 := do
  if vals.length != h.err2.length then throw "shape"
  if vals.any (· < 0) then throw "negative errors"
  pure { h.coerce k with err2 := vals }

/-- `copy(include_frequencies=…)` -/
def copy (h : H1) (withFreq : Bool) : H1 :=
  if withFreq then h
  else { h with freq := zeros h.freq.length, err2 := zeros h.err2.length,
                under := some 0, over := some 0, inner := some 0, stats := Stats.empty }

/-- `Histogram1D(binning, frequencies, errors2, underflow=…, …)` from bare arrays -/
def ofArrays (fo : FloatOps) (b : Binning) (freq : List Rat) (err2 : Option (List Rat))
    (under over inner : NRat) (keep : Bool) (dtype : DType) : R H1 := do
  let n := (b.bins fo).length
  if freq.length != n then throw "shape"
  if freq.any (· < 0) then throw "negative frequencies"
  let e := err2.getD (freq.map fun x => if x < 0 then -x else x)
  if e.length != n then throw "shape"
  if e.any (· < 0) then throw "negative errors"
  pure { binning := b, freq := freq, err2 := e,
         under := if keep then under else some 0, over := if keep then over else some 0,
         inner := if keep then inner else some 0, keep := keep, dtype := dtype,
         stats := Stats.invalid }

/-- the members' sum of contents in every bin (`HistogramCollection.sum().frequencies`) -/
def binSums (hs : List H1) : List Rat :=
  match hs with
  | [] => []
  | h :: _ => (List.range h.freq.length).map fun i => (hs.map fun m => m.freq[i]?.getD 0).sum

/-- `HistogramCollection.normalize_bins`: every member becomes a float histogram whose contents are
    divided by the members' sum in that bin and whose squared errors by the square of that sum
    (a bin that is empty in all members divides by zero: numpy yields NaN there, the model `x / 0 = 0`;
    the harness does not compare such bins). -/
def normalizeBins (hs : List H1) : List H1 :=
  let s := binSums hs
  hs.map fun h => { h with dtype := .f64,
                           freq := List.zipWith (· / ·) h.freq s,
                           err2 := List.zipWith (fun e x => e / (x * x)) h.err2 s }

end H1
end Physt

import Physt.Model.Grid
/-!
# IEEE-double instance of `FloatOps` (used by the driver only; no theorem depends on it)

Lean's `Float` is IEEE binary64 and agrees bit for bit with numpy for `* + - / floor`
(measured, DESIGN §4.2).  Doubles cross the boundary as exact rationals.
-/
namespace Physt

/-- exact value of a finite double -/
def floatToRat (f : Float) : Rat :=
  let b : Nat := f.toBits.toNat
  let neg : Bool := b / 2 ^ 63 % 2 == 1
  let e : Nat := b / 2 ^ 52 % 2 ^ 11
  let m : Nat := b % 2 ^ 52
  let mag : Rat :=
    if e = 0 then (m : Rat) / ((2 : Rat) ^ 1074)
    else
      let mant : Nat := 2 ^ 52 + m
      if e ≥ 1075 then ((mant * 2 ^ (e - 1075) : Nat) : Rat)
      else (mant : Rat) / ((2 : Rat) ^ (1075 - e))
  if neg then -mag else mag

def stripTwos : Nat → Nat → Nat × Nat
  | 0, _ => (0, 0)
  | n + 1, fuel =>
    match fuel with
    | 0 => (n + 1, 0)
    | fuel + 1 => if (n + 1) % 2 = 0 then let (m, t) := stripTwos ((n + 1) / 2) fuel; (m, t + 1) else (n + 1, 0)

/-- the double equal to `q` when `q` is (the exact value of) a double; correctly rounded
    quotient otherwise -/
def ratToFloat (q : Rat) : Float :=
  let n := q.num.natAbs
  let (m, t) := stripTwos n 2000
  let (d, k) := stripTwos q.den 2000
  let x := if d = 1 then (Float.ofNat m).scaleB ((t : Int) - (k : Int))
           else Float.ofNat n / Float.ofNat q.den
  if q.num < 0 then -x else x

def FloatOps.ieee : FloatOps where
  edge w s k := floatToRat (Float.ofInt k * ratToFloat w + ratToFloat s)
  est w s v :=
    let q := Float.floor ((ratToFloat v - ratToFloat s) / ratToFloat w)
    (floatToRat q).floor
  shiftOf w k v := floatToRat (ratToFloat v - Float.ofInt k * ratToFloat w)

end Physt

import Physt.Model.DType
/-!
# The dtype machine (model of what physt does to the *three* content types of a histogram)

`Model/Hist1D.lean` and `Model/HistND.lean` carry one `dtype` field per histogram, so the first
sentence of C13 — *the dtype a histogram reports is the element type of its `frequencies` and of
its `errors2`* — cannot even be stated there.  This file follows the real code
(`histogram_base.py`, `histogram1d.py`, `histogram_nd.py`, `_construction.py`) on types only:

* `reported` — `h._dtype` (what `h.dtype` returns),
* `freq`     — `h._frequencies.dtype`,
* `err2`     — `h._errors2.dtype`,
* `missed`   — `h._missed.dtype`, with `missedNaN` = "`_missed` holds a NaN" (the code refuses to
  cast a NaN-holding `_missed` to an integer type, so the flag is part of the type behaviour).

Every assignment in the code is one of: `x.astype(d)` (type `d`), an in-place update `x += …` /
`x[i] += …` / `x /= …` (type of `x` unchanged), or a fresh numpy expression whose result type
follows numpy's rules, tabulated below.

Three versions of the code are covered by two switches (`Cfg`):
* `Cfg.d3f2ae4` — commit d3f2ae4: **the `frequencies` / `errors2` property setters do
  `np.asarray(values)` without a dtype**, i.e. they store whatever type the expression produced;
  `HistogramND.accumulate` stores `np.cumsum(…)` directly in `_frequencies`.
* `castOnAssign := true` — commit b8bc97c: the setters go through `_as_contents`, which promotes
  the histogram (`_coerce_dtype`) to hold the assigned array and stores it in the content type.
* `accumulateViaSetter := true` — commit 997ef1a: `accumulate` assigns through the setter.
  `Cfg.current` (both on) is the code at 57bdc7e.

numpy rules used (numpy 2, NEP 50; all seven supported dtypes, compared with numpy 2.5.3):
* `promote a b` — `np.promote_types`; result type of `array ⊗ array` and of `array ⊗ numpy scalar`
  for `+ - *` (numpy scalars are *strongly* typed under NEP 50).
* `weakFloat a` — `array ⊗ python float` (weak scalar): an integer array becomes float64, a float
  array keeps its type.  `array ⊗ python int` keeps the array's type.
* `divType a c` — `array / c` (`np.true_divide`): integer / integer is float64, otherwise as `*`.
* `sumType a` — `np.sum(axis=…)` / `np.cumsum` of an array: int16 and int32 accumulate in int64.
-/
namespace Physt
open DType

namespace DType

/-- `array ⊗ python float` under NEP 50 weak-scalar promotion -/
def weakFloat (a : DType) : DType := if a.isInt then f64 else a

/-- accumulator type of `ndarray.sum(axis=…)` / `np.cumsum` (integers narrower than the platform
    integer are summed in int64) -/
def sumType : DType → DType
  | i16 | i32 => i64
  | d => d

end DType

/-- What a weight / factor / divisor is: a python `int`, a python `float`, or a numpy scalar of a
    supported dtype. -/
inductive DScalar
  | pyInt | pyFloat | np (k : DType)
  deriving DecidableEq, Repr, Inhabited

namespace DScalar

/-- `np.dtype(type(x))` = `np.asarray(x).dtype`: what `_coerce_dtype` is called with -/
def dtype : DScalar → DType
  | pyInt => i64
  | pyFloat => f64
  | np k => k

/-- result type of `array * x` (and `array + x`, `array - x`) for an array of type `a` -/
def mulType (a : DType) : DScalar → DType
  | pyInt => a
  | pyFloat => a.weakFloat
  | np k => promote a k

/-- result type of `array / x` for an array of type `a` -/
def divType (a : DType) : DScalar → DType
  | pyInt => a.weakFloat
  | pyFloat => a.weakFloat
  | np k => if a.isInt && k.isInt then f64 else promote a k

def name : DScalar → String
  | pyInt => "py:int"
  | pyFloat => "py:float"
  | np k => "np:" ++ k.name

end DScalar

/-- Which version of the code.  `castOnAssign`: the `frequencies` / `errors2` setters cast to the
    content type, promoting it if necessary (`_as_contents`, b8bc97c) instead of storing
    `np.asarray(values)` as it comes.  `accumulateViaSetter`: `accumulate` assigns through the
    setter (997ef1a) instead of writing `_frequencies`. -/
structure Cfg where
  castOnAssign : Bool
  accumulateViaSetter : Bool
  deriving DecidableEq, Repr

/-- before both repairs -/
def Cfg.d3f2ae4 : Cfg := ⟨false, false⟩
/-- with the repaired setters only -/
def Cfg.b8bc97c : Cfg := ⟨true, false⟩
/-- the code at 57bdc7e: both repairs -/
def Cfg.current : Cfg := ⟨true, true⟩

/-- The four types (and the NaN flag of `_missed`) of one histogram. -/
structure DState where
  reported : DType
  freq : DType
  err2 : DType
  missed : DType
  missedNaN : Bool
  deriving DecidableEq, Repr, Inhabited

namespace DState

/-- the tail of `set_dtype`: `_dtype = v`, `astype(v)` on the three arrays — except that a
    `_missed` holding NaN is not cast to an integer type -/
def setAll (s : DState) (v : DType) : DState :=
  { s with reported := v, freq := v, err2 := v,
           missed := if v.isInt && s.missedNaN then s.missed else v }

/-- `set_dtype(d)` / `h.dtype = d`.  `fit` is the outcome of the value checks (all contents and
    squared errors integral if needed, and within range), which are consulted only when
    `np.can_cast(self.dtype, d)` is false. -/
def setDType (s : DState) (d : DType) (fit : Bool) : DState :=
  if d = s.reported then s
  else if canCast s.reported d || fit then s.setAll d
  else s

/-- does `set_dtype(d)` go through? -/
def setDTypeAccepted (s : DState) (d : DType) (fit : Bool) : Bool :=
  d = s.reported || canCast s.reported d || fit

/-- `_coerce_dtype(k)` -/
def coerce (s : DState) (k : DType) : DState :=
  let n := promote s.reported k
  if n = s.reported then s else s.setAll n

/-- `self.frequencies = <array of type t>` -/
def assignFreq (cfg : Cfg) (s : DState) (t : DType) : DState :=
  if cfg.castOnAssign then
    if t = s.reported then { s with freq := t }
    else
      let s' := s.coerce t
      { s' with freq := s'.reported }
  else { s with freq := t }

/-- `self.errors2 = <array of type t>` -/
def assignErr2 (cfg : Cfg) (s : DState) (t : DType) : DState :=
  if cfg.castOnAssign then
    if t = s.reported then { s with err2 := t }
    else
      let s' := s.coerce t
      { s' with err2 := s'.reported }
  else { s with err2 := t }

/-- `_reshape_data` with a bin map: both new arrays are `np.zeros(…, dtype=self._frequencies.dtype)` -/
def reshape (s : DState) : DState := { s with err2 := s.freq }

/-- `HistogramBase.__init__` (+ the `_missed` of `Histogram1D.__init__` / `HistogramND.__init__`).
    `arr` = type of the `frequencies` argument if there is one (for the facades `h1` / `h`: the
    type of the weights, int64 without weights), `explicit` = the `dtype=` argument,
    `nanMissed` = a 1-D histogram keeping missed values is given a NaN under/overflow. -/
def construct (arr explicit : Option DType) (nanMissed : Bool) : DState :=
  let d := match explicit with
    | some d => d
    | none => match arr with
      | some t => t
      | none => i64
  { reported := d, freq := d, err2 := d,
    missed := if nanMissed && d.isInt then f64 else d, missedNaN := nanMissed }

/-- `calculate_1d_frequencies` / `calculate_nd_frequencies`: "Integer histogram requested but
    float weights entered." -/
def constructRefused (weights explicit : Option DType) : Bool :=
  match weights, explicit with
  | some w, some d => d.isInt && !w.isInt
  | _, _ => false

end DState

/-- One constructor per kind of operation.  Operands that are histograms are given by their
    `DState`. -/
inductive DOp
  /-- `Histogram1D(bins, freq[, errors2], dtype=…)`, `h1(data, weights=…, dtype=…)`, `h(…)` -/
  | construct (arr explicit : Option DType) (nanMissed : Bool)
  /-- `h.fill(v, weight=w)`; `reshaped`: an adaptive binning grew; `gap`: 1-D, `v` fell between
      inconsecutive bins and missed values are kept (under/overflow become NaN) -/
  | fill (w : DScalar) (reshaped gap : Bool)
  /-- `h.fill_n(vs, weights=array of type w)`; `nd`: `HistogramND` (coerces before reshaping);
      `gap`: 1-D with inconsecutive bins keeping missed values (`calculate_1d_frequencies` then
      returns NaN under/overflow, which are added to `_missed`) -/
  | fillN (w : Option DType) (reshaped nd gap : Bool)
  /-- `h += o` / `h + o`; `adaptive`: different bins, both sides reshaped to the common bins -/
  | add (o : DState) (adaptive : Bool)
  /-- `h -= o` / `h - o` (without `free_arithmetics`) -/
  | sub (o : DState)
  /-- `h *= c` / `h * c` / `c * h` -/
  | mul (c : DScalar)
  /-- `h /= c` / `h / c` -/
  | div (c : DScalar)
  /-- `h.normalize(inplace=…)` -/
  | normalize (inplace : Bool)
  /-- `h.merge_bins(…)` (any axis / all axes, in place or not) -/
  | merge
  /-- `_change_binning` / `_reshape_data` alone -/
  | reshape
  /-- `h.dtype = d` / `h.set_dtype(d)`; `fit`: the value checks pass -/
  | setDType (d : DType) (fit : Bool)
  /-- `h.copy(include_frequencies=withFreq)` -/
  | copy (withFreq : Bool)
  /-- `HistogramND.projection(…)` -/
  | projection
  /-- `Histogram1D.__getitem__` (slice / mask / index list), `Histogram1D.select(0, …)`;
      `keepMissed`: a slice of a histogram that keeps missed values -/
  | select1D (keepMissed : Bool)
  /-- `HistogramND.select(axis, int)` -/
  | selectNDInt
  /-- `HistogramND.select(axis, slice)`, `Histogram2D.T` -/
  | selectNDSlice
  /-- `HistogramND.accumulate(axis)` -/
  | accumulate
  /-- `Histogram2D.partial_normalize(axis)` -/
  | partialNormalize
  /-- an operation refused *after* its `_coerce_dtype(k)`: `h *= -1.5` and `h -= bigger`
      ("Cannot have negative frequencies" is raised by the setter), an adaptive `+=` whose
      bins cannot be adapted -/
  | refusedAfterCoerce (k : DType)
  deriving DecidableEq, Repr, Inhabited

namespace DState

/-- `__imul__` with a scalar -/
def mulStep (cfg : Cfg) (s : DState) (c : DScalar) : DState :=
  let s1 := s.coerce c.dtype
  let s2 := s1.assignFreq cfg (c.mulType s1.freq)
  let s3 := s2.assignErr2 cfg (c.mulType s2.err2)      -- `scalar**2` has the kind / dtype of `scalar`
  { s3 with missed := c.mulType s3.missed }

/-- `__itruediv__` with a scalar: `_coerce_dtype(np.float64)`, then `frequencies / other`,
    `errors2 / other**2`, `_missed /= other` (in place) -/
def divStep (cfg : Cfg) (s : DState) (c : DScalar) : DState :=
  let s1 := s.coerce f64
  let s2 := s1.assignFreq cfg (c.divType s1.freq)
  s2.assignErr2 cfg (c.divType s2.err2)

/-- the python scalar `self.total` = `self._frequencies.sum().item()` -/
def totalKind (s : DState) : DScalar := if s.freq.isInt then .pyInt else .pyFloat

/-- `__iadd__` with a histogram -/
def addStep (cfg : Cfg) (s o : DState) (adaptive : Bool) : DState :=
  let s1 := s.coerce o.reported
  if adaptive then
    let s2 := s1.reshape
    let o2 := o.reshape
    let s3 := s2.assignFreq cfg (promote s2.freq o2.freq)
    s3.assignErr2 cfg (promote s3.err2 o2.err2)
  else
    let s2 := s1.assignFreq cfg (promote s1.freq o.freq)
    let s3 := s2.assignErr2 cfg (promote s2.err2 o.err2)
    { s3 with missed := promote s3.missed o.missed, missedNaN := s3.missedNaN || o.missedNaN }

/-- `__isub__` with a histogram: both results are stored `.astype(self.dtype)` -/
def subStep (cfg : Cfg) (s o : DState) : DState :=
  let s1 := s.coerce o.reported
  let s2 := s1.assignFreq cfg s1.reported
  let s3 := s2.assignErr2 cfg s2.reported
  { s3 with missed := promote s3.missed o.missed, missedNaN := s3.missedNaN || o.missedNaN }

/-- a new histogram built by the constructor from arrays of type `d` (no NaN missed) -/
def fresh (d : DType) : DState :=
  { reported := d, freq := d, err2 := d, missed := d, missedNaN := false }

/-- `_set_missed(i, nan)`: "NaN (= unknown) cannot be stored in an integer array" —
    `self._missed = self._missed.astype(float)` -/
def missNaN (s : DState) : DState :=
  { s with missedNaN := true, missed := if s.missed.isInt then f64 else s.missed }

def step (cfg : Cfg) (s : DState) : DOp → DState
  | .construct arr explicit nanMissed => construct arr explicit nanMissed
  | .fill w reshaped gap =>
      let s1 := s.coerce w.dtype
      let s2 := if reshaped then s1.reshape else s1
      -- `_frequencies[i] += w`, `_errors2[i] += w**2`, `underflow += w`: in place
      if gap then s2.missNaN else s2
  | .fillN w reshaped nd gap =>
      let co (x : DState) : DState := match w with
        | some k => x.coerce k
        | none => x
      let rs (x : DState) : DState := if reshaped then x.reshape else x
      -- `_frequencies += …`, `_errors2 += …`: in place
      let s1 := if nd then rs (co s) else co (rs s)
      if gap then s1.missNaN else s1
  | .add o adaptive => s.addStep cfg o adaptive
  | .sub o => s.subStep cfg o
  | .mul c => s.mulStep cfg c
  | .div c => s.divStep cfg c
  | .normalize inplace =>
      -- in place: `self /= self.total * 1`; else `self / self.total * 1` (or `* 100`)
      let s1 := s.divStep cfg s.totalKind
      if inplace then s1 else s1.mulStep cfg .pyInt
  | .merge => s.reshape
  | .reshape => s.reshape
  | .setDType d fit => s.setDType d fit
  | .copy withFreq => { s with missedNaN := s.missedNaN && withFreq }
  | .projection => fresh s.freq.sumType     -- `frequencies.sum(axis=…)`, then the constructor without `dtype=`
  | .select1D keepMissed =>
      let nan := keepMissed && s.missedNaN
      { reported := s.reported, freq := s.reported, err2 := s.reported,
        missed := if nan && s.reported.isInt then f64 else s.reported, missedNaN := nan }
  | .selectNDInt => fresh s.freq
  | .selectNDSlice => s
  | .accumulate =>
      if cfg.accumulateViaSetter then s.assignFreq cfg s.freq.sumType   -- `new_one.frequencies = np.cumsum(…)`
      else { s with freq := s.freq.sumType }                            -- `new_one._frequencies = np.cumsum(…)`
  | .partialNormalize => s.coerce f64                  -- then `/=` in place
  | .refusedAfterCoerce k => s.coerce k

/-- replay a history -/
def run (cfg : Cfg) (s : DState) (ops : List DOp) : DState := ops.foldl (step cfg) s

/-- the states after every operation -/
def trace (cfg : Cfg) (s : DState) : List DOp → List DState
  | [] => []
  | op :: ops => step cfg s op :: trace cfg (step cfg s op) ops

/-- `(h.dtype, h.frequencies.dtype, h.errors2.dtype)` -/
def triple (s : DState) : String :=
  s.reported.name ++ " " ++ s.freq.name ++ " " ++ s.err2.name

def toString (s : DState) : String :=
  s.triple ++ " " ++ s.missed.name ++ " " ++ (if s.missedNaN then "1" else "0")

instance : ToString DState := ⟨DState.toString⟩

end DState

/-! ## A line format for drivers

`<op> <args…>`, dtypes by numpy name, scalars `py:int` / `py:float` / `np:<dtype>`, optional
dtypes `none` or a name, booleans `0` / `1`, a histogram operand as the five fields printed by
`DState.toString`. -/
namespace DOp

private def bool? : String → Option Bool
  | "0" => some false
  | "1" => some true
  | _ => none

private def optD? (s : String) : Option (Option DType) :=
  if s == "none" then some none else (DType.ofName? s).map some

private def scalar? (s : String) : Option DScalar :=
  if s == "py:int" then some .pyInt
  else if s == "py:float" then some .pyFloat
  else if s.startsWith "np:" then (DType.ofName? (s.drop 3).toString).map DScalar.np
  else none

private def state? : List String → Option DState
  | [a, b, c, d, e] => do
      pure { reported := ← DType.ofName? a, freq := ← DType.ofName? b, err2 := ← DType.ofName? c,
             missed := ← DType.ofName? d, missedNaN := ← bool? e }
  | _ => none

def ofWords? : List String → Option DOp
  | ["construct", a, e, n] => do pure (.construct (← optD? a) (← optD? e) (← bool? n))
  | ["fill", w, r, g] => do pure (.fill (← scalar? w) (← bool? r) (← bool? g))
  | ["fill_n", w, r, n, g] => do pure (.fillN (← optD? w) (← bool? r) (← bool? n) (← bool? g))
  | ["add", a, b, c, d, e, ad] => do pure (.add (← state? [a, b, c, d, e]) (← bool? ad))
  | ["sub", a, b, c, d, e] => do pure (.sub (← state? [a, b, c, d, e]))
  | ["mul", c] => do pure (.mul (← scalar? c))
  | ["div", c] => do pure (.div (← scalar? c))
  | ["normalize", i] => do pure (.normalize (← bool? i))
  | ["merge"] => some .merge
  | ["reshape"] => some .reshape
  | ["set_dtype", d, f] => do pure (.setDType (← DType.ofName? d) (← bool? f))
  | ["copy", w] => do pure (.copy (← bool? w))
  | ["projection"] => some .projection
  | ["select1d", k] => do pure (.select1D (← bool? k))
  | ["select_nd_int"] => some .selectNDInt
  | ["select_nd_slice"] => some .selectNDSlice
  | ["accumulate"] => some .accumulate
  | ["partial_normalize"] => some .partialNormalize
  | ["refused_after_coerce", k] => do pure (.refusedAfterCoerce (← DType.ofName? k))
  | _ => none

def parse? (line : String) : Option DOp :=
  ofWords? ((line.splitOn " ").filter (· ≠ ""))

end DOp

/-- replay a text history (one operation per line; the first is normally a `construct`) and
    print the state after every line; `none` if a line does not parse -/
def DState.replay (cfg : Cfg) (s : DState) (lines : List String) : Option (List String) := do
  let ops ← lines.mapM DOp.parse?
  pure ((DState.trace cfg s ops).map DState.toString)

end Physt

import Physt.Model.Hist1D
import Physt.Model.NDArray
/-!
# N-dimensional histograms (model of `HistogramND`, `Histogram2D`, `calculate_nd_frequencies`)
-/
namespace Physt

/-- numpy-bin index of `x` among all masked edges `es` (`searchsorted(es, x, "right") - 1`), with
    `histogramdd`'s rule that a point on the rightmost edge belongs to the last bin, and `+inf`
    appended to the edges when the binning does not include its right edge. -/
def numpyBinOf (es : List Rat) (ire : Bool) (x : Rat) : Option Nat :=
  let k := (es.filter fun e => decide (e ≤ x)).length
  if k = 0 then none
  else if k = es.length then
    -- x ≥ last edge
    if ire ∧ es.getLast? = some x ∧ 2 ≤ es.length then some (es.length - 2) else none
  else some (k - 1)

/-- the bin of `x` along one axis, as `calculate_nd_frequencies` finds it:
    `to_numpy_bins_with_mask` + `histogramdd` + `ix_(mask)` -/
def axisCell (bins : Bins) (ire : Bool) (x : Rat) : Option Nat :=
  let (es, mask) := maskedEdges bins
  match numpyBinOf es ire x with
  | none => none
  | some nb => let i := mask.idxOf nb; if i < mask.length then some i else none

/-- the abstract spec of the same thing -/
def inBinAxis (bins : Bins) (ire : Bool) (i : Nat) (x : Rat) : Bool := inBin bins ire i x

abbrev Row := List Rat × Rat   -- coordinates, weight

/-- rows after the NaN mask (a row with any NaN is dropped together with its weight) -/
def maskRows : List (List (Option Rat)) → Option (List Rat) → List Row
  | [], _ => []
  | r :: rs, none =>
    if r.all Option.isSome then (r.filterMap id, 1) :: maskRows rs none else maskRows rs none
  | r :: rs, some (w :: ws) =>
    if r.all Option.isSome then (r.filterMap id, w) :: maskRows rs (some ws) else maskRows rs (some ws)
  | _ :: _, some [] => []

def rowCell (axes : List (Bins × Bool)) (row : List Rat) : Option (List Nat) :=
  (axes.zip row).mapM fun (a, x) => axisCell a.1 a.2 x

structure CalcND where
  freq : Arr
  err2 : Arr
  missing : Rat
  deriving Repr

/-- `calculate_nd_frequencies` -/
def calcND (axes : List (Bins × Bool)) (rows : List Row) : CalcND :=
  let shape := axes.map (·.1.length)
  let cells := rows.map fun r => (rowCell axes r.1, r.2)
  let f := Arr.ofFn shape fun idx => ((cells.filter fun c => c.1 == some idx).map (·.2)).sum
  let e := Arr.ofFn shape fun idx => ((cells.filter fun c => c.1 == some idx).map fun c => c.2 * c.2).sum
  { freq := f, err2 := e, missing := (rows.map (·.2)).sum - f.total }

structure HN where
  axes : List Binning
  freq : Arr
  err2 : Arr
  missed : NRat := some 0
  keep : Bool := true
  dtype : DType := .i64
  names : List String := []
  deriving DecidableEq, Repr, Inhabited

namespace HN

def axesBins (fo : FloatOps) (h : HN) : List (Bins × Bool) := h.axes.map fun b => (b.bins fo, b.ire)
def shape (fo : FloatOps) (h : HN) : List Nat := h.axes.map fun b => (b.bins fo).length
def ndim (h : HN) : Nat := h.axes.length
def total (h : HN) : Rat := h.freq.total
def coerce (h : HN) (d : DType) : HN := { h with dtype := h.dtype.promote d }
def defaultNames (n : Nat) : List String := (List.range n).map fun i => s!"axis{i}"

/-- `HistogramND(binnings, keep_missed=…, dtype=…)` -/
def empty (fo : FloatOps) (axes : List Binning) (keep : Bool) (dtype : Option DType) (names : Option (List String)) : HN :=
  let shape := axes.map fun b => (b.bins fo).length
  { axes := axes, freq := Arr.zeros shape, err2 := Arr.zeros shape, keep := keep,
    dtype := dtype.getD .i64, names := names.getD (defaultNames axes.length) }

/-- `h(data, bins, weights=…)` for explicit per-axis binnings -/
def construct (fo : FloatOps) (axes : List Binning) (rows : List (List (Option Rat)))
    (ws : Option (List Rat)) (wkind : DType) (dropna : Bool) (names : Option (List String)) : R HN := do
  if rows.any fun r => r.length != axes.length then throw "wrong number of columns"
  if !dropna && rows.any (fun r => r.any Option.isNone) then throw "NaN with dropna=False"
  match ws with
  | some w => if w.length != rows.length then throw "weights shape"
  | none => pure ()
  if axes.any fun b => !risingB (b.bins fo) then throw "bins not rising"
  let data := maskRows rows ws
  let c := calcND (axes.map fun b => (b.bins fo, b.ire)) data
  let dt : DType := if ws.isSome then wkind else .i64
  pure { axes := axes, freq := c.freq, err2 := c.err2, missed := some c.missing, keep := true, dtype := dt,
         names := names.getD (defaultNames axes.length) }

/-- `find_bin(value, axis)` (honours the right-edge rule of the axis binning) -/
def findBinAxis (bins : Bins) (ire : Bool) (v : Rat) : Option Nat :=
  let n := bins.length
  let ix := (bins.filter fun b => decide (b.1 ≤ v)).length
  if ix = 0 then none
  else match bins[ix - 1]? with
    | none => none
    | some (_, r) =>
      if ix = n then (if v < r ∨ (v = r ∧ ire) then some (ix - 1) else none)
      else if v < r then some (ix - 1) else none

def findBin (fo : FloatOps) (h : HN) (v : List Rat) : Option (List Nat) :=
  ((h.axesBins fo).zip v).mapM fun (a, x) => findBinAxis a.1 a.2 x

/-- apply a reshape along one axis of both arrays -/
def reshapeAxis (a : Arr) (axis newN : Nat) : Grid.Reshape → Arr
  | .noChange => a
  | .fresh => Arr.zeros (Arr.setAt a.shape axis newN)
  | .shift k => a.shiftAxis axis k newN

/-- grow every adaptive axis so that the given coordinates fit -/
def adaptAxes (fo : FloatOps) (fuel : Nat) (h : HN) (cols : List (List Rat)) (single : Bool) : HN :=
  (List.range h.axes.length).foldl (fun h i =>
    match h.axes[i]?, cols[i]? with
    | some (Binning.fixed g), some vs =>
      if g.adaptive then
        let (g', r) := if single then
            match vs with
            | [v] => g.forceSingle fo fuel v g.ire
            | _ => (g, .noChange)
          else g.forceMany fo fuel vs g.ire
        { h with axes := h.axes.set i (.fixed g'), freq := reshapeAxis h.freq i g'.count r,
                 err2 := reshapeAxis h.err2 i g'.count r }
      else h
    | _, _ => h) h

def addAtIdx (a : Arr) (idx : List Nat) (x : Rat) : Arr :=
  { a with data := a.data.modify (ravel a.shape idx) (· + x) }

/-- `fill(value, weight)`; a value with a NaN coordinate is skipped -/
def fill (fo : FloatOps) (fuel : Nat) (h : HN) (value : List (Option Rat)) (w : Rat) (wk : H1.NumKind) :
    HN × Option (Option (List Nat)) :=
  if value.any Option.isNone then (h, none)
  else
    let v := value.filterMap id
    let h := h.coerce wk.dtype
    let h := h.adaptAxes fo fuel (v.map fun x => [x]) true
    match h.findBin fo v with
    | none => (if h.keep then { h with missed := nadd h.missed (some w) } else h, some none)
    | some idx => ({ h with freq := addAtIdx h.freq idx w, err2 := addAtIdx h.err2 idx (w * w) }, some (some idx))

def transposeCols (rows : List (List Rat)) (d : Nat) : List (List Rat) :=
  (List.range d).map fun i => rows.filterMap (·[i]?)

/-- `fill_n(values, weights)` with `dropna=True` -/
def fillN (fo : FloatOps) (fuel : Nat) (h : HN) (rows : List (List (Option Rat))) (ws : Option (List Rat))
    (wkind : DType) : R HN := do
  if rows.any fun r => r.length != h.axes.length then throw "wrong number of columns"
  match ws with
  | some w => if w.length != rows.length then throw "weights shape"
  | none => pure ()
  let data := maskRows rows ws
  let h := if ws.isSome then h.coerce wkind else h
  let h := h.adaptAxes fo fuel (transposeCols (data.map (·.1)) h.axes.length) false
  let c := calcND (h.axesBins fo) data
  pure { h with freq := Arr.zipWith (· + ·) h.freq c.freq, err2 := Arr.zipWith (· + ·) h.err2 c.err2,
                missed := if h.keep then nadd h.missed (some c.missing) else h.missed }

def sameBins (fo : FloatOps) (a b : HN) : Bool :=
  (a.axes.map (·.bins fo)) == (b.axes.map (·.bins fo))

/-- `__iadd__` -/
def iadd (fo : FloatOps) (h o : HN) : R HN := do
  if h.axes.length != o.axes.length then throw "different dimensions"
  if h.sameBins fo o then
    let h := h.coerce o.dtype
    pure { h with freq := Arr.zipWith (· + ·) h.freq o.freq, err2 := Arr.zipWith (· + ·) h.err2 o.err2,
                  missed := nadd h.missed o.missed }
  else if h.axes.all Binning.isAdaptive then
    match o.missed with
    | some m => if 0 < m then throw "other has missed values"
    | none => pure ()
    if !(o.axes.all Binning.adaptiveAllowed) then throw "other cannot be made adaptive"
    let h := h.coerce o.dtype
    -- find the common grid of every axis first (any failure leaves the contents untouched)
    let plans ← (h.axes.zip o.axes).mapM fun (a, b) =>
      match a, b with
      | .fixed g, .fixed og =>
        if g.bins fo == og.bins fo then pure (g, Grid.Reshape.noChange, Grid.Reshape.noChange)
        else H1.adaptGrids g og
      | _, _ => throw "cannot adapt"
    let step (acc : Arr × Arr × Nat) (p : Grid × Grid.Reshape × Grid.Reshape) (which : Bool) : Arr × Arr × Nat :=
      let (f, e, i) := acc
      let r := if which then p.2.1 else p.2.2
      (reshapeAxis f i p.1.count r, reshapeAxis e i p.1.count r, i + 1)
    let (f1, e1, _) := plans.foldl (fun acc p => step acc p true) (h.freq, h.err2, 0)
    let (f2, e2, _) := plans.foldl (fun acc p => step acc p false) (o.freq, o.err2, 0)
    pure { h with axes := plans.map fun p => .fixed p.1, freq := Arr.zipWith (· + ·) f1 f2,
                  err2 := Arr.zipWith (· + ·) e1 e2 }
  else throw "incompatible binning"

def imul (h : HN) (c : Rat) (k : H1.NumKind) : R HN := do
  let h := h.coerce k.dtype
  let f := h.freq.map (· * c)
  if f.data.any (· < 0) then throw "negative frequencies"
  pure { h with freq := f, err2 := h.err2.map (· * (c * c)), missed := nscale h.missed c }

def idiv (h : HN) (c : Rat) : R HN := do
  if c = 0 then throw "division by zero"
  let h := h.coerce .f64
  let f := h.freq.map (· / c)
  if f.data.any (· < 0) then throw "negative frequencies"
  pure { h with freq := f, err2 := h.err2.map (· / (c * c)), missed := nscale h.missed (1 / c) }

def isub (fo : FloatOps) (h o : HN) : R HN := do
  let o0 ← imul o 0 .pyInt
  let h0 ← imul h 0 .pyInt
  let aS ← iadd fo h o0
  let aO ← iadd fo h0 o
  let h := h.coerce o.dtype
  if aS.freq.shape != h.freq.shape then throw "shape changed"
  let f := Arr.zipWith (· - ·) aS.freq aO.freq
  if f.data.any (· < 0) then throw "negative frequencies"
  pure { h with freq := f, err2 := Arr.zipWith (· + ·) aS.err2 aO.err2, missed := nsub h.missed o.missed }

def normalize (h : HN) (inplace percent : Bool) : R HN :=
  if inplace then idiv h (h.total * (if percent then H1.centiDouble else 1))
  else do
    let d ← idiv h h.total
    imul d (if percent then 100 else 1) .pyInt

/-- `_get_axis` for an index or a name -/
def getAxis (h : HN) (ax : Sum Int String) : R Nat :=
  match ax with
  | .inl i => if 0 ≤ i ∧ i < h.axes.length then pure i.toNat else throw "no such axis"
  | .inr s => match h.names.idxOf s with
    | i => if i < h.names.length then pure i else throw "no such axis name"

def insertSorted (x : Nat) : List Nat → List Nat
  | [] => [x]
  | y :: ys => if x ≤ y then x :: y :: ys else y :: insertSorted x ys

def sortNat (l : List Nat) : List Nat := l.foldr insertSorted []

/-- `projection(*axes)`: kept axes stay in their original order -/
def projection (h : HN) (axes : List (Sum Int String)) : R HN := do
  let ax ← axes.mapM h.getAxis
  if ax.isEmpty then throw "no axis selected"
  if ax.eraseDups.length != ax.length then throw "duplicate axes"
  let keepAx := (List.range h.axes.length).filter fun i => ax.contains i
  let drop := ((List.range h.axes.length).filter fun i => !ax.contains i).reverse
  pure { h with axes := keepAx.filterMap (h.axes[·]?), names := keepAx.filterMap (h.names[·]?),
                freq := h.freq.sumAxes drop, err2 := h.err2.sumAxes drop, missed := some 0,
                keep := true,
                -- `ndarray.sum` accumulates narrow integers in the platform integer
                dtype := if h.dtype.isInt then .i64 else h.dtype }

/-- `select(axis, int)`: the axis and its name disappear -/
def selectInt (h : HN) (axis : Nat) (i : Int) : R HN := do
  let n := h.freq.shape[axis]?.getD 0
  let k : Int := if i < 0 then i + n else i
  if k < 0 ∨ k ≥ n then throw "index out of range"
  pure { h with axes := h.axes.eraseIdx axis, names := h.names.eraseIdx axis,
                freq := h.freq.selectInt axis k.toNat, err2 := h.err2.selectInt axis k.toNat,
                missed := some 0, keep := true }

/-- `select(axis, slice)`: a copy whose axis binning is the static slice -/
def selectSlice (fo : FloatOps) (h : HN) (axis : Nat) (start stop : Option Int) : HN :=
  let n := h.freq.shape[axis]?.getD 0
  let (a, b) := H1.sliceBounds n start stop
  let b := if b < a then a else b
  match h.axes[axis]? with
  | none => h
  | some bn =>
    { h with axes := h.axes.set axis (.static (pySlice (bn.bins fo) a b) bn.ire),
             freq := h.freq.selectSlice axis a b, err2 := h.err2.selectSlice axis a b }

/-- `Histogram2D.T` -/
def transpose (h : HN) : HN :=
  { h with axes := h.axes.reverse, names := h.names.reverse, freq := h.freq.transpose, err2 := h.err2.transpose }

/-- `accumulate(axis)` (errors are left as they are, as in the implementation); `ndarray.cumsum` accumulates
    narrow integers in the platform integer and the content type follows (the result is assigned through
    the `frequencies` setter, which promotes) -/
def accumulate (h : HN) (axis : Nat) : HN :=
  { h with freq := h.freq.cumsum axis, dtype := if h.dtype.isInt then .i64 else h.dtype }

/-- `merge_bins` along one axis with an explicit map -/
def mergeAxisWithMap (fo : FloatOps) (h : HN) (axis : Nat) (map : List Nat) : R HN := do
  if map.isEmpty then throw "empty bin map"      -- `max()` of an empty bin map: an axis without bins
  match h.axes[axis]? with
  | none => throw "no such axis"
  | some bn =>
    let bins := bn.bins fo
    let newBins ← H1.mergeBinsAux (bins.zip map) none
    let ire := bn.ire && (newBins.getLast?.map (·.2) == bins.getLast?.map (·.2))
    pure { h with axes := h.axes.set axis (.static newBins ire),
                  freq := h.freq.mergeAxis axis map newBins.length,
                  err2 := h.err2.mergeAxis axis map newBins.length }

def mergeAxis (fo : FloatOps) (h : HN) (axis : Nat) (amount : Option Nat) (thr : Option Rat) : R HN := do
  let n := h.freq.shape[axis]?.getD 0
  match amount, thr with
  | some a, _ => if a = 0 then throw "amount 0" else mergeAxisWithMap fo h axis (H1.amountMap n a)
  | none, some t =>
    let drop := ((List.range h.axes.length).filter (· != axis)).reverse
    let marg := (h.freq.sumAxes drop).data
    mergeAxisWithMap fo h axis (H1.minFreqMap t marg)
  | none, none => throw "not implemented"

/-- `merge_bins(axis=None)`: all axes, all-or-nothing -/
def mergeAll (fo : FloatOps) (h : HN) (amount : Option Nat) (thr : Option Rat) : R HN :=
  (List.range h.axes.length).foldlM (fun h i => mergeAxis fo h i amount thr) h

/-- `partial_normalize(axis)` of a 2-D histogram: rows / columns with non-zero sum sum to 1 -/
def partialNormalize (h : HN) (axis : Nat) : HN :=
  let h := h.coerce .f64
  match h.freq.shape with
  | [_, _] =>
    let sums := h.freq.sumAxis axis     -- 1-D array over the other axis
    let div (a : Arr) (sq : Bool) : Arr := Arr.ofFn a.shape fun idx =>
      let other := idx[1 - axis]?.getD 0
      let s := sums.get [other]
      let s := if s = 0 then 1 else s
      a.get idx / (if sq then s * s else s)
    { h with freq := div h.freq false, err2 := div h.err2 true }
  | _ => h

def setDType (h : HN) (d : DType) : R HN := do
  let tmp : H1 := { binning := .static [] true, freq := h.freq.data, err2 := h.err2.data, dtype := h.dtype }
  let r ← tmp.setDType d
  pure { h with dtype := r.dtype }

def copy (h : HN) (withFreq : Bool) : HN :=
  if withFreq then h
  else { h with freq := Arr.zeros h.freq.shape, err2 := Arr.zeros h.err2.shape, missed := some 0 }

/-- `HistogramND(binnings, frequencies, errors2=…, missed=…)` from bare arrays -/
def ofArrays (fo : FloatOps) (axes : List Binning) (freq : List Rat) (err2 : Option (List Rat)) (missed : NRat)
    (keep : Bool) (dtype : DType) (names : Option (List String)) : R HN := do
  let shape := axes.map fun b => (b.bins fo).length
  if freq.length != prodL shape then throw "shape"
  if freq.any (· < 0) then throw "negative frequencies"
  let e := err2.getD (freq.map fun x => if x < 0 then -x else x)
  if e.length != prodL shape then throw "shape"
  if e.any (· < 0) then throw "negative errors"
  match names with
  | some ns => if ns.length != axes.length then throw "axis names" else pure ()
  | none => pure ()
  pure { axes := axes, freq := { shape := shape, data := freq }, err2 := { shape := shape, data := e },
         missed := missed, keep := keep, dtype := dtype, names := names.getD (defaultNames axes.length) }

end HN
end Physt

/-!
# Statistics record (model of `physt/statistics.py`)
-/
namespace Physt

/-- `Statistics`: running sums of the raw data.  `valid = false` is `INVALID_STATISTICS`
    (every number NaN).  `min = none` is `+inf`, `max = none` is `-inf` (nothing entered yet);
    `median = none` is NaN. -/
structure Stats where
  valid : Bool := true
  sum : Rat := 0
  sum2 : Rat := 0
  min : Option Rat := none
  max : Option Rat := none
  weight : Rat := 0
  median : Option Rat := none
  deriving DecidableEq, Repr, Inhabited

namespace Stats

def invalid : Stats := { valid := false }
def empty : Stats := {}

def minO (a b : Option Rat) : Option Rat :=
  match a, b with
  | none, b => b
  | a, none => a
  | some x, some y => some (if y < x then y else x)

def maxO (a b : Option Rat) : Option Rat :=
  match a, b with
  | none, b => b
  | a, none => a
  | some x, some y => some (if x < y then y else x)

/-- `Statistics.__add__` (median is lost) -/
def add (a b : Stats) : Stats :=
  if a.valid && b.valid then
    { valid := true, sum := a.sum + b.sum, sum2 := a.sum2 + b.sum2,
      min := minO a.min b.min, max := maxO a.max b.max, weight := a.weight + b.weight,
      median := none }
  else invalid

/-- `Statistics.__mul__` by a scalar: sums and weight are linear in the weights -/
def scale (a : Stats) (c : Rat) : Stats :=
  if a.valid then { a with sum := a.sum * c, sum2 := a.sum2 * c, weight := a.weight * c }
  else invalid

/-- the update done by `Histogram1D.fill` for a value that lands in a bin -/
def addPoint (a : Stats) (v w : Rat) : Stats :=
  if a.valid then
    { valid := true, sum := a.sum + w * v, sum2 := a.sum2 + w * (v * v),
      min := minO a.min (some v), max := maxO a.max (some v), weight := a.weight + w,
      median := none }
  else invalid

/-- `mean()`; `none` = NaN -/
def mean (a : Stats) : Option Rat :=
  if a.valid && a.weight != 0 then some (a.sum / a.weight) else none

/-- `variance()`; `none` = NaN -/
def variance (a : Stats) : Option Rat :=
  if a.valid && decide (0 < a.weight) then
    some ((a.sum2 - a.sum * a.sum / a.weight) / a.weight) else none

end Stats
end Physt

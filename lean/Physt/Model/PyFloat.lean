/-!
# Python `float` values as extended rationals, and the few Python object shapes the translated
# sources dispatch on.

This is the prelude of the definitions that `tools/py2lean.py` GENERATES from physt's source
(`PhystGen/*.lean`).  A Python `float` is idealised as an exact rational, `+inf`, `-inf` or
`NaN` (rounding is not modelled — the same idealisation as in the hand-written model, section 4.2
of DESIGN.md); the operations follow IEEE-754 / CPython on the special values, and `/` raises
`ZeroDivisionError` for a zero divisor as CPython's `float.__truediv__` does.
-/
namespace Physt

inductive PyF where
  | nan
  | ninf
  | fin (q : Rat)
  | pinf
  deriving DecidableEq, Repr, Inhabited

/-- the Python exceptions the translated code can raise -/
inductive PyExc where
  | zeroDivision
  | typeError
  deriving DecidableEq, Repr, Inhabited

namespace PyF

def ofSign (q : Rat) : PyF := if 0 < q then pinf else if q < 0 then ninf else nan

def neg : PyF → PyF
  | nan => nan | ninf => pinf | pinf => ninf | fin q => fin (-q)

def add : PyF → PyF → PyF
  | nan, _ => nan
  | _, nan => nan
  | fin a, fin b => fin (a + b)
  | pinf, ninf => nan
  | ninf, pinf => nan
  | pinf, _ => pinf
  | _, pinf => pinf
  | ninf, _ => ninf
  | _, ninf => ninf

def sub (a b : PyF) : PyF := add a (neg b)

def mul : PyF → PyF → PyF
  | nan, _ => nan
  | _, nan => nan
  | fin a, fin b => fin (a * b)
  | fin a, pinf => ofSign a
  | fin a, ninf => ofSign (-a)
  | pinf, fin b => ofSign b
  | ninf, fin b => ofSign (-b)
  | pinf, pinf => pinf
  | ninf, ninf => pinf
  | pinf, ninf => ninf
  | ninf, pinf => ninf

/-- IEEE quotient for a divisor that is not zero -/
def divNZ : PyF → PyF → PyF
  | nan, _ => nan
  | _, nan => nan
  | fin a, fin b => fin (a / b)
  | fin _, pinf => fin 0
  | fin _, ninf => fin 0
  | pinf, fin b => ofSign b
  | ninf, fin b => ofSign (-b)
  | pinf, pinf => nan
  | pinf, ninf => nan
  | ninf, pinf => nan
  | ninf, ninf => nan

/-- `a / b` of two Python floats: `ZeroDivisionError` for `b == 0.0` (whatever `a` is), IEEE otherwise -/
def div (a b : PyF) : Except PyExc PyF :=
  match b with
  | fin q => if q = 0 then .error .zeroDivision else .ok (divNZ a b)
  | _ => .ok (divNZ a b)

/-- `a ** n` for a literal natural exponent -/
def powNat (a : PyF) : Nat → PyF
  | 0 => fin 1
  | n + 1 => mul (powNat a n) a

/-- `a > b` (every comparison with NaN is false) -/
def gt : PyF → PyF → Bool
  | nan, _ => false
  | _, nan => false
  | fin a, fin b => decide (b < a)
  | pinf, pinf => false
  | pinf, _ => true
  | _, ninf => true
  | _, _ => false

def lt (a b : PyF) : Bool := gt b a

/-- `np.minimum` (NaN on either side wins) -/
def minimum : PyF → PyF → PyF
  | nan, _ => nan
  | _, nan => nan
  | a, b => if gt a b then b else a

/-- `np.maximum` (NaN on either side wins) -/
def maximum : PyF → PyF → PyF
  | nan, _ => nan
  | _, nan => nan
  | a, b => if gt b a then b else a

end PyF

/-- an argument annotated `Any` in the source: an instance of the class being defined, a scalar
    number (`np.isscalar`: python number, or numpy scalar = `np.generic`), or anything else -/
inductive PyObj (S : Type) where
  | inst (s : S)
  | scalar (isNumpy : Bool) (x : PyF)
  | other
  deriving Repr

end Physt

/-!
# Coordinate-transformed histograms (model of `special_histograms.py`)

Bin measures and transforms, polymorphic in the scalar type: the theorems instantiate them with
the real numbers (Mathlib), the driver with IEEE doubles.
-/
namespace Physt

/-- the functions a scalar type must provide -/
class Scalar (α : Type) extends Add α, Sub α, Mul α, Div α where
  two : α
  three : α
  cos : α → α
  pi : α

namespace Measure
variable {α : Type} [Scalar α]

/-- 1-D: the width -/
def width (l r : α) : α := r - l
/-- polar `(r, φ)`: `(r2² − r1²)/2 · Δφ` -/
def polar (r1 r2 p1 p2 : α) : α := (r2 * r2 - r1 * r1) / Scalar.two * (p2 - p1)
/-- radial: `π (r2² − r1²)` -/
def radial (r1 r2 : α) : α := (r2 * r2 - r1 * r1) * Scalar.pi
/-- spherical `(r, θ, φ)`: `(r2³ − r1³)/3 · (cos θ1 − cos θ2) · Δφ` -/
def spherical (r1 r2 t1 t2 p1 p2 : α) : α :=
  (r2 * r2 * r2 - r1 * r1 * r1) / Scalar.three * (Scalar.cos t1 - Scalar.cos t2) * (p2 - p1)
/-- sphere surface `(θ, φ)`: `(cos θ1 − cos θ2) · Δφ` -/
def sphereSurface (t1 t2 p1 p2 : α) : α := (Scalar.cos t1 - Scalar.cos t2) * (p2 - p1)
/-- cylindrical `(ρ, φ, z)`: `(ρ2² − ρ1²)/2 · Δφ · Δz` -/
def cylindrical (q1 q2 p1 p2 z1 z2 : α) : α := (q2 * q2 - q1 * q1) / Scalar.two * (p2 - p1) * (z2 - z1)
/-- cylinder surface `(φ, z)`: `Δφ · Δz` -/
def cylinderSurface (p1 p2 z1 z2 : α) : α := (p2 - p1) * (z2 - z1)
/-- ND: product of widths -/
def box : List (α × α) → α → α
  | [], acc => acc
  | (l, r) :: rest, acc => box rest (acc * (r - l))

end Measure

/-- which class a projection of a special histogram has (`_projection_class_map`); `none` = a
    plain HistogramND / Histogram1D -/
def projectionClass (klass : String) (axes : List Nat) : Option String :=
  match klass, axes with
  | "PolarHistogram", [0] => some "RadialHistogram"
  | "PolarHistogram", [1] => some "AzimuthalHistogram"
  | "SphericalHistogram", [1, 2] => some "SphericalSurfaceHistogram"
  | "SphericalHistogram", [0] => some "RadialHistogram"
  | "CylindricalHistogram", [0] => some "RadialHistogram"
  | "CylindricalHistogram", [1] => some "AzimuthalHistogram"
  | "CylindricalHistogram", [0, 1] => some "PolarHistogram"
  | "CylindricalHistogram", [1, 2] => some "CylindricalSurfaceHistogram"
  | "CylindricalSurfaceHistogram", [0] => some "AzimuthalHistogram"
  | _, _ => none

/-- the transform-aware entry paths of `TransformedHistogramMixin`, over an abstract base
    histogram (`baseFind` / `baseFill` stand for the inherited `find_bin` / `fill`) -/
structure Mixin (P T S R : Type) where
  transform : P → T
  baseFind : S → T → R
  baseFill : S → T → S × R

namespace Mixin
variable {P T S R : Type} (m : Mixin P T S R)

/-- `find_bin(value, transformed=…)` -/
def findBin (s : S) (v : Sum P T) : R :=
  match v with
  | .inl p => m.baseFind s (m.transform p)
  | .inr t => m.baseFind s t

/-- `fill(value, transformed=…)`: the value is transformed at most once; the inherited `fill` then
    searches with `transformed=True` -/
def fill (s : S) (v : Sum P T) : S × R :=
  match v with
  | .inl p => m.baseFill s (m.transform p)
  | .inr t => m.baseFill s t

/-- `fill_n(values, transformed=…)` as a fold of fills -/
def fillN (s : S) (vs : List (Sum P T)) : S := vs.foldl (fun s v => (m.fill s v).1) s

end Mixin
end Physt

import Physt.Model.Grid
/-!
# Binning factories in exact arithmetic (model of the factory functions in `binnings.py`)

`numpy_binning` (linspace), the pretty-width choice, the bin-count rules and the quantile edges.
Where the implementation uses logarithms the model compares ratios instead
(`|log (c / raw)|` is monotone in `max (c / raw) (raw / c)`).
-/
namespace Physt

/-- `np.linspace(start, stop, n + 1)` -/
def linspace (start stop : Rat) (n : Nat) : List Rat :=
  (List.range (n + 1)).map fun (i : Nat) => start + (i : Rat) * (stop - start) / (n : Rat)

/-- how far `c` is from `raw`, as a ratio ≥ 1 -/
def ratioDist (raw c : Rat) : Rat := if c / raw < raw / c then raw / c else c / raw

/-- `np.argmin` over the candidates: the first one with the least distance -/
def prettyChoice (raw : Rat) : List Rat → Option Rat
  | [] => none
  | c :: cs =>
    match prettyChoice raw cs with
    | none => some c
    | some b => if ratioDist raw b < ratioDist raw c then some b else some c

/-- the decimal candidates `{0.5, 1, 2, 2.5, 5, 10} · 10^p` -/
def decimalCandidates (tenPow : Rat) : List Rat := [1 / 2, 1, 2, 5 / 2, 5, 10].map (· * tenPow)

/-- the least `j ≥ k` with `p j`, searching at most `fuel` steps -/
def leastFrom (p : Nat → Bool) : Nat → Nat → Nat
  | 0, k => k
  | f + 1, k => if p k then k else leastFrom p f (k + 1)

/-- least `k` with `k * k ≥ n` (= `ceil(sqrt(n))`) -/
def ceilSqrt (n : Nat) : Nat := leastFrom (fun k => decide (n ≤ k * k)) n 0

/-- least `k` with `2^k ≥ n` (= `ceil(log2(n))`) -/
def ceilLog2 (n : Nat) : Nat := leastFrom (fun k => decide (n ≤ 2 ^ k)) n 0

/-- `ideal_bin_count` for the rules that need no statistics of the data -/
def idealBinCount (method : String) (n : Nat) : Option Nat :=
  if n < 1 then some 1
  else match method with
    | "sqrt" => some (ceilSqrt n)
    | "sturges" => some (ceilLog2 n + 1)
    | "default" => if n ≤ 32 then some 7 else some (ceilLog2 n + 1)
    | "rice" => some (leastFrom (fun k => decide (8 * n ≤ k * k * k)) (2 * n) 0)
    | _ => none

/-- `np.percentile(sorted data, q)` with linear interpolation, `q` in [0, 1] -/
def quantile (sorted : List Rat) (q : Rat) : Option Rat :=
  match sorted with
  | [] => none
  | x :: _ =>
    let pos := q * ((sorted.length - 1 : Nat) : Rat)
    let lo := pos.floor.toNat
    let frac := pos - (lo : Rat)
    let a := sorted[lo]?.getD x
    let b := sorted[lo + 1]?.getD a
    some (a + (b - a) * frac)

end Physt

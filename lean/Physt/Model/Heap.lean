/-!
# Heap model of physt's object graph (property C12)

The other model files treat a histogram as a *value*.  Here the object graph of the real code is
explicit: a `Heap` is a list of cells addressed by their position (`Loc`), a histogram object
(`HObj`) is the record of the locations its attributes point to, and every public operation is
modelled by WHICH cells it allocates, which it writes in place and which references it re-assigns.
The numerical contents of new arrays are parameters of the operations (they are the business of
the value model); what this file fixes is the allocation discipline, read off the Python source:

* `HistogramBase.copy` (histogram_base.py:669-694), `Histogram1D.copy` (histogram1d.py:188-195)
* `HistogramND.select`, `_reduce_dimension`, `projection`, `accumulate`, `T`, `partial_normalize`
  (histogram_nd.py:97-126, 447-481, 483-519, 582-622), `Histogram1D.__getitem__` (histogram1d.py:220-275)
* binning objects: `copy`, `as_static`, `__getitem__`, `_force_bin_existence_single`, `_adapt`
  (binnings.py:112-117, 310-325, 394-419, 447-450, 527-558, 601-610, 636-667)
* in-place operations `fill`, `fill_n`, `__iadd__`, `__imul__`, `__itruediv__`, `set_dtype`,
  `merge_bins(inplace=True)`, metadata setters (histogram_base.py:202-248, 325-362, 514-578, 896-1034)
* `HistogramCollection.copy` / `create` (histogram_collection.py:64-71, 90-100; after fix 10ef3a5).

Cell kinds.  `binning`: a binning object (mutable: an adaptive `FixedWidthBinning` is rewritten in
place by `force_bin_existence`); `arr`: a numpy array of contents (`_frequencies`, `_errors2`,
`_missed`; written in place by `fill`); `dict`: the `_meta_data` dictionary (written in place by
the setters); `stats`: a `Statistics` object — a *frozen* dataclass, never written, and the
singleton `INVALID_STATISTICS` (location 0 by convention) is shared by many histograms; `buf`: the
numpy buffer behind `_bins` / `_numpy_bins` of an array-backed binning — physt never writes into
such a buffer (it only re-assigns the attribute), and slicing a `StaticBinning` returns a new
binning object whose `_bins` is a *view* of the source's buffer.
-/
namespace Physt
namespace Hp

/-- a heap location (syntactically `Nat`, so that `omega` sees through it) -/
scoped notation "Loc" => Nat
abbrev Dict := List (String × String)
/-- a code for the numpy dtype (immutable attribute `_dtype`) -/
abbrev DTag := Nat

/-- contents of a (frozen) `Statistics` object -/
inductive StatsV
  | invalid                 -- `INVALID_STATISTICS`
  | vals (v : List Rat)
deriving DecidableEq, Repr

/-- `Statistics()` -/
def StatsV.empty : StatsV := .vals []

/-- a binning object.  `arr`: array-backed (`numpy = false`: `StaticBinning`, `numpy = true`:
    `NumpyBinning`), its bins are the window `[lo, lo+len)` of the buffer `buf`;
    `grid`: a recipe binning (`FixedWidthBinning`; its caches are rebuilt from the recipe and
    re-assigned, never written, and are not modelled). -/
inductive BinData
  | arr (numpy : Bool) (buf : Loc) (lo len : Nat) (ire : Bool)
  | grid (w shift : Rat) (tmin : Int) (count : Nat) (adaptive ire : Bool)
deriving DecidableEq, Repr

inductive Cell
  | binning (b : BinData)
  | arr (a : List Rat)
  | dict (d : Dict)
  | stats (s : StatsV)
  | buf (e : List (Rat × Rat))
deriving DecidableEq, Repr

inductive Kind | binning | arr | dict | stats | buf
deriving DecidableEq, Repr

def Cell.kind : Cell → Kind
  | .binning _ => .binning | .arr _ => .arr | .dict _ => .dict | .stats _ => .stats | .buf _ => .buf

/-- allocation is `heap.length`-fresh: a new cell is appended -/
abbrev Heap := List Cell

/-- the heap every program starts with: location 0 is `INVALID_STATISTICS` -/
def Heap.init : Heap := [.stats .invalid]

def kindAt (h : Heap) (l : Loc) : Option Kind := h[l]?.map Cell.kind

/-- a histogram object: the locations its attributes reference, plus immutable scalars -/
structure HObj where
  binnings : List Loc
  freq : Loc
  err2 : Loc
  missed : Loc
  md : Loc
  stats : Option Loc          -- `_stats` exists on `Histogram1D` only
  dtype : DTag
  keep : Bool
deriving DecidableEq, Repr, Inhabited

inductive Which | freq | err2 | missed
deriving DecidableEq, Repr

def HObj.arrLoc (x : HObj) : Which → Loc
  | .freq => x.freq | .err2 => x.err2 | .missed => x.missed

def HObj.setArrLoc (x : HObj) (a : Which) (l : Loc) : HObj :=
  match a with
  | .freq => { x with freq := l } | .err2 => { x with err2 := l } | .missed => { x with missed := l }

/-- the arrays and the dictionary -/
def HObj.arrs (x : HObj) : List Loc := [x.freq, x.err2, x.missed, x.md]
/-- every MUTABLE location the object references -/
def HObj.refs (x : HObj) : List Loc := x.binnings ++ x.arrs

/-! ## dereferencing and the snapshot -/

def getArr (h : Heap) (l : Loc) : Option (List Rat) :=
  match h[l]? with | some (.arr a) => some a | _ => none
def getDict (h : Heap) (l : Loc) : Option Dict :=
  match h[l]? with | some (.dict d) => some d | _ => none
def getStats (h : Heap) (l : Loc) : Option StatsV :=
  match h[l]? with | some (.stats s) => some s | _ => none
def window (h : Heap) (buf lo len : Nat) : Option (List (Rat × Rat)) :=
  match h[buf]? with | some (.buf e) => some ((e.drop lo).take len) | _ => none

/-- what a binning object reports -/
inductive BnSnap
  | arr (numpy : Bool) (bins : List (Rat × Rat)) (ire : Bool)
  | grid (w shift : Rat) (tmin : Int) (count : Nat) (adaptive ire : Bool)
deriving DecidableEq, Repr

def snapData (h : Heap) : BinData → Option BnSnap
  | .arr np buf lo len ire => (window h buf lo len).map (BnSnap.arr np · ire)
  | .grid w s t n a ire => some (.grid w s t n a ire)

def snapBin (h : Heap) (l : Loc) : Option BnSnap :=
  match h[l]? with | some (.binning b) => snapData h b | _ => none

/-- everything a histogram REPORTS (bins, contents, missed, metadata, statistics, dtype,
    keep_missed), obtained by following its references -/
structure Snap where
  bins : List (Option BnSnap)
  freq : Option (List Rat)
  err2 : Option (List Rat)
  missed : Option (List Rat)
  md : Option Dict
  stats : Option (Option StatsV)
  dtype : DTag
  keep : Bool
deriving DecidableEq, Repr

def snapshot (h : Heap) (x : HObj) : Snap :=
  { bins := x.binnings.map (snapBin h), freq := getArr h x.freq, err2 := getArr h x.err2,
    missed := getArr h x.missed, md := getDict h x.md, stats := x.stats.map (getStats h),
    dtype := x.dtype, keep := x.keep }

def Snap.getArr (s : Snap) : Which → Option (List Rat)
  | .freq => s.freq | .err2 => s.err2 | .missed => s.missed
def Snap.setArr (s : Snap) (a : Which) (v : Option (List Rat)) : Snap :=
  match a with
  | .freq => { s with freq := v } | .err2 => { s with err2 := v } | .missed => { s with missed := v }

/-- edges of a grid binning (exact arithmetic) -/
def gridBins (w s : Rat) (t : Int) (n : Nat) : List (Rat × Rat) :=
  (List.range n).map fun (k : Nat) => (((t + (k : Int) : Int) : Rat) * w + s, ((t + (k : Int) + 1 : Int) : Rat) * w + s)

def BnSnap.bins : BnSnap → List (Rat × Rat)
  | .arr _ b _ => b
  | .grid w s t n _ _ => gridBins w s t n
def BnSnap.ire : BnSnap → Bool
  | .arr _ _ i => i
  | .grid _ _ _ _ _ i => i
def BnSnap.count (b : BnSnap) : Nat := b.bins.length

/-- shape well-formedness of what is reported: every component is there, the two content arrays
    have one entry per cell of the bin grid -/
def Snap.shapeOk (s : Snap) : Bool :=
  match s.freq, s.err2 with
  | some f, some e =>
    s.bins.all Option.isSome &&
    f.length == (s.bins.map fun b => (b.map BnSnap.count).getD 0).foldl (· * ·) 1 &&
    e.length == f.length && s.missed.isSome && s.md.isSome
  | _, _ => false

/-! ## well-typedness -/

/-- `l` holds a binning object, and an array-backed one points to a buffer -/
def binOk (h : Heap) (l : Loc) : Bool :=
  match h[l]? with
  | some (.binning (.arr _ buf _ _ _)) => kindAt h buf == some .buf
  | some (.binning (.grid ..)) => true
  | _ => false

/-- every reference of `x` points to a cell of the right kind (and the heap has the
    `INVALID_STATISTICS` singleton at location 0) -/
def wtObj (h : Heap) (x : HObj) : Bool :=
  h[0]? == some (.stats .invalid) &&
  x.binnings.all (binOk h) &&
  kindAt h x.freq == some .arr && kindAt h x.err2 == some .arr && kindAt h x.missed == some .arr &&
  kindAt h x.md == some .dict &&
  (match x.stats with | none => true | some s => kindAt h s == some .stats)

/-! ## allocation of binning objects -/

def junkBin : Cell := .binning (.grid 1 0 0 0 false false)

/-- `binning.copy()`: `StaticBinning.copy` copies the bins into a new buffer (binnings.py:410-413);
    `NumpyBinning.copy` passes `self.numpy_bins` to the constructor, where `np.asarray` keeps the
    same buffer (binnings.py:447-450, _bin_utils.py:62-64); `FixedWidthBinning.copy` builds a new
    recipe (binnings.py:601-610).  (Ill-typed source: a junk cell, so that the result is always a
    fresh binning.) -/
def copyBin (h : Heap) (l : Loc) : Heap × Loc :=
  match h[l]? with
  | some (.binning (.arr false buf lo len ire)) =>
    match window h buf lo len with
    | some e => (h ++ [.buf e, .binning (.arr false h.length 0 e.length ire)], h.length + 1)
    | none => (h ++ [junkBin], h.length)
  | some (.binning (.arr true buf lo len ire)) =>
    match window h buf lo len with
    | some _ => (h ++ [.binning (.arr true buf lo len ire)], h.length)
    | none => (h ++ [junkBin], h.length)
  | some (.binning (.grid w s t n a ire)) => (h ++ [.binning (.grid w s t n a ire)], h.length)
  | _ => (h ++ [junkBin], h.length)

/-- a selection of bins: a slice `[a, a+n)` or an index array / mask (given as rising indices) -/
inductive Sel
  | slice (a n : Nat)
  | index (idx : List Nat)
deriving DecidableEq, Repr

def Sel.apply {α} : Sel → List α → List α
  | .slice a n, l => (l.drop a).take n
  | .index idx, l => idx.filterMap (l[·]?)

/-- `binning[index]` / `binning.as_static(copy=False)[index]`.
    `StaticBinning.__getitem__` (binnings.py:415-419): `copy = self.copy(); copy._bins = self._bins[item]`
    — for a slice `self._bins[item]` is a numpy VIEW: the new binning object points into the buffer of
    the source (`np.shares_memory` is true); for an index array it is a new buffer.
    Every other class goes through `as_static()` (binnings.py:112-117, 310-325): a new
    `StaticBinning` over a new buffer. -/
def selBin (h : Heap) (l : Loc) (sel : Sel) : Heap × Loc :=
  match h[l]? with
  | some (.binning (.arr np buf lo len ire)) =>
    match window h buf lo len with
    | some e =>
      match np, sel with
      | false, .slice a n => (h ++ [.binning (.arr false buf (lo + a) (min n (len - a)) ire)], h.length)
      | _, _ => (h ++ [.buf (sel.apply e), .binning (.arr false h.length 0 (sel.apply e).length ire)], h.length + 1)
    | none => (h ++ [junkBin], h.length)
  | some (.binning (.grid w s t n _ ire)) =>
    (h ++ [.buf (sel.apply (gridBins w s t n)),
           .binning (.arr false h.length 0 (sel.apply (gridBins w s t n)).length ire)], h.length + 1)
  | _ => (h ++ [junkBin], h.length)

/-- `BinningBase.from_dict` on the exported recipe: everything new, same class -/
def parseBin (h : Heap) (l : Loc) : Heap × Loc :=
  match h[l]? with
  | some (.binning (.arr np buf lo len ire)) =>
    match window h buf lo len with
    | some e => (h ++ [.buf e, .binning (.arr np h.length 0 e.length ire)], h.length + 1)
    | none => (h ++ [junkBin], h.length)
  | some (.binning (.grid w s t n a ire)) => (h ++ [.binning (.grid w s t n a ire)], h.length)
  | _ => (h ++ [junkBin], h.length)

/-- apply an allocating function to every binning of a list, threading the heap -/
def mapAlloc (g : Heap → Loc → Heap × Loc) : Heap → List Loc → Heap × List Loc
  | h, [] => (h, [])
  | h, l :: ls => ((mapAlloc g (g h l).1 ls).1, (g h l).2 :: (mapAlloc g (g h l).1 ls).2)

/-- where the `_stats` attribute of a new object comes from -/
inductive StSpec
  | none                    -- the class has no statistics (`HistogramND`)
  | invalid                 -- the shared singleton `INVALID_STATISTICS` (location 0)
  | fresh (s : StatsV)      -- a new `Statistics` object
deriving DecidableEq, Repr

/-- the constructor (`HistogramBase.__init__`, `Histogram1D.__init__`, `HistogramND.__init__`) given
    already allocated binning objects (`as_binning` keeps the object it is given, binnings.py:1142-1146):
    new arrays (`np.asarray` of fresh arrays / lists), a new dict (`kwargs.copy()`), a new `_missed`
    array; statistics as specified. -/
def mkObj (h : Heap) (bs : List Loc) (f e m : List Rat) (d : Dict) (st : StSpec)
    (dt : DTag) (keep : Bool) : Heap × HObj :=
  let h1 := h ++ [.arr f, .arr e, .arr m, .dict d]
  let x0 : HObj := { binnings := bs, freq := h.length, err2 := h.length + 1, missed := h.length + 2,
                     md := h.length + 3, stats := none, dtype := dt, keep := keep }
  match st with
  | .none => (h1, x0)
  | .invalid => (h1, { x0 with stats := some 0 })
  | .fresh s => (h1 ++ [.stats s], { x0 with stats := some (h.length + 4) })

/-! ## primitive effects of in-place code -/

/-- the primitive heap effects the in-place code of physt is made of -/
inductive Prim
  | writeArr (a : Which) (v : List Rat)        -- `self._frequencies[i] += w`, `self._missed /= c`: IN PLACE
  | newArr (a : Which) (v : List Rat)          -- `self.frequencies = self.frequencies + …`: attribute re-assigned to a NEW array
  | realloc (a : Which)                        -- `self._frequencies = self._frequencies.astype(t)`: NEW array, same contents
  | growBin (axis : Nat) (tmin : Int) (count : Nat)   -- `binning.force_bin_existence`: the adaptive binning object rewritten IN PLACE
  | setAdaptive (axis : Nat) (v : Bool)        -- `binning.set_adaptive(v)`: IN PLACE (recipe binnings only)
  | newGrid (axis : Nat) (tmin : Int) (count : Nat)   -- `self._binnings[i] = adapted copy` (adaptive `__iadd__`)
  | newStatic (axis : Nat) (bins : List (Rat × Rat)) (ire : Bool)  -- `self._binnings[i] = apply_bin_map(…)`: NEW `StaticBinning`, new buffer
  | reverseBins                                -- `a_copy._binnings = list(reversed(…))`
  | writeMeta (d : Dict)                       -- `self._meta_data[k] = v`: IN PLACE
  | newMeta (d : Dict)                         -- `new._meta_data = {…}`: NEW dict
  | setStats (s : StatsV)                      -- `self._stats = …`: NEW frozen object, or the singleton
  | setDtype (dt : DTag)                       -- `self._dtype = value`
deriving DecidableEq, Repr

def runPrim (h : Heap) (x : HObj) : Prim → Heap × HObj
  | .writeArr a v => (h.set (x.arrLoc a) (.arr v), x)
  | .newArr a v => (h ++ [.arr v], x.setArrLoc a h.length)
  | .realloc a => (h ++ [.arr ((getArr h (x.arrLoc a)).getD [])], x.setArrLoc a h.length)
  | .growBin i t n =>
    match x.binnings[i]? with
    | some l =>
      match h[l]? with
      | some (.binning (.grid w s _ _ true ire)) => (h.set l (.binning (.grid w s t n true ire)), x)
      | _ => (h, x)
    | none => (h, x)
  | .setAdaptive i v =>
    match x.binnings[i]? with
    | some l =>
      match h[l]? with
      | some (.binning (.grid w s t n _ ire)) => (h.set l (.binning (.grid w s t n v ire)), x)
      | _ => (h, x)
    | none => (h, x)
  | .newGrid i t n =>
    match x.binnings[i]? with
    | some l =>
      match h[l]? with
      | some (.binning (.grid w s _ _ a ire)) =>
        (h ++ [.binning (.grid w s t n a ire)], { x with binnings := x.binnings.set i h.length })
      | _ => (h, x)
    | none => (h, x)
  | .newStatic i bins ire =>
    if i < x.binnings.length then
      (h ++ [.buf bins, .binning (.arr false h.length 0 bins.length ire)],
       { x with binnings := x.binnings.set i (h.length + 1) })
    else (h, x)
  | .reverseBins => (h, { x with binnings := x.binnings.reverse })
  | .writeMeta d => (h.set x.md (.dict d), x)
  | .newMeta d => (h ++ [.dict d], { x with md := h.length })
  | .setStats s =>
    match x.stats with
    | none => (h, x)
    | some _ =>
      match s with
      | .invalid => (h, { x with stats := some 0 })
      | s => (h ++ [.stats s], { x with stats := some h.length })
  | .setDtype dt => (h, { x with dtype := dt })

def runPrims (h : Heap) (x : HObj) : List Prim → Heap × HObj
  | [] => (h, x)
  | p :: ps => runPrims (runPrim h x p).1 (runPrim h x p).2 ps

/-- the same effects on the reported VALUE -/
def growF (t : Int) (n : Nat) : Option BnSnap → Option BnSnap
  | some (.grid w s _ _ true ire) => some (.grid w s t n true ire)
  | b => b
def adaptF (v : Bool) : Option BnSnap → Option BnSnap
  | some (.grid w s t n _ ire) => some (.grid w s t n v ire)
  | b => b
def regridF (t : Int) (n : Nat) : Option BnSnap → Option BnSnap
  | some (.grid w s _ _ a ire) => some (.grid w s t n a ire)
  | b => b

def primSnap (s : Snap) : Prim → Snap
  | .writeArr a v => s.setArr a (some v)
  | .newArr a v => s.setArr a (some v)
  | .realloc _ => s
  | .growBin i t n => { s with bins := s.bins.modify i (growF t n) }
  | .setAdaptive i v => { s with bins := s.bins.modify i (adaptF v) }
  | .newGrid i t n => { s with bins := s.bins.modify i (regridF t n) }
  | .newStatic i bins ire => { s with bins := s.bins.modify i (fun _ => some (.arr false bins ire)) }
  | .reverseBins => { s with bins := s.bins.reverse }
  | .writeMeta d => { s with md := some d }
  | .newMeta d => { s with md := some d }
  | .setStats st => match s.stats with | none => s | some _ => { s with stats := some (some st) }
  | .setDtype dt => { s with dtype := dt }

def primsSnap (s : Snap) : List Prim → Snap
  | [] => s
  | p :: ps => primsSnap (primSnap s p) ps

/-! ## in-place public operations -/

/-- `_coerce_dtype` → `set_dtype` (histogram_base.py:355-362): `_dtype` re-assigned, the arrays
    REPLACED by `astype` copies (`_missed` is kept when it holds NaN and the target is integral) -/
def coerce (dt : Option DTag) (missedToo : Bool := true) : List Prim :=
  match dt with
  | none => []
  | some t => [.setDtype t, .realloc .freq, .realloc .err2] ++ (if missedToo then [.realloc .missed] else [])

/-- `fill` / `fill_n` / `<<` (histogram1d.py:369-450, histogram_nd.py:347-427) -/
structure FillP where
  dt : Option DTag := none             -- dtype after `_coerce_dtype`, if it changed
  grow : List (Nat × Int × Nat) := []  -- (axis, tmin, count) written IN PLACE into the adaptive binning objects
  reshape : Bool := false              -- `_reshape_data`: `_frequencies`, `_errors2` REPLACED by new arrays
  freq : List Rat
  err2 : List Rat
  missed : List Rat                    -- contents after the call
  missedNaN : Bool := false            -- `_set_missed`: NaN into an integer array ⇒ `_missed` REPLACED (`astype(float)`)
  stats : Option StatsV := none        -- `_stats` re-assigned (1-D); `none`: untouched
deriving DecidableEq, Repr

/-- `+=` / `-=` with a histogram (histogram_base.py:896-941, 950-970) -/
structure AddP where
  dt : Option DTag := none
  rebin : List (Nat × Int × Nat) := [] -- adaptive branch: `_binnings[i]` REPLACED by an adapted copy of itself
  freq : List Rat
  err2 : List Rat
  missed : Option (List Rat)           -- `self._missed = self._missed + other._missed` (same-bins branch)
  stats : Option StatsV := none
deriving DecidableEq, Repr

/-- `*=` / `/=` with a scalar, `normalize(inplace=True)` (histogram_base.py:977-1034, 434-436) -/
structure ScaleP where
  dt : Option DTag := none
  freq : List Rat
  err2 : List Rat
  missed : List Rat
  missedInPlace : Bool                 -- `/=`: `self._missed /= other` IN PLACE; `*=`: a new array
  stats : Option StatsV := none
deriving DecidableEq, Repr

inductive Mut
  | fill (p : FillP)
  | iadd (p : AddP)
  | scale (p : ScaleP)
  | setDtype (dt : DTag) (missedToo : Bool)              -- `set_dtype`, `dtype = …`
  | mergeBins (axes : List (Nat × List (Rat × Rat) × Bool)) (f e : List Rat)   -- `merge_bins(inplace=True)`
  | setMeta (d : Dict)                                   -- `meta_data[k] = v`, `name =`, `title =`, `axis_names =`
  | setAdaptive (v : Bool)                               -- `set_adaptive`, `adaptive = …`
  | partialNormalize (dt : Option DTag) (f e : List Rat) -- `partial_normalize(inplace=True)`
  | setMissed (m : List Rat) (nan : Bool)                -- `underflow = …`, `overflow = …`, `inner_missed = …`
deriving DecidableEq, Repr

def statsPrim : Option StatsV → List Prim
  | none => []
  | some s => [.setStats s]

def Mut.prims (nAxes : Nat) : Mut → List Prim
  | .fill p =>
    coerce p.dt ++ p.grow.map (fun g => .growBin g.1 g.2.1 g.2.2) ++
    (if p.reshape then [.newArr .freq p.freq, .newArr .err2 p.err2]
     else [.writeArr .freq p.freq, .writeArr .err2 p.err2]) ++
    (if p.missedNaN then [.realloc .missed] else []) ++ [.writeArr .missed p.missed] ++ statsPrim p.stats
  | .iadd p =>
    coerce p.dt ++ p.rebin.map (fun g => .newGrid g.1 g.2.1 g.2.2) ++
    [.newArr .freq p.freq, .newArr .err2 p.err2] ++
    (match p.missed with | some m => [.newArr .missed m] | none => []) ++ statsPrim p.stats
  | .scale p =>
    coerce p.dt ++ [.newArr .freq p.freq, .newArr .err2 p.err2,
      if p.missedInPlace then .writeArr .missed p.missed else .newArr .missed p.missed] ++ statsPrim p.stats
  | .setDtype dt m => coerce (some dt) m
  | .mergeBins axes f e =>
    axes.map (fun a => .newStatic a.1 a.2.1 a.2.2) ++ [.newArr .freq f, .newArr .err2 e]
  | .setMeta d => [.writeMeta d]
  | .setAdaptive v => (List.range nAxes).map (fun i => .setAdaptive i v)
  | .partialNormalize dt f e => coerce dt ++ [.writeArr .freq f, .writeArr .err2 e]
  | .setMissed m nan => (if nan then [.realloc .missed] else []) ++ [.writeArr .missed m]

/-- an in-place public operation on the object `x` -/
def mutate (h : Heap) (x : HObj) (m : Mut) : Heap × HObj := runPrims h x (m.prims x.binnings.length)

def mutateSnap (s : Snap) (m : Mut) : Snap := primsSnap s (m.prims s.bins.length)

/-! ## derivations -/

def zerosLike (v : List Rat) : List Rat := List.replicate v.length 0

/-- `copy(include_frequencies=incl)` (histogram_base.py:669-694, histogram1d.py:188-195):
    every binning `binning.copy()`, every array `np.copy` / `zeros_like`, `_meta_data.copy()`,
    a new `Statistics` object (`dataclasses.replace` / `Statistics()`) -/
def copyObj (h : Heap) (x : HObj) (incl : Bool) : Heap × HObj :=
  let r := mapAlloc copyBin h x.binnings
  let f := (getArr h x.freq).getD []
  let e := (getArr h x.err2).getD []
  let m := (getArr h x.missed).getD []
  mkObj r.1 r.2 (if incl then f else zerosLike f) (if incl then e else zerosLike e)
    (if incl then m else zerosLike m) ((getDict h x.md).getD [])
    (match x.stats with
     | none => .none
     | some s => .fresh (if incl then (getStats h s).getD .invalid else .empty))
    x.dtype x.keep

inductive Deriv
  | copy (incl : Bool)                                   -- `h.copy(...)`, `0 + h`
  | add (p : AddP) (md : Dict)                           -- `a + b`, `a - b`: copy; `+=`; `_meta_data` = new merged dict
  | scale (p : ScaleP)                                   -- `a * c`, `c * a`, `a / c`, `normalize()`
  | mergeBins (axes : List (Nat × List (Rat × Rat) × Bool)) (f e : List Rat)   -- `merge_bins(...)`
  | accumulate (f : List Rat)                            -- `accumulate(axis)`
  | partialNormalize (dt : Option DTag) (f e : List Rat) -- `partial_normalize(axis)`
  | transpose (md : Dict) (f e : List Rat)               -- `.T`
  | selectSlice (axis a n : Nat) (f e : List Rat)        -- `HistogramND.select(axis, slice)`, `h[a:b]` (N-d)
  | reduce (axes : List Nat) (f e : List Rat) (md : Dict) (dt : DTag)  -- `projection(*axes)`, `select(axis, int)`
  | getitem1 (sel : Sel) (f e m : List Rat) (md : Dict) (keep : Bool)  -- `Histogram1D.__getitem__` / `select(0, …)`
  | parse                                                -- `from_dict(h.to_dict())`, `parse_json(h.to_json())`
  | create (n : Nat) (md : Dict) (dt : DTag) (p : FillP)  -- `collection.create(name, values)` (source: a 1-d histogram over the collection's binning; `n` bins)
  | seq (d₁ d₂ : Deriv)                                  -- `HistogramND.__getitem__(tuple)`: selections chained on temporaries
deriving Repr

/-- run in-place code on a fresh copy -/
def viaCopy (h : Heap) (x : HObj) (ps : List Prim) : Heap × HObj :=
  runPrims (copyObj h x true).1 (copyObj h x true).2 ps

def derive (h : Heap) (x : HObj) : Deriv → Heap × HObj
  | .copy incl => copyObj h x incl
  | .add p md => viaCopy h x ((Mut.iadd p).prims x.binnings.length ++ [.newMeta md])
  | .scale p => viaCopy h x ((Mut.scale p).prims x.binnings.length)
  | .mergeBins axes f e => viaCopy h x ((Mut.mergeBins axes f e).prims x.binnings.length)
  -- histogram_nd.py:493-496: `new_one = self.copy(); new_one._frequencies = np.cumsum(...)`
  | .accumulate f => viaCopy h x [.newArr .freq f]
  | .partialNormalize dt f e => viaCopy h x ((Mut.partialNormalize dt f e).prims x.binnings.length)
  -- histogram_nd.py:589-595: list of binnings rebuilt, `axis_names` written into the copy's dict,
  -- `_frequencies.T` / `_errors2.T` are views of the COPY's arrays (same buffers, owned by nobody else)
  | .transpose md f e => viaCopy h x [.reverseBins, .writeMeta md, .writeArr .freq f, .writeArr .err2 e]
  -- histogram_nd.py:121-125: `copy = self.copy()`, arrays replaced by `….copy()` of the source's slice,
  -- `copy._binnings[axis] = self._binnings[axis][index]` (the SOURCE's binning object is sliced)
  | .selectSlice axis a n f e =>
    match x.binnings[axis]? with
    | none => copyObj h x true          -- (no such axis: the real code raises)
    | some l =>
      let r := selBin h l (.slice a n)
      let c := copyObj r.1 x true
      runPrims c.1 { c.2 with binnings := c.2.binnings.set axis r.2 } [.newArr .freq f, .newArr .err2 e]
  -- histogram_nd.py:447-481: `bins.copy()` for the kept axes, then the constructor
  | .reduce axes f e md dt =>
    let r := mapAlloc copyBin h (axes.filterMap (x.binnings[·]?))
    mkObj r.1 r.2 f e (if axes.length = 1 then [0, 0, 0] else [0]) md
      (if axes.length = 1 then .invalid else .none) dt true
  -- histogram1d.py:265-275
  | .getitem1 sel f e m md keep =>
    let r := mapAlloc (fun h l => selBin h l sel) h x.binnings
    mkObj r.1 r.2 f e m md .invalid x.dtype keep
  -- histogram_base.py:816-848: binnings rebuilt from their recipes, arrays from lists, new dict;
  -- `stats` is not exported, so a 1-D result gets the singleton `INVALID_STATISTICS`
  | .parse =>
    let r := mapAlloc parseBin h x.binnings
    mkObj r.1 r.2 ((getArr h x.freq).getD []) ((getArr h x.err2).getD []) ((getArr h x.missed).getD [])
      ((getDict h x.md).getD []) (match x.stats with | none => .none | some _ => .invalid) x.dtype x.keep
  -- histogram_collection.py:90-100 (after fix 10ef3a5): `Histogram1D(binning=self.binning.copy(), name=…)`
  -- — a new binning object, zero arrays, a new dict, `Statistics()` — then `fill_n` on the new object
  | .create n md dt p =>
    let r := mapAlloc copyBin h (x.binnings.take 1)
    let c := mkObj r.1 r.2 (List.replicate n 0) (List.replicate n 0) [0, 0, 0] md (.fresh .empty) dt true
    runPrims c.1 c.2 ((Mut.fill p).prims 1)
  | .seq d₁ d₂ => derive (derive h x d₁).1 (derive h x d₁).2 d₂

/-! ### the same derivations on values

`deriveSnap s d` is what the derived object reports, as a function of what the source reports
(`Proofs/Heap.lean`, `derive_snap`): the justification of the value model of the other files. -/

/-- bins of `binning.as_static()[sel]` -/
def selF (sel : Sel) : Option BnSnap → Option BnSnap :=
  Option.map fun b => BnSnap.arr false (sel.apply b.bins) b.ire

def copySnap (s : Snap) (incl : Bool) : Snap :=
  if incl then s else
    { s with freq := s.freq.map zerosLike, err2 := s.err2.map zerosLike, missed := s.missed.map zerosLike,
             stats := s.stats.map fun _ => some .empty }

def deriveSnap (s : Snap) : Deriv → Snap
  | .copy incl => copySnap s incl
  | .add p md => primsSnap s ((Mut.iadd p).prims s.bins.length ++ [.newMeta md])
  | .scale p => primsSnap s ((Mut.scale p).prims s.bins.length)
  | .mergeBins axes f e => primsSnap s ((Mut.mergeBins axes f e).prims s.bins.length)
  | .accumulate f => primsSnap s [.newArr .freq f]
  | .partialNormalize dt f e => primsSnap s ((Mut.partialNormalize dt f e).prims s.bins.length)
  | .transpose md f e => primsSnap s [.reverseBins, .writeMeta md, .writeArr .freq f, .writeArr .err2 e]
  | .selectSlice axis a n f e =>
    if axis < s.bins.length then
      primsSnap { s with bins := s.bins.modify axis (selF (.slice a n)) } [.newArr .freq f, .newArr .err2 e]
    else s
  | .reduce axes f e md dt =>
    { bins := axes.filterMap (s.bins[·]?), freq := some f, err2 := some e,
      missed := some (if axes.length = 1 then [0, 0, 0] else [0]), md := some md,
      stats := if axes.length = 1 then some (some .invalid) else none, dtype := dt, keep := true }
  | .getitem1 sel f e m md keep =>
    { bins := s.bins.map (selF sel), freq := some f, err2 := some e, missed := some m, md := some md,
      stats := some (some .invalid), dtype := s.dtype, keep := keep }
  | .parse => { s with stats := s.stats.map fun _ => some .invalid }
  | .create n md dt p =>
    primsSnap { bins := s.bins.take 1, freq := some (List.replicate n 0), err2 := some (List.replicate n 0),
                missed := some [0, 0, 0], md := some md, stats := some (some .empty), dtype := dt, keep := true }
      ((Mut.fill p).prims 1)
  | .seq d₁ d₂ => deriveSnap (deriveSnap s d₁) d₂

/-- `h.copy()` for every histogram of a list, threading the heap -/
def copyAll (h : Heap) : List HObj → Heap × List HObj
  | [] => (h, [])
  | x :: xs => ((copyAll (copyObj h x true).1 xs).1, (copyObj h x true).2 :: (copyAll (copyObj h x true).1 xs).2)

/-- the binning object of a collection built from `ms`: that of its first member
    (histogram_collection.py:39) -/
def collBinning (ms : List HObj) : Option Loc := ms.head?.bind (·.binnings.head?)

/-- `HistogramCollection.copy` (histogram_collection.py:64-71, after fix 10ef3a5):
    `HistogramCollection(binning=self.binning.copy(), …)` — the new collection's own binning object,
    referenced by no histogram — and `histograms = [h.copy() for h in self.histograms]`: every member
    keeps the binning copy made by its own `copy()`.  Nothing is shared between siblings. -/
def collCopy (h : Heap) (ms : List HObj) : Heap × List HObj :=
  match collBinning ms with
  | none => (h, [])
  | some b0 => copyAll (copyBin h b0).1 ms

/-- BEFORE fix 10ef3a5: ONE `binning_copy = self.binning.copy()`, every member copied with `h.copy()`
    and then re-pointed, `histogram._binning = binning_copy`: all members of the result referenced the
    same binning object (see `C12_collection_members_not_independent_before_fix`). -/
def copyMembersShared (h : Heap) (b : Loc) : List HObj → Heap × List HObj
  | [] => (h, [])
  | x :: xs =>
    ((copyMembersShared (copyObj h x true).1 b xs).1,
     { (copyObj h x true).2 with binnings := [b] } :: (copyMembersShared (copyObj h x true).1 b xs).2)

def collCopyShared (h : Heap) (ms : List HObj) : Heap × List HObj :=
  match collBinning ms with
  | none => (h, [])
  | some b0 => copyMembersShared (copyBin h b0).1 (copyBin h b0).2 ms

/-! ## worlds and histories -/

/-- the heap together with the histogram objects the program holds -/
structure World where
  heap : Heap
  live : List HObj
deriving Repr

inductive Step
  | derive (src : Nat) (d : Deriv)          -- `new = op(live[src])`; the result becomes live
  | mutate (tgt : Nat) (m : Mut)            -- in-place operation on `live[tgt]`
  | collCopy (members : List Nat)           -- `HistogramCollection(*[live[i] …]).copy()`; the new members become live
deriving Repr

def World.step (w : World) : Step → World
  | .derive i d =>
    match w.live[i]? with
    | none => w
    | some x => { w with heap := (derive w.heap x d).1, live := w.live ++ [(derive w.heap x d).2] }
  | .mutate i m =>
    match w.live[i]? with
    | none => w
    | some x => { w with heap := (mutate w.heap x m).1, live := w.live.set i (mutate w.heap x m).2 }
  | .collCopy is =>
    let r := collCopy w.heap (is.filterMap (w.live[·]?))
    { heap := r.1, live := w.live ++ r.2 }

def World.run (w : World) (steps : List Step) : World := steps.foldl World.step w

/-! ## separation -/

/-- two objects share no mutable location -/
def sepPairB (x y : HObj) : Bool := x.refs.all (fun l => !y.refs.contains l)

def nodupB : List Nat → Bool
  | [] => true
  | a :: l => !l.contains a && nodupB l

def pairsB (r : HObj → HObj → Bool) : List HObj → Bool
  | [] => true
  | x :: xs => xs.all (fun y => r x y && r y x) && pairsB r xs

/-- executable check of the separation invariant (and of well-typedness) -/
def sepB (h : Heap) (live : List HObj) : Bool :=
  live.all (fun x => wtObj h x && nodupB x.refs) && pairsB sepPairB live

/-- the world before fix 10ef3a5 after `HistogramCollection(*[live[i] …]).copy()` -/
def World.stepShared (w : World) (is : List Nat) : World :=
  { heap := (collCopyShared w.heap (is.filterMap (w.live[·]?))).1,
    live := w.live ++ (collCopyShared w.heap (is.filterMap (w.live[·]?))).2 }

/-- diagnostics: which components of `x` and `y` are the same object -/
def named (h : Heap) (x : HObj) : List (String × Loc) :=
  ((List.range x.binnings.length).zip x.binnings).flatMap (fun p =>
    (s!"binnings[{p.1}]", p.2) ::
      (match h[p.2]? with
       | some (Cell.binning (BinData.arr _ buf _ _ _)) => [(s!"binnings[{p.1}]._bins", buf)]
       | _ => [])) ++
  [("frequencies", x.freq), ("errors2", x.err2), ("missed", x.missed), ("meta_data", x.md)] ++
  (match x.stats with | some s => [("stats", s)] | none => [])

def sharing (h : Heap) (x y : HObj) : List (String × String) :=
  (named h x).flatMap fun a => (named h y).filterMap fun b => if a.2 = b.2 then some (a.1, b.1) else none

end Hp
end Physt

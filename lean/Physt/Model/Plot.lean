import Physt.Model.Bins
/-!
# Plot data (model of `plotting/common.py` and of the mark lists the backends draw)
-/
namespace Physt

/-- running sums -/
def cumsumFrom : Rat → List Rat → List Rat
  | _, [] => []
  | acc, x :: xs => (acc + x) :: cumsumFrom (acc + x) xs

/-- `get_data(h, density, cumulative)` for a 1-D histogram (one flag at a time) -/
def getData (freq sizes : List Rat) (density cumulative : Bool) : List Rat :=
  if cumulative then cumsumFrom 0 freq
  else if density then List.zipWith (· / ·) freq sizes
  else freq

/-- squares of `get_err_data(h, density)`: `errors2`, divided by the squared bin size for densities -/
def getErr2Data (err2 sizes : List Rat) (density : Bool) : List Rat :=
  if density then List.zipWith (fun e s => e / (s * s)) err2 sizes else err2

/-- a bar: left edge, width, height (`ax.bar(left_edges, data, widths, align="edge")`) -/
structure Bar where
  left : Rat
  width : Rat
  height : Rat
  deriving DecidableEq, Repr

def barMarks (bins : Bins) (data : List Rat) : List Bar :=
  List.zipWith (fun b d => { left := b.1, width := b.2 - b.1, height := d }) bins data

/-- points at bin centres (line / scatter / fill) -/
def centreMarks (bins : Bins) (data : List Rat) : List (Rat × Rat) :=
  List.zipWith (fun b d => ((b.1 + b.2) / 2, d)) bins data

/-- `ax.step(numpy_bins, [data[0]] ++ data)` -/
def stepMarks (edges data : List Rat) : List (Rat × Rat) :=
  List.zip edges (match data with | [] => [] | d :: _ => d :: data)

/-- one rectangle per cell of a 2-D map: lower-left corner, widths, value -/
structure Cell where
  x : Rat
  y : Rat
  dx : Rat
  dy : Rat
  value : Rat
  deriving DecidableEq, Repr

def mapCells (xb yb : Bins) (data : List Rat) : List Cell :=
  let idx := xb.flatMap fun bx => yb.map fun b => (bx, b)
  List.zipWith (fun p v => { x := p.1.1, y := p.2.1, dx := p.1.2 - p.1.1, dy := p.2.2 - p.2.1, value := v }) idx data

/-- `colors.Normalize(lo, hi, clip=True)` -/
def normalizeColor (lo hi v : Rat) : Rat :=
  let t := (v - lo) / (hi - lo)
  if t < 0 then 0 else if 1 < t then 1 else t

/-- `check_ndim`: the plot kinds and the histogram dimensions they accept -/
def kindDims : String → List Nat
  | "bar" | "scatter" | "line" | "fill" | "step" | "hbar" => [1]
  | "map" | "image" | "bar3d" | "polar_map" | "globe_map" | "cylinder_map" | "surface_map" => [2]
  | _ => []

def plotAccepted (kind : String) (ndim : Nat) : Bool := (kindDims kind).contains ndim

/-- `get_time_ticks`: the multiples of `w` between `lo` and `hi` -/
def timeTicks (lo hi w : Rat) : List Rat :=
  let first : Int := -((-(lo / w)).floor)      -- ceil(lo / w)
  let last : Int := (hi / w).floor
  (List.range (last - first + 1).toNat).map fun (i : Nat) => ((first + (i : Int) : Int) : Rat) * w

/-- ASCII bar length: `round(f / total * width)` (half to even, as numpy rounds) -/
def roundHalfEven (q : Rat) : Int :=
  let f := q.floor
  let r := q - f
  if r < 1 / 2 then f else if 1 / 2 < r then f + 1 else if f % 2 = 0 then f else f + 1

def asciiBars (freq : List Rat) (width : Nat) : List Int :=
  let total := freq.sum
  freq.map fun f => roundHalfEven (f / total * width)

end Physt

/-!
# Content dtypes (model of the dtype machinery in `histogram_base.py`)

The seven supported dtypes with numpy's `promote_types` and `can_cast(..., "safe")` restricted
to them.  The two tables are compared **exhaustively** with numpy on every run of the C13 check.
-/
namespace Physt

inductive DType
  | i16 | i32 | i64 | f16 | f32 | f64 | f128
  deriving DecidableEq, Repr, Inhabited

namespace DType

def all : List DType := [i16, i32, i64, f16, f32, f64, f128]

def isInt : DType → Bool
  | i16 | i32 | i64 => true
  | _ => false

def name : DType → String
  | i16 => "int16" | i32 => "int32" | i64 => "int64"
  | f16 => "float16" | f32 => "float32" | f64 => "float64" | f128 => "float128"

def ofName? (s : String) : Option DType :=
  all.find? fun d => d.name == s

/-- rank inside its own kind -/
def rank : DType → Nat
  | i16 => 0 | i32 => 1 | i64 => 2
  | f16 => 0 | f32 => 1 | f64 => 2 | f128 => 3

/-- `numpy.promote_types` -/
def promote (a b : DType) : DType :=
  match a.isInt, b.isInt with
  | true, true => if a.rank ≤ b.rank then b else a
  | false, false => if a.rank ≤ b.rank then b else a
  | true, false => promoteIF a b
  | false, true => promoteIF b a
where
  /-- integer `a` with float `b`: the smallest float holding every value of `a`, at least `b` -/
  promoteIF (a b : DType) : DType :=
    let need : DType := match a with
      | i16 => f32
      | _ => f64
    if need.rank ≤ b.rank then b else need

/-- `numpy.can_cast(a, b)` (casting="safe") -/
def canCast (a b : DType) : Bool :=
  match a.isInt, b.isInt with
  | true, true => a.rank ≤ b.rank
  | false, false => a.rank ≤ b.rank
  | false, true => false
  | true, false =>
      match a with
      | i16 => 1 ≤ b.rank
      | _ => 2 ≤ b.rank

/-- inclusive integer range of an integer dtype -/
def intRange : DType → Option (Int × Int)
  | i16 => some (-32768, 32767)
  | i32 => some (-2147483648, 2147483647)
  | i64 => some (-9223372036854775808, 9223372036854775807)
  | _ => none

/-- largest finite value of a float dtype -/
def floatMax : DType → Option Rat
  | f16 => some 65504
  | f32 => some 340282346638528859811704183484516925440
  | f64 => some (((2:Rat)^53 - 1) * (2:Rat)^971)
  | f128 => none   -- larger than anything the generators produce
  | _ => none

end DType
end Physt

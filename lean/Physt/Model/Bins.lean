/-!
# Bin algebra (model of `physt/_bin_utils.py`)

Core Lean only.  Positions are exact rationals: every finite IEEE double is a rational and
the implementation decides everything here by *comparing* doubles, which is exact.
-/
namespace Physt

/-- One bin `[left, right)` as a pair of edges. -/
abbrev Bin := Rat × Rat
/-- physt's wide format `[[l₀, r₀], [l₁, r₁], …]`. -/
abbrev Bins := List Bin

/-- `make_bin_array` for a 1-D array of edges: consecutive pairs. -/
def edgesToBins : List Rat → Bins
  | [] => []
  | [_] => []
  | a :: b :: rest => (a, b) :: edgesToBins (b :: rest)

/-- `is_rising`: every bin has `left < right` and no bin starts before its predecessor ends. -/
def risingB : Bins → Bool
  | [] => true
  | [(l, r)] => decide (l < r)
  | (l, r) :: (l', r') :: rest => decide (l < r) && decide (r ≤ l') && risingB ((l', r') :: rest)

/-- Propositional form used by the theorems. -/
def Rising : Bins → Prop
  | [] => True
  | [(l, r)] => l < r
  | (l, r) :: (l', r') :: rest => l < r ∧ r ≤ l' ∧ Rising ((l', r') :: rest)

/-- `is_consecutive` with exact comparison (the implementation uses `allclose`;
    see DESIGN §6 — generators never produce nearly-equal edges). -/
def consecutiveB : Bins → Bool
  | [] => true
  | [_] => true
  | (_, r) :: (l', r') :: rest => decide (r = l') && consecutiveB ((l', r') :: rest)

/-- `to_numpy_bins`: all edges of a consecutive binning. -/
def binsToEdges : Bins → List Rat
  | [] => []
  | (l, r) :: rest => l :: r :: (rest.map (·.2))

/-- `to_numpy_bins_with_mask` for the wide format: all edges including those of the gaps,
    and the indices (into the numpy-style bin list) of the real bins. -/
def maskedEdgesAux : Bins → Nat → List Rat × List Nat
  | [], _ => ([], [])
  | [(_, r)], j => ([r], [j])
  | (_, r) :: (l', r') :: rest, j =>
      if r = l' then
        let (es, ms) := maskedEdgesAux ((l', r') :: rest) (j + 1)
        (r :: es, j :: ms)
      else
        let (es, ms) := maskedEdgesAux ((l', r') :: rest) (j + 2)
        (r :: l' :: es, j :: ms)

def maskedEdges (bins : Bins) : List Rat × List Nat :=
  match bins with
  | [] => ([], [])
  | (l, r) :: rest =>
      let (es, ms) := maskedEdgesAux ((l, r) :: rest) 0
      (l :: es, ms)

def firstEdge? (bins : Bins) : Option Rat := bins.head?.map (·.1)
def lastEdge? (bins : Bins) : Option Rat := bins.getLast?.map (·.2)

/-- The abstract spec of "value `v` lies in bin `i`": `l ≤ v < r`, the last bin also
    contains its right edge (when `closeLast`). -/
def inBin (bins : Bins) (closeLast : Bool) (i : Nat) (v : Rat) : Bool :=
  match bins[i]? with
  | none => false
  | some (l, r) =>
      decide (l ≤ v) && (decide (v < r) || (closeLast && i + 1 == bins.length && decide (v = r)))

end Physt

import Physt.Model.Bins
/-!
# 1-D counting (model of `calculate_1d_frequencies`, `extract_1d_array`, `extract_weights`)

The code sorts the data, then for every bin takes the slice of the sorted array between two
`searchsorted` positions.  The model does literally that; `Physt/Theorems/C01.lean` proves
that it refines the one-line spec "content of bin i = Σ weights of the values inside bin i".
-/
namespace Physt

/-- A data point after the NaN mask: (value, weight). -/
abbrev Pt := Rat × Rat

/-- `extract_1d_array(dropna=True)` + `extract_weights(array_mask=…)`: NaN (`none`) entries are
    dropped *together with their weights*; absent weights mean weight 1. -/
def maskPts : List (Option Rat) → Option (List Rat) → List Pt
  | [], _ => []
  | none :: vs, none => maskPts vs none
  | some v :: vs, none => (v, 1) :: maskPts vs none
  | none :: vs, some (_ :: ws) => maskPts vs (some ws)
  | some v :: vs, some (w :: ws) => (v, w) :: maskPts vs (some ws)
  | _ :: _, some [] => []   -- unreachable: shapes are validated before (see `weightsShapeOk`)

/-- Shape validation of `extract_weights`: the weights must have the shape of the data. -/
def weightsShapeOk (vs : List (Option Rat)) (ws : Option (List Rat)) : Bool :=
  match ws with
  | none => true
  | some w => w.length == vs.length

/-- Insertion into a list sorted by value (what `argsort` + fancy indexing produce, up to the
    order of equal values, on which no sum depends). -/
def insertPt (p : Pt) : List Pt → List Pt
  | [] => [p]
  | q :: qs => if p.1 ≤ q.1 then p :: q :: qs else q :: insertPt p qs

def sortPts : List Pt → List Pt
  | [] => []
  | p :: ps => insertPt p (sortPts ps)

/-- `np.searchsorted(sorted, x, side="left")`. -/
def ssLeft (s : List Pt) (x : Rat) : Nat := (s.takeWhile fun p => decide (p.1 < x)).length
/-- `np.searchsorted(sorted, x, side="right")`. -/
def ssRight (s : List Pt) (x : Rat) : Nat := (s.takeWhile fun p => decide (p.1 ≤ x)).length

/-- Python's `a[start:stop]` for `0 ≤ start, stop ≤ len`. -/
def pySlice (s : List α) (start stop : Nat) : List α := (s.drop start).take (stop - start)

def wsum (ps : List Pt) : Rat := (ps.map (·.2)).sum
def w2sum (ps : List Pt) : Rat := (ps.map fun p => p.2 * p.2).sum

/-- The slice of the sorted data that the loop body assigns to bin number `i` (of `n`). -/
def binSlice (s : List Pt) (n i : Nat) (b : Bin) : List Pt :=
  let start := ssLeft s b.1
  let stop := if i + 1 = n then ssRight s b.2 else ssLeft s b.2
  pySlice s start stop

def sweepAux (s : List Pt) (n : Nat) : Nat → Bins → List (List Pt)
  | _, [] => []
  | i, b :: bs => binSlice s n i b :: sweepAux s n (i + 1) bs

structure Calc1D where
  freq : List Rat
  err2 : List Rat
  /-- `none` = NaN ("unknown") -/
  under : Option Rat
  over : Option Rat
  deriving Repr, DecidableEq

/-- `calculate_1d_frequencies` (frequencies, errors2, underflow, overflow). -/
def calc1d (bins : Bins) (data : List Pt) : Calc1D :=
  let s := sortPts data
  let cells := sweepAux s bins.length 0 bins
  let under : Option Rat :=
    match bins.head? with
    | none => if data.isEmpty then some 0 else none
    | some b => some (wsum (s.take (ssLeft s b.1)))
  let over : Option Rat :=
    match bins.getLast? with
    | none => if data.isEmpty then some 0 else none
    | some b => some (wsum (s.drop (ssRight s b.2)))
  { freq := cells.map wsum
    err2 := cells.map w2sum
    under := if consecutiveB bins then under else none
    over := if consecutiveB bins then over else none }

end Physt

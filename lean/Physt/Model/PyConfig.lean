/-!
# The ContextVar primitives the translated `config.py` is made of

Prelude of `PhystGen/ConfigSrc.lean`, which `tools/py2lean.py config` GENERATES from physt's
`config.py`: every method of `_Config` is transcribed as the sequence of `contextvars.ContextVar`
operations it performs, a `@contextlib.contextmanager` generator as what it does before the
`yield`, after it, and whether the part after it sits in a `finally`.
-/
namespace Physt

/-- operations on one `ContextVar` of the current context -/
inductive VarPrim
  | get              -- `var.get()`
  | set              -- `var.set(value)`, token discarded
  | setKeepToken     -- `token = var.set(value)`
  | resetToken       -- `var.reset(token)`
  deriving DecidableEq, Repr

/-- a generator-based context manager: `enter`, `yield`, `exit` -/
structure CtxMgr where
  enter : List VarPrim
  exit : List VarPrim
  /-- the statements after the `yield` are in a `finally:` (run also when the body raises) -/
  exitInFinally : Bool
  deriving DecidableEq, Repr

/-- the option as `__init__` declares it -/
structure OptionDecl where
  varName : String
  usesContextVar : Bool     -- `_make_var` creates a `contextvars.ContextVar(name, default=default)`
  envName : String          -- default = `os.environ.get(envName, envDefault) == envOn`
  envDefault : String
  envOn : String
  deriving DecidableEq, Repr

end Physt

/-!
# The free-arithmetics switch (model of `physt/config.py`)

`_Config` keeps one `ContextVar`.  Every thread / asyncio task has its own context: an optional
value (unset = the environment default) and the stack of tokens of the `enable_free_arithmetics`
blocks it is inside.  A schedule is any interleaving of the threads' own operations.
-/
namespace Physt

inductive COp
  | set (v : Bool)          -- `config.free_arithmetics = v`
  | enter (v : Bool)        -- entering `with config.enable_free_arithmetics(v):`
  | exit                    -- leaving the block, normally or because the body raised
  | read                    -- reading `config.free_arithmetics`
  | arith                   -- histogram + array operand / negative contents: accepted iff enabled
  | spawnThread (child : Nat)   -- a new thread starts with an empty context
  | spawnTask (child : Nat)     -- a new asyncio task starts with a copy of the creator's context
  deriving DecidableEq, Repr

structure Ctx where
  val : Option Bool := none
  stack : List (Option Bool) := []
  deriving DecidableEq, Repr

/-- what an operation lets its own thread observe -/
inductive CObs
  | none | value (b : Bool) | accepted (b : Bool) | underflow
  deriving DecidableEq, Repr

def Ctx.read (dflt : Bool) (c : Ctx) : Bool := c.val.getD dflt

/-- one operation on the context of the thread that performs it -/
def Ctx.step (dflt : Bool) (c : Ctx) : COp → Ctx × CObs
  | .set v => ({ c with val := some v }, .none)
  | .enter v => ({ val := some v, stack := c.val :: c.stack }, .none)
  | .exit => match c.stack with
    | [] => (c, .underflow)
    | old :: rest => ({ val := old, stack := rest }, .none)
  | .read => (c, .value (c.read dflt))
  | .arith => (c, .accepted (c.read dflt))
  | .spawnThread _ => (c, .none)
  | .spawnTask _ => (c, .none)

def Ctx.run (dflt : Bool) (c : Ctx) : List COp → Ctx × List CObs
  | [] => (c, [])
  | op :: ops =>
    let (c', o) := c.step dflt op
    let (c'', os) := Ctx.run dflt c' ops
    (c'', o :: os)

/-- all contexts, by thread / task id (absent = never started = empty context) -/
abbrev World := Nat → Ctx

def World.init : World := fun _ => {}

def World.set (w : World) (t : Nat) (c : Ctx) : World := fun u => if u = t then c else w u

/-- one scheduled step: thread `t` performs `op` -/
def World.step (dflt : Bool) (w : World) (t : Nat) (op : COp) : World × CObs :=
  let (c', o) := (w t).step dflt op
  let w' := w.set t c'
  match op with
  | .spawnThread child => (w'.set child {}, o)
  | .spawnTask child => (w'.set child { val := c'.val, stack := [] }, o)
  | _ => (w', o)

/-- run a schedule; the result lists (thread, observation) in schedule order -/
def World.run (dflt : Bool) (w : World) : List (Nat × COp) → World × List (Nat × CObs)
  | [] => (w, [])
  | (t, op) :: rest =>
    let (w', o) := w.step dflt t op
    let (w'', os) := World.run dflt w' rest
    (w'', (t, o) :: os)

end Physt

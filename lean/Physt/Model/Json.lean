import Physt.Model.Hist1D
/-!
# Dictionary export / import (model of `to_dict`, `_kwargs_from_dict`, `from_dict`, the version gate)

Numbers are atoms: CPython's `json` text layer and the shortest round-trip `repr` of doubles are in
the trusted base.  The model covers what physt itself does: which fields are written, how they are
read back, and the order on version strings.
-/
namespace Physt

/-- the dictionary a binning writes -/
inductive BinningDict
  | static (bins : Bins)                                              -- {"binning_type": "StaticBinning", "bins": …}
  | fixed (adaptive : Bool) (count : Nat) (w shift : Rat) (tmin : Int)   -- FixedWidthBinning
  deriving DecidableEq, Repr

/-- the dictionary a 1-D histogram writes -/
structure HistDict where
  histogramType : String
  binning : BinningDict
  freq : List Rat
  dtype : DType
  err2 : List Rat
  missed : List NRat          -- [underflow, overflow, inner_missed] as stored
  missedKeep : Bool
  deriving DecidableEq, Repr

def Binning.toDict (fo : FloatOps) : Binning → BinningDict
  | .static b _ => .static b
  | .fixed g => .fixed g.adaptive g.count g.w g.shift g.tmin

/-- `BinningBase.from_dict`: static binnings come back right-closed, fixed-width ones right-open and aligned -/
def BinningDict.toBinning : BinningDict → Binning
  | .static b => .static b true
  | .fixed a c w s t => .fixed { w := w, shift := s, tmin := t, count := c, adaptive := a, align := true, ire := false }

namespace H1

/-- `to_dict()` -/
def toDict (fo : FloatOps) (h : H1) : HistDict :=
  { histogramType := "Histogram1D", binning := h.binning.toDict fo, freq := h.freq, dtype := h.dtype, err2 := h.err2,
    missed := [h.under, h.over, h.inner], missedKeep := h.keep }

/-- `from_dict()`: the constructor is called with frequencies, so the statistics are invalid;
    with `keep_missed = False` the stored missed values are dropped -/
def fromDict (d : HistDict) : H1 :=
  let m (i : Nat) : NRat := if d.missedKeep then (d.missed[i]?).getD (some 0) else some 0
  { binning := d.binning.toBinning, freq := d.freq, err2 := d.err2, under := m 0, over := m 1, inner := m 2,
    keep := d.missedKeep, dtype := d.dtype, stats := Stats.invalid }

/-- what a round trip is required to preserve: everything but the statistics and the
    right-edge / alignment flags of the binning (not part of the document) -/
def canon (fo : FloatOps) (h : H1) : H1 :=
  { h with binning := (h.binning.toDict fo).toBinning, stats := Stats.invalid,
           under := if h.keep then h.under else some 0, over := if h.keep then h.over else some 0,
           inner := if h.keep then h.inner else some 0 }

end H1

/-- a PEP 440 version as far as physt uses it: release numbers and an optional pre-release tag
    (`a` < `b` < `rc` < final) -/
structure Version where
  release : List Nat
  pre : Option (Nat × Nat) := none     -- (kind: 0 = a, 1 = b, 2 = rc; number)
  deriving DecidableEq, Repr

def allZero : List Nat → Bool
  | [] => true
  | x :: xs => x == 0 && allZero xs

/-- compare release tuples, missing components count as 0 -/
def cmpRelease : List Nat → List Nat → Ordering
  | [], ys => if allZero ys then .eq else .lt
  | x :: xs, ys =>
    match ys with
    | [] => if x = 0 then cmpRelease xs [] else .gt
    | y :: ys' => if x < y then .lt else if y < x then .gt else cmpRelease xs ys'

def cmpPre : Option (Nat × Nat) → Option (Nat × Nat) → Ordering
  | none, none => .eq
  | none, some _ => .gt
  | some _, none => .lt
  | some (k, n), some (k', n') =>
    if k < k' then .lt else if k' < k then .gt else if n < n' then .lt else if n' < n then .gt else .eq

def Version.cmp (a b : Version) : Ordering :=
  match cmpRelease a.release b.release with
  | .eq => cmpPre a.pre b.pre
  | o => o

/-- `require_compatible_version`: refuse iff the running version is older than the one required -/
def versionRefused (current compatible : Version) : Bool := current.cmp compatible == .lt

end Physt

-- Root of the `PhystGen` library: definitions GENERATED from physt's source by tools/py2lean.py, and the refinement
-- theorems stated about them.  A separate root so that a run can re-check all of it in a scratch directory against
-- definitions regenerated from the current source (harness/gen_tie.py) without touching the lake tree.
import PhystGen.StatisticsSrc
import PhystGen.C14_Source
import PhystGen.C06_Source
import PhystGen.ConfigSrc
import PhystGen.C19_Source
import PhystGen.VersionSrc
import PhystGen.C08_Source

import PhystGen.StatisticsSrc
import Physt.Theorems.C14
import Mathlib.Tactic.Ring
/-!
# C14 / C06 — the hand-written statistics model REFINES the definitions generated from the source

`PhystGen/StatisticsSrc.lean` is produced by `tools/py2lean.py` from the current
`physt/statistics.py` (class `Statistics`: fields and defaults, `mean`, `variance`, `__add__`,
`__mul__`, `INVALID_STATISTICS`).  The theorems below relate those generated definitions to
`Physt.Stats` (the model every C06 / C14 / C18 theorem talks about) through the abstraction
`absStats`, so the property theorems are statements about what the code says NOW: a change of
`statistics.py` that alters a field default, an accumulation rule, the scaling rule, the guard of
`variance`, the handling of the zero weight or what invalid statistics turn into regenerates other
definitions and these proofs no longer check (harness/gen_tie.py runs that in every C06 / C14 run).

Idealisation: Python floats are exact (extended) rationals, `PyF`.
-/
namespace Physt
open Src

/-- closes what `simp` leaves of a refinement goal when the source computes the same numbers in another order
    (`c * sum` for `sum * c`, re-associated sums): identities of ℚ, possibly several -/
macro "close_arith" : tactic => `(tactic| all_goals (repeat' (first | ring | constructor)))

/-- an optional rational as a Python float, `d` standing for "none" -/
def optF (d : PyF) : Option Rat → PyF
  | none => d
  | some x => .fin x

/-- the `Statistics` object a model record stands for (`valid = false`: `INVALID_STATISTICS`) -/
def absStats (s : Stats) : Statistics :=
  if s.valid then
    { sum := .fin s.sum, sum2 := .fin s.sum2, min := optF .pinf s.min, max := optF .ninf s.max,
      weight := .fin s.weight, median := optF .nan s.median }
  else INVALID_STATISTICS

/-- the default-constructed `Statistics()` is the model's empty record -/
theorem C14_src_empty : absStats Stats.empty = ({} : Statistics) := by
  simp [absStats, Stats.empty, optF]

theorem C14_src_invalid : absStats Stats.invalid = INVALID_STATISTICS := by
  simp [absStats, Stats.invalid]

private theorem minimum_optF (a b : Option Rat) :
    PyF.minimum (optF .pinf a) (optF .pinf b) = optF .pinf (Stats.minO a b) := by
  cases a <;> cases b <;> simp [optF, Stats.minO, PyF.minimum, PyF.gt]
  split <;> simp_all

private theorem maximum_optF (a b : Option Rat) :
    PyF.maximum (optF .ninf a) (optF .ninf b) = optF .ninf (Stats.maxO a b) := by
  cases a <;> cases b <;> simp [optF, Stats.maxO, PyF.maximum, PyF.gt]
  split <;> simp_all

/-- **`Statistics.__add__` is `Stats.add`** — for valid and invalid operands alike, and it never raises. -/
theorem C14_src_add (a b : Stats) :
    (absStats a).add (.inst (absStats b)) = .ok (absStats (a.add b)) := by
  cases ha : a.valid <;> cases hb : b.valid
  · simp [absStats, Stats.add, Stats.invalid, ha, hb, Statistics.add, INVALID_STATISTICS, PyF.add, PyF.minimum, PyF.maximum]
  · simp [absStats, Stats.add, Stats.invalid, ha, hb, Statistics.add, INVALID_STATISTICS, PyF.add, PyF.minimum, PyF.maximum]
  · cases hmin : a.min <;> cases hmax : a.max <;>
      simp [absStats, Stats.add, Stats.invalid, ha, hb, Statistics.add, INVALID_STATISTICS, PyF.add, PyF.minimum,
        PyF.maximum, optF, hmin, hmax]
  · simp only [absStats, Stats.add, ha, hb, Bool.and_self, if_true, Statistics.add, PyF.add, minimum_optF, maximum_optF]
    simp [optF]
    close_arith

/-- anything that is not a `Statistics` makes the sum invalid -/
theorem C14_src_add_foreign (s : Statistics) (np : Bool) (x : PyF) :
    s.add .other = .ok INVALID_STATISTICS ∧ s.add (.scalar np x) = .ok INVALID_STATISTICS := by
  simp [Statistics.add]

/-- **`Statistics.__mul__` by a finite scalar is `Stats.scale`** (python and numpy scalars alike: the
    sums and the weight are multiplied by `c` — not by `c²` —, minimum, maximum and median are kept). -/
theorem C14_src_mul (a : Stats) (c : Rat) (np : Bool) :
    (absStats a).mul (.scalar np (.fin c)) = .ok (absStats (a.scale c)) := by
  cases ha : a.valid <;>
    simp [absStats, Stats.scale, Stats.invalid, ha, Statistics.mul, INVALID_STATISTICS, PyF.mul]
  close_arith

/-- a non-scalar factor invalidates the statistics -/
theorem C14_src_mul_foreign (s t : Statistics) :
    s.mul .other = .ok INVALID_STATISTICS ∧ s.mul (.inst t) = .ok INVALID_STATISTICS := by
  simp [Statistics.mul]

/-- **`mean()`**: the quotient, NaN for zero weight (the `ZeroDivisionError` is caught) and for invalid statistics;
    no exception escapes. -/
theorem C14_src_mean (a : Stats) : (absStats a).mean = .ok (optF .nan a.mean) := by
  cases ha : a.valid
  · simp [absStats, ha, Statistics.mean, INVALID_STATISTICS, PyF.div, PyF.divNZ, Stats.mean, optF, bind, Except.bind, pure, Except.pure]
  · by_cases hw : a.weight = 0
    · simp [absStats, ha, Statistics.mean, PyF.div, Stats.mean, optF, hw, bind, Except.bind, pure, Except.pure]
    · simp [absStats, ha, Statistics.mean, PyF.div, PyF.divNZ, Stats.mean, optF, hw, bind, Except.bind, pure, Except.pure]
      close_arith

/-- **`variance()`**: `(sum2 − sum²/weight)/weight` for positive weight, NaN otherwise; no exception escapes. -/
theorem C14_src_variance (a : Stats) : (absStats a).variance = .ok (optF .nan a.variance) := by
  cases ha : a.valid
  · simp [absStats, ha, Statistics.variance, INVALID_STATISTICS, PyF.gt, Stats.variance, optF]
  · by_cases hw : 0 < a.weight
    · have hw' : a.weight ≠ 0 := ne_of_gt hw
      simp [absStats, ha, Statistics.variance, PyF.gt, PyF.div, PyF.divNZ, PyF.powNat, PyF.mul, PyF.sub, PyF.add, PyF.neg,
        Stats.variance, optF, hw, hw', bind, Except.bind]
      ring
    · simp [absStats, ha, Statistics.variance, PyF.gt, Stats.variance, optF, hw]

/-! ### the property clauses, stated on the generated definitions -/

/-- **C14 on the source.** Adding the `Statistics` of two data sets gives the `Statistics` of the combined data. -/
theorem C14_src_hom (d₁ d₂ : List Pt) :
    (absStats (rawStats d₁)).add (.inst (absStats (rawStats d₂))) = .ok (absStats (rawStats (d₁ ++ d₂))) := by
  rw [C14_src_add, C14_hom]

/-- **C06 / C14 on the source.** Multiplying valid statistics by a positive scalar leaves `mean()` and `variance()`
    as they were and multiplies the recorded weight by the scalar. -/
theorem C14_src_scale_invariant (s : Stats) (c : Rat) (hc : 0 < c) (hv : s.valid = true) (np : Bool) :
    ∃ t : Statistics, (absStats s).mul (.scalar np (.fin c)) = .ok t ∧
      t.mean = (absStats s).mean ∧ t.variance = (absStats s).variance ∧
      t.weight = .fin (s.weight * c) ∧ t.min = (absStats s).min ∧ t.max = (absStats s).max := by
  obtain ⟨h1, h2, h3, h4, h5⟩ := C14_scale s c hc hv
  refine ⟨absStats (s.scale c), C14_src_mul s c np, ?_, ?_, ?_, ?_, ?_⟩
  · rw [C14_src_mean, C14_src_mean, h1]
  · rw [C14_src_variance, C14_src_variance, h2]
  · simp [absStats, Stats.scale, hv]
  · simp [absStats, Stats.scale, hv]
  · simp [absStats, Stats.scale, hv]

/-- **Invalid stays invalid on the source**: whichever operand is `INVALID_STATISTICS`, the sum is; its scaling is;
    its mean and variance read NaN. -/
theorem C14_src_invalid_absorbs (s : Stats) (c : Rat) (np : Bool) :
    INVALID_STATISTICS.add (.inst (absStats s)) = .ok INVALID_STATISTICS ∧
    (absStats s).add (.inst INVALID_STATISTICS) = .ok INVALID_STATISTICS ∧
    INVALID_STATISTICS.mul (.scalar np (.fin c)) = .ok INVALID_STATISTICS ∧
    INVALID_STATISTICS.mean = .ok .nan ∧ INVALID_STATISTICS.variance = .ok .nan := by
  have e := C14_src_invalid
  obtain ⟨i1, i2, i3, _, i5, i6⟩ := C14_invalid s c 0 0
  refine ⟨?_, ?_, ?_, ?_, ?_⟩
  · rw [← e, C14_src_add, i1]
  · rw [← e, C14_src_add, i2]
  · rw [← e, C14_src_mul, i3]
  · rw [← e, C14_src_mean, i5]; rfl
  · rw [← e, C14_src_variance, i6]; rfl

-- non-vacuity: concrete records through the generated code
example : (absStats (rawStats [(1, 2), (3, 1 / 2)])).mean = .ok (.fin (7 / 5)) := by
  rw [C14_src_mean]; decide +kernel
example : ({} : Statistics).mean = .ok .nan ∧ ({} : Statistics).variance = .ok .nan := by decide +kernel
example : (absStats (rawStats [(1, 2)])).mul (.scalar true (.fin 3)) = .ok (absStats (rawStats [(1, 6)])) := by
  rw [C14_src_mul]; decide +kernel

end Physt

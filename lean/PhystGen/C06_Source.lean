import PhystGen.C14_Source
import Physt.Theorems.C06
/-!
# C06 — the statistics clause, on the definitions generated from `physt/statistics.py`

"The recorded mean, variance, minimum and maximum are invariant under positive scaling while the
recorded weight scales by c."  `C06_stats` states it for the model histogram; here the recorded
statistics of the scaled histogram are related to the GENERATED `Statistics.__mul__`, `mean` and
`variance` (see `PhystGen/C14_Source.lean` for the refinement these rest on).
-/
namespace Physt
open Src H1

/-- **Scaling a histogram by a positive scalar, seen through the source's `Statistics`**: the statistics object of
    the result is `stats * c` as `Statistics.__mul__` computes it, and its `mean()`, `variance()`, `min`, `max` are those
    of the operand while its `weight` is `c` times the operand's. -/
theorem C06_src_stats (h r : H1) (c : Rat) (k : NumKind) (hc : 0 < c) (hv : h.stats.valid = true)
    (hr : h.imul c k = .ok r) (np : Bool) :
    (absStats h.stats).mul (.scalar np (.fin c)) = .ok (absStats r.stats) ∧
    (absStats r.stats).mean = (absStats h.stats).mean ∧
    (absStats r.stats).variance = (absStats h.stats).variance ∧
    (absStats r.stats).min = (absStats h.stats).min ∧ (absStats r.stats).max = (absStats h.stats).max ∧
    (absStats r.stats).weight = .fin (h.stats.weight * c) := by
  have hs : r.stats = h.stats.scale c := (imul_ok h r c k hr).2.2.2.2.2.2.1
  obtain ⟨t, ht, h1, h2, h3, h4, h5⟩ := C14_src_scale_invariant h.stats c hc hv np
  rw [C14_src_mul] at ht
  have : t = absStats (h.stats.scale c) := by injection ht with ht; exact ht.symm
  subst this
  rw [hs]
  exact ⟨C14_src_mul _ _ _, h1, h2, h4, h5, h3⟩

/-- the factor enters the sums linearly: `sum2` is multiplied by `c`, not by `c²` (the defect repaired by `fix:` 6f9c6b1) -/
theorem C06_src_sum2_linear (s : Stats) (hv : s.valid = true) (c : Rat) (np : Bool) :
    ∃ t : Statistics, (absStats s).mul (.scalar np (.fin c)) = .ok t ∧ t.sum2 = .fin (s.sum2 * c) ∧ t.sum = .fin (s.sum * c) := by
  refine ⟨_, C14_src_mul s c np, ?_, ?_⟩ <;> simp [absStats, Stats.scale, hv]

example : ∃ t : Statistics, (absStats (rawStats [(2, 1)])).mul (.scalar false (.fin 3)) = .ok t ∧ t.sum2 = .fin 12 := by
  obtain ⟨t, h1, h2, _⟩ := C06_src_sum2_linear (rawStats [(2, 1)]) (by decide +kernel) 3 false
  exact ⟨t, h1, by rw [h2]; decide +kernel⟩

end Physt

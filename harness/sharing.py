"""Observed object graph of live histograms (the tie of the heap model, lean/Physt/Model/Heap.lean, to the code).

The heap model proves (Theorems/C12_Heap.lean: C12_sep_history, C12_frame) that every derivation of physt allocates fresh
mutable cells, so that no two live histograms share one and an in-place operation on one object cannot reach another.
`sharing(regs)` lists the mutable components that two live objects of the IMPLEMENTATION share right now -- numpy memory
of frequencies / errors2 (np.shares_memory, so views count), fixed-width binning objects (rewritten in place when an adaptive
histogram grows; a non-adaptive one can be switched to adaptive), the meta-data dict, and every mutable container NESTED
inside the meta-data values (lists, dicts, sets, arrays, deques, bytearrays, instances of small user classes, ... found by
walking the values recursively -- THROUGH tuples / namedtuples / frozensets / object attributes too -- and comparing object
identity, so a shared nested list is seen before any edit makes it visible) -- and the components one object
shares with itself (frequencies and errors2 being one array).  Immutable sharing (static binnings, the INVALID_STATISTICS
singleton, strings / numbers / tuples of such inside the meta data) is not listed.  A non-empty list is a difference between
model and implementation, not yet a violation: the check then looks for a mutation that makes the sharing visible
(C12.neighbours; the nested meta-data stream of C12 edits the shared container through one of the objects)."""
from __future__ import annotations

import collections
import dataclasses
import types

import numpy as np


def _binnings(h):
    b = getattr(h, "binnings", None)
    if b is None:
        b = [h.binning]
    return list(b)


def _mutable_binning(b) -> bool:
    return type(b).__name__ == "FixedWidthBinning" or bool(getattr(b, "is_adaptive", lambda: False)())


# ------------------------------------------------------------------------------------------- nested meta-data values
_MUTABLE_BUILTINS = (list, dict, set, bytearray, np.ndarray, collections.deque)
_MAX_DEPTH = 12


def attrs_of(v):
    """the instance attributes of a small user object (dataclass instance, types.SimpleNamespace, any plain instance of a
    class defined outside builtins / numpy carrying a __dict__), else None"""
    if isinstance(v, type) or isinstance(v, (types.ModuleType, types.FunctionType, types.MethodType, types.BuiltinFunctionType)):
        return None
    if isinstance(v, (str, bytes, int, float, complex, tuple, frozenset, np.generic)) or isinstance(v, _MUTABLE_BUILTINS):
        return None
    if hasattr(v, "frequencies") and hasattr(v, "bins"):            # a histogram stored in the meta data: its own object
        return None
    d = getattr(v, "__dict__", None)
    if not isinstance(d, dict):
        return None
    if isinstance(v, types.SimpleNamespace) or (dataclasses.is_dataclass(v)) or type(v).__module__ not in ("builtins", "numpy"):
        return d
    return None


def _frozen(v) -> bool:
    p = getattr(type(v), "__dataclass_params__", None)
    return bool(p is not None and getattr(p, "frozen", False))


def _is_mutable_container(v) -> bool:
    if isinstance(v, _MUTABLE_BUILTINS):
        return True
    return attrs_of(v) is not None and not _frozen(v)


def stable_elems(v) -> list:
    """the elements of a set / frozenset in an order that does not depend on hashes or addresses as long as the reprs
    of the elements are content-based (ties keep the iteration order)"""
    return sorted(v, key=_stable_key)


def _stable_key(x):
    try:
        r = repr(x)
    except Exception:
        r = type(x).__name__
    if " at 0x" in r:                       # the default object repr: the address says nothing
        r = type(x).__name__
    return (type(x).__name__, r)


def _meta_of(h):
    try:
        md = h.meta_data            # the public property
    except Exception:
        md = getattr(h, "_meta_data", None)
    return md if isinstance(md, dict) else None


def meta_containers(h) -> list:
    """every mutable object reachable from the meta-data VALUES of `h` (the meta-data dict itself is not listed), as
    (path, object) in a deterministic order.  The walk goes through the immutable containers as well -- tuples, namedtuples,
    frozensets, frozen dataclasses -- since they can hold mutable objects: keys of a dict in the order of their repr, items
    of a list / tuple / deque in order, elements of a set / frozenset in the order of their repr, instance attributes of
    dataclass / SimpleNamespace / plain user objects in the order of their names.  A path is the list of steps leading from
    the meta-data dict to the object: a key / an index, ["attr", name] for an attribute, ["elem", n] for the n-th element
    (stable order) of a set / frozenset.  Cycles are cut; an object reachable twice is listed under its first path."""
    md = _meta_of(h)
    out: list = []
    if md is None:
        return out
    seen: set = set()

    def walk(v, path):
        if len(path) > _MAX_DEPTH:
            return
        attrs = attrs_of(v)
        if isinstance(v, (list, dict, tuple, frozenset)) or attrs is not None or _is_mutable_container(v):
            if id(v) in seen:
                return
            seen.add(id(v))
        if _is_mutable_container(v):
            out.append((path, v))
        if isinstance(v, dict):
            for k in sorted(v, key=repr):
                walk(v[k], path + [k])
        elif isinstance(v, (list, tuple, collections.deque)):
            for n, item in enumerate(list(v)):
                walk(item, path + [n])
        elif isinstance(v, (set, frozenset)):
            for n, item in enumerate(stable_elems(v)):
                walk(item, path + [["elem", n]])
        elif attrs is not None:
            for k in sorted(attrs, key=repr):
                walk(attrs[k], path + [["attr", k]])

    for k in sorted(md, key=repr):
        walk(md[k], [k])
    return out


def follow_path(md, path):
    """the object a path of meta_containers leads to"""
    v = md
    for p in path:
        if isinstance(p, (list, tuple)) and len(p) == 2 and p[0] == "attr":
            v = getattr(v, p[1])
        elif isinstance(p, (list, tuple)) and len(p) == 2 and p[0] == "elem":
            v = stable_elems(v)[p[1]]
        else:
            v = v[p]
    return v


def path_text(path) -> str:
    out = "meta_data"
    for p in path:
        if isinstance(p, (list, tuple)) and len(p) == 2 and p[0] == "attr":
            out += f".{p[1]}"
        elif isinstance(p, (list, tuple)) and len(p) == 2 and p[0] == "elem":
            out += f"{{element {p[1]}}}"
        else:
            out += f"[{p!r}]"
    return out


def nested_meta_shared(x, y, cx=None, cy=None) -> list:
    """[(path in x, path in y)] of the mutable containers inside the meta-data values that x and y share: the same object
    (identity), or two arrays over the same memory  (cx, cy: meta_containers(x), meta_containers(y) when already known)"""
    cx = meta_containers(x) if cx is None else cx
    cy = meta_containers(y) if cy is None else cy
    if not cx or not cy:
        return []
    by_id = {}
    for p, v in cx:
        by_id.setdefault(id(v), p)
    out = []
    for q, w in cy:
        if id(w) in by_id:
            out.append((by_id[id(w)], q))
    ax = [(p, v) for p, v in cx if isinstance(v, np.ndarray)]
    for q, w in cy:
        if isinstance(w, np.ndarray) and id(w) not in by_id:
            for p, v in ax:
                try:
                    if np.shares_memory(v, w):
                        out.append((p, q))
                        break
                except Exception:
                    pass
    return out


def sharing(regs) -> list:
    out = []
    live = [(i, h) for i, h in enumerate(regs) if h is not None and hasattr(h, "frequencies")]
    for i, x in live:
        try:
            if np.shares_memory(x.frequencies, x.errors2):
                out.append([i, i, "frequencies/errors2"])
        except Exception:
            pass
    conts = {}
    for i, x in live:
        try:
            conts[i] = meta_containers(x)
        except Exception:
            conts[i] = []
    for a, (i, x) in enumerate(live):
        for j, y in live[a + 1:]:
            if x is y:
                continue
            try:
                for n1 in ("frequencies", "errors2"):
                    for n2 in ("frequencies", "errors2"):
                        if np.shares_memory(getattr(x, n1), getattr(y, n2)):
                            out.append([i, j, n1 if n1 == n2 else f"{n1}/{n2}"])
                for p, b in enumerate(_binnings(x)):
                    for q, c in enumerate(_binnings(y)):
                        if b is c and _mutable_binning(b):
                            out.append([i, j, f"binning[{p}]" if p == q else f"binning[{p}]/binning[{q}]"])
                if getattr(x, "_meta_data", None) is not None and getattr(x, "_meta_data", 0) is getattr(y, "_meta_data", 1):
                    out.append([i, j, "meta_data"])
                else:
                    for p, q in (nested_meta_shared(x, y, conts[i], conts[j])[:4] if conts[i] and conts[j] else []):
                        out.append([i, j, path_text(p) if p == q else f"{path_text(p)}/{path_text(q)}"])
            except Exception:
                continue
    return out

"""Observed object graph of live histograms (the tie of the heap model, lean/Physt/Model/Heap.lean, to the code).

The heap model proves (Theorems/C12_Heap.lean: C12_sep_history, C12_frame) that every derivation of physt allocates fresh
mutable cells, so that no two live histograms share one and an in-place operation on one object cannot reach another.
`sharing(regs)` lists the mutable components that two live objects of the IMPLEMENTATION share right now -- numpy memory
of frequencies / errors2 (np.shares_memory, so views count), fixed-width binning objects (rewritten in place when an adaptive
histogram grows; a non-adaptive one can be switched to adaptive), the meta-data dict -- and the components one object
shares with itself (frequencies and errors2 being one array).  Immutable sharing (static binnings, the INVALID_STATISTICS
singleton) is not listed.  A non-empty list is a difference between model and implementation, not yet a violation: the
check then looks for a mutation that makes the sharing visible (C12.neighbours)."""
from __future__ import annotations

import numpy as np


def _binnings(h):
    b = getattr(h, "binnings", None)
    if b is None:
        b = [h.binning]
    return list(b)


def _mutable_binning(b) -> bool:
    return type(b).__name__ == "FixedWidthBinning" or bool(getattr(b, "is_adaptive", lambda: False)())


def sharing(regs) -> list:
    out = []
    live = [(i, h) for i, h in enumerate(regs) if h is not None and hasattr(h, "frequencies")]
    for i, x in live:
        try:
            if np.shares_memory(x.frequencies, x.errors2):
                out.append([i, i, "frequencies/errors2"])
        except Exception:
            pass
    for a, (i, x) in enumerate(live):
        for j, y in live[a + 1:]:
            if x is y:
                continue
            try:
                for n1 in ("frequencies", "errors2"):
                    for n2 in ("frequencies", "errors2"):
                        if np.shares_memory(getattr(x, n1), getattr(y, n2)):
                            out.append([i, j, n1 if n1 == n2 else f"{n1}/{n2}"])
                for p, b in enumerate(_binnings(x)):
                    for q, c in enumerate(_binnings(y)):
                        if b is c and _mutable_binning(b):
                            out.append([i, j, f"binning[{p}]" if p == q else f"binning[{p}]/binning[{q}]"])
                if getattr(x, "_meta_data", None) is not None and getattr(x, "_meta_data", 0) is getattr(y, "_meta_data", 1):
                    out.append([i, j, "meta_data"])
            except Exception:
                continue
    return out

"""Generator building blocks for 1-D cases (type-directed, mostly valid; every choice from one Rng)."""
from __future__ import annotations

import math
from fractions import Fraction

import numpy as np

from .core import rs

NAN = None


def nxt(x: float, up: bool) -> float:
    return float(np.nextafter(x, math.inf if up else -math.inf))


def edges_pool(rng) -> list[float]:
    """a rising list of candidate edges"""
    style = rng.choice(["dyadic", "dyadic", "decimal", "int", "big", "tiny", "irregular"])
    n = rng.randint(2, 9)
    if style == "dyadic":
        start = rng.randint(-12, 12) / 4
        steps = [rng.choice([0.25, 0.5, 1.0, 1.5, 2.0]) for _ in range(n)]
    elif style == "decimal":
        start = rng.randint(-20, 20) * 0.1
        steps = [rng.choice([0.1, 0.2, 0.3, 0.7]) for _ in range(n)]
    elif style == "int":
        start = float(rng.randint(-5, 5))
        steps = [float(rng.randint(1, 3)) for _ in range(n)]
    elif style == "big":
        start = float(rng.choice([1000, 1e6, -1e5]))
        steps = [rng.choice([1.0, 0.5, 10.0]) for _ in range(n)]
    elif style == "tiny":
        start = rng.choice([1e-6, -2e-7, 0.0])
        steps = [rng.choice([1e-7, 2.5e-7, 1e-6]) for _ in range(n)]
    else:
        start = rng.uniform(-3, 3)
        steps = [rng.uniform(0.05, 2.0) for _ in range(n)]
    e = [start]
    for s in steps:
        e.append(e[-1] + s)
    # strictly rising in doubles
    out = [e[0]]
    for x in e[1:]:
        if x > out[-1]:
            out.append(x)
    return out


def rising_bins(rng, allow_gaps=True) -> tuple[list[list[float]], dict]:
    """pairs [[l, r], ...] rising; tags describe the shape"""
    e = edges_pool(rng)
    pairs = [[e[i], e[i + 1]] for i in range(len(e) - 1)]
    tags = {"gapped": False, "tiny_gap": False}
    if rng.random() < 0.12:
        pairs = pairs[:1]
    if allow_gaps and len(pairs) >= 2 and rng.random() < 0.4:
        mode = rng.choice(["drop", "shrink", "tiny"])
        if mode == "drop" and len(pairs) >= 3:
            k = rng.randint(1, len(pairs) - 2)
            del pairs[k]
            tags["gapped"] = True
        elif mode == "shrink":
            k = rng.randint(1, len(pairs) - 1)
            l, r = pairs[k]
            m = l + (r - l) * rng.choice([0.25, 0.5])
            if l < m < r:
                pairs[k][0] = m
                tags["gapped"] = True
        else:
            k = rng.randint(1, len(pairs) - 1)
            l, r = pairs[k]
            m = nxt(l, True) if rng.random() < 0.5 else l + abs(l) * 1e-7 + 1e-12
            if l < m < r:
                pairs[k][0] = m
                tags["gapped"] = True
                tags["tiny_gap"] = True
    if tags["gapped"]:
        # the code's is_consecutive() is tolerant (allclose, rtol 1e-5, atol 1e-8): gaps below that
        # tolerance are "tiny" for the purpose of the NaN under/overflow convention
        if all(abs(pairs[i + 1][0] - pairs[i][1]) <= 1e-8 + 1e-5 * abs(pairs[i][1]) for i in range(len(pairs) - 1)):
            tags["tiny_gap"] = True
    return pairs, tags


def binning_json(pairs, ire=True, form=None, rng=None) -> dict:
    consecutive = all(pairs[i][1] == pairs[i + 1][0] for i in range(len(pairs) - 1))
    if form is None:
        forms = ["pairs", "static_obj", "derived_obj"]
        if consecutive:
            forms += ["edges", "numpy_obj", "edge_list"]
        form = rng.choice(forms)
    return {"t": "static", "bins": [[rs(l), rs(r)] for l, r in pairs], "ire": ire, "form": form}


def fixed_json(w: float, tmin: int, count: int, shift: float = 0.0, adaptive=False, align=True, ire=False) -> dict:
    return {"t": "fixed", "w": rs(w), "shift": rs(shift), "tmin": tmin, "count": count,
            "align": align, "adaptive": adaptive, "ire": ire}


def values_for(rng, pairs, n: int, nan_share=0.1) -> list:
    """values concentrated on / one ulp beside the edges, inside, in gaps, outside, duplicates, NaN"""
    edges = sorted({x for p in pairs for x in p})
    lo, hi = edges[0], edges[-1]
    span = (hi - lo) or 1.0
    out = []
    for _ in range(n):
        r = rng.random()
        if r < nan_share:
            out.append(NAN)
        elif r < 0.35:
            out.append(rng.choice(edges))
        elif r < 0.5:
            out.append(nxt(rng.choice(edges), rng.random() < 0.5))
        elif r < 0.8:
            a, b = rng.choice(pairs)
            out.append(a + (b - a) * rng.choice([0.25, 0.5, 0.75]))
        elif r < 0.9:
            out.append(rng.choice([lo - span, hi + span, lo - 0.25, hi + 0.25, lo - 1e9, hi + 1e9]))
        elif out:
            out.append(rng.choice(out))
        else:
            out.append((lo + hi) / 2)
    return out


def weights_for(rng, n: int, kinds=None):
    """(weights or None, numpy dtype name)"""
    kind = rng.choice(kinds or ["none", "none", "int", "dyadic", "dyadic", "equal", "f32", "zeros"])
    if kind == "none":
        return None, None
    if kind == "int":
        return [rng.randint(0, 5) for _ in range(n)], "int64"
    if kind == "dyadic":
        return [rng.randint(0, 24) / 4 for _ in range(n)], "float64"
    if kind == "equal":
        c = rng.choice([2, 3, 0.5, 2.5])
        return [c] * n, "float64" if isinstance(c, float) else "int64"
    if kind == "f32":
        return [rng.randint(0, 16) / 8 for _ in range(n)], "float32"
    if kind == "zeros":
        return [rng.choice([0, 0, 1, 2]) for _ in range(n)], rng.choice(["int64", "float64"])
    raise ValueError(kind)


def enc_vals(vs) -> list:
    return [None if v is None else rs(v) for v in vs]


def in_bin(pairs, i, v: Fraction, close_last=True) -> bool:
    l, r = Fraction(pairs[i][0]), Fraction(pairs[i][1])
    return l <= v and (v < r or (close_last and i == len(pairs) - 1 and v == r))


def is_consecutive_exact(pairs) -> bool:
    return all(Fraction(pairs[i][1]) == Fraction(pairs[i + 1][0]) for i in range(len(pairs) - 1))

"""Shared machinery: exact numbers, the Lean driver pipe, build + axiom audit, verdicts, evidence."""
from __future__ import annotations

import hashlib
import json
import math
import os
import random
import re
import subprocess
import sys
import time
import warnings
from fractions import Fraction
from pathlib import Path

import numpy as np

VERIF = Path(__file__).resolve().parent.parent
LEAN = VERIF / "lean"
# (tools/seed_matrix_wt2.sh redirects both so that parallel runs against patched copies of physt do not touch the real ones)
EVIDENCE = Path(os.environ["VERIF_EVIDENCE_DIR"]) if os.environ.get("VERIF_EVIDENCE_DIR") else VERIF / "evidence"
REPLAYS = Path(os.environ["VERIF_REPLAY_DIR"]) if os.environ.get("VERIF_REPLAY_DIR") else VERIF / "replays"
CORPUS = VERIF / "corpus"
KNOWN = VERIF / "known_findings.json"

ALLOWED_AXIOMS = {"propext", "Classical.choice", "Quot.sound"}
FORBIDDEN = re.compile(r"\bsorry\b|\badmit\b|^axiom |native_decide|bv_decide|implemented_by|\bunsafe |maxHeartbeats 0", re.M)

TRUSTED_BASE = [
    "Lean 4.33 kernel (thorough tier: re-checked by leanchecker)",
    "axioms: propext, Classical.choice, Quot.sound only (audited by #print axioms on every run); no native_decide / bv_decide / sorry / own axioms",
    "the hand-written Lean model is tied to /repo only by this run's correspondence check (differential testing, bounded by the generators)",
    "numpy / CPython semantics of the calls the model replaces (argsort, searchsorted, histogramdd, promote_types, json, contextvars)",
    "IEEE-754 double arithmetic: Lean Float == numpy for + - * / floor (measured); positions cross the boundary as exact rationals",
    "the Python harness (canonicalisation, oracle) and the Lean driver's JSON decoding",
]


# ---------------------------------------------------------------- exact numbers

def frac(x) -> Fraction:
    if isinstance(x, Fraction):
        return x
    if isinstance(x, (bool, np.bool_)):
        return Fraction(int(x))
    if isinstance(x, (int, np.integer)):
        return Fraction(int(x))
    if isinstance(x, np.longdouble) and not isinstance(x, np.float64):
        n, d = x.as_integer_ratio()
        return Fraction(int(n), int(d))
    return Fraction(float(x))


def isnan(x) -> bool:
    try:
        return bool(np.isnan(x))
    except TypeError:
        return False


def rs(x) -> str:
    """rational string"""
    f = frac(x)
    return str(f.numerator) if f.denominator == 1 else f"{f.numerator}/{f.denominator}"


def nrs(x):
    """rational string, None for NaN/None"""
    if x is None or isnan(x):
        return None
    if isinstance(x, (float, np.floating)) and math.isinf(float(x)):
        return "inf" if x > 0 else "-inf"
    return rs(x)


def pf(s) -> Fraction | None:
    if s is None:
        return None
    return Fraction(s)


# ---------------------------------------------------------------- Lean side

def lean_sources_hash() -> str:
    h = hashlib.sha256()
    for p in sorted(LEAN.rglob("*.lean")):
        if ".lake" in p.parts:
            continue
        h.update(str(p.relative_to(LEAN)).encode())
        h.update(p.read_bytes())
    h.update((LEAN / "lakefile.toml").read_bytes())
    return h.hexdigest()[:16]


def strip_comments(src: str) -> str:
    src = re.sub(r"/-.*?-/", "", src, flags=re.S)
    return re.sub(r"--.*", "", src)


def lake_build(clean: bool = False, prop: str | None = None) -> tuple[bool, str]:
    if clean:
        subprocess.run(["lake", "clean"], cwd=LEAN, capture_output=True, text=True)
    targets = ["Physt", "PhystGen", "physt_driver"] + (theorem_modules(prop) if prop else [])
    p = subprocess.run(["lake", "build"] + targets, cwd=LEAN, capture_output=True, text=True)
    return p.returncode == 0, (p.stdout + p.stderr)[-4000:]


def theorem_files(prop: str) -> list[Path]:
    """Theorems/Cxx.lean plus its continuation files Theorems/Cxx_*.lean"""
    d = LEAN / "Physt" / "Theorems"
    # PhystGen/Cxx_*.lean: theorems about the definitions generated from physt's source (harness/gen_tie.py)
    return [d / f"{prop}.lean"] + sorted(d.glob(f"{prop}_*.lean")) + sorted((LEAN / "PhystGen").glob(f"{prop}_*.lean"))


def theorem_modules(prop: str) -> list[str]:
    return [(f"PhystGen.{p.stem}" if p.parent.name == "PhystGen" else f"Physt.Theorems.{p.stem}") for p in theorem_files(prop)]


def theorem_names(prop: str) -> list[str]:
    """names of all theorems of the property's theorem files, qualified by the namespaces opened below `Physt`"""
    out = []
    for f in theorem_files(prop):
        stack: list[str] = []
        for line in strip_comments(f.read_text()).splitlines():
            m = re.match(r"^namespace\s+([A-Za-z0-9_'.]+)", line)
            if m:
                stack.append(m.group(1)); continue
            m = re.match(r"^end\s+([A-Za-z0-9_'.]+)", line)
            if m and stack and stack[-1] == m.group(1):
                stack.pop(); continue
            m = re.match(r"^theorem\s+([A-Za-z0-9_'.]+)", line)
            if m:
                out.append(".".join([x for x in stack if x != "Physt"] + [m.group(1)]))
    return out


def example_count(prop: str) -> int:
    return sum(len(re.findall(r"^example\b", strip_comments(f.read_text()), flags=re.M)) for f in theorem_files(prop))


def audit(prop: str, tier: str) -> dict:
    """Build, forbidden-token scan, #print axioms for every property theorem of `prop`."""
    res = {"ok": True, "problems": [], "theorems": [], "axioms": {}, "examples": 0}
    ok, log = lake_build(clean=False, prop=prop)
    if not ok:
        res["ok"] = False
        res["problems"].append("lake build failed: " + log[-1500:])
        return res
    # forbidden tokens anywhere in the project (comments stripped)
    for p in sorted(LEAN.rglob("*.lean")):
        if ".lake" in p.parts:
            continue
        m = FORBIDDEN.search(strip_comments(p.read_text()))
        if m:
            res["ok"] = False
            res["problems"].append(f"forbidden token {m.group(0)!r} in {p.relative_to(LEAN)}")
    names = theorem_names(prop)
    res["theorems"] = names
    res["examples"] = example_count(prop)
    if not names:
        res["ok"] = False
        res["problems"].append("no theorems found")
        return res
    cache = LEAN / ".lake" / f"audit_{prop}_{lean_sources_hash()}.json"
    if cache.exists() and tier == "quick":
        res.update(json.loads(cache.read_text()))
        return res
    tmp = LEAN / ".lake" / f"Audit_{prop}.lean"
    tmp.write_text("".join(f"import {m}\n" for m in theorem_modules(prop)) + "open Physt\n" + "".join(f"#print axioms {n}\n" for n in names))
    p = subprocess.run(["lake", "env", "lean", str(tmp)], cwd=LEAN, capture_output=True, text=True)
    out = p.stdout + p.stderr
    if p.returncode != 0:
        res["ok"] = False
        res["problems"].append("audit file failed: " + out[-1500:])
        return res
    for n in names:
        m = re.search(rf"'(?:Physt\.)?{re.escape(n)}' (does not depend on any axioms|depends on axioms: \[([^\]]*)\])", out)
        if not m:
            res["ok"] = False
            res["problems"].append(f"no axiom report for {n}")
            continue
        axs = [a.strip() for a in (m.group(2) or "").replace("\n", " ").split(",") if a.strip()]
        res["axioms"][n] = axs
        bad = [a for a in axs if a not in ALLOWED_AXIOMS]
        if bad:
            res["ok"] = False
            res["problems"].append(f"{n} depends on {bad}")
    if res["ok"]:
        cache.write_text(json.dumps({"axioms": res["axioms"]}))
    return res


def leanchecker(prop: str) -> tuple[bool, str]:
    p = subprocess.run(["lake", "env", "leanchecker"] + theorem_modules(prop), cwd=LEAN,
                       capture_output=True, text=True)
    return p.returncode == 0, (p.stdout + p.stderr)[-2000:]


def driver_cmd() -> list[str]:
    exe = LEAN / ".lake" / "build" / "bin" / "physt_driver"
    if exe.exists() and os.environ.get("VERIF_INTERPRET") != "1":
        return [str(exe)]
    return ["lake", "env", "lean", "--run", "Main.lean"]


def run_model(cases: list[dict]) -> list[dict]:
    """Pipe the cases through the Lean driver; returns one dict per case: {'ok': ...} or {'error': ...}."""
    if not cases:
        return []
    data = "\n".join(json.dumps(c, separators=(",", ":")) for c in cases) + "\n"
    p = subprocess.run(driver_cmd(), cwd=LEAN, input=data, capture_output=True, text=True)
    lines = [l for l in p.stdout.splitlines() if l.strip()]
    if p.returncode != 0 or len(lines) != len(cases):
        raise RuntimeError(f"driver failed rc={p.returncode} lines={len(lines)}/{len(cases)}: {p.stderr[-2000:]}")
    return [json.loads(l) for l in lines]


# ---------------------------------------------------------------- comparison

def close(a: str | None, b: str | None, rtol: Fraction) -> bool:
    if a is None or b is None:
        return a is None and b is None
    if a == b:
        return True
    if a in ("inf", "-inf") or b in ("inf", "-inf"):
        return False
    x, y = Fraction(a), Fraction(b)
    return abs(x - y) <= rtol * max(abs(x), abs(y), Fraction(1, 10**30))


def deep_diff(model, impl, rtol: Fraction | None, path="") -> list[str]:
    """List of paths where the two canonical observations differ."""
    out: list[str] = []
    if isinstance(model, dict) and isinstance(impl, dict):
        for k in sorted(set(model) | set(impl)):
            if k not in model or k not in impl:
                out.append(f"{path}.{k}: only in {'impl' if k in impl else 'model'}")
            else:
                out += deep_diff(model[k], impl[k], rtol, f"{path}.{k}")
    elif isinstance(model, list) and isinstance(impl, list):
        if len(model) != len(impl):
            out.append(f"{path}: length {len(model)} (model) != {len(impl)} (impl)")
        else:
            for i, (a, b) in enumerate(zip(model, impl)):
                out += deep_diff(a, b, rtol, f"{path}[{i}]")
    elif isinstance(model, str) and isinstance(impl, str) and rtol is not None and _numlike(model) and _numlike(impl):
        if not close(model, impl, rtol):
            out.append(f"{path}: model={model} impl={impl}")
    else:
        if model != impl:
            out.append(f"{path}: model={model!r} impl={impl!r}")
    return out


_NUM = re.compile(r"^-?\d+(/\d+)?$")


def _numlike(s: str) -> bool:
    return bool(_NUM.match(s))


def project(obj, keep: set[str] | None):
    """Keep only the named keys inside histogram snapshots (dicts with a "freq" entry); None = keep all."""
    if keep is None:
        return obj
    if isinstance(obj, dict):
        if "freq" in obj:
            return {k: v for k, v in obj.items() if k in keep}
        return {k: project(v, keep) for k, v in obj.items()}
    if isinstance(obj, list):
        return [project(v, keep) for v in obj]
    return obj


# ---------------------------------------------------------------- findings / evidence

def load_known(prop: str) -> list[dict]:
    if not KNOWN.exists():
        return []
    data = json.loads(KNOWN.read_text())
    return [f for f in data.get("findings", []) if f.get("property") == prop]


def write_replay(prop: str, seed: int, n: int, payload: dict) -> Path:
    d = REPLAYS / prop
    d.mkdir(parents=True, exist_ok=True)
    p = d / f"{seed}-{n}.json"
    p.write_text(json.dumps(payload, indent=1, default=str))
    return p


def write_evidence(prop: str, tier: str, seed: int, coverage: dict, wall: float, violations: int,
                   assumptions: list[str]) -> None:
    EVIDENCE.mkdir(exist_ok=True)
    ev = {"property_id": prop, "tier": tier, "seed": seed, "level": "proof", "coverage": coverage,
          "assumptions": assumptions, "wall_s": round(wall, 2), "violations": violations}
    (EVIDENCE / f"{prop}.json").write_text(json.dumps(ev, indent=1, default=str))


def case_hash(case: dict) -> str:
    return hashlib.sha1(json.dumps(case, sort_keys=True, default=str).encode()).hexdigest()


class Rng(random.Random):
    """One PRNG per (seed, property, case index): every case replays exactly."""

    @staticmethod
    def for_case(seed: int, prop: str, idx: int) -> "Rng":
        return Rng(f"{seed}:{prop}:{idx}")

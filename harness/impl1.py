"""Run a 1-D op list (the language the Lean driver interprets) against the real physt, through
its public API only, and produce the same canonical observations."""
from __future__ import annotations

import warnings
from fractions import Fraction

import numpy as np

from .sharing import sharing as _sharing

from .core import frac, isnan, nrs, rs

warnings.simplefilter("ignore")

import physt  # noqa: E402
from physt import h1  # noqa: E402
from physt.binnings import FixedWidthBinning, NumpyBinning, StaticBinning  # noqa: E402
from physt.histogram1d import Histogram1D  # noqa: E402

REFUSED = "REFUSED"


def fl(s) -> float:
    """exact rational string of a double -> that double"""
    if s is None:
        return float("nan")
    f = Fraction(s)
    x = f.numerator / f.denominator
    assert Fraction(x) == f, f"{s} is not a double"
    return x


def mk_binning(b: dict):
    t = b["t"]
    if t == "static":
        pairs = [[fl(l), fl(r)] for l, r in b["bins"]]
        form = b.get("form", "static_obj")
        consecutive = all(pairs[i][1] == pairs[i + 1][0] for i in range(len(pairs) - 1))
        if form == "edges" and consecutive and pairs and b.get("ire", True):
            return np.array([pairs[0][0]] + [p[1] for p in pairs])
        if form == "edge_list" and consecutive and pairs and b.get("ire", True):
            return [pairs[0][0]] + [p[1] for p in pairs]
        if form == "pairs" and b.get("ire", True):
            return np.array(pairs)
        if form == "derived_obj" and pairs:
            # a binning object obtained by indexing another one whose representations were already used once:
            # gaps of the target are filled in the parent (so the parent is consecutive where the target is not), and
            # a detached extra bin is appended (so the parent is gapped where the target may be consecutive)
            parent_pairs, keep = [], []
            for i, pr in enumerate(pairs):
                if i > 0 and pairs[i - 1][1] != pr[0]:
                    parent_pairs.append([pairs[i - 1][1], pr[0]])
                keep.append(len(parent_pairs))
                parent_pairs.append(pr)
            parent_pairs.append([pairs[-1][1] + 1.0, pairs[-1][1] + 2.0])
            parent = StaticBinning(np.array(parent_pairs).reshape(-1, 2), includes_right_edge=b.get("ire", True))
            parent.is_consecutive(); parent.bins
            try:
                parent.numpy_bins
            except Exception:
                pass
            Histogram1D(parent)                       # the parent has been used in a histogram
            if keep == list(range(len(pairs))):
                return parent[:len(pairs)]
            return parent[np.array(keep)]
        if form == "numpy_obj" and consecutive and pairs:
            return NumpyBinning([pairs[0][0]] + [p[1] for p in pairs], includes_right_edge=b.get("ire", True))
        return StaticBinning(np.array(pairs).reshape(-1, 2), includes_right_edge=b.get("ire", True))
    if t == "fixed":
        kw = dict(bin_width=fl(b["w"]), bin_count=b["count"], align=b.get("align", True),
                  adaptive=b.get("adaptive", False), includes_right_edge=b.get("ire", False))
        if b["count"] > 0:
            kw["bin_times_min"] = b["tmin"]
        kw["bin_shift"] = fl(b["shift"])
        return FixedWidthBinning(**kw)
    raise ValueError(t)


def np_dtype(name):
    return None if name is None else np.dtype(name)


def carrier_of(f: Fraction, kind: str):
    """the number f in one of the less usual carriers a caller may hand over as a factor / divisor:
    "0d:<dtype>" a 0-d numpy array; "red0d:<dtype>" the 0-d array a masked-array / xarray-like reduction gives;
    "red:<fn>:<dtype>" the numpy scalar a reduction (sum / max / mean) of an array of that dtype returns;
    "pybool" / "npbool"; "fraction"; "decimal" (f must have a finite decimal expansion)"""
    x = int(f) if f.denominator == 1 else f.numerator / f.denominator
    if kind.startswith("0d:"):
        a = np.array(x, dtype=np.dtype(kind[3:]))
        if not (a.ndim == 0 and Fraction(a.item()) == f):
            raise KeyError(f"carrier {kind} cannot hold {f}")      # (KeyError: a harness error, never taken for a refusal)
        return a
    if kind.startswith("red0d:"):
        a = np.asarray(np.ma.masked_array([x, x], dtype=np.dtype(kind[6:])).mean())
        if not (a.ndim == 0 and isinstance(a, np.ndarray) and Fraction(a.item()) == f):
            raise KeyError(f"carrier {kind} cannot hold {f}")
        return a
    if kind.startswith("red:"):
        _, fn, dt = kind.split(":")
        a = np.array([x, x] if fn != "sum" else [x], dtype=np.dtype(dt))
        r = getattr(a, fn)()
        if not (isinstance(r, np.generic) and Fraction(r.item()) == f):
            raise KeyError(f"carrier {kind} cannot hold {f}")
        return r
    if kind in ("pybool", "npbool"):
        if f not in (0, 1):
            raise KeyError(f"carrier {kind} cannot hold {f}")
        return bool(f) if kind == "pybool" else np.bool_(bool(f))
    if kind == "fraction":
        return f
    if kind == "decimal":
        import decimal
        d = decimal.Decimal(f.numerator) / decimal.Decimal(f.denominator)
        if Fraction(d) != f:
            raise KeyError(f"carrier {kind} cannot hold {f}")
        return d
    raise KeyError(kind)


def num_of(c: str, kind: str):
    f = Fraction(c)
    if ":" in kind or kind in ("pybool", "npbool", "fraction", "decimal"):
        return carrier_of(f, kind)
    if kind == "pyint":
        assert f.denominator == 1
        return int(f)
    if kind == "pyfloat":
        return fl(c)
    return np.dtype(kind).type(f.numerator / f.denominator if f.denominator != 1 else int(f))


def carried(c: str, kind: str):
    """the rational `c` (exactly representable there) in the numeric carrier `kind`: "pyint", "pyfloat", a numpy scalar
    type name ("int8" ... "uint64", "float16", "float32", "float64", "longdouble"), "arr0:<numpy type>" (0-d array),
    "f32div" (the result of float32 arithmetic), "Fraction", "Decimal" """
    f = Fraction(c)
    if kind == "Fraction":
        return f
    if kind == "Decimal":
        import decimal
        d = decimal.Decimal(f.numerator) / decimal.Decimal(f.denominator)
        if Fraction(d) != f:
            raise KeyError(f"{c} is not a finite decimal")      # (KeyError: a harness error, never taken for a refusal)
        return d
    if kind == "f32div":
        r = np.float32(f.numerator) / np.float32(f.denominator)
        if not isinstance(r, np.float32) or Fraction(float(r)) != f:
            raise KeyError(f"{c} is not a float32 quotient")
        return r
    if kind.startswith("arr0:"):
        return np.array(num_of(c, kind[5:]))
    if kind == "pyint" and f.denominator != 1:
        raise KeyError(f"{c} is not an integer")
    try:
        r = num_of(c, kind)
    except Exception as e:
        raise KeyError(f"{c} as {kind}: {e}")
    if frac(r) != f:
        raise KeyError(f"{c} is not representable as {kind}")
    return r


def snap_stats(h) -> dict:
    st = h.statistics
    if isnan(st.weight) and isnan(st.sum):
        # invalid statistics must read as NaN in every number: the fields that still carry a number are listed (private key)
        rest = [f for f in ("sum2", "min", "max") if not isnan(getattr(st, f))]
        return {"valid": False, "_numbers": rest} if rest else {"valid": False}
    def inf_none(x):
        return None if np.isinf(x) else nrs(x)
    return {"valid": True, "sum": nrs(st.sum), "sum2": nrs(st.sum2), "min": inf_none(st.min),
            "max": inf_none(st.max), "weight": nrs(st.weight), "median": nrs(st.median),
            "mean": nrs(_mean(st)), "variance": nrs(st.variance()), "_std": nrs(_std(st))}


def _mean(st):
    try:
        with np.errstate(all="ignore"):
            return st.mean()
    except ZeroDivisionError:
        return float("nan")


def _std(st):
    try:
        with np.errstate(all="ignore"):
            return st.std()
    except ZeroDivisionError:
        return float("nan")


def binning_meta(b) -> dict:
    if isinstance(b, FixedWidthBinning):
        return {"t": "fixed", "w": rs(b.bin_width), "shift": rs(b._shift),
                "tmin": int(b._times_min) if b._times_min is not None and b.bin_count > 0 else 0,
                "count": int(b.bin_count), "adaptive": bool(b.is_adaptive()), "ire": bool(b.includes_right_edge)}
    return {"t": "static", "ire": bool(b.includes_right_edge)}


def _numpy_bins_of(binning):
    """the edge representation (None when the bins are not consecutive and physt refuses to give one)"""
    try:
        return [nrs(x) for x in np.asarray(binning.numpy_bins)]
    except Exception:
        return None


def edges_consistent(snap_bins, numpy_bins) -> bool:
    """the edge form must be the edges of the pair form (for consecutive bins)"""
    if numpy_bins is None:
        return True
    if not snap_bins:
        return len(numpy_bins) <= 1
    consecutive = all(snap_bins[i][1] == snap_bins[i + 1][0] for i in range(len(snap_bins) - 1))
    if not consecutive:
        return True          # allclose-consecutive bins: physt chooses which of the two nearly equal edges to report
    return numpy_bins == [snap_bins[0][0]] + [b[1] for b in snap_bins]


def meta_repr(h) -> str:
    """the meta data as the histogram reports it now (canonical text; private key of the snapshots)"""
    import json as _json
    try:
        return _json.dumps({str(k): v for k, v in h.meta_data.items()}, sort_keys=True, default=str)
    except Exception as e:      # pragma: no cover
        return f"unreadable: {e}"


def snap1(h: Histogram1D) -> dict:
    bins = np.asarray(h.bins).reshape(-1, 2)
    return {
        "bins": [[rs(l), rs(r)] for l, r in bins],
        "freq": [nrs(x) for x in h.frequencies],
        "err2": [nrs(x) for x in h.errors2],
        "under": nrs(h.underflow), "over": nrs(h.overflow), "inner": nrs(h.inner_missed),
        "keep": bool(h.keep_missed), "dtype": str(h.dtype), "total": nrs(h.total),
        "adaptive": bool(h.is_adaptive()), "binning": binning_meta(h.binning), "stats": snap_stats(h),
        # consistency facts the model has by construction (compared by the oracles, not the diff)
        "_freq_dtype": str(h.frequencies.dtype), "_err2_dtype": str(h.errors2.dtype),
        "_shape_ok": h.frequencies.shape == h.errors2.shape == (bins.shape[0],),
        "_numpy_bins": _numpy_bins_of(h.binning),
        "_meta": meta_repr(h),
    }


def fb_json(ix, h):
    if ix is None:
        return None
    if ix == -1:
        return -1
    if ix == h.bin_count:
        return "over"
    return int(ix)


class Store:
    def __init__(self):
        self.regs: list = []

    def get(self, i):
        return self.regs[i]

    def set(self, i, h):
        while len(self.regs) <= i:
            self.regs.append(None)
        self.regs[i] = h


def arr(vals, dtype=None, shape=None):
    if dtype is not None and np.dtype(dtype).kind in "iu" and len(vals) > 0 and all(
            v is not None and Fraction(v).denominator == 1 for v in vals):
        ints = [int(Fraction(v)) for v in vals]
        info = np.iinfo(dtype)
        if any(abs(i) > 2**53 for i in ints) and all(info.min <= i <= info.max for i in ints):
            # whole numbers beyond 2**53 for an integer type go there as python integers: exact, no double on the way
            # (for smaller ones the older route below gives the same array)
            a = np.array(ints, dtype=dtype)
            return a.reshape(shape) if shape else a
    a = np.array([fl(v) for v in vals], dtype=float)
    if dtype is not None:
        a = a.astype(dtype)
    if shape:
        a = a.reshape(shape)
    return a


def step(s: Store, op: dict, exc_log: list):
    if op.get("free"):
        from physt.config import config
        with config.enable_free_arithmetics():
            return _step(s, op, exc_log)
    return _step(s, op, exc_log)


def memory_order(op, data, w):
    """the same logical arrays in another memory layout (Fortran order): values and weights are paired by position,
    whatever the layout"""
    if op.get("dorder") == "F" and isinstance(data, np.ndarray) and data.ndim >= 2:
        data = np.asfortranarray(data)
    if op.get("worder") == "F" and isinstance(w, np.ndarray) and w.ndim >= 2:
        w = np.asfortranarray(w)
    return data, w


def _step(s: Store, op: dict, exc_log: list):
    name = op["op"]
    try:
        if name == "construct":
            data = arr(op["data"], shape=op.get("shape"))
            if op.get("container") == "list":
                data = data.tolist()
            w = op.get("weights")
            if w is not None:
                w = arr(w, np.dtype(op.get("wkind") or "float64"), op.get("wshape", op.get("shape")))
            data, w = memory_order(op, data, w)
            h = h1(data, mk_binning(op["binning"]), weights=w, dtype=np_dtype(op.get("dtype")),
                   keep_missed=op.get("keep", True), dropna=op.get("dropna", True))
            s.set(op["out"], h)
            return "ok"
        if name == "empty":
            h = Histogram1D(mk_binning(op["binning"]), keep_missed=op.get("keep", True),
                            dtype=np_dtype(op.get("dtype")))
            s.set(op["out"], h)
            return "ok"
        if name == "of_arrays":
            dt = np.dtype(op["dtype"])
            f = arr(op["freq"], dt)
            e = None if op.get("err2") is None else arr(op["err2"], dt)
            klass = Histogram1D
            if op.get("klass"):         # a 1-D histogram class with transformed coordinates (same constructor)
                import physt.special_histograms as _sh
                klass = getattr(_sh, op["klass"])
            h = klass(mk_binning(op["binning"]), f, e, keep_missed=op.get("keep", True),
                            underflow=fl(op.get("under")), overflow=fl(op.get("over")),
                            inner_missed=fl(op.get("inner")))
            s.set(op["out"], h)
            return "ok"
        if name == "fill":
            h = s.get(op["h"])
            v = fl(op["v"])
            if op.get("vk") and v is not None:      # the value as a numpy scalar of that type (exactly representable)
                v = np.dtype(op["vk"]).type(v)
            w = num_of(op["w"], op["wk"])
            if op["wk"] == "pyint" and w == 1 and op.get("default_w"):
                ix = h.fill(v)
            else:
                ix = h.fill(v, w)
            if op["v"] is None:
                return "nan" if ix is None else f"unexpected:{ix}"
            return fb_json(ix, h)
        if name == "find_bin":
            h = s.get(op["h"])
            v = fl(op["v"])
            if op.get("vk") and v is not None:
                v = np.dtype(op["vk"]).type(v)
            return fb_json(h.find_bin(v), h)
        if name == "fill_n":
            h = s.get(op["h"])
            vs = arr(op["vs"], shape=op.get("shape"))
            if op.get("vk"):                        # a float32 / float16 / integer data array (values exactly representable)
                vs = vs.astype(np.dtype(op["vk"]))
            if op.get("container") == "list":
                vs = vs.tolist()
            ws = op.get("ws")
            if ws is not None:
                ws = arr(ws, np.dtype(op.get("wkind") or "float64"), op.get("wshape", op.get("shape")))
            h.fill_n(vs, ws)
            return "ok"
        if name == "iadd":
            h = s.get(op["h"])
            h += s.get(op["o"])
            s.set(op["h"], h)
            return "ok"
        if name == "add":
            s.set(op["out"], s.get(op["a"]) + s.get(op["b"]))
            return "ok"
        if name == "radd0":
            s.set(op["out"], 0 + s.get(op["h"]))
            return "ok"
        if name == "isub":
            h = s.get(op["h"])
            h -= s.get(op["o"])
            s.set(op["h"], h)
            return "ok"
        if name == "sub":
            s.set(op["out"], s.get(op["a"]) - s.get(op["b"]))
            return "ok"
        if name == "imul":
            h = s.get(op["h"])
            h *= num_of(op["c"], op["k"])
            s.set(op["h"], h)
            return "ok"
        if name == "mul":
            c = num_of(op["c"], op["k"])
            h = s.get(op["h"])
            s.set(op["out"], (c * h) if op.get("reflected") else (h * c))
            return "ok"
        if name == "idiv":
            h = s.get(op["h"])
            h /= num_of(op["c"], op.get("k", "pyfloat"))
            s.set(op["h"], h)
            return "ok"
        if name == "div":
            s.set(op["out"], s.get(op["h"]) / num_of(op["c"], op.get("k", "pyfloat")))
            return "ok"
        if name == "normalize":
            h = s.get(op["h"])
            r = h.normalize(inplace=op.get("inplace", False), percent=op.get("percent", False))
            if not op.get("inplace", False):
                s.set(op["out"], r)
            return "ok"
        if name == "sum":
            s.set(op["out"], sum(s.get(i) for i in op["hs"]))
            return "ok"
        if name == "normalize_bins":
            from physt.histogram_collection import HistogramCollection
            members = [s.get(i) for i in op["hs"]]
            col = HistogramCollection(*members)          # refuses members with different bins
            src_before = [snap1(m) for m in members]
            with np.errstate(all="ignore"):
                res = col.normalize_bins(inplace=False)
            if [snap1(m) for m in members] != src_before:
                raise AssertionError("normalize_bins(inplace=False) modified its members")
            for o, m in zip(op["outs"], res.histograms):
                s.set(o, m)
            return "ok"
        if name == "invalid":
            h = s.get(op["h"])
            what = op["what"]
            o = s.get(op["o"]) if "o" in op else None
            if what == "mul_hist":
                h * o
            elif what == "imul_hist":
                h *= o
            elif what == "div_hist":
                h / o
            elif what == "idiv_hist":
                h /= o
            elif what == "rdiv":
                2 / h
            elif what == "mul_array":
                h * np.ones(h.shape)
            elif what == "div_array":
                h / np.ones(h.shape)
            elif what == "add_array":
                h + np.ones(h.shape)
            elif what == "add_scalar":
                h + 4
            elif what == "imul_array":
                h *= np.ones(h.shape)
            elif what == "add_none":
                h + None
            elif what == "add_list":
                h += [1] * h.shape[0]
            elif what == "sub_array":
                h - np.ones(h.shape)
            elif what == "imul_overflow":
                h *= 1e200        # the square of the factor is not a finite double: python raises OverflowError
            elif what == "fill_n_inf":
                # (adaptive histograms only) a batch whose minimum lies left of the bins and whose maximum is infinite: no grid
                # index exists for it, the batch is refused -- and the bins must not have grown for the minimum meanwhile
                lo = float(h.bin_left_edges[0]) if h.bin_count else 0.0
                h.fill_n([lo - 2.5 * float(h.binning.bin_width), np.inf])
            else:
                raise KeyError(what)
            exc_log.append(f"invalid:{what} was ACCEPTED")
            return "accepted"
        if name == "merge":
            h = s.get(op["h"])
            kw = {}
            if op.get("amount") is not None:     # "ak" / "mk": the numeric type carrying the amount / the threshold
                kw["amount"] = carried(op["amount"], op["ak"]) if op.get("ak") else op["amount"]
            if op.get("min_freq") is not None:
                kw["min_frequency"] = carried(op["min_freq"], op["mk"]) if op.get("mk") else fl(op["min_freq"])
            if op.get("axis0"):
                kw["axis"] = 0
            r = h.merge_bins(inplace=op.get("inplace", False), **kw)
            if not op.get("inplace", False):
                s.set(op["out"], r)
            return "ok"
        if name == "slice":
            h = s.get(op["h"])
            r = h[slice(op.get("start"), op.get("stop"))]
            s.set(op["out"], r)
            return "ok"
        if name == "mask":
            h = s.get(op["h"])
            s.set(op["out"], h[np.array(op["mask"], dtype=bool)])
            return "ok"
        if name == "index_array":
            h = s.get(op["h"])
            idx = op["idx"]
            s.set(op["out"], h[idx if op.get("as_list") else np.array(idx, dtype=int)])
            return "ok"
        if name == "item":
            h = s.get(op["h"])
            i = op["i"]
            if op.get("ik"):          # the integer index as a numpy integer scalar of that type
                i = np.dtype(op["ik"]).type(i)
            b, v = h[i]
            return {"bin": [rs(b[0]), rs(b[1])], "value": rs(v)}
        if name == "set_dtype":
            h = s.get(op["h"])
            if op.get("via_property"):
                h.dtype = op["dtype"]
            else:
                h.set_dtype(op["dtype"])
            return "ok"
        if name in ("set_freq", "set_err2"):
            h = s.get(op["h"])
            assigned = np.array([float(Fraction(x)) for x in op["vals"]], dtype=np.dtype(op["k"]))
            if name == "set_freq":
                h.frequencies = assigned
            else:
                h.errors2 = assigned
            return "ok"
        if name == "set_meta":          # h.meta_data[key] = value (a JSON-like value, possibly a nested list / dict)
            import copy as _copy
            s.get(op["h"]).meta_data[op["key"]] = _copy.deepcopy(op["value"])
            return "ok"
        if name == "append_meta":       # an edit INSIDE a nested meta-data value: h.meta_data[key].append(x)
            md = s.get(op["h"]).meta_data
            if not isinstance(md.get(op["key"]), list):
                return "ok"             # this object does not carry the entry: nothing to edit
            md[op["key"]].append(op["value"])
            return "ok"
        if name == "set_adaptive":
            s.get(op["h"]).set_adaptive(bool(op.get("value", True)))
            return "ok"
        if name == "copy":
            s.set(op["out"], s.get(op["h"]).copy(include_frequencies=op.get("with_freq", True)))
            return "ok"
        raise KeyError(name)
    except KeyError:
        raise
    except Exception as e:  # a refused call: the exception class is recorded, never compared
        exc_log.append(f"{name}: {type(e).__name__}: {e}"[:200])
        return REFUSED


def run(case: dict) -> tuple[list, list]:
    s = Store()
    outs = []
    exc_log: list = []
    for op in case["ops"]:
        ret = step(s, op, exc_log)
        outs.append({"ret": ret, "regs": [None if h is None else snap1(h) for h in s.regs], "_sharing": _sharing(s.regs)})
    return outs, exc_log


def run_unobserved(case: dict) -> dict:
    """The same history again on fresh objects WITHOUT reading anything between the operations (no property access, no
    snapshot): only the state after the last operation is observed.  Reading a histogram must not be what keeps it right
    (lazily maintained values that a read flushes), so every oracle is evaluated on this final state as well."""
    s = Store()
    exc_log: list = []
    ret = None
    for op in case["ops"]:
        ret = step(s, op, exc_log)
    return {"ret": ret, "regs": [None if h is None else snap1(h) for h in s.regs], "_sharing": _sharing(s.regs)}

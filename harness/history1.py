"""Random histories of public 1-D operations with invalid calls injected at any position."""
from __future__ import annotations

from fractions import Fraction

from . import gen1
from .core import rs

DTYPES = ["int16", "int32", "int64", "float16", "float32", "float64", "float128"]
W_INT = ["int16", "int32", "int64"]
W_FLT = ["float32", "float64"]


def small_bins(rng, adaptive_share=0.25):
    if rng.random() < adaptive_share:
        w = rng.choice([1.0, 0.5, 2.0])
        return gen1.fixed_json(w, rng.randint(-2, 2), rng.randint(1, 4), adaptive=True), None, w
    n = rng.randint(1, 5)
    start = rng.randint(-4, 4) / 2
    e = [start]
    for _ in range(n):
        e.append(e[-1] + rng.choice([0.5, 1.0, 2.0]))
    pairs = [[e[i], e[i + 1]] for i in range(n)]
    if n >= 3 and rng.random() < 0.25:
        del pairs[rng.randint(1, n - 2)]
    return gen1.binning_json(pairs, form=rng.choice(["pairs", "static_obj"])), pairs, None


def vals_near(rng, b, pairs, w, n):
    out = []
    for _ in range(n):
        if pairs:
            lo, hi = pairs[0][0], pairs[-1][1]
        else:
            lo, hi = -3.0, 4.0
        r = rng.random()
        if r < 0.8:
            out.append(round((lo + (hi - lo) * rng.random()) * 4) / 4)
        elif r < 0.9:
            out.append(rng.choice([lo - 1.25, hi + 1.25]))
        else:
            out.append(None)
    return out


def history(rng, nops=(2, 8), invalid_share=0.3, dtype_focus=False):
    """returns (ops, tags); register 0 and 1 share bins; register 2 has different bins"""
    b, pairs, w = small_bins(rng)
    ops = []
    tags = []

    def weights(n, allow_float=True):
        k = rng.choice(["none", "none", "int", "flt"] if allow_float else ["none", "int"])
        if k == "none":
            return None, None
        if k == "int":
            return [rs(rng.randint(0, 4)) for _ in range(n)], rng.choice(W_INT)
        return [rs(rng.randint(0, 16) / 4) for _ in range(n)], rng.choice(W_FLT)

    def make(out, bb):
        kind = rng.choice(["construct", "empty", "of_arrays"])
        if bb["t"] == "fixed":
            kind = rng.choice(["empty", "empty_fill"])
        if kind == "construct":
            n = rng.choice([0, 1, 3, 6])
            vs = vals_near(rng, bb, pairs if bb is b else None, w, n)
            ws, wk = weights(n)
            dt = rng.choice([None, None, None] + DTYPES) if dtype_focus else None
            ops.append({"op": "construct", "out": out, "binning": bb, "data": gen1.enc_vals(vs), "weights": ws,
                        "wkind": wk, "dtype": dt, "keep": rng.random() < 0.85})
        elif kind == "of_arrays":
            nb = len(bb["bins"])
            dt = rng.choice((DTYPES + ["float64", "float64"]) if dtype_focus else ["int64", "float64", "int32", "float32"])
            isint = dt.startswith("int")
            big = dtype_focus and rng.random() < 0.4
            if big:
                pool = {"int16": [32000, 30000, 100, 7], "int32": [32000, 70000, 2000000000, 7], "int64": [32000, 70000, 3000000000, 7],
                        "float16": [60000.0, 100.0, 2.5], "float32": [70000.0, 1e5, 2.5, 3e38], "float64": [70000.0, 1e5, 2.5, 1e39, 9223372036854775808.0, 2147483648.0, 32768.0, 32767.0, 2147483647.0],
                        "float128": [70000.0, 1e5, 2.5, 1e39]}[dt]
                f = [rng.choice(pool[:3] + [7, 17]) for _ in range(nb)]
                if dt == "float64" and rng.random() < 0.7:
                    # exactly ON the limits of the integer types: 2^15 - 1 and 2^31 - 1 fit, 2^15, 2^31 and 2^63 do not
                    f[rng.randrange(nb)] = rng.choice(pool[4:])
                e = None if rng.random() < 0.4 else [rng.choice(pool + [3, 137]) for _ in range(nb)]
                if not isint:
                    f = [float(x) for x in f]
            else:
                f = [rng.randint(0, 9) if isint else rng.randint(0, 36) / 4 for _ in range(nb)]
                e = None if rng.random() < 0.5 else [rng.randint(0, 9) if isint else rng.randint(0, 36) / 4 for _ in range(nb)]
            ops.append({"op": "of_arrays", "out": out, "binning": bb, "freq": [rs(x) for x in f],
                        "err2": None if e is None else [rs(x) for x in e], "under": rs(rng.randint(0, 3)),
                        "over": rs(rng.randint(0, 3)), "inner": "0", "dtype": dt, "keep": rng.random() < 0.85})
        else:
            dt = rng.choice([None, None] + DTYPES) if dtype_focus else rng.choice([None, None, "float64", "int32"])
            ops.append({"op": "empty", "out": out, "binning": bb, "dtype": dt, "keep": rng.random() < 0.85})
            if kind == "empty_fill":
                vs = vals_near(rng, bb, None, w, rng.choice([1, 3]))
                ops.append({"op": "fill_n", "h": out, "vs": gen1.enc_vals(vs), "ws": None})

    make(0, b)
    make(1, b)
    other, _, _ = small_bins(rng, adaptive_share=0)
    # clearly incompatible bins: one more bin than register 0 could ever have
    k = (len(pairs) if pairs else 5) + 2
    other = gen1.binning_json([[float(i) * 3 + 100, float(i) * 3 + 101.5] for i in range(k)], form="pairs")
    ops.append({"op": "of_arrays", "out": 2, "binning": other, "freq": ["1"] * k, "err2": None, "under": "0", "over": "0",
                "inner": "0", "dtype": "int64"})
    nfree = 3
    has_big = any(o["op"] == "of_arrays" and any(abs(float(Fraction(x))) > 20000 for x in o["freq"] + (o["err2"] or []))
                  for o in ops[:2])
    LIMITS = {"9223372036854775808": "int64", "2147483648": "int32", "32768": "int16", "32767": "int16", "2147483647": "int32"}
    on_limit = [(i, LIMITS[x]) for i, o in enumerate(ops[:2]) if o["op"] == "of_arrays" for x in o["freq"] if x in LIMITS]
    if on_limit:
        # a content exactly on a limit of an integer type: ask for that very type (2^15 - 1 and 2^31 - 1 fit, 2^15, 2^31, 2^63 do not)
        i, t = on_limit[0]
        ops.append({"op": "set_dtype", "h": i, "dtype": t, "maybe_refused": True, "via_property": rng.random() < 0.5})
        tags.append("set_dtype_on_limit")
    for _ in range(rng.randint(*nops)):
        h = rng.choice([0, 0, 1])
        if has_big:
            # values near the limits of a narrow type: only conversions (no sums that would wrap around)
            kind = rng.choice(["set_dtype", "set_dtype", "copy", "slice"])
            tags.append(kind)
            if kind == "set_dtype":
                ops.append({"op": "set_dtype", "h": h, "dtype": rng.choice(DTYPES + ["int64", "int32", "int16", "int64"]), "maybe_refused": True,
                            "via_property": rng.random() < 0.5})
            elif kind == "copy":
                ops.append({"op": "copy", "h": h, "out": nfree, "with_freq": True}); nfree += 1
            else:
                ops.append({"op": "slice", "h": h, "start": rng.choice([None, 0, 1]), "stop": None, "out": nfree}); nfree += 1
            continue
        if rng.random() < invalid_share:
            bad = rng.choice(["add_incompatible", "iadd_incompatible", "mul_hist", "add_array", "fill_n_wshape", "neg_imul",
                              "zero_idiv", "set_dtype_bad", "sub_too_much", "item_range", "add_none", "neg_idiv",
                              "merge_frac", "rdiv", "imul_array", "imul_overflow"]
                             + (["fill_n_inf", "fill_n_inf"] if (b.get("t") == "fixed" and b.get("adaptive")) else []))
            tags.append("bad:" + bad)
            if bad == "add_incompatible":
                ops.append({"op": "add", "a": h, "b": 2, "out": nfree, "expect_refused": True}); nfree += 1
            elif bad == "iadd_incompatible":
                ops.append({"op": "iadd", "h": h, "o": 2, "expect_refused": True})
            elif bad in ("mul_hist", "add_array", "add_none", "rdiv", "imul_array", "imul_overflow", "fill_n_inf"):
                ops.append({"op": "invalid", "what": bad, "h": h, "o": 1 - h if h < 2 else 0})
            elif bad == "fill_n_wshape":
                vs = vals_near(rng, b, pairs, w, 3)
                ops.append({"op": "fill_n", "h": h, "vs": gen1.enc_vals(vs), "ws": ["1", "2"], "wkind": "int64",
                            "expect_refused": True})
            elif bad == "neg_imul":
                ops.append({"op": "imul", "h": h, "c": rs(rng.choice([-1, -2, -0.5])), "k": rng.choice(["pyint", "pyfloat"]) if True else "pyint",
                            "maybe_refused": True})
                if "/" in ops[-1]["c"]:
                    ops[-1]["k"] = "pyfloat"
                else:
                    ops[-1]["k"] = "pyint"
            elif bad == "neg_idiv":
                ops.append({"op": "idiv", "h": h, "c": "-2", "k": "pyint", "maybe_refused": True})
            elif bad == "zero_idiv":
                ops.append({"op": "idiv", "h": h, "c": "0", "k": rng.choice(["pyint", "pyfloat"]), "expect_refused": True})
            elif bad == "set_dtype_bad":
                rounded = any(o["op"] == "normalize" for o in ops)
                ops.append({"op": "set_dtype", "h": h, "dtype": "float16" if rounded else rng.choice(["int16", "int32", "float16"]), "maybe_refused": True,
                            "via_property": rng.random() < 0.5})
            elif bad == "sub_too_much":
                ops.append({"op": "isub", "h": h, "o": 1 - h, "maybe_refused": True})
            elif bad == "item_range":
                ops.append({"op": "item", "h": h, "i": 99, "expect_refused": True})
            elif bad == "merge_frac":
                ops.append({"op": "invalid", "what": "merge_frac", "h": h})
            continue
        kind = rng.choice(["fill", "fill", "fill_n", "fill_n", "iadd", "add", "imul", "mul", "idiv", "div", "normalize",
                           "merge", "set_dtype", "copy", "slice", "sub", "set_arr", "retype", "isub"])
        tags.append(kind)
        if kind == "retype" or (dtype_focus and kind == "copy" and rng.random() < 0.5):
            # the same kind of call before and after an explicit change of the content type: whatever the first call settled
            # (a promotion, a cached decision) must be settled again for the second one
            tags.append("retype_motif")
            wk = rng.choice(["pyfloat", "float32", "float64", "pyint", "int32"])
            isf = "float" in wk
            v1 = vals_near(rng, b, pairs, w, 1)[0]
            v2 = vals_near(rng, b, pairs, w, 1)[0]
            first = rng.choice(["fill", "fill", "fill_n", "imul"])
            if first == "fill":
                ops.append({"op": "fill", "h": h, "v": None if v1 is None else rs(v1), "w": rs(2.0 if isf else 2), "wk": wk})
            elif first == "fill_n":
                ops.append({"op": "fill_n", "h": h, "vs": gen1.enc_vals([v1]), "ws": [rs(2.0 if isf else 2)],
                            "wkind": {"pyfloat": "float64", "pyint": "int64"}.get(wk, wk)})
            else:
                ops.append({"op": "imul", "h": h, "c": "2", "k": wk})
            rounded = any(o["op"] == "normalize" for o in ops)      # (rounded quotients: see the set_dtype kind below)
            ops.append({"op": "set_dtype", "h": h, "dtype": rng.choice(["float32", "float16"] if rounded else ["int64", "int32", "int16", "float32", "float16"]),
                        "maybe_refused": True, "via_property": rng.random() < 0.5})
            if first == "fill_n":
                ops.append({"op": "fill_n", "h": h, "vs": gen1.enc_vals([v2]), "ws": [rs(0.5 if isf else 3)],
                            "wkind": {"pyfloat": "float64", "pyint": "int64"}.get(wk, wk)})
            elif first == "imul":
                ops.append({"op": "imul", "h": h, "c": rs(1.5 if isf else 3), "k": wk})
            else:
                ops.append({"op": "fill", "h": h, "v": None if v2 is None else rs(v2), "w": rs(0.5 if isf else 3), "wk": wk})
            continue
        if kind == "isub":
            # in-place subtraction of the sibling register (accepted, or refused because a content would become negative or --
            # adaptive histograms grown to different ranges -- because the bins differ): a refusal must leave everything as it was
            ops.append({"op": "isub", "h": h, "o": 1 - h if h < 2 else 0, "maybe_refused": True})
            continue
        if kind == "set_arr":
            # the public property setters `h.frequencies = array` / `h.errors2 = array` with an array of any element type
            # (right length known only for static bins; a wrong length / a negative entry is refused)
            k = rng.choice(["int16", "int32", "int64", "float32", "float64"])
            nb = len(pairs) if pairs else rng.randint(1, 4)
            if rng.random() < 0.1:
                nb += 1
            vals = [rng.randint(0, 9) if k.startswith("int") else rng.randint(0, 36) / 4 for _ in range(nb)]
            if rng.random() < 0.08 and vals:
                vals[rng.randrange(len(vals))] = -1
            ops.append({"op": rng.choice(["set_freq", "set_err2"]), "h": h, "vals": [rs(x) for x in vals], "k": k,
                        "maybe_refused": True})
            continue
        if kind == "fill":
            v = vals_near(rng, b, pairs, w, 1)[0]
            wt, wk = rng.choice([(1, "pyint"), (1, "pyint"), (2, "pyint"), (0.5, "pyfloat"), (1.0, "pyfloat"), (2, "int32"), (1.5, "float32")])
            ops.append({"op": "fill", "h": h, "v": None if v is None else rs(v), "w": rs(wt), "wk": wk,
                        "default_w": wk == "pyint" and wt == 1 and rng.random() < 0.5})
        elif kind == "fill_n":
            n = rng.choice([0, 1, 3, 5])
            vs = vals_near(rng, b, pairs, w, n)
            ws, wk = weights(n)
            ops.append({"op": "fill_n", "h": h, "vs": gen1.enc_vals(vs), "ws": ws, "wkind": wk})
        elif kind == "iadd":
            ops.append({"op": "iadd", "h": h, "o": 1 - h})
        elif kind == "add":
            ops.append({"op": "add", "a": h, "b": 1 - h, "out": nfree}); nfree += 1
        elif kind == "sub":
            ops.append({"op": "sub", "a": h, "b": 1 - h, "out": nfree, "maybe_refused": True}); nfree += 1
        elif kind in ("imul", "mul"):
            c, k = rng.choice([("2", "pyint"), ("3", "pyint"), ("2", "int16"), ("1/2", "pyfloat"), ("2", "float32"), ("4", "int64"), ("1/4", "float64")])
            op = {"op": kind, "h": h, "c": c, "k": k}
            if kind == "mul":
                op["out"] = nfree; nfree += 1
                op["reflected"] = rng.random() < 0.4
            ops.append(op)
        elif kind in ("idiv", "div"):
            c, k = rng.choice([("2", "pyint"), ("4", "pyint"), ("1/2", "pyfloat"), ("2", "float32")])
            op = {"op": kind, "h": h, "c": c, "k": k}
            if kind == "div":
                op["out"] = nfree; nfree += 1
            ops.append(op)
        elif kind == "normalize":
            op = {"op": "normalize", "h": h, "percent": rng.random() < 0.3, "inplace": rng.random() < 0.5, "maybe_refused": True}
            if not op["inplace"]:
                op["out"] = nfree; nfree += 1
            ops.append(op)
        elif kind == "merge":
            op = {"op": "merge", "h": h, "amount": rng.randint(1, 3), "inplace": rng.random() < 0.5, "maybe_refused": True}
            if not op["inplace"]:
                op["out"] = nfree; nfree += 1
            ops.append(op)
        elif kind == "set_dtype":
            # after a normalisation the implementation's contents are *rounded* quotients (e.g. exactly 50.0) while the
            # model's are the exact rationals (50 - 1e-15): whether they are integral is then not a question the two can
            # be expected to agree on, so only float targets are asked for from there on
            rounded = any(o["op"] == "normalize" for o in ops)
            ops.append({"op": "set_dtype", "h": h, "dtype": rng.choice([d for d in DTYPES if d.startswith("float")] if rounded else DTYPES),
                        "maybe_refused": True, "via_property": rng.random() < 0.5})
        elif kind == "copy":
            ops.append({"op": "copy", "h": h, "out": nfree, "with_freq": rng.random() < 0.8}); nfree += 1
        elif kind == "slice":
            ops.append({"op": "slice", "h": h, "start": rng.choice([None, 0, 1, -1]), "stop": rng.choice([None, 2, -1, 5]), "out": nfree}); nfree += 1
    return ops, tags

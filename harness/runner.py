"""Generic check runner: audit the proofs, run corpus + generated cases through the real physt
and the Lean model, diff them, evaluate the property oracle on the implementation, decide."""
from __future__ import annotations

import copy
import json
import os
import sys
import time
import traceback
from collections import Counter
from fractions import Fraction

from . import core

TOL_KEYS = {"mean", "variance"}
ESCALATE = int(os.environ.get("VERIF_ESCALATE", "4"))              # quick tier: x cases when the source fingerprint differs
ESCALATE_BUDGET_S = float(os.environ.get("VERIF_ESCALATE_BUDGET_S", "150"))


def strip_private(o):
    if isinstance(o, dict):
        return {k: strip_private(v) for k, v in o.items() if not k.startswith("_")}
    if isinstance(o, list):
        return [strip_private(v) for v in o]
    return o


def diff_outputs(model_out, impl_out, keep, rtol):
    m = core.project(model_out, keep) if keep else model_out
    i = core.project(strip_private(impl_out), keep) if keep else strip_private(impl_out)
    return _dd(m, i, rtol, "")


def _dd(m, i, rtol, path):
    out = []
    if isinstance(m, dict) and isinstance(i, dict):
        if rtol is not None and isinstance(i.get("dtype"), str):
            # narrow float types round coarsely: in the tolerance stream compare at their precision
            rtol = max(rtol, {"float32": Fraction(1, 10**5), "float16": Fraction(1, 100)}.get(i["dtype"], rtol))
        for k in sorted(set(m) | set(i)):
            if k not in m or k not in i:
                out.append(f"{path}.{k}: only in {'impl' if k in i else 'model'}")
            else:
                t = rtol
                if k in TOL_KEYS and t is None:
                    t = Fraction(1, 10**9)
                out += _dd(m[k], i[k], t, f"{path}.{k}")
    elif isinstance(m, list) and isinstance(i, list):
        if len(m) != len(i):
            out.append(f"{path}: length {len(m)} (model) != {len(i)} (impl)")
        else:
            for n, (a, b) in enumerate(zip(m, i)):
                out += _dd(a, b, rtol, f"{path}[{n}]")
    elif isinstance(m, str) and isinstance(i, str) and rtol is not None and core._numlike(m) and core._numlike(i):
        ok = core.close(m, i, rtol)
        if not ok and path.rsplit(".", 1)[-1] in TOL_KEYS:
            # derived moments suffer cancellation: absolute slack as well
            ok = abs(Fraction(m) - Fraction(i)) <= max(Fraction(1, 10**9), rtol * 1000) * (1 + abs(Fraction(m)))
        if not ok:
            out.append(f"{path}: model={m} impl={i}")
    elif m != i:
        out.append(f"{path}: model={m!r} impl={i!r}")
    return out


class Result:
    def __init__(self):
        self.violations = []      # dicts
        self.known = []
        self.stats = Counter()
        self.samples = []
        self.distinct = set()
        self.nontrivial = 0
        self.evaluations = 0
        self.traces = 0
        self.hyp_checks = 0
        self.exhaustive = None


def evaluate(mod, cases, res: Result, with_model=True):
    """Run cases on the implementation (and the model); returns list of (case, kind, detail)."""
    found = []
    impl_outs = []
    for c in cases:
        try:
            impl_outs.append(mod.run_impl(c))
        except Exception:
            impl_outs.append({"harness_crash": traceback.format_exc()[-1500:]})
    for c, io in zip(cases, impl_outs):
        if isinstance(io, dict) and "harness_crash" in io:
            raise RuntimeError("harness crashed on a case:\n" + io["harness_crash"] + json.dumps(c, default=str)[:2000])
    model_cases = [mod.model_case(c, io) for c, io in zip(cases, impl_outs)]
    model_outs = [None] * len(cases)
    beyond = getattr(mod, "beyond_model", None)
    if with_model or beyond is not None:
        idx = [k for k, mc in enumerate(model_cases) if mc is not None]
        outs = core.run_model([model_cases[k] for k in idx])
        for k, o in zip(idx, outs):
            model_outs[k] = o
    for c, io, mo in zip(cases, impl_outs, model_outs):
        res.evaluations += 1
        if isinstance(io, dict) and "harness_crash" in io:
            raise RuntimeError("harness crashed on a case:\n" + io["harness_crash"] + json.dumps(c)[:2000])
        h = core.case_hash(c)
        nontriv = mod.nontrivial(c, io)
        if h not in res.distinct and nontriv:
            res.nontrivial += 1
        res.distinct.add(h)
        for t in mod.tags(c, io):
            res.stats[t] += 1
        if len(res.samples) < 3 and nontriv:
            res.samples.append({"case": c, "impl": io if len(json.dumps(io, default=str)) < 6000 else "(large)"})
        if beyond is not None and mo is not None and "ok" in mo and beyond(c, mo["ok"], io):
            # the exact model says a stored value exceeds its dtype's range: numpy wraps around / overflows there, which
            # neither the model nor any property is about -- the case is counted and left out
            res.stats["skipped:beyond_dtype_range"] += 1
            continue
        try:
            fails = oracle_of(mod, c, io)
        except Exception:
            # what the implementation returned has a shape the oracle cannot read: on the unchanged tree this does not happen (the
            # clean sweeps), so it is reported as a broken correspondence on this case rather than as a crash of the check
            found.append((c, "disagree", ["the implementation's output could not be interpreted by the property oracle: "
                                          + traceback.format_exc()[-600:]], io, mo))
            continue
        if fails:
            found.append((c, "oracle", fails, io, mo))
            continue
        if mo is not None and with_model:
            res.traces += 1
            if "error" in mo:
                found.append((c, "disagree", ["model error: " + str(mo["error"])], io, mo))
                continue
            try:
                d = mod.diff(c, mo["ok"], io)
            except Exception:
                d = ["the implementation's output could not be compared with the model's: " + traceback.format_exc()[-600:]]
            if d:
                found.append((c, "disagree", d[:12], io, mo))
    return found


def _safe_diff(mod, c, mo, io):
    if "ok" not in mo:
        return [str(mo)]
    try:
        return mod.diff(c, mo["ok"], io)
    except Exception:
        return ["the implementation's output could not be compared with the model's: " + traceback.format_exc()[-600:]]


def oracle_of(mod, c, io):
    """the property oracle on the implementation's outputs; when the history was also run without reading intermediate
    states (io["unobserved_outs"]), the oracle must hold on that run's final state as well"""
    fails = mod.oracle(c, io)
    if fails:
        return fails
    alt = io.get("unobserved_outs") if isinstance(io, dict) else None
    if alt is not None:
        io2 = dict(io)
        io2["outs"] = alt
        f2 = mod.oracle(c, io2)
        if f2:
            return [f2[0] + " [in a run of the same history that does not read the histograms between the operations]"] + f2[1:]
        a, b = strip_private(alt[-1]), strip_private(io["outs"][-1])
        if a != b:
            return ["unobserved: the final state of the same history differs when the histograms are not read between the "
                    "operations: " + "; ".join(_dd(b, a, None, "final")[:3])]
    return []


def shrink(mod, case, still_fails, budget=25):
    """Greedy minimisation with the shrinking candidates the property module offers."""
    best = case
    t0 = time.time()
    improved = True
    while improved and time.time() - t0 < budget:
        improved = False
        for cand in mod.shrink_candidates(best):
            if time.time() - t0 > budget:
                break
            try:
                if still_fails(cand):
                    best = cand
                    improved = True
                    break
            except Exception:
                continue
    return best


def run_property(mod, tier: str, seed: int, replay: str | None = None) -> int:
    t0 = time.time()
    prop = mod.ID
    res = Result()
    aud = core.audit(prop, tier)
    lc_note = None
    if tier == "thorough" and aud["ok"]:
        ok, log = core.leanchecker(prop)
        lc_note = "leanchecker ok" if ok else "leanchecker FAILED: " + log[-500:]
        if not ok:
            aud["ok"] = False
            aud["problems"].append(lc_note)
    obligations = len(aud["theorems"]) + aud["examples"]
    discharged = obligations if aud["ok"] else 0
    violations = []

    if not aud["ok"]:
        violations.append({"kind": "proof", "detail": aud["problems"]})

    # --- translator tie: definitions regenerated from the current source, refinement theorems re-checked against them
    tie = []
    if aud["ok"] and getattr(mod, "GEN_TIE", None):
        from . import gen_tie
        tie = [gen_tie.check(u) for u in mod.GEN_TIE]
    tie_broken = [t for t in tie if not t["ok"]]
    tie_note = [{"unit": t["unit"], "state": t["state"], "problems": t["problems"], "diff": t.get("diff")} for t in tie_broken]

    # --- has the modelled source changed since the model was last validated against it?  (explore more if so)
    from . import fingerprint
    try:
        fp = fingerprint.compare()
    except Exception as e:       # never let this bookkeeping decide anything
        fp = {"pinned": False, "changed": [], "error": str(e)[:200]}
    escalate = ESCALATE if (tier == "quick" and not replay and fp.get("changed")) else 1

    # --- cases
    if replay:
        rp = json.loads(open(replay).read())
        cases = [rp["case"]] if "case" in rp else []
    else:
        cases = []
        cdir = core.CORPUS / prop
        if cdir.exists():
            for p in sorted(cdir.glob("*.json")):
                cases.append(json.loads(p.read_text()))
        n = mod.N_QUICK if tier == "quick" else mod.N_THOROUGH
        for k in range(n):
            rng = core.Rng.for_case(seed, prop, k)
            cases.append(mod.gen_case(rng, k, tier))
        if hasattr(mod, "exhaustive_cases"):
            ex = list(mod.exhaustive_cases(tier))
            cases += ex
            res.exhaustive = len(ex)

    known = core.load_known(prop)

    def is_known(f):
        return f[1] == "oracle" and any(k.get("signature") == f[2][0].split(":")[0] and mod.matches_known(k, f[0]) for k in known)

    found = []
    B = 400
    for a in range(0, len(cases), B):
        found += evaluate(mod, cases[a:a + B], res)
        if len([f for f in found if not is_known(f)]) > 20:      # witnesses of recorded findings do not stop the run early
            break

    if escalate > 1 and not [f for f in found if not is_known(f)]:
        # the source differs from the pinned fingerprint and the usual cases found nothing: more cases, within a time budget
        n0 = mod.N_QUICK
        k = n0
        while k < n0 * escalate and time.time() - t0 < ESCALATE_BUDGET_S:
            extra = []
            for kk in range(k, min(k + B, n0 * escalate)):
                extra.append(mod.gen_case(core.Rng.for_case(seed, prop, kk), kk, tier))
            k += B
            found += evaluate(mod, extra, res)
            res.stats["escalated_cases"] += len(extra)
            if [f for f in found if not is_known(f)]:
                break

    reported_known = set()
    nrep = 0
    oracle_found = [f for f in found if f[1] == "oracle"]
    disagree = [f for f in found if f[1] == "disagree"]

    def is_oracle_failure(c):
        io = mod.run_impl(c)
        return bool(oracle_of(mod, c, io))

    def is_disagreement(c):
        io = mod.run_impl(c)
        mc = mod.model_case(c, io)
        mo = core.run_model([mc])[0]
        if "error" in mo:
            return True
        try:
            return bool(mod.diff(c, mo["ok"], io))
        except Exception:
            return True

    for c, kind, fails, io, mo in oracle_found:
        sig = fails[0].split(":")[0]
        kf = [k for k in known if k.get("signature") == sig and mod.matches_known(k, c)]
        if kf:
            reported_known.add(kf[0]["id"])
            continue
        if nrep >= 2:       # two replays are enough; witnesses of recorded findings do not use the slots up
            continue
        small = shrink(mod, c, is_oracle_failure) if not replay else c
        io2 = mod.run_impl(small)
        nrep += 1
        path = core.write_replay(prop, seed, nrep, {
            "property": prop, "seed": seed, "kind": "property fails on the implementation",
            "failures": oracle_of(mod, small, io2), "case": small, "impl": io2,
            **({"also_no_longer_checks": tie_note} if tie_note else {})})
        violations.append({"kind": "oracle", "replay": str(path), "detail": oracle_of(mod, small, io2)[:3]})

    if (disagree or tie_broken) and not [v for v in violations if v["kind"] == "oracle"]:
        # the correspondence broke: search for an input on which the property itself fails
        extra = []
        if not replay:
            for k in range(mod.N_SEARCH):
                rng = core.Rng.for_case(seed + 7919, prop, k)
                extra.append(mod.gen_case(rng, k, "search"))
            for c, *_ in disagree[:3]:
                extra += list(mod.neighbours(c))
        hit = None
        for a in range(0, len(extra), B):
            f2 = evaluate(mod, extra[a:a + B], Result(), with_model=False)
            f2 = [f for f in f2 if f[1] == "oracle" and not
                  [k for k in known if k.get("signature") == f[2][0].split(":")[0] and mod.matches_known(k, f[0])]]
            if f2:
                hit = f2[0]
                break
        if hit is not None:
            small = shrink(mod, hit[0], is_oracle_failure)
            io2 = mod.run_impl(small)
            nrep += 1
            path = core.write_replay(prop, seed, nrep, {
                "property": prop, "seed": seed, "kind": "property fails on the implementation (found after the correspondence broke)",
                "failures": oracle_of(mod, small, io2), "case": small, "impl": io2,
                **({"correspondence_case": disagree[0][0], "differences": disagree[0][2]} if disagree else {}),
                **({"also_no_longer_checks": tie_note} if tie_note else {})})
            violations.append({"kind": "oracle", "replay": str(path), "detail": oracle_of(mod, small, io2)[:3]})
        elif not disagree:
            # only the translator tie broke and no failing input was found: the property is no longer shown to hold
            violations.append({"kind": "proof", "detail": [f"{t['unit']}: {t['state']}: " + "; ".join(t["problems"])[:700] for t in tie_broken]
                               + [l for t in tie_broken for l in (t.get("diff") or [])][:30]})
        else:
            c, kind, d, io, mo = disagree[0]
            small = shrink(mod, c, is_disagreement) if not replay else c
            io2 = mod.run_impl(small)
            mo2 = core.run_model([mod.model_case(small, io2)])[0]
            nrep += 1
            path = core.write_replay(prop, seed, nrep, {
                "property": prop, "seed": seed,
                "kind": "correspondence between the Lean model and the implementation no longer checks; no failing input for the property found",
                "no_longer_checks": f"correspondence of {prop} (model Physt.Model vs physt) on the case below",
                "differences": (_safe_diff(mod, small, mo2, io2))[:12],
                "case": small, "impl": io2, "model": mo2})
            violations.append({"kind": "disagree", "replay": str(path), "detail": d[:3]})

    for v in violations:
        if v["kind"] == "proof":
            nrep += 1
            path = core.write_replay(prop, seed, nrep, {
                "property": prop, "seed": seed, "kind": "proof obligation no longer checks",
                "no_longer_checks": v["detail"]})
            v["replay"] = str(path)

    # --- evidence
    wall = time.time() - t0
    coverage = {
        "obligations": obligations, "discharged": discharged,
        "checker_cmd": f"cd lean && lake build && lake env lean .lake/Audit_{prop}.lean   # #print axioms for: " + ", ".join(aud["theorems"]),
        "trusted_base": core.TRUSTED_BASE + getattr(mod, "EXTRA_TRUST", []),
        "theorems": aud["theorems"], "axioms": aud.get("axioms", {}), "examples_non_vacuity": aud["examples"],
        "leanchecker": lc_note,
        "source_fingerprint": {"pinned": fp.get("pinned"), "changed_definitions": fp.get("changed", [])[:40],
                               "escalation": escalate, "escalated_cases": res.stats.get("escalated_cases", 0)},
        "source_tie": [{k: t.get(k) for k in ("unit", "source", "state", "digest", "theorem_files", "problems")} for t in tie],
        "evaluations": res.evaluations, "distinct_nontrivial": res.nontrivial,
        "rule": mod.RULE, "samples": res.samples[:3],
        "traces_validated_against_impl": res.traces,
        # the 60 most frequent tags, and every stream tag ("kind:..." / "stream:...") however rare its stream is
        "input_distribution": {**dict(res.stats.most_common(60)),
                               **{k: v for k, v in res.stats.items() if k.startswith(("kind:", "stream:"))}},
        "exhaustive_subspace_cases": res.exhaustive,
        "model_impl_disagreements": len(disagree), "oracle_failures": len(oracle_found),
        "known_findings_hit": sorted(reported_known),
    }
    core.write_evidence(prop, tier, seed, coverage, wall, len(violations), getattr(mod, "ASSUMPTIONS", []))

    for k in known:
        if k["id"] in reported_known:
            print(f"KNOWN-FINDING: property={prop} {k['what']}")
    for v in violations:
        tail = " no-failing-input-found" if v["kind"] in ("disagree", "proof") else ""
        print(f"VIOLATION property={prop} replay={v['replay']}{tail}")
        print("  " + "; ".join(str(x) for x in v["detail"])[:600])
    print(f"{prop} {tier} seed={seed}: theorems={len(aud['theorems'])} examples={aud['examples']} "
          f"cases={res.evaluations} nontrivial_distinct={res.nontrivial} corr={res.traces} "
          f"violations={len(violations)} wall={wall:.1f}s")
    return 1 if violations else 0

"""Random operation histories on REAL physt histograms for the dtype machine of `lean/Physt/Model/DTypeMachine.lean`
(written by the sub-agent that wrote the machine, adapted as a module): `history(rng)` returns the op lines of the
machine and the observed state (dtype, frequencies.dtype, errors2.dtype, _missed.dtype, NaN flag of _missed) after every
line.  Which line is written depends on what the implementation did (bins reshaped or not, accepted or refused): the
machine is told the data-dependent decisions and must predict the five types."""
import sys, random, warnings, numpy as np
import physt
import physt._bin_utils
from physt.histogram1d import Histogram1D
from physt.histogram_nd import Histogram2D, HistogramND
from physt.histogram_base import HistogramBase
from physt.binnings import FixedWidthBinning, StaticBinning

DT = [np.int16, np.int32, np.int64, np.float16, np.float32, np.float64, np.longdouble]
def nm(d): return np.dtype(d).name
def st(x): return f"{nm(x.dtype)} {nm(x.frequencies.dtype)} {nm(x.errors2.dtype)} {nm(x._missed.dtype)} {int(bool(np.isnan(x._missed).any()))}"

RESHAPED = [False]
_orig = HistogramBase._reshape_data
def _wrap(self, new_size, bin_map, axis=0):
    if bin_map is not None: RESHAPED[0] = True
    return _orig(self, new_size, bin_map, axis)


def run_history(seed, focus=None):
    """one history with the `_reshape_data` probe installed only while it runs; `focus="nd_narrow"`: the history starts
    with a narrow N-d histogram meeting wider weights / operands / factors (`history_ndn`)"""
    HistogramBase._reshape_data = _wrap
    try:
        with warnings.catch_warnings():
            warnings.simplefilter("ignore")
            if focus == "nd_narrow":
                return history_ndn(random.Random(seed))
            return history(random.Random(seed))
    finally:
        HistogramBase._reshape_data = _orig

def scalar(rng, nonneg=True, floats=True):
    k = rng.choice(["py:int", "py:float", "np"] if floats else ["py:int", "np"])
    if k == "py:int": return 2, "py:int"
    if k == "py:float": return 0.5, "py:float"
    d = rng.choice(DT if floats else DT[:3])
    return d(2), "np:" + nm(d)

def mk1(rng, adaptive=False):
    d = rng.choice([None] + DT)
    if adaptive:
        b = FixedWidthBinning(bin_width=1.0, bin_count=2, min=0.0, adaptive=True)
        x = Histogram1D(b, dtype=d)
        return x, f"construct none {nm(d) if d else 'none'} 0"
    bins = [[0, 1], [1, 2], [3, 4]]
    arr = rng.choice([None] + DT)
    nan = rng.random() < 0.2
    kw = {}
    if nan: kw["underflow"] = np.nan
    if d is not None: kw["dtype"] = d
    if arr is None:
        x = Histogram1D(bins, **kw)
        # (frequencies None: missed handled the same way)
    else:
        x = Histogram1D(bins, np.array([1, 2, 3], dtype=arr), **kw)
    return x, f"construct {nm(arr) if arr else 'none'} {nm(d) if d else 'none'} {int(nan)}"

def mk2(rng):
    d = rng.choice([None] + DT)
    arr = rng.choice([None] + DT)
    bins = [StaticBinning([0, 1, 2]), StaticBinning([0, 1, 2, 3])]
    kw = {} if d is None else {"dtype": d}
    if arr is None:
        x = Histogram2D(bins, **kw)
    else:
        x = Histogram2D(bins, np.ones((2, 3), dtype=arr), **kw)
    return x, f"construct {nm(arr) if arr else 'none'} {nm(d) if d else 'none'} 0"

def wider(rng, d):
    """a supported dtype of the same kind as `d` that is strictly wider (the widest one: itself)"""
    same = [t for t in DT if np.dtype(t).kind == np.dtype(d).kind and np.promote_types(d, t) != np.dtype(d)]
    return rng.choice(same) if same else np.dtype(d).type

def mkn(rng, klass, nd, d, arr=None):
    """an N-d histogram of class `klass` with content type `d` (contents: ones of type `arr`) on the grid [0, 1, 2]^nd --
    a Histogram2D on the grid of `mk2`, so that the general operations can go on with it"""
    bins = [StaticBinning([0, 1, 2]) for _ in range(nd)]
    if klass is Histogram2D:
        bins[1] = StaticBinning([0, 1, 2, 3])
    if arr is None:
        return klass(bins, dtype=d), f"construct none {nm(d)} 0"
    return klass(bins, np.ones(tuple(b.bin_count for b in bins), dtype=arr), dtype=d), f"construct {nm(arr)} {nm(d)} 0"

def history_ndn(rng):
    """N-d histograms (Histogram2D, HistogramND in 3-d, PolarHistogram, CylindricalHistogram) created with a NARROW content
    type, then 1-4 operations whose operand is mostly of a WIDER type of the same kind: fill_n(weights = array / list),
    fill(weight = numpy / python scalar), += / + of a histogram, *= / * by a scalar, and now and then the explicit change
    back to the narrow type; a 2-d history then goes on with the general operations of `history`."""
    from physt.special_histograms import PolarHistogram, CylindricalHistogram
    klass, nd = rng.choice([(Histogram2D, 2), (Histogram2D, 2), (HistogramND, 3), (PolarHistogram, 2), (CylindricalHistogram, 3)])
    kw = {"transformed": True} if klass in (PolarHistogram, CylindricalHistogram) else {}
    d0 = rng.choice([np.int16, np.int16, np.int32, np.int32, np.float16, np.float32, np.float32, np.float64])
    x, line = mkn(rng, klass, nd, d0, arr=rng.choice([None, None, d0]))
    out = [(line, st(x))]
    for _ in range(rng.randint(1, 4)):
        op = rng.choice(["fill_n", "fill_n", "fill_n", "fill", "add", "add", "mul", "set_dtype"])
        before, line, CK = st(x), None, [None]
        cur = x.dtype
        wd = wider(rng, cur) if rng.random() < 0.8 else rng.choice(DT)
        try:
            if op == "fill_n":
                if wd is np.longdouble and rng.random() < 0.7:
                    wd = np.float64          # (numpy.histogramdd refuses longdouble weights: mostly something it accepts)
                CK[0] = nm(wd)
                vs = [[0.5] * nd, [1.5] * nd, [0.5] * (nd - 1) + [rng.choice([1.5, 9.0])]]
                ws = np.arange(1, 4).astype(wd)
                if nm(wd) in ("int64", "float64") and rng.random() < 0.4:
                    ws = [1, 2, 3] if nm(wd) == "int64" else [1.0, 2.0, 3.0]
                x.fill_n(vs, weights=ws, **kw)
                line = f"fill_n {nm(wd)} 0 1 0"
            elif op == "fill":
                w, wn = np.dtype(wd).type(2), "np:" + nm(wd)
                if nm(wd) in ("int64", "float64") and rng.random() < 0.4:
                    w, wn = (2, "py:int") if nm(wd) == "int64" else (0.5, "py:float")
                x.fill([0.5] * (nd - 1) + [rng.choice([0.5, 9.0])], weight=w, **kw)
                line = f"fill {wn} 0 0"
            elif op == "add":
                o, _ = mkn(rng, klass, nd, wd, arr=rng.choice([None, wd, wd]))
                if rng.random() < 0.5:
                    w, _ = scalar(rng); o.fill([0.5] * nd, weight=w, **kw)
                os_ = st(o)
                CK[0] = os_.split()[0]
                if rng.random() < 0.6: x += o
                else: x = x + o
                line = f"add {os_} 0"
            elif op == "mul":
                c, cn = np.dtype(wd).type(2), "np:" + nm(wd)
                if nm(wd) in ("int64", "float64") and rng.random() < 0.4:
                    c, cn = (3, "py:int") if nm(wd) == "int64" else (1.5, "py:float")
                how = rng.choice(["i", "i", "l", "r"])
                if how == "i": x *= c
                elif how == "l": x = x * c
                else: x = c * x
                line = f"mul {cn}"
            else:
                try:
                    if rng.random() < 0.5: x.dtype = d0
                    else: x.set_dtype(d0)
                    line = f"set_dtype {nm(d0)} 1"
                except ValueError:
                    line = f"set_dtype {nm(d0)} 0"
        except Exception as e:
            after = st(x)
            out.append((f"# {op} raised {type(e).__name__}: {str(e)[:80]} | before {before} | after {after}", None))
            if after != before:
                if CK[0] is None:
                    out.append(("# STATE CHANGED BY A REFUSED OPERATION (not replayed)", None))
                    return out
                out.append((f"refused_after_coerce {CK[0]}", after))
            continue
        if line is not None:
            out.append((line, st(x)))
    if klass is Histogram2D and rng.random() < 0.5:
        out += ops_loop(rng, x, rng.randint(1, 3))
    return out

def history(rng):
    kind = rng.choice(["1d", "1d", "1da", "2d"])
    out = []
    if kind == "2d":
        x, line = mk2(rng)
    else:
        x, line = mk1(rng, adaptive=(kind == "1da"))
    out.append((line, st(x)))
    return out + ops_loop(rng, x, rng.randint(1, 7))

def ops_loop(rng, x, n):
    """`n` general operations on `x` (1-D, or 2-D on the grid of `mk2`): the lines and the states after them"""
    out = []
    for _ in range(n):
        ops = ["fill", "fill_n", "add", "sub", "mul", "div", "normalize", "merge", "set_dtype", "copy", "negmul"]
        if x.ndim == 1: ops += ["select1d"]
        if x.ndim == 2: ops += ["projection", "select_nd_int", "select_nd_slice", "accumulate", "partial_normalize", "transpose"]
        op = rng.choice(ops)
        before = st(x)
        line = None
        CK = [None]
        try:
            if op == "fill":
                w, wn = scalar(rng)
                RESHAPED[0] = False
                if x.ndim == 1:
                    adaptive = x.binning.is_adaptive()
                    v = rng.choice([0.5, 2.5, -1.0, 5.0, 1.5]) if not adaptive else rng.choice([0.5, 1.5, 7.5, -3.2])
                    r = x.fill(v, weight=w) if rng.random() < 0.8 or wn != "py:int" else x.fill(v)
                    if wn == "py:int" and False: pass
                    gap = (r is None) and x.keep_missed
                else:
                    r = x.fill([0.5, rng.choice([0.5, 9.0])], weight=w); gap = False
                line = f"fill {wn} {int(RESHAPED[0])} {int(gap)}"
            elif op == "fill_n":
                wd = rng.choice([None, None] + DT)
                RESHAPED[0] = False
                CK[0] = nm(wd) if wd else None
                if x.ndim == 1:
                    adaptive = x.binning.is_adaptive()
                    vs = [0.5, 1.5, 3.5] if not adaptive else rng.choice([[0.5, 1.5], [0.5, 9.5], [-4.5, 1.0]])
                    x.fill_n(vs, weights=None if wd is None else np.ones(len(vs), dtype=wd))
                else:
                    vs = [[0.5, 0.5], [1.5, 2.5]]
                    x.fill_n(vs, weights=None if wd is None else np.ones(2, dtype=wd))
                gap = x.ndim == 1 and x.keep_missed and not physt._bin_utils.is_consecutive(x.bins)
                line = f"fill_n {nm(wd) if wd else 'none'} {int(RESHAPED[0])} {int(x.ndim > 1)} {int(gap)}"
            elif op in ("add", "sub"):
                # the operand: another history's product
                if x.ndim == 1:
                    o, _ = mk1(rng, adaptive=x.binning.is_adaptive() and rng.random() < 0.7)
                    if o.binning.is_adaptive():
                        o.fill_n([rng.choice([0.5, 5.5, -2.5])])
                    elif x.binning.is_adaptive():
                        continue
                    elif x.shape != o.shape:
                        continue
                    if rng.random() < 0.5:
                        w, _ = scalar(rng); o.fill(0.5 if not o.binning.is_adaptive() else 1.5, weight=w)
                    if rng.random() < 0.2 and not o.binning.is_adaptive():
                        o.fill(2.5)
                else:
                    o, _ = mk2(rng)
                    if rng.random() < 0.5:
                        w, _ = scalar(rng); o.fill([0.5, 0.5], weight=w)
                os_ = st(o)
                same = x.has_same_bins(o)
                CK[0] = os_.split()[0]
                if op == "add":
                    if rng.random() < 0.5: x += o
                    else: x = x + o
                    line = f"add {os_} {int(not same)}"
                else:
                    CK[0] = os_.split()[0]
                    if rng.random() < 0.5: x -= o
                    else: x = x - o
                    line = f"sub {os_}"
            elif op == "mul":
                c, cn = scalar(rng)
                how = rng.choice(["i", "l", "r"])
                if how == "i": x *= c
                elif how == "l": x = x * c
                else: x = c * x
                line = f"mul {cn}"
            elif op == "negmul":
                c, cn = rng.choice([(-2, "py:int"), (-1.5, "py:float"), (np.float32(-2), "np:float32"), (np.float16(-2), "np:float16")])
                if x.total == 0: continue
                CK[0] = nm(np.asarray(c).dtype)
                x *= c
                continue
            elif op == "div":
                c, cn = scalar(rng)
                if rng.random() < 0.5: x /= c
                else: x = x / c
                line = f"div {cn}"
            elif op == "normalize":
                if x.total == 0: continue
                inplace = rng.random() < 0.5
                pct = rng.random() < 0.3
                if inplace: x.normalize(inplace=True, percent=pct)
                else: x = x.normalize(percent=pct)
                line = f"normalize {int(inplace)}"
            elif op == "merge":
                inplace = rng.random() < 0.5
                axis = None if rng.random() < 0.5 else 0
                if x.ndim == 1 and x.binning.is_adaptive(): continue
                r = x.merge_bins(rng.choice([1, 2]), axis=axis, inplace=inplace)
                x = r
                line = "merge"
            elif op == "set_dtype":
                d = rng.choice(DT)
                try:
                    if rng.random() < 0.5: x.dtype = d
                    else: x.set_dtype(d)
                    line = f"set_dtype {nm(d)} 1"
                except ValueError:
                    line = f"set_dtype {nm(d)} 0"
            elif op == "copy":
                wf = rng.random() < 0.6
                x = x.copy(include_frequencies=wf)
                line = f"copy {int(wf)}"
            elif op == "select1d":
                how = rng.choice(["slice", "list", "mask"])
                if x.shape[0] < 2: continue
                if how == "slice":
                    x = x[0:2]; line = f"select1d {int(x.keep_missed)}"
                elif how == "list":
                    x = x[[0, 1]]; line = "select1d 0"
                else:
                    m = np.zeros(x.shape[0], dtype=bool); m[0] = True
                    x = x[m]; line = "select1d 0"
            elif op == "projection":
                x = x.projection(rng.choice([0, 1])); line = "projection"
            elif op == "select_nd_int":
                x = x.select(rng.choice([0, 1]), 0); line = "select_nd_int"
            elif op == "select_nd_slice":
                x = x.select(0, slice(0, 1)); line = "select_nd_slice"
            elif op == "transpose":
                x = x.T; line = "select_nd_slice"
            elif op == "accumulate":
                x = x.accumulate(rng.choice([0, 1])); line = "accumulate"
            elif op == "partial_normalize":
                inplace = rng.random() < 0.5
                r = x.partial_normalize(rng.choice([0, 1]), inplace=inplace); x = r
                line = "partial_normalize"
        except Exception as e:
            after = st(x)
            out.append((f"# {op} raised {type(e).__name__}: {str(e)[:80]} | before {before} | after {after}", None))
            if after != before:
                if CK[0] is None:
                    out.append(("# STATE CHANGED BY A REFUSED OPERATION (not replayed)", None))
                    return out
                out.append((f"refused_after_coerce {CK[0]}", after))
            continue
        if line is not None:
            out.append((line, st(x)))
    return out


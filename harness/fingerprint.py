"""Source fingerprint of the modelled code.

The Lean model is hand-written against one state of physt's source.  `tools/fingerprints.json` (committed; re-pinned by
`tools/pin_fingerprints.py` whenever /repo's HEAD moves, i.e. after a `fix:` commit) records, for every function / method / class
body of the package, a hash of its normalised AST (docstrings, comments, formatting and annotations do not count).  Every run
re-computes the hashes from the package Python imports NOW and lists the definitions that differ.

A difference is not a violation and changes no verdict: it says that the code the model was validated against has changed, so the
quick tier explores more (runner: `ESCALATE` times the generated cases, within a wall-clock budget) before it reports that the
property held.  On the pinned tree nothing differs and nothing is escalated.
"""
from __future__ import annotations

import ast
import hashlib
import json
import os
from pathlib import Path

from . import core

PINNED = core.VERIF / "tools" / "fingerprints.json"


def _strip(node):
    """remove docstrings and annotations so that only what executes is hashed"""
    for n in ast.walk(node):
        if isinstance(n, (ast.FunctionDef, ast.AsyncFunctionDef, ast.ClassDef, ast.Module)):
            if n.body and isinstance(n.body[0], ast.Expr) and isinstance(n.body[0].value, ast.Constant) and isinstance(n.body[0].value.value, str):
                n.body = n.body[1:] or [ast.Pass()]
        if isinstance(n, (ast.FunctionDef, ast.AsyncFunctionDef)):
            n.returns = None
            for a in n.args.args + n.args.kwonlyargs + n.args.posonlyargs + [x for x in (n.args.vararg, n.args.kwarg) if x]:
                a.annotation = None
    return node


def _h(node) -> str:
    return hashlib.sha256(ast.dump(_strip(node), annotate_fields=False, include_attributes=False).encode()).hexdigest()[:12]


def file_fingerprint(path: Path) -> dict:
    tree = ast.parse(path.read_text())
    out = {}

    def visit(body, prefix):
        rest = []
        for n in body:
            if isinstance(n, (ast.FunctionDef, ast.AsyncFunctionDef)):
                out[prefix + n.name] = _h(n)
            elif isinstance(n, ast.ClassDef):
                visit(n.body, prefix + n.name + ".")
                out[prefix + n.name + ".<class header>"] = hashlib.sha256(
                    (ast.dump(ast.Module(body=[ast.Expr(b) for b in n.bases] + [ast.Expr(d) for d in n.decorator_list], type_ignores=[]),
                              annotate_fields=False)).encode()).hexdigest()[:12]
            else:
                rest.append(n)
        if rest:
            out[prefix + "<other statements>"] = _h(ast.Module(body=rest, type_ignores=[]))
    visit(tree.body, "")
    return out


def package_fingerprint(src_dir: str | None = None) -> dict:
    if src_dir is None:
        import physt
        src_dir = os.path.dirname(physt.__file__)
    root = Path(src_dir)
    fp = {}
    for p in sorted(root.rglob("*.py")):
        rel = str(p.relative_to(root))
        try:
            fp[rel] = file_fingerprint(p)
        except SyntaxError:
            fp[rel] = {"<unparsable>": "x"}
    return fp


def compare() -> dict:
    """{'pinned': bool, 'changed': ['file:qualified name', ...], 'source': dir}"""
    import physt
    src = os.path.dirname(physt.__file__)
    if not PINNED.exists():
        return {"pinned": False, "changed": [], "source": src}
    pinned = json.loads(PINNED.read_text())["files"]
    now = package_fingerprint(src)
    changed = []
    for f in sorted(set(pinned) | set(now)):
        a, b = pinned.get(f, {}), now.get(f, {})
        for k in sorted(set(a) | set(b)):
            if a.get(k) != b.get(k):
                changed.append(f"{f}:{k}")
    return {"pinned": True, "changed": changed, "source": src}

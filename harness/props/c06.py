"""C06 — scaling, division and normalisation are exactly linear (1-D; ND / collection parts in c06 extras)."""
from __future__ import annotations

import copy
from fractions import Fraction

from .. import gen1, gennd
from ..core import rs
from .base1 import Hist1Prop
from .c14 import dy_bins

INT_KINDS = ["pyint", "int64", "int32", "int16"]
FLT_KINDS = ["pyfloat", "float64", "float32"]


def pick_scalar(rng, exact: bool, divide: bool = False):
    if exact and divide:
        c = rng.choice([2, 4, 8, 1, 0.5, 0.25, 2.0, 0.125])
    elif exact:
        c = rng.choice([2, 4, 8, 3, 5, 1, 0.5, 0.25, 2.0, 1.5, 0.125])
    else:
        c = rng.choice([0.1, 0.3, 1 / 3, 7.7, 1e-3, 123.456, 3, 10])
    if isinstance(c, int):
        return rs(c), rng.choice(INT_KINDS)
    return rs(c), rng.choice(FLT_KINDS if exact else ["pyfloat", "float64"])


class C06(Hist1Prop):
    ID = "C06"
    GEN_TIE = ["statistics"]     # definitions regenerated from physt/statistics.py (harness/gen_tie.py)
    N_QUICK = 300
    N_THOROUGH = 8000
    RULE = ("1-D histograms (from data with weights, or from bare contents with custom errors and missed values, int and float "
            "dtypes, keep_missed on/off) x chains of *, /, *=, /=, c*h by python / numpy int / float scalars (bit-exact stream: "
            "small contents, factors 2^k and small ints; tolerance stream: arbitrary finite factors), normalize(percent, "
            "inplace), then the refused operand kinds (histogram, array, scalar/histogram, negative factor, zero divisor). "
            "non-trivial = non-zero contents and a factor != 1; distinct = hash of the op list")
    FIELDS = {"bins", "freq", "err2", "under", "over", "inner", "total", "dtype", "stats", "keep"}

    def gen_case(self, rng, k, tier):
        r = k % 10
        if r == 7:
            return self.gen_collection(rng)
        if r in (8, 9):
            return self.gen_nd(rng)
        exact = rng.random() < 0.7
        pairs = dy_bins(rng)
        b = gen1.binning_json(pairs, rng=rng, form="pairs")
        nb = len(pairs)
        gapped = not gen1.is_consecutive_exact(pairs)
        if rng.random() < 0.5:
            n = rng.choice([1, 3, 6, 10])
            vals = gen1.values_for(rng, pairs, n, nan_share=0)
            vals = [round(v * 8) / 8 for v in vals if abs(v) < 1000]   # squares stay exactly representable
            n = len(vals)
            ws, wk = gen1.weights_for(rng, n, kinds=["none", "int", "dyadic"])
            init = {"op": "construct", "out": 0, "binning": b, "data": gen1.enc_vals(vals),
                    "weights": None if ws is None else [rs(w) for w in ws], "wkind": wk, "keep": rng.random() < 0.8}
        else:
            # no int16 contents: a chain of up to four factors <= 8 squares to 8^8, which wraps an int16 squared error
            # (numpy wrap-around is outside the property; int32 / int64 have the room)
            dt = rng.choice(["int64", "int32", "float64", "float32", "int64"])
            isint = dt.startswith("int")
            f = [rng.randint(0, 40) if isint else rng.randint(0, 160) / 4 for _ in range(nb)]
            e = None if rng.random() < 0.4 else [rng.randint(0, 60) if isint else rng.randint(0, 200) / 4 for _ in range(nb)]
            miss = [rng.randint(0, 9) if isint else rng.randint(0, 36) / 4 for _ in range(3)]
            init = {"op": "of_arrays", "out": 0, "binning": b, "freq": [rs(x) for x in f],
                    "err2": None if e is None else [rs(x) for x in e], "under": rs(miss[0]), "over": rs(miss[1]),
                    "inner": rs(miss[2]), "dtype": dt, "keep": rng.random() < 0.85}
        steps = []
        for _ in range(rng.randint(1, 4)):
            kind = rng.choice(["mul", "rmul", "imul", "div", "idiv", "mul_div"])
            c, kd = pick_scalar(rng, exact, divide=kind in ("div", "idiv", "mul_div"))
            steps.append({"t": kind, "c": c, "k": kd})
        if exact and init.get("dtype", "int64") in ("int64", "float64", None) and rng.random() < 0.2:
            # a numpy scalar of a narrow type whose SQUARE does not fit that type (300 as int16 / float16, 70000 as int32,
            # 256 as float16): contents scale by c and squared errors by c*c all the same
            if rng.random() < 0.6:
                c, kd = rng.choice([("300", "int16"), ("200", "int16"), ("70000", "int32"), ("300", "float16"), ("256", "float16")])
                t = rng.choice(["mul", "rmul", "imul"])
            else:       # divisors stay powers of two (exact quotients)
                c, kd = rng.choice([("256", "float16"), ("16384", "int16"), ("65536", "int32")])
                t = rng.choice(["div", "idiv", "mul_div"])
            steps[rng.randrange(len(steps))] = {"t": t, "c": c, "k": kd}
        if rng.random() < 0.5:
            steps.append({"t": "normalize", "percent": rng.random() < 0.4, "inplace": rng.random() < 0.4})
        bad = rng.choice(["mul_hist", "imul_hist", "div_hist", "idiv_hist", "rdiv", "mul_array", "div_array", "imul_array",
                          "neg_mul", "neg_div", "zero_div", "neg_imul"])
        src = {"init": init, "steps": steps, "bad": bad, "exact": exact}
        return self.build(src)

    def diff(self, case, model_ok, io):
        d = super().diff(case, model_ok, io)
        if "zero_bin" in case.get("tags", []):
            # a bin that is empty in every member divides by zero: numpy yields NaN / inf there (physt's docstring says
            # so), the rational model 0; those entries, and totals containing them, are not compared
            d = [x for x in d if not ("impl=None" in x or "impl='inf'" in x or "impl='-inf'" in x or ".total" in x)]
        return d

    # ------------------------------------------------------------------ collection.normalize_bins
    def gen_collection(self, rng):
        pairs = dy_bins(rng)
        nb = len(pairs)
        b = gen1.binning_json(pairs, rng=rng, form="pairs")
        m = rng.choice([1, 2, 3, 3])
        ops = []
        zero_bin = rng.random() < 0.15
        for j in range(m):
            dt = rng.choice(["int64", "int32", "float64", "float32", "int64"])
            isint = dt.startswith("int")
            f = [rng.randint(0 if j else 1, 12) if isint else rng.randint(0 if j else 1, 48) / 4 for _ in range(nb)]
            if zero_bin:
                f[0] = 0 if isint else 0.0
            e = None if rng.random() < 0.5 else [rng.randint(0, 20) if isint else rng.randint(0, 80) / 4 for _ in range(nb)]
            ops.append({"op": "of_arrays", "out": j, "binning": b, "freq": [rs(x) for x in f],
                        "err2": None if e is None else [rs(x) for x in e], "under": rs(rng.randint(0, 3)),
                        "over": rs(rng.randint(0, 3)), "inner": "0", "dtype": dt, "keep": True})
        ops.append({"op": "normalize_bins", "hs": list(range(m)), "outs": list(range(m, 2 * m))})
        tags = ["collection", f"members:{m}"] + (["zero_bin"] if zero_bin else [])
        if rng.random() < 0.25:
            other = gen1.binning_json([[100.0 + 3 * i, 101.5 + 3 * i] for i in range(nb + 2)], form="pairs")
            ops.append({"op": "of_arrays", "out": 2 * m, "binning": other, "freq": ["1"] * (nb + 2), "err2": None,
                        "under": "0", "over": "0", "inner": "0", "dtype": "int64", "keep": True})
            ops.append({"op": "normalize_bins", "hs": [0, 2 * m], "outs": [2 * m + 1, 2 * m + 2], "expect_refused": True})
            tags.append("bad:other_bins")
        return {"kind": "hist1", "ops": ops, "tags": tags, "tolerance": True, "sub": "collection", "m": m}

    def oracle_collection(self, case, io):
        outs, ops, m = io["outs"], case["ops"], case["m"]
        fails = []
        k = m   # index of the normalize_bins op
        if outs[k]["ret"] != "ok":
            return ["refused_valid: normalize_bins refused: " + "; ".join(io["log"][:2])]
        regs = outs[k]["regs"]
        src, dst = regs[:m], regs[m:2 * m]
        if outs[k - 1]["regs"][:m] != src:
            fails.append("operand_modified: normalize_bins(inplace=False) modified the members")
        nb = len(src[0]["freq"])
        for i in range(nb):
            tot = sum(Fraction(h["freq"][i]) for h in src)
            if tot == 0:
                continue
            shares = [Fraction(h["freq"][i]) for h in dst]
            if abs(sum(shares) - 1) > Fraction(1, 10**6):
                fails.append(f"shares_sum: bin {i}: the members' shares {[float(x) for x in shares]} do not sum to 1")
                break
            for h0, h1 in zip(src, dst):
                if abs(Fraction(h1["freq"][i]) - Fraction(h0["freq"][i]) / tot) > Fraction(1, 10**6):
                    fails.append(f"share_value: bin {i}: content {h0['freq'][i]} of sum {tot} became {h1['freq'][i]}")
                    break
                want = Fraction(h0["err2"][i]) / (tot * tot)
                if abs(Fraction(h1["err2"][i]) - want) > Fraction(1, 10**6) * max(abs(want), 1):
                    fails.append(f"share_err2: bin {i}: squared error {h0['err2'][i]} became {h1['err2'][i]}, expected {float(want)}")
                    break
        for h0, h1 in zip(src, dst):
            if h0["bins"] != h1["bins"]:
                fails.append("bins_changed: normalize_bins changed the bins")
            if not h1["dtype"].startswith("float"):
                fails.append(f"dtype: member of dtype {h0['dtype']} stayed {h1['dtype']} after division")
        for j, op in enumerate(ops):
            if op.get("expect_refused") and outs[j]["ret"] != "REFUSED":
                fails.append("accepted_invalid: a collection of members with different bins was accepted")
        return fails[:6]

    # ------------------------------------------------------------------ ND scaling / normalize / partial_normalize
    def gen_nd(self, rng):
        d = rng.choice([2, 2, 2, 3])
        axes = [gennd.axis_binning(rng, maxbins=3, allow_fixed=False) for _ in range(d)]
        shape = [len(a[1]) for a in axes]
        n = 1
        for x in shape:
            n *= x
        dt = rng.choice(["int64", "float64", "int32", "float32"])
        isint = dt.startswith("int")
        f = [rng.randint(0, 12) if isint else rng.randint(0, 48) / 4 for _ in range(n)]
        if rng.random() < 0.3 and d == 2:
            for j in range(shape[1]):      # an empty row: partial_normalize must leave it alone
                f[j] = 0 if isint else 0.0
        e = None if rng.random() < 0.5 else [rng.randint(0, 20) if isint else rng.randint(0, 80) / 4 for _ in range(n)]
        ops = [{"op": "of_arrays", "out": 0, "axes": [a[0] for a in axes], "freq": [rs(x) for x in f],
                "err2": None if e is None else [rs(x) for x in e], "missed": rs(rng.randint(0, 5)), "dtype": dt,
                "keep": rng.random() < 0.85, "names": [f"ax{i}" for i in range(d)]}]
        cur, nxt = 0, 1
        for _ in range(rng.randint(1, 3)):
            t = rng.choice(["mul", "rmul", "imul", "div", "idiv", "normalize", "partial", "partial"] if d == 2 else
                           ["mul", "rmul", "imul", "div", "idiv", "normalize"])
            if t in ("mul", "rmul", "div"):
                c, kd = pick_scalar(rng, True, divide=t == "div")
                ops.append({"op": "div" if t == "div" else "mul", "h": cur, "c": c, "k": kd, "out": nxt, "reflected": t == "rmul"})
                cur, nxt = nxt, nxt + 1
            elif t in ("imul", "idiv"):
                c, kd = pick_scalar(rng, True, divide=t == "idiv")
                ops.append({"op": t, "h": cur, "c": c, "k": kd})
            elif t == "normalize":
                inplace = rng.random() < 0.4
                op = {"op": "normalize", "h": cur, "percent": rng.random() < 0.4, "inplace": inplace}
                if not inplace:
                    op["out"] = nxt; cur_new = nxt; nxt += 1
                ops.append(op)
                if not inplace:
                    cur = cur_new
            else:
                inplace = rng.random() < 0.4
                ax = rng.choice([0, 1, "ax0", "ax1"])
                op = {"op": "partial_normalize", "h": cur, "axis": ax, "inplace": inplace}
                if not inplace:
                    op["out"] = nxt; cur_new = nxt; nxt += 1
                ops.append(op)
                if not inplace:
                    cur = cur_new
        bad = rng.choice(["neg_mul", "zero_div", "none", "none"])
        if bad == "neg_mul":
            ops.append({"op": "mul", "h": 0, "c": "-2", "k": "pyint", "out": nxt, "expect_refused": True})
        elif bad == "zero_div":
            ops.append({"op": "idiv", "h": cur, "c": "0", "k": "pyint", "expect_refused": True})
        return {"kind": "histn", "ops": ops, "tags": ["nd", f"d:{d}", "bad:" + bad], "tolerance": True, "sub": "nd"}

    def oracle_nd(self, case, io):
        outs, ops = io["outs"], case["ops"]
        fails = []
        if outs[0]["ret"] == "REFUSED":
            return ["refused_valid: setup refused: " + "; ".join(io["log"][:2])]
        T = Fraction(1, 10**6)

        def close(a, b):
            return abs(a - b) <= T * max(abs(a), abs(b), 1)

        for k, op in enumerate(ops):
            if k == 0:
                continue
            before, after = outs[k - 1]["regs"], outs[k]["regs"]
            if op["h"] >= len(before) or before[op["h"]] is None:
                return fails[:6]
            src = before[op["h"]]
            ret = outs[k]["ret"]
            if op.get("expect_refused"):
                nonzero = any(Fraction(x) != 0 for x in src["freq"])
                if ret != "REFUSED" and (op["c"] == "0" or nonzero):
                    fails.append(f"accepted_invalid: {op['op']} by {op['c']} was accepted")
                continue
            if ret == "REFUSED":
                if op["op"] == "normalize" and Fraction(src["total"]) == 0:
                    return fails[:6]
                fails.append(f"refused_valid: {op['op']} refused: " + "; ".join(io["log"][:2]))
                return fails[:6]
            inplace = op["op"] in ("imul", "idiv") or op.get("inplace")
            dst = after[op["h"]] if inplace else after[op["out"]]
            if not inplace and after[op["h"]] != src:
                fails.append(f"operand_modified: {op['op']} modified its operand")
            if dst["bins"] != src["bins"] or dst["names"] != src["names"]:
                fails.append(f"bins_changed: {op['op']} changed bins or axis names")
            F0 = [Fraction(x) for x in src["freq"]]; E0 = [Fraction(x) for x in src["err2"]]
            F1 = [Fraction(x) for x in dst["freq"]]; E1 = [Fraction(x) for x in dst["err2"]]
            if op["op"] in ("mul", "imul", "div", "idiv"):
                c = Fraction(op["c"]); g = c if op["op"] in ("mul", "imul") else 1 / c
                if not all(close(x * g, y) for x, y in zip(F0, F1)):
                    fails.append(f"scale_content: ND {op['op']} by {op['c']}: contents {src['freq']} became {dst['freq']}")
                if not all(close(x * g * g, y) for x, y in zip(E0, E1)):
                    fails.append(f"scale_err2: ND {op['op']} by {op['c']}: squared errors {src['err2']} became {dst['err2']}")
                if src["missed"] is not None and dst["missed"] is not None and not close(Fraction(src["missed"]) * g, Fraction(dst["missed"])):
                    fails.append(f"scale_missed: ND {op['op']} by {op['c']}: missed {src['missed']} became {dst['missed']}")
            elif op["op"] == "normalize":
                want = 100 if op.get("percent") else 1
                t0 = sum(F0)
                if not close(sum(F1), Fraction(want)):
                    fails.append(f"normalize_total: ND total after normalize is {float(sum(F1))}")
                if not all(close(x / t0 * want, y) for x, y in zip(F0, F1)):
                    fails.append("normalize_proportions: ND proportions changed")
            elif op["op"] == "partial_normalize":
                n, m = src["shape"]
                ax = op["axis"] if isinstance(op["axis"], int) else int(op["axis"][2:])
                # numpy sense: axis 0 -> every column sums to 1, axis 1 -> every row sums to 1
                lines = [[i * m + j for i in range(n)] for j in range(m)] if ax == 0 else [[i * m + j for j in range(m)] for i in range(n)]
                for line in lines:
                    s0 = sum(F0[q] for q in line)
                    if s0 == 0:
                        if any(F1[q] != 0 for q in line):
                            fails.append("partial_zero_line: an all-zero row / column was changed")
                        continue
                    if not close(sum(F1[q] for q in line), Fraction(1)):
                        fails.append(f"partial_sum: a {'column' if ax == 0 else 'row'} sums to {float(sum(F1[q] for q in line))} after partial_normalize({op['axis']})")
                        break
                    if not all(close(F0[q] / s0, F1[q]) for q in line):
                        fails.append("partial_proportions: proportions inside a row / column changed")
                        break
                    if not all(close(E0[q] / (s0 * s0), E1[q]) for q in line):
                        fails.append("partial_err2: squared errors are not divided by the square of the row / column sum")
                        break
            if len(fails) > 5:
                break
        return fails[:6]

    @staticmethod
    def build(src):
        ops = [src["init"]]
        cur = 0
        nxt = 1
        for s in src["steps"]:
            t = s["t"]
            if t in ("mul", "rmul"):
                ops.append({"op": "mul", "h": cur, "c": s["c"], "k": s["k"], "out": nxt, "reflected": t == "rmul"})
                cur, nxt = nxt, nxt + 1
            elif t == "imul":
                ops.append({"op": "imul", "h": cur, "c": s["c"], "k": s["k"]})
            elif t == "div":
                ops.append({"op": "div", "h": cur, "c": s["c"], "k": s["k"], "out": nxt})
                cur, nxt = nxt, nxt + 1
            elif t == "idiv":
                ops.append({"op": "idiv", "h": cur, "c": s["c"], "k": s["k"]})
            elif t == "mul_div":
                ops.append({"op": "mul", "h": cur, "c": s["c"], "k": s["k"], "out": nxt})
                ops.append({"op": "div", "h": nxt, "c": s["c"], "k": s["k"], "out": nxt + 1})
                cur, nxt = nxt + 1, nxt + 2
            elif t == "normalize":
                if s["inplace"]:
                    ops.append({"op": "normalize", "h": cur, "percent": s["percent"], "inplace": True})
                else:
                    ops.append({"op": "normalize", "h": cur, "percent": s["percent"], "inplace": False, "out": nxt})
                    cur, nxt = nxt, nxt + 1
        bad = src["bad"]
        if bad == "neg_mul":
            ops.append({"op": "mul", "h": 0, "c": "-2", "k": "pyint", "out": nxt, "expect_refused": True})
        elif bad == "neg_imul":
            ops.append({"op": "imul", "h": cur, "c": "-1/2", "k": "pyfloat", "expect_refused": True})
        elif bad == "neg_div":
            ops.append({"op": "div", "h": 0, "c": "-2", "k": "pyint", "out": nxt, "expect_refused": True})
        elif bad == "zero_div":
            ops.append({"op": "idiv", "h": cur, "c": "0", "k": "pyint", "expect_refused": True})
        else:
            ops.append({"op": "invalid", "what": bad, "h": cur, "o": 0})
        tol = (not src["exact"]) or any(s["t"] == "normalize" for s in src["steps"])
        return {"kind": "hist1", "ops": ops, "tags": ["exact" if src["exact"] else "tolerance", "bad:" + bad],
                "src": src, "tolerance": tol}

    def shrink_candidates(self, case):
        if case.get("sub"):
            ops = case["ops"]
            first = case.get("m", 1) + 1
            for k in range(len(ops) - 1, first - 1, -1):
                c = copy.deepcopy(case)
                del c["ops"][k]
                yield c
            return
        src = case["src"]
        for i in range(len(src["steps"]) - 1, -1, -1):
            s2 = copy.deepcopy(src)
            del s2["steps"][i]
            yield self.build(s2)

    def oracle(self, case, io):
        if case.get("sub") == "collection":
            return self.oracle_collection(case, io)
        if case.get("sub") == "nd":
            return self.oracle_nd(case, io)
        outs, ops = io["outs"], case["ops"]
        fails = []
        exact = case["src"]["exact"]
        if outs[0]["ret"] == "REFUSED":
            return ["refused_valid: setup refused: " + "; ".join(io["log"][:2])]

        def eq(a, b, what):
            if a is None or b is None:
                return a is None and b is None
            if any(isinstance(t, str) and t.lstrip("-") in ("inf", "nan") for t in (a, b)):
                return a == b          # a non-finite content or error never equals the finite expected value
            x, y = Fraction(a), Fraction(b)
            if exact and what != "norm":
                return x == y
            return abs(x - y) <= Fraction(1, 10**11) * max(abs(x), abs(y), Fraction(1, 10**20))

        for k, op in enumerate(ops):
            if k == 0:
                continue
            before = outs[k - 1]["regs"]
            after = outs[k]["regs"]
            if op["h"] >= len(before) or before[op["h"]] is None:
                return fails[:6]
            b0 = before[op["h"]]
            if any(t is None or (isinstance(t, str) and t.lstrip("-") in ("inf", "nan")) for t in list(b0["freq"]) + list(b0["err2"])):
                if not fails:
                    fails.append(f"non_finite: register {op['h']} holds a non-finite content or squared error before step {k} "
                                 f"although every factor and content is finite")
                return fails[:6]
            if op.get("expect_refused") or op["op"] == "invalid":
                src_snap = before[op["h"]]
                nonzero = any(Fraction(x) != 0 for x in src_snap["freq"])
                must = op["op"] == "invalid" or op["c"] == "0" or nonzero
                if outs[k]["ret"] != "REFUSED" and must:
                    fails.append(f"accepted_invalid: {op.get('what', op['op'] + ' by ' + str(op.get('c')))} was accepted outside free arithmetics")
                if outs[k]["ret"] == "REFUSED" and before[:len(before)] != after[:len(before)]:
                    b2 = [{x: y for x, y in r.items() if "dtype" not in x} if r else r for r in before]
                    a2 = [{x: y for x, y in r.items() if "dtype" not in x} if r else r for r in after[:len(before)]]
                    if a2 != b2:
                        fails.append("refused_changed: a refused operation changed a histogram")
                continue
            if outs[k]["ret"] == "REFUSED":
                if op["op"] == "normalize" and Fraction(before[op["h"]]["total"]) == 0:
                    return fails[:6]
                fails.append(f"refused_valid: {op['op']} by {op.get('c')} refused: " + "; ".join(io["log"][:2]))
                return fails[:6]
            src_snap = before[op["h"]]
            dst = after[op.get("out", op["h"])] if op["op"] in ("mul", "div") or (op["op"] == "normalize" and not op.get("inplace")) else after[op["h"]]
            if op["op"] in ("mul", "imul", "div", "idiv"):
                c = Fraction(op["c"])
                f = c if op["op"] in ("mul", "imul") else 1 / c
                if dst["bins"] != src_snap["bins"]:
                    fails.append("bins_changed: scaling changed the bins")
                for i, (x, y) in enumerate(zip(src_snap["freq"], dst["freq"])):
                    if not eq(rs(Fraction(x) * f), y, "f"):
                        fails.append(f"scale_content: {op['op']} by {op['c']}: content {x} became {y}, expected {Fraction(x)*f}")
                        break
                for i, (x, y) in enumerate(zip(src_snap["err2"], dst["err2"])):
                    if not eq(rs(Fraction(x) * f * f), y, "e"):
                        fails.append(f"scale_err2: {op['op']} by {op['c']}: squared error {x} became {y}, expected {Fraction(x)*f*f}")
                        break
                for m in ("under", "over", "inner"):
                    x, y = src_snap[m], dst[m]
                    if x is not None and not eq(rs(Fraction(x) * f), y, "m"):
                        fails.append(f"scale_missed: {op['op']} by {op['c']}: {m} {x} became {y}, expected {Fraction(x)*f}")
                if op["op"] in ("mul", "div") and after[op["h"]] != src_snap:
                    fails.append("operand_modified: the scaled operand was modified")
                st0, st1 = src_snap["stats"], dst["stats"]
                if st0["valid"]:
                    if not st1["valid"]:
                        fails.append(f"stats_lost: statistics became invalid after {op['op']} by a {op['k']} scalar")
                    else:
                        if st0["min"] != st1["min"] or st0["max"] != st1["max"]:
                            fails.append("stats_minmax: min/max changed under positive scaling")
                        if not eq(rs(Fraction(st0["weight"]) * f), st1["weight"], "w"):
                            fails.append(f"stats_weight: weight {st0['weight']} became {st1['weight']} after scaling by {f}")
                        for g in ("mean", "variance"):
                            if st0[g] is not None and st1[g] is not None:
                                x, y = Fraction(st0[g]), Fraction(st1[g])
                                scale = max(abs(x), abs(y), 1, Fraction(st0["mean"] or 0) ** 2)
                                if abs(x - y) > Fraction(1, 10**9) * scale:
                                    fails.append(f"stats_{g}: {g} changed from {float(x)} to {float(y)} under positive scaling by {op['c']}")
            if op["op"] == "normalize":
                tot = Fraction(dst["total"])
                want = 100 if op.get("percent") else 1
                if abs(tot - want) > Fraction(1, 10**9):
                    fails.append(f"normalize_total: total after normalize(percent={op.get('percent')}) is {float(tot)}")
                t0 = Fraction(src_snap["total"])
                for x, y in zip(src_snap["freq"], dst["freq"]):
                    if abs(Fraction(x) / t0 * want - Fraction(y)) > Fraction(1, 10**9):
                        fails.append("normalize_proportions: proportions changed")
                        break
                if not op.get("inplace") and after[op["h"]] != src_snap:
                    fails.append("operand_modified: normalize() modified its operand")
        # commutation and (h*c)/c == h
        for k, op in enumerate(ops):
            if op["op"] == "div" and k > 0 and ops[k - 1]["op"] == "mul" and ops[k - 1]["out"] == op["h"] and ops[k - 1]["c"] == op["c"] \
               and outs[k]["ret"] == "ok" and outs[k - 1]["ret"] == "ok":
                a = outs[k]["regs"][op["out"]]
                o = outs[k]["regs"][ops[k - 1]["h"]]
                for f in ("freq", "err2"):
                    for x, y in zip(a[f], o[f]):
                        if abs(Fraction(x) - Fraction(y)) > Fraction(1, 10**11) * max(abs(Fraction(y)), 1):
                            fails.append(f"mul_div: (h*c)/c differs from h in {f}: {x} vs {y}")
                            break
        return fails[:6]

    def nontrivial(self, case, io):
        if case.get("sub"):
            return any(Fraction(x) != 0 for x in io["outs"][0]["regs"][0]["freq"])
        try:
            return any(Fraction(x) != 0 for x in io["outs"][0]["regs"][0]["freq"]) and any(s.get("c") not in ("1", None) for s in case["src"]["steps"])
        except Exception:
            return False


PROP = C06()
